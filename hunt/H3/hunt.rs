#![allow(unused_variables, dead_code)]
use sodium_rust::*;
use std::sync::atomic::{AtomicUsize, Ordering};
use std::sync::mpsc;
use std::sync::{Arc, Mutex};
use std::time::Duration;

fn watchdog<F: FnOnce() + Send + 'static>(name: &str, secs: u64, f: F) {
    let (tx, rx) = mpsc::channel();
    let h = std::thread::Builder::new()
        .stack_size(16 * 1024 * 1024)
        .spawn(move || {
            f();
            let _ = tx.send(());
        })
        .unwrap();
    match rx.recv_timeout(Duration::from_secs(secs)) {
        Ok(()) => {
            h.join().unwrap();
        }
        Err(mpsc::RecvTimeoutError::Timeout) => panic!("HANG in {}", name),
        Err(mpsc::RecvTimeoutError::Disconnected) => {
            // thread panicked
            if let Err(e) = h.join() {
                std::panic::resume_unwind(e);
            }
        }
    }
}

fn collector<A: Clone + Send + 'static>() -> (Arc<Mutex<Vec<A>>>, impl FnMut(&A) + Send + Sync + 'static) {
    let out = Arc::new(Mutex::new(Vec::new()));
    let out2 = out.clone();
    (out, move |a: &A| out2.lock().unwrap().push(a.clone()))
}

// H1a: hold created inside a listener handler on a stream that is firing in this transaction
#[test]
fn h1a_hold_in_handler() {
    watchdog("h1a", 10, || {
        let ctx = SodiumCtx::new();
        let sink: StreamSink<i32> = ctx.new_stream_sink();
        let s = sink.stream();
        let trigger = s.map(|x: &i32| *x);
        let slot: Arc<Mutex<Option<Cell<i32>>>> = Arc::new(Mutex::new(None));
        let slot2 = slot.clone();
        let s2 = s.clone();
        let l = trigger.listen(move |_x: &i32| {
            let mut g = slot2.lock().unwrap();
            if g.is_none() {
                *g = Some(s2.hold(0));
            }
        });
        sink.send(5);
        let c = slot.lock().unwrap().clone().unwrap();
        let v = c.sample();
        println!("h1a: value after tx = {}", v);
        assert_eq!(v, 5, "hold built in a handler during the transaction in which its stream fired");
        l.unlisten();
    });
}

// H1b: hold created inside a map function (dynamic FRP / switch pattern)
#[test]
fn h1b_hold_in_map_fn() {
    watchdog("h1b", 10, || {
        let ctx = SodiumCtx::new();
        let sink: StreamSink<i32> = ctx.new_stream_sink();
        let s2 = sink.stream();
        let s = s2.map(|x: &i32| *x);
        let s2b = s2.clone();
        let cc: Cell<Cell<i32>> = s
            .map(move |_x: &i32| s2b.hold(0))
            .hold(ctx.new_cell(-1));
        let out = Cell::switch_c(&cc);
        let (got, k) = collector::<i32>();
        let l = out.listen(k);
        sink.send(5);
        println!("h1b: after send 5: out={} got={:?}", out.sample(), got.lock().unwrap());
        sink.send(6);
        println!("h1b: after send 6: out={} got={:?}", out.sample(), got.lock().unwrap());
        // after tx1: cc = hold#1 of s2, created in tx1 in which s2 fired 5 => hold#1 == 5
        // after tx2: cc = hold#2, created in tx2, == 6
        assert_eq!(*got.lock().unwrap(), vec![-1, 5, 6]);
        l.unlisten();
    });
}

// H1c: reference: hold created in explicit transaction after the send (not in handler)
#[test]
fn h1c_hold_after_send_same_tx() {
    watchdog("h1c", 10, || {
        let ctx = SodiumCtx::new();
        let sink: StreamSink<i32> = ctx.new_stream_sink();
        let m = sink.stream().map(|x: &i32| *x + 1);
        let (c1, c2, v_in) = ctx.transaction(|| {
            sink.send(5);
            let c1 = sink.stream().hold(0);
            let c2 = m.hold(0);
            let v = (c1.sample(), c2.sample());
            (c1, c2, v)
        });
        assert_eq!(v_in, (0, 0));
        assert_eq!((c1.sample(), c2.sample()), (5, 6));
    });
}

// H2: accum built in a handler
#[test]
fn h2_accum_in_handler() {
    watchdog("h2", 10, || {
        let ctx = SodiumCtx::new();
        let sink: StreamSink<i32> = ctx.new_stream_sink();
        let s = sink.stream();
        let trigger = s.map(|x: &i32| *x);
        let slot: Arc<Mutex<Option<Cell<i32>>>> = Arc::new(Mutex::new(None));
        let slot2 = slot.clone();
        let s2 = s.clone();
        let l = trigger.listen(move |_x: &i32| {
            let mut g = slot2.lock().unwrap();
            if g.is_none() {
                *g = Some(s2.accum(0, |a: &i32, s: &i32| *a + *s));
            }
        });
        sink.send(5);
        let c = slot.lock().unwrap().clone().unwrap();
        println!("h2: accum after tx1 = {}", c.sample());
        sink.send(7);
        println!("h2: accum after tx2 = {}", c.sample());
        assert_eq!(c.sample(), 12);
        l.unlisten();
    });
}

// H4: send from inside a handler to a sink that already fired in this transaction
#[test]
fn h4_send_in_handler_to_fired_sink() {
    watchdog("h4", 10, || {
        let ctx = SodiumCtx::new();
        let a: StreamSink<i32> = ctx.new_stream_sink();
        let b: StreamSink<i32> = ctx.new_stream_sink();
        let hb = b.stream().hold(0);
        let (got, k) = collector::<i32>();
        let lb = b.stream().listen(k);
        let b2 = b.clone();
        let la = a.stream().listen(move |x: &i32| b2.send(*x * 10));
        ctx.transaction(|| {
            b.send(1);
            a.send(2);
        });
        println!("h4: hb={} got={:?}", hb.sample(), got.lock().unwrap());
        la.unlisten();
        lb.unlisten();
    });
}

// H5: sample inside map fn / snapshot / gate see the start-of-transaction value
#[test]
fn h5_reads_see_old_value() {
    watchdog("h5", 10, || {
        let ctx = SodiumCtx::new();
        let sink: StreamSink<i32> = ctx.new_stream_sink();
        let c = sink.stream().hold(0);
        let c2 = c.clone();
        let m = sink.stream().map(move |x: &i32| (*x, c2.sample()));
        let sn = sink.stream().snapshot(&c, |x: &i32, y: &i32| (*x, *y));
        let late = c.updates().snapshot(&c, |x: &i32, y: &i32| (*x, *y));
        let gated = sink.stream().gate(&c.map(|v: &i32| *v % 2 == 0));
        let (g1, k1) = collector();
        let (g2, k2) = collector();
        let (g3, k3) = collector();
        let (g4, k4) = collector();
        let ls = vec![m.listen(k1), sn.listen(k2), late.listen(k3), gated.listen(k4)];
        for i in 1..=4 {
            sink.send(i);
        }
        assert_eq!(*g1.lock().unwrap(), vec![(1, 0), (2, 1), (3, 2), (4, 3)]);
        assert_eq!(*g2.lock().unwrap(), vec![(1, 0), (2, 1), (3, 2), (4, 3)]);
        assert_eq!(*g3.lock().unwrap(), vec![(1, 0), (2, 1), (3, 2), (4, 3)]);
        assert_eq!(*g4.lock().unwrap(), vec![1, 3]);
        for l in ls {
            l.unlisten();
        }
    });
}

// H7: Lazy from lifted / mapped cells forced after changes
#[test]
fn h7_lazy_lift_forced_late() {
    watchdog("h7", 10, || {
        let ctx = SodiumCtx::new();
        let a = ctx.new_cell_sink(1);
        let b = ctx.new_cell_sink(10);
        let calls = Arc::new(AtomicUsize::new(0));
        let calls2 = calls.clone();
        let l2 = a.cell().lift2(&b.cell(), move |x: &i32, y: &i32| {
            calls2.fetch_add(1, Ordering::SeqCst);
            *x + *y
        });
        let m = l2.map(|x: &i32| *x * 2);
        let z0 = l2.sample_lazy();
        let m0 = m.sample_lazy();
        a.send(2);
        let z1 = l2.sample_lazy();
        let m1 = m.sample_lazy();
        b.send(20);
        let z2 = l2.sample_lazy();
        ctx.transaction(|| {
            a.send(3);
            b.send(30);
        });
        let z3 = l2.sample_lazy();
        a.send(4);
        assert_eq!((z0.run(), z1.run(), z2.run(), z3.run()), (11, 12, 22, 33));
        assert_eq!((m0.run(), m1.run()), (22, 24));
        assert_eq!(z0.clone().run(), 11);
        assert_eq!(l2.sample(), 34);
    });
}

// H8: Lazy from CellLoop's cell taken before loop_, forced after updates
#[test]
fn h8_lazy_cellloop() {
    watchdog("h8", 10, || {
        let ctx = SodiumCtx::new();
        let sink: StreamSink<i32> = ctx.new_stream_sink();
        let (lz, lzm, cell) = ctx.transaction(|| {
            let cl: CellLoop<i32> = ctx.new_cell_loop();
            let lz = cl.cell().sample_lazy();
            let mapped = cl.cell().map(|x: &i32| *x + 100);
            let lzm = mapped.sample_lazy();
            let acc = sink
                .stream()
                .snapshot(&cl.cell(), |a: &i32, s: &i32| *a + *s)
                .hold(7);
            cl.loop_(&acc);
            (lz, lzm, cl.cell())
        });
        sink.send(1);
        sink.send(2);
        assert_eq!(cell.sample(), 10);
        assert_eq!(lz.run(), 7);
        assert_eq!(lzm.run(), 107);
    });
}

// H10: StreamLoop via defer: countdown
#[test]
fn h10_loop_defer_countdown() {
    watchdog("h10", 10, || {
        let ctx = SodiumCtx::new();
        let sink: StreamSink<i32> = ctx.new_stream_sink();
        let (out, l) = ctx.transaction(|| {
            let sl: StreamLoop<i32> = ctx.new_stream_loop();
            let all = sink.stream().or_else(&sl.stream());
            let next = Operational::defer(&all.filter(|x: &i32| *x > 0).map(|x: &i32| *x - 1));
            sl.loop_(&next);
            let (got, k) = collector::<i32>();
            let l = all.listen(k);
            (got, l)
        });
        sink.send(3);
        assert_eq!(*out.lock().unwrap(), vec![3, 2, 1, 0]);
        sink.send(2);
        assert_eq!(*out.lock().unwrap(), vec![3, 2, 1, 0, 2, 1, 0]);
        l.unlisten();
    });
}

// H13: Lazy at most once
#[test]
fn h13_lazy_once() {
    watchdog("h13", 10, || {
        let ctx = SodiumCtx::new();
        let sink: StreamSink<i32> = ctx.new_stream_sink();
        let n = Arc::new(AtomicUsize::new(0));
        let n2 = n.clone();
        let lz = Lazy::new(move || {
            n2.fetch_add(1, Ordering::SeqCst);
            42
        });
        let c1 = sink.stream().hold_lazy(lz.clone());
        let c2 = sink.stream().map(|x: &i32| *x).hold_lazy(lz.clone());
        let acc = sink.stream().accum_lazy(lz.clone(), |a: &i32, s: &i32| *a + *s);
        let col = sink
            .stream()
            .collect_lazy(lz.clone(), |a: &i32, s: &i32| (*s, *a + *s));
        let (got, k) = collector::<i32>();
        let l = col.listen(k);
        assert_eq!(n.load(Ordering::SeqCst), 0, "forced before demand");
        let z1 = c1.sample_lazy();
        let z2 = c2.sample_lazy();
        sink.send(1);
        sink.send(2);
        assert_eq!((z1.run(), z2.run(), lz.run()), (42, 42, 42));
        assert_eq!(acc.sample(), 45);
        assert_eq!(*got.lock().unwrap(), vec![42, 43]);
        assert_eq!(n.load(Ordering::SeqCst), 1);
        l.unlisten();
    });
}

// H14: cells update without listeners
#[test]
fn h14_no_listeners() {
    watchdog("h14", 10, || {
        let ctx = SodiumCtx::new();
        let sink: StreamSink<i32> = ctx.new_stream_sink();
        let c = {
            let m = sink.stream().map(|x: &i32| *x + 1);
            let f = m.filter(|x: &i32| *x % 2 == 0);
            f.hold(0)
        };
        let acc = sink.stream().accum(0, |a: &i32, s: &i32| *a + *s);
        let a = ctx.new_cell_sink(1);
        let lifted = a.cell().lift2(&c, |x: &i32, y: &i32| *x * 100 + *y);
        let cc = ctx.new_cell_sink(c.clone());
        let sw = Cell::switch_c(&cc.cell());
        for i in 1..=5 {
            sink.send(i);
        }
        a.send(2);
        assert_eq!(c.sample(), 6);
        assert_eq!(acc.sample(), 15);
        assert_eq!(lifted.sample(), 206);
        assert_eq!(sw.sample(), 6);
        cc.send(acc.clone());
        assert_eq!(sw.sample(), 15);
        sink.send(6);
        assert_eq!(sw.sample(), 21);
    });
}

// H15: sample in transaction after send, nested transactions, Transaction object
#[test]
fn h15_sample_in_tx() {
    watchdog("h15", 10, || {
        let ctx = SodiumCtx::new();
        let cs = ctx.new_cell_sink(0);
        let c = cs.cell();
        let m = c.map(|x: &i32| *x + 1);
        let t = ctx.new_transaction();
        cs.send(1);
        assert_eq!((c.sample(), m.sample()), (0, 1));
        ctx.transaction(|| {
            cs.send(2);
            assert_eq!((c.sample(), m.sample()), (0, 1));
        });
        assert_eq!((c.sample(), m.sample()), (0, 1));
        let lz = m.sample_lazy();
        t.close();
        assert_eq!((c.sample(), m.sample()), (2, 3));
        assert_eq!(lz.run(), 1);
        drop(t);
        cs.send(3);
        assert_eq!((c.sample(), m.sample()), (3, 4));
    });
}

// H19: CellLoop accumulator vs accum
#[test]
fn h19_cellloop_vs_accum() {
    watchdog("h19", 10, || {
        let ctx = SodiumCtx::new();
        let sink: StreamSink<i32> = ctx.new_stream_sink();
        let (lp, direct, outs, l) = ctx.transaction(|| {
            let cl: CellLoop<i32> = ctx.new_cell_loop();
            let upd = sink.stream().snapshot(&cl.cell(), |a: &i32, s: &i32| *a + *s);
            let held = upd.hold(0);
            cl.loop_(&held);
            let (got, k) = collector::<i32>();
            let l = upd.listen(k);
            (cl.cell(), sink.stream().accum(0, |a: &i32, s: &i32| *a + *s), got, l)
        });
        let mut expect = vec![];
        let mut sum = 0;
        for i in 1..=2000 {
            sink.send(i);
            sum += i;
            expect.push(sum);
        }
        assert_eq!(lp.sample(), sum);
        assert_eq!(direct.sample(), sum);
        assert_eq!(*outs.lock().unwrap(), expect);
        l.unlisten();
    });
}

// H20: looping twice / sampling before loop fail loudly
#[test]
fn h20_loud_failures() {
    watchdog("h20", 10, || {
        let r = std::panic::catch_unwind(|| {
            let ctx = SodiumCtx::new();
            let cl: CellLoop<i32> = ctx.new_cell_loop();
            cl.cell().sample()
        });
        assert!(r.is_err(), "sample before loop gave {:?}", r);
        let r = std::panic::catch_unwind(|| {
            let ctx = SodiumCtx::new();
            let cl: CellLoop<i32> = ctx.new_cell_loop();
            let c1 = ctx.new_cell(1);
            let c2 = ctx.new_cell(2);
            cl.loop_(&c1);
            cl.loop_(&c2);
            cl.cell().sample()
        });
        assert!(r.is_err(), "double loop gave {:?}", r);
        let r = std::panic::catch_unwind(|| {
            let ctx = SodiumCtx::new();
            let sl: StreamLoop<i32> = ctx.new_stream_loop();
            let s1: StreamSink<i32> = ctx.new_stream_sink();
            sl.loop_(&s1.stream());
            sl.loop_(&s1.stream());
        });
        assert!(r.is_err(), "double stream loop ok?");
    });
}

// H1d: hold created inside a map function; look at the created cell itself
#[test]
fn h1d_hold_in_map_fn_direct() {
    watchdog("h1d", 10, || {
        let ctx = SodiumCtx::new();
        let sink: StreamSink<i32> = ctx.new_stream_sink();
        let s2 = sink.stream();
        let s = s2.map(|x: &i32| *x);
        let s2b = s2.clone();
        let cells: Arc<Mutex<Vec<Cell<i32>>>> = Arc::new(Mutex::new(vec![]));
        let cells2 = cells.clone();
        let made = s.map(move |_x: &i32| {
            let c = s2b.hold(0);
            cells2.lock().unwrap().push(c.clone());
            c
        });
        let l = made.listen(|_c: &Cell<i32>| {});
        sink.send(5);
        let c = cells.lock().unwrap()[0].clone();
        println!("h1d: inner cell after tx1 = {}", c.sample());
        assert_eq!(c.sample(), 5);
        l.unlisten();
    });
}

// H1e: same but the hold is on a *derived* stream (map) that has already been visited
#[test]
fn h1e_hold_in_handler_derived() {
    watchdog("h1e", 10, || {
        let ctx = SodiumCtx::new();
        let sink: StreamSink<i32> = ctx.new_stream_sink();
        let d = sink.stream().map(|x: &i32| *x * 2);
        let d2 = d.clone();
        let trigger = d.map(|x: &i32| *x);
        let slot: Arc<Mutex<Option<(Cell<i32>, Cell<i32>, Cell<i32>)>>> = Arc::new(Mutex::new(None));
        let slot2 = slot.clone();
        let l = trigger.listen(move |_x: &i32| {
            let mut g = slot2.lock().unwrap();
            if g.is_none() {
                // hold directly, hold of a fresh map (stream catch-up), accum
                *g = Some((
                    d2.hold(0),
                    d2.map(|x: &i32| *x).hold(0),
                    d2.accum(0, |a: &i32, s: &i32| *a + *s),
                ));
            }
        });
        sink.send(5);
        let (c1, c2, c3) = slot.lock().unwrap().clone().unwrap();
        println!("h1e: direct hold={} hold-of-map={} accum={}", c1.sample(), c2.sample(), c3.sample());
        sink.send(6);
        println!("h1e: direct hold={} hold-of-map={} accum={}", c1.sample(), c2.sample(), c3.sample());
        l.unlisten();
    });
}

// H16: accum / collect built after the send in the same explicit transaction
#[test]
fn h16_fold_after_send_same_tx() {
    watchdog("h16", 10, || {
        let ctx = SodiumCtx::new();
        let sink: StreamSink<i32> = ctx.new_stream_sink();
        let (acc, got, l) = ctx.transaction(|| {
            sink.send(5);
            let acc = sink.stream().accum(100, |a: &i32, s: &i32| *a + *s);
            let col = sink.stream().collect(100, |a: &i32, s: &i32| (*s, *a + *s));
            let (got, k) = collector::<i32>();
            let l = col.listen(k);
            (acc, got, l)
        });
        sink.send(6);
        assert_eq!(acc.sample(), 111);
        assert_eq!(*got.lock().unwrap(), vec![100, 105]);
        l.unlisten();
    });
}

// H23: CellLoop / StreamLoop built and looped inside a handler to a stream that already fired
#[test]
fn h23_loop_in_handler() {
    watchdog("h23", 10, || {
        let ctx = SodiumCtx::new();
        let sink: StreamSink<i32> = ctx.new_stream_sink();
        let src = sink.stream().map(|x: &i32| *x * 2);
        let ca = src.hold(0);
        let trigger = src.map(|x: &i32| *x);
        type Slot = Arc<Mutex<Option<(Cell<i32>, Cell<i32>, Cell<i32>)>>>;
        let slot: Slot = Arc::new(Mutex::new(None));
        let slot2 = slot.clone();
        let ca2 = ca.clone();
        let src2 = src.clone();
        let ctx2 = ctx.clone();
        let l = trigger.listen(move |_x: &i32| {
            let mut g = slot2.lock().unwrap();
            if g.is_none() {
                *g = Some(ctx2.transaction(|| {
                    // with loops
                    let cl: CellLoop<i32> = ctx2.new_cell_loop();
                    let via_cell_loop = cl.cell().map(|x: &i32| *x);
                    cl.loop_(&ca2);
                    let sl: StreamLoop<i32> = ctx2.new_stream_loop();
                    let via_stream_loop = sl.stream().map(|x: &i32| *x).hold(-1);
                    sl.loop_(&src2);
                    // same program with the loops substituted
                    let direct = src2.map(|x: &i32| *x).hold(-1);
                    (via_cell_loop, via_stream_loop, direct)
                }));
            }
        });
        sink.send(5);
        let (a, b, d) = slot.lock().unwrap().clone().unwrap();
        println!("h23: ca={} via_cell_loop={} via_stream_loop={} direct={}", ca.sample(), a.sample(), b.sample(), d.sample());
        let r1 = (ca.sample(), a.sample(), b.sample(), d.sample());
        sink.send(6);
        println!("h23: ca={} via_cell_loop={} via_stream_loop={} direct={}", ca.sample(), a.sample(), b.sample(), d.sample());
        assert_eq!(r1, (10, 10, 10, 10));
        l.unlisten();
    });
}

// H35: switch_c / switch_s built inside a handler
#[test]
fn h35_switch_in_handler() {
    watchdog("h35", 10, || {
        let ctx = SodiumCtx::new();
        let sink: StreamSink<i32> = ctx.new_stream_sink();
        let src = sink.stream().map(|x: &i32| *x * 2);
        let inner = src.hold(0);
        let trigger = src.map(|x: &i32| *x);
        type Slot = Arc<Mutex<Option<(Cell<i32>, Cell<i32>)>>>;
        let slot: Slot = Arc::new(Mutex::new(None));
        let slot2 = slot.clone();
        let inner2 = inner.clone();
        let src2 = src.clone();
        let ctx2 = ctx.clone();
        let l = trigger.listen(move |_x: &i32| {
            let mut g = slot2.lock().unwrap();
            if g.is_none() {
                let sw = Cell::switch_c(&ctx2.new_cell(inner2.clone()));
                let now = sw.sample();
                assert_eq!(now, 0);
                let ss = Cell::switch_s(&ctx2.new_cell(src2.clone())).hold(-1);
                *g = Some((sw, ss));
            }
        });
        sink.send(5);
        let (sw, ss) = slot.lock().unwrap().clone().unwrap();
        println!("h35: inner={} switch_c={} switch_s.hold={}", inner.sample(), sw.sample(), ss.sample());
        let r1 = (inner.sample(), sw.sample(), ss.sample());
        sink.send(6);
        println!("h35: inner={} switch_c={} switch_s.hold={}", inner.sample(), sw.sample(), ss.sample());
        assert_eq!(r1, (10, 10, 10));
        l.unlisten();
    });
}

// H37: CellLoop looped to sink cell / constant, created in explicit transaction
#[test]
fn h37_cellloop_to_sink() {
    watchdog("h37", 10, || {
        let ctx = SodiumCtx::new();
        let cs = ctx.new_cell_sink(1);
        let (lc, m, got, l) = ctx.transaction(|| {
            let cl: CellLoop<i32> = ctx.new_cell_loop();
            let m = cl.cell().lift2(&cs.cell(), |a: &i32, b: &i32| *a * 10 + *b);
            let (got, k) = collector::<i32>();
            let l = cl.cell().listen(k);
            cs.send(2);
            cl.loop_(&cs.cell());
            (cl.cell(), m, got, l)
        });
        assert_eq!((lc.sample(), m.sample()), (2, 22));
        cs.send(3);
        assert_eq!((lc.sample(), m.sample()), (3, 33));
        assert_eq!(*got.lock().unwrap(), vec![2, 3]);
        l.unlisten();
    });
}

// H25: memory: folds and loops created and dropped repeatedly
#[test]
fn h25_memory_folds() {
    watchdog("h25", 20, || {
        let ctx = SodiumCtx::new();
        let sink: StreamSink<i32> = ctx.new_stream_sink();
        ctx.impl_.collect_cycles();
        let base = ctx.impl_.node_count();
        for i in 0..50 {
            let acc = sink.stream().accum(0, |a: &i32, s: &i32| *a + *s);
            let col = sink.stream().collect(0, |a: &i32, s: &i32| (*s, *a + *s));
            let l = col.listen(|_: &i32| {});
            let (lc, l2) = ctx.transaction(|| {
                let cl: CellLoop<i32> = ctx.new_cell_loop();
                let upd = sink.stream().snapshot(&cl.cell(), |a: &i32, s: &i32| *a + *s);
                let l2 = Operational::defer(&upd).listen(|_: &i32| {});
                cl.loop_(&upd.hold(0));
                (cl.cell(), l2)
            });
            sink.send(i);
            sink.send(i);
            assert_eq!(acc.sample(), 2 * i);
            assert_eq!(lc.sample(), 2 * i);
            l.unlisten();
            l2.unlisten();
        }
        ctx.impl_.collect_cycles();
        let after = ctx.impl_.node_count();
        println!("h25: base={} after={}", base, after);
        assert_eq!(base, after);
    });
}

// H41: nested switch built by a (lazily run) map function, all inside one plain explicit transaction
#[test]
fn h41_nested_switch_c_same_tx() {
    watchdog("h41", 10, || {
        let ctx = SodiumCtx::new();
        let cs = ctx.new_cell_sink(0);
        let (outer, got, l) = ctx.transaction(|| {
            let c = ctx.new_cell(1);
            let inner_cc = ctx.new_cell(cs.cell());
            let outer = Cell::switch_c(&c.map(move |_: &i32| Cell::switch_c(&inner_cc)));
            let (got, k) = collector::<i32>();
            let l = outer.listen(k);
            cs.send(5);
            (outer, got, l)
        });
        println!("h41: outer={} got={:?}", outer.sample(), got.lock().unwrap());
        let r = outer.sample();
        cs.send(6);
        println!("h41: outer={} got={:?}", outer.sample(), got.lock().unwrap());
        assert_eq!(r, 5);
        l.unlisten();
    });
}

// H41b: same program with the inner switch built eagerly
#[test]
fn h41b_nested_switch_c_eager() {
    watchdog("h41b", 10, || {
        let ctx = SodiumCtx::new();
        let cs = ctx.new_cell_sink(0);
        let (outer, got, l) = ctx.transaction(|| {
            let inner_cc = ctx.new_cell(cs.cell());
            let inner = Cell::switch_c(&inner_cc);
            let outer = Cell::switch_c(&ctx.new_cell(inner));
            let (got, k) = collector::<i32>();
            let l = outer.listen(k);
            cs.send(5);
            (outer, got, l)
        });
        println!("h41b: outer={} got={:?}", outer.sample(), got.lock().unwrap());
        assert_eq!(outer.sample(), 5);
        l.unlisten();
    });
}

// H42: nested switch_s built by a lazily run map function in one explicit transaction
#[test]
fn h42_nested_switch_s_same_tx() {
    watchdog("h42", 10, || {
        let ctx = SodiumCtx::new();
        let sink: StreamSink<i32> = ctx.new_stream_sink();
        let (got, l) = ctx.transaction(|| {
            let c = ctx.new_cell(1);
            let inner_cs = ctx.new_cell(sink.stream());
            let outer = Cell::switch_s(&c.map(move |_: &i32| Cell::switch_s(&inner_cs)));
            let (got, k) = collector::<i32>();
            let l = outer.listen(k);
            sink.send(5);
            (got, l)
        });
        println!("h42: got={:?}", got.lock().unwrap());
        let r = got.lock().unwrap().clone();
        sink.send(6);
        println!("h42: got={:?}", got.lock().unwrap());
        assert_eq!(r, vec![5]);
        l.unlisten();
    });
}

// H43: degenerate self loop without delay: hang or loud?
#[test]
fn h43_self_loop_no_delay() {
    let r = std::panic::catch_unwind(|| {
        watchdog("h43", 5, || {
            let ctx = SodiumCtx::new();
            let v = ctx.transaction(|| {
                let cl: CellLoop<i32> = ctx.new_cell_loop();
                let m = cl.cell().map(|x: &i32| *x + 1);
                cl.loop_(&m);
                cl.cell()
            });
            println!("h43: built");
            println!("h43: sample = {}", v.sample());
        })
    });
    println!("h43: result is_err={}", r.is_err());
}

// H44: two mutually recursive CellLoops vs a pure model
#[test]
fn h44_mutual_cellloops() {
    watchdog("h44", 10, || {
        let ctx = SodiumCtx::new();
        let sink: StreamSink<i64> = ctx.new_stream_sink();
        let (a, b) = ctx.transaction(|| {
            let la: CellLoop<i64> = ctx.new_cell_loop();
            let lb: CellLoop<i64> = ctx.new_cell_loop();
            let a = sink
                .stream()
                .snapshot3(&la.cell(), &lb.cell(), |e: &i64, a: &i64, b: &i64| (*a + *b + *e) % 1000)
                .hold(1);
            let b = sink
                .stream()
                .snapshot3(&lb.cell(), &la.cell(), |e: &i64, b: &i64, a: &i64| (*a * 3 + *b - *e) % 1000)
                .hold(2);
            lb.loop_(&b);
            la.loop_(&a);
            (la.cell(), lb.cell())
        });
        let (mut ma, mut mb) = (1i64, 2i64);
        for e in 1..500 {
            sink.send(e);
            let na = (ma + mb + e) % 1000;
            let nb = (ma * 3 + mb - e) % 1000;
            ma = na;
            mb = nb;
            assert_eq!((a.sample(), b.sample()), (ma, mb), "at {}", e);
        }
    });
}

// H45: loop through split: fan-out countdown
#[test]
fn h45_loop_split_fanout() {
    watchdog("h45", 10, || {
        let ctx = SodiumCtx::new();
        let sink: StreamSink<i32> = ctx.new_stream_sink();
        let (got, acc, l) = ctx.transaction(|| {
            let sl: StreamLoop<i32> = ctx.new_stream_loop();
            let all = sink.stream().or_else(&sl.stream());
            let next = all
                .map(|n: &i32| if *n > 0 { vec![*n - 1, *n - 1] } else { vec![] })
                .split();
            sl.loop_(&next);
            let (got, k) = collector::<i32>();
            let l = all.listen(k);
            let acc = all.accum(0, |_: &i32, s: &i32| *s + 1);
            (got, acc, l)
        });
        sink.send(3);
        let g = got.lock().unwrap().clone();
        println!("h45: {:?}", g);
        assert_eq!(g.len(), 15);
        assert_eq!(acc.sample(), 15);
        l.unlisten();
    });
}

// H46/H47: folds over split/defer; deferred transaction sees updated cells
#[test]
fn h46_fold_over_split_defer() {
    watchdog("h46", 10, || {
        let ctx = SodiumCtx::new();
        let sink: StreamSink<Vec<i32>> = ctx.new_stream_sink();
        let items = sink.stream().split();
        let acc = items.accum(0, |a: &i32, s: &i32| *a + *s);
        let col = items.collect(0, |a: &i32, s: &i32| (*a + *s, *a + *s));
        let (got, k) = collector::<i32>();
        let l = col.listen(k);
        let last = sink.stream().map(|v: &Vec<i32>| v.len() as i32).hold(-1);
        let seen = Operational::defer(&sink.stream()).snapshot(&last, |_: &Vec<i32>, n: &i32| *n);
        let seen2 = items.snapshot(&acc, |a: &i32, s: &i32| (*a, *s));
        let (got2, k2) = collector::<i32>();
        let (got3, k3) = collector::<(i32, i32)>();
        let l2 = seen.listen(k2);
        let l3 = seen2.listen(k3);
        sink.send(vec![1, 2, 3]);
        sink.send(vec![]);
        sink.send(vec![4]);
        assert_eq!(acc.sample(), 10);
        assert_eq!(*got.lock().unwrap(), vec![1, 3, 6, 10]);
        assert_eq!(*got2.lock().unwrap(), vec![3, 0, 1]);
        assert_eq!(*got3.lock().unwrap(), vec![(1, 0), (2, 1), (3, 3), (4, 6)]);
        l.unlisten();
        l2.unlisten();
        l3.unlisten();
    });
}

// H48: long history: time and node count do not grow
#[test]
fn h48_long_history() {
    watchdog("h48", 120, || {
        let ctx = SodiumCtx::new();
        let sink: StreamSink<i64> = ctx.new_stream_sink();
        let acc = sink.stream().accum(0i64, |a: &i64, s: &i64| *a + *s);
        let h = sink.stream().hold(0);
        let lifted = acc.lift2(&h, |a: &i64, b: &i64| *a - *b);
        let sw = Cell::switch_c(&sink.stream().map({
            let a = acc.clone();
            let b = lifted.clone();
            move |x: &i64| if *x % 2 == 0 { a.clone() } else { b.clone() }
        }).hold(acc.clone()));
        let n0 = ctx.impl_.node_count();
        let t0 = std::time::Instant::now();
        for i in 0..20000 {
            sink.send(i);
        }
        let d1 = t0.elapsed();
        let t1 = std::time::Instant::now();
        for i in 20000..40000 {
            sink.send(i);
        }
        let d2 = t1.elapsed();
        let n1 = ctx.impl_.node_count();
        println!("h48: nodes {} -> {}, {:?} then {:?}", n0, n1, d1, d2);
        let total: i64 = (0..40000).sum();
        assert_eq!(acc.sample(), total);
        assert_eq!(lifted.sample(), total - 39999);
        assert_eq!(sw.sample(), total - 39999);
        assert_eq!(n0, n1);
        assert!(d2 < d1 * 3);
    });
}

// H49: randomized: construction order inside explicit transactions must not matter
struct Rng(u64);
impl Rng {
    fn next(&mut self) -> u64 {
        self.0 = self.0.wrapping_mul(6364136223846793005).wrapping_add(1442695040888963407);
        self.0 >> 33
    }
    fn below(&mut self, n: u64) -> u64 {
        self.next() % n
    }
}

#[derive(Clone)]
enum Kind {
    HoldA,
    MapHoldB,
    AccumA,
    MergeHold,
    LoopAccB,
    Lift(usize, usize),
    MapCell(usize),
    SnapA(usize, Arc<Mutex<Vec<(i64, i64)>>>, Vec<(i64, i64)>),
    GateB(usize, Arc<Mutex<Vec<i64>>>, Vec<i64>),
    SwitchC(usize),
}

struct Obj {
    kind: Kind,
    cell: Option<Cell<i64>>,
    cur: i64,  // model value at start of current tx
    next: i64, // model value after current tx
}

fn pick(rng: &mut Rng, objs: &[Obj]) -> usize {
    loop {
        let i = rng.below(objs.len() as u64) as usize;
        if objs[i].cell.is_some() {
            return i;
        }
    }
}

fn h49_run(lazy_mode: bool) {
    {
        for seed in 0..300u64 {
            let mut lazies: Vec<(Lazy<i64>, i64, String)> = vec![];
            let mut rng = Rng(seed * 7919 + 13);
            let ctx = SodiumCtx::new();
            let a: StreamSink<i64> = ctx.new_stream_sink();
            let b: StreamSink<i64> = ctx.new_stream_sink();
            let mut objs: Vec<Obj> = vec![];
            let mut listeners = vec![];
            for txi in 0..5 {
                let t = ctx.new_transaction();
                let nops = 1 + rng.below(8);
                let mut fa: Option<i64> = None;
                let mut fb: Option<i64> = None;
                let first_new = objs.len();
                for _ in 0..nops {
                    match rng.below(13) {
                        0 | 1 => {
                            let v = rng.below(100) as i64;
                            a.send(v);
                            fa = Some(v);
                        }
                        2 | 3 => {
                            let v = rng.below(100) as i64;
                            b.send(v);
                            fb = Some(v);
                        }
                        4 => {
                            let init = rng.below(100) as i64;
                            objs.push(Obj { kind: Kind::HoldA, cell: Some(a.stream().hold(init)), cur: init, next: init });
                        }
                        5 => {
                            let init = rng.below(100) as i64;
                            let c = b.stream().map(|x: &i64| *x * 2).hold(init);
                            objs.push(Obj { kind: Kind::MapHoldB, cell: Some(c), cur: init, next: init });
                        }
                        6 => {
                            let init = rng.below(100) as i64;
                            let c = a.stream().accum(init, |x: &i64, s: &i64| *x + *s);
                            objs.push(Obj { kind: Kind::AccumA, cell: Some(c), cur: init, next: init });
                        }
                        7 => {
                            let init = rng.below(100) as i64;
                            let c = a.stream().merge(&b.stream(), |x: &i64, y: &i64| *x * 1000 + *y).hold(init);
                            objs.push(Obj { kind: Kind::MergeHold, cell: Some(c), cur: init, next: init });
                        }
                        8 => {
                            let init = rng.below(100) as i64;
                            let cl: CellLoop<i64> = ctx.new_cell_loop();
                            let out = cl.cell();
                            let upd = b.stream().snapshot(&cl.cell(), |x: &i64, s: &i64| *x + *s);
                            cl.loop_(&upd.hold(init));
                            objs.push(Obj { kind: Kind::LoopAccB, cell: Some(out), cur: init, next: init });
                        }
                        9 if objs.iter().any(|o| o.cell.is_some()) => {
                            let i = pick(&mut rng, &objs);
                            let j = pick(&mut rng, &objs);
                            let c = objs[i].cell.clone().unwrap().lift2(&objs[j].cell.clone().unwrap(), |x: &i64, y: &i64| (*x * 7 + *y) % 100003);
                            let cur = (objs[i].cur * 7 + objs[j].cur) % 100003;
                            objs.push(Obj { kind: Kind::Lift(i, j), cell: Some(c), cur, next: cur });
                        }
                        10 if objs.iter().any(|o| o.cell.is_some()) => {
                            let i = pick(&mut rng, &objs);
                            let out = Arc::new(Mutex::new(vec![]));
                            let out2 = out.clone();
                            let s = a.stream().snapshot(&objs[i].cell.clone().unwrap(), |x: &i64, y: &i64| (*x, *y));
                            listeners.push(s.listen(move |p: &(i64, i64)| out2.lock().unwrap().push(*p)));
                            objs.push(Obj { kind: Kind::SnapA(i, out, vec![]), cell: None, cur: 0, next: 0 });
                        }
                        11 if objs.iter().any(|o| o.cell.is_some()) => {
                            let i = pick(&mut rng, &objs);
                            if lazy_mode || rng.below(2) == 0 {
                                let c = objs[i].cell.clone().unwrap().map(|x: &i64| *x + 1);
                                let cur = objs[i].cur + 1;
                                objs.push(Obj { kind: Kind::MapCell(i), cell: Some(c), cur, next: cur });
                            } else {
                                let c = Cell::switch_c(&ctx.new_cell(objs[i].cell.clone().unwrap()));
                                let cur = objs[i].cur;
                                objs.push(Obj { kind: Kind::SwitchC(i), cell: Some(c), cur, next: cur });
                            }
                        }
                        12 if objs.iter().any(|o| o.cell.is_some()) => {
                            let i = pick(&mut rng, &objs);
                            let out = Arc::new(Mutex::new(vec![]));
                            let out2 = out.clone();
                            let pred = objs[i].cell.clone().unwrap().map(|x: &i64| *x % 2 == 0);
                            let s = b.stream().gate(&pred);
                            listeners.push(s.listen(move |p: &i64| out2.lock().unwrap().push(*p)));
                            objs.push(Obj { kind: Kind::GateB(i, out, vec![]), cell: None, cur: 0, next: 0 });
                        }
                        _ => {}
                    }
                    // every read inside the transaction sees the start-of-transaction value
                    for (k, o) in objs.iter().enumerate() {
                        if let Some(c) = &o.cell {
                            // objects created in this tx only by sample_lazy (forcing is also fine)
                            if lazy_mode {
                                lazies.push((c.sample_lazy(), o.cur, format!("seed {} tx {} obj {} lazy in tx", seed, txi, k)));
                            } else {
                                let v = c.sample();
                                assert_eq!(v, o.cur, "seed {} tx {} obj {} read inside tx", seed, txi, k);
                            }
                        }
                    }
                }
                // model step
                for k in 0..objs.len() {
                    let mut kind = objs[k].kind.clone();
                    let cur = objs[k].cur;
                    let next = match kind {
                        Kind::HoldA => fa.unwrap_or(cur),
                        Kind::MapHoldB => fb.map(|x| x * 2).unwrap_or(cur),
                        Kind::AccumA => fa.map(|x| x + cur).unwrap_or(cur),
                        Kind::MergeHold => match (fa, fb) {
                            (Some(x), Some(y)) => x * 1000 + y,
                            (Some(x), None) => x,
                            (None, Some(y)) => y,
                            (None, None) => cur,
                        },
                        Kind::LoopAccB => fb.map(|x| x + cur).unwrap_or(cur),
                        Kind::Lift(i, j) => (objs[i].next * 7 + objs[j].next) % 100003,
                        Kind::MapCell(i) => objs[i].next + 1,
                        Kind::SwitchC(i) => objs[i].next,
                        Kind::SnapA(i, _, ref mut exp) => {
                            if let Some(x) = fa {
                                exp.push((x, objs[i].cur));
                            }
                            objs[k].kind = Kind::SnapA(i, match &objs[k].kind { Kind::SnapA(_, o, _) => o.clone(), _ => unreachable!() }, exp.clone());
                            0
                        }
                        Kind::GateB(i, _, ref mut exp) => {
                            if let Some(x) = fb {
                                if objs[i].cur % 2 == 0 {
                                    exp.push(x);
                                }
                            }
                            objs[k].kind = Kind::GateB(i, match &objs[k].kind { Kind::GateB(_, o, _) => o.clone(), _ => unreachable!() }, exp.clone());
                            0
                        }
                    };
                    objs[k].next = next;
                }
                t.close();
                for (k, o) in objs.iter_mut().enumerate() {
                    o.cur = o.next;
                    if let Some(c) = &o.cell {
                        if lazy_mode {
                            lazies.push((c.sample_lazy(), o.cur, format!("seed {} tx {} obj {} lazy after tx", seed, txi, k)));
                        } else {
                            assert_eq!(c.sample(), o.cur, "seed {} tx {} obj {} after tx (new from {})", seed, txi, k, first_new);
                        }
                    }
                    match &o.kind {
                        Kind::SnapA(_, out, exp) => assert_eq!(*out.lock().unwrap(), *exp, "seed {} tx {} snap {}", seed, txi, k),
                        Kind::GateB(_, out, exp) => assert_eq!(*out.lock().unwrap(), *exp, "seed {} tx {} gate {}", seed, txi, k),
                        _ => {}
                    }
                }
            }
            for l in listeners {
                l.unlisten();
            }
            // force in reverse order, then again
            for (lz, exp, what) in lazies.iter().rev() {
                assert_eq!(lz.run(), *exp, "{}", what);
            }
            for (lz, exp, what) in lazies.iter() {
                assert_eq!(lz.clone().run(), *exp, "{} (2nd)", what);
            }
        }
    }
}

#[test]
fn h49_random_construction_order() {
    watchdog("h49", 120, || h49_run(false));
}

#[test]
fn h49b_random_lazies() {
    watchdog("h49b", 120, || h49_run(true));
}

// H54: hold over once / filter
#[test]
fn h54_hold_once_filter() {
    watchdog("h54", 10, || {
        let ctx = SodiumCtx::new();
        let sink: StreamSink<i32> = ctx.new_stream_sink();
        let o = sink.stream().once().hold(0);
        let f = sink.stream().filter(|x: &i32| *x % 2 == 1).hold(0);
        let fo = sink.stream().map(|x: &i32| if *x > 2 { Some(*x) } else { None }).filter_option().hold(0);
        let (o2, l) = ctx.transaction(|| {
            sink.send(7);
            let o2 = sink.stream().once();
            let (got, k) = collector::<i32>();
            let l = o2.listen(k);
            (got, l)
        });
        for i in 1..=4 {
            sink.send(i);
        }
        assert_eq!((o.sample(), f.sample(), fo.sample()), (7, 3, 4));
        assert_eq!(*o2.lock().unwrap(), vec![7]);
        l.unlisten();
    });
}

// H56: Cell::listen from inside a handler on a cell that updates in this transaction
#[test]
fn h56_cell_listen_in_handler() {
    watchdog("h56", 10, || {
        let ctx = SodiumCtx::new();
        let sink: StreamSink<i32> = ctx.new_stream_sink();
        let c = sink.stream().hold(0);
        let trigger = c.updates().map(|x: &i32| *x);
        let got: Arc<Mutex<Vec<i32>>> = Arc::new(Mutex::new(vec![]));
        let got2 = got.clone();
        let ls: Arc<Mutex<Vec<Listener>>> = Arc::new(Mutex::new(vec![]));
        let ls2 = ls.clone();
        let c2 = c.clone();
        let l = trigger.listen(move |_: &i32| {
            let mut g = ls2.lock().unwrap();
            if g.is_empty() {
                let got3 = got2.clone();
                g.push(c2.listen(move |x: &i32| got3.lock().unwrap().push(*x)));
            }
        });
        sink.send(5);
        sink.send(6);
        println!("h56: {:?}", got.lock().unwrap());
        assert_eq!(*got.lock().unwrap(), vec![5, 6]);
        l.unlisten();
        for l in ls.lock().unwrap().iter() {
            l.unlisten();
        }
    });
}

// H59/H60: memory: holds created and dropped; unlooped CellLoop dropped
#[test]
fn h59_memory_hold_and_unlooped() {
    watchdog("h59", 20, || {
        let ctx = SodiumCtx::new();
        let sink: StreamSink<i32> = ctx.new_stream_sink();
        ctx.impl_.collect_cycles();
        let base = ctx.impl_.node_count();
        for i in 0..200 {
            let c = sink.stream().hold(0);
            let m = c.map(|x: &i32| *x + 1).lift2(&c, |a: &i32, b: &i32| *a + *b);
            sink.send(i);
            assert_eq!(m.sample(), 2 * i + 1);
            let cl: CellLoop<i32> = ctx.new_cell_loop();
            let dangling = cl.cell().map(|x: &i32| *x);
            let sl: StreamLoop<i32> = ctx.new_stream_loop();
            let d2 = sl.stream().hold(0);
        }
        ctx.impl_.collect_cycles();
        println!("h59: base={} after={}", base, ctx.impl_.node_count());
        assert_eq!(base, ctx.impl_.node_count());
    });
}

// H63: Lazy forced from several threads at once
#[test]
fn h63_lazy_threads() {
    watchdog("h63", 20, || {
        for _ in 0..50 {
            let n = Arc::new(AtomicUsize::new(0));
            let n2 = n.clone();
            let lz = Lazy::new(move || {
                std::thread::sleep(Duration::from_millis(1));
                n2.fetch_add(1, Ordering::SeqCst) + 100
            });
            let hs: Vec<_> = (0..4)
                .map(|_| {
                    let lz = lz.clone();
                    std::thread::spawn(move || lz.run())
                })
                .collect();
            let vs: Vec<usize> = hs.into_iter().map(|h| h.join().unwrap()).collect();
            assert_eq!(vs, vec![100; 4]);
            assert_eq!(n.load(Ordering::SeqCst), 1);
        }
    });
}

// H64: a loud early sample does not corrupt the loop
#[test]
fn h64_early_sample_then_loop() {
    watchdog("h64", 10, || {
        let ctx = SodiumCtx::new();
        let cs = ctx.new_cell_sink(3);
        let cl: CellLoop<i32> = ctx.new_cell_loop();
        let m = cl.cell().map(|x: &i32| *x * 2);
        let l2 = cl.cell().lift2(&cs.cell(), |a: &i32, b: &i32| *a + *b);
        let c1 = cl.cell();
        let r = std::panic::catch_unwind(std::panic::AssertUnwindSafe(|| (c1.sample(), m.sample(), l2.sample())));
        assert!(r.is_err());
        let r = std::panic::catch_unwind(std::panic::AssertUnwindSafe(|| m.sample()));
        assert!(r.is_err());
        let r = std::panic::catch_unwind(std::panic::AssertUnwindSafe(|| l2.sample()));
        assert!(r.is_err());
        cl.loop_(&cs.cell());
        assert_eq!((c1.sample(), m.sample(), l2.sample()), (3, 6, 6));
        cs.send(4);
        assert_eq!((c1.sample(), m.sample(), l2.sample()), (4, 8, 8));
    });
}

// H66: chain of loops resolved in reverse order, with sends in the construction transaction
#[test]
fn h66_loop_chain() {
    watchdog("h66", 10, || {
        let ctx = SodiumCtx::new();
        let cs = ctx.new_cell_sink(1);
        let ss: StreamSink<i32> = ctx.new_stream_sink();
        let (c1, lz, got, l) = ctx.transaction(|| {
            let cl1: CellLoop<i32> = ctx.new_cell_loop();
            let cl2: CellLoop<i32> = ctx.new_cell_loop();
            let sl1: StreamLoop<i32> = ctx.new_stream_loop();
            let sl2: StreamLoop<i32> = ctx.new_stream_loop();
            let lz = cl1.cell().sample_lazy();
            let (got, k) = collector::<(i32, i32)>();
            let l = sl1.stream().snapshot(&cl1.cell(), |a: &i32, b: &i32| (*a, *b)).listen(k);
            cs.send(2);
            ss.send(10);
            cl1.loop_(&cl2.cell());
            sl1.loop_(&sl2.stream());
            sl2.loop_(&ss.stream());
            cl2.loop_(&cs.cell());
            (cl1.cell(), lz, got, l)
        });
        cs.send(3);
        ss.send(11);
        assert_eq!(c1.sample(), 3);
        assert_eq!(lz.run(), 1);
        assert_eq!(*got.lock().unwrap(), vec![(10, 1), (11, 3)]);
        l.unlisten();
    });
}

// H70: ctx.transaction is not unwind safe (observation)
#[test]
fn h70_panic_in_transaction() {
    watchdog("h70", 10, || {
        let ctx = SodiumCtx::new();
        let sink: StreamSink<i32> = ctx.new_stream_sink();
        let (got, k) = collector::<i32>();
        let l = sink.stream().listen(k);
        let ctx2 = ctx.clone();
        let r = std::panic::catch_unwind(std::panic::AssertUnwindSafe(|| {
            ctx2.transaction(|| {
                let cl: CellLoop<i32> = ctx2.new_cell_loop();
                cl.cell().sample()
            })
        }));
        assert!(r.is_err());
        sink.send(1);
        println!("h70: after loud failure inside ctx.transaction, listener got {:?}", got.lock().unwrap());
        l.unlisten();
    });
}

// F2 minimal: loops resolved inside a handler vs the same program with the loop substituted
#[test]
fn f2_loop_in_handler_minimal() {
    watchdog("f2", 10, || {
        let ctx = SodiumCtx::new();
        let sink: StreamSink<i32> = ctx.new_stream_sink();
        let ca = sink.stream().hold(0);
        type Slot = Arc<Mutex<Vec<Cell<i32>>>>;
        let slot: Slot = Arc::new(Mutex::new(vec![]));
        let (slot2, ca2, ctx2, s2) = (slot.clone(), ca.clone(), ctx.clone(), sink.stream());
        // listen on a copy of the stream: a handler runs with its own stream locked (known deadlock)
        let l = sink.stream().map(|x: &i32| *x).listen(move |_x: &i32| {
            let mut g = slot2.lock().unwrap();
            if g.is_empty() {
                ctx2.transaction(|| {
                    let cl: CellLoop<i32> = ctx2.new_cell_loop();
                    g.push(cl.cell().map(|x: &i32| *x)); // [0] with CellLoop
                    cl.loop_(&ca2);
                    g.push(ca2.map(|x: &i32| *x)); // [1] CellLoop substituted
                    let sl: StreamLoop<i32> = ctx2.new_stream_loop();
                    g.push(sl.stream().map(|x: &i32| *x).hold(-1)); // [2] with StreamLoop
                    sl.loop_(&s2);
                    g.push(s2.map(|x: &i32| *x).hold(-1)); // [3] StreamLoop substituted
                });
            }
        });
        sink.send(5);
        let v: Vec<i32> = slot.lock().unwrap().iter().map(|c| c.sample()).collect();
        println!("f2: after tx1: {:?}", v);
        assert_eq!(v, vec![5, 5, 5, 5]);
        l.unlisten();
    });
}

// H71: nested switch_c built lazily (map fn run in pre_eot) whose selector updates in the construction transaction
#[test]
fn h71_nested_switch_c_selector_update_same_tx() {
    watchdog("h71", 10, || {
        let ctx = SodiumCtx::new();
        let a = ctx.new_cell(10);
        let b = ctx.new_cell(20);
        let ccs = ctx.new_cell_sink(a.clone());
        let outer = ctx.transaction(|| {
            let c = ctx.new_cell(1);
            let inner_cc = ccs.cell();
            let outer = Cell::switch_c(&c.map(move |_: &i32| Cell::switch_c(&inner_cc)));
            ccs.send(b.clone());
            outer
        });
        println!("h71: outer = {}", outer.sample());
        assert_eq!(outer.sample(), 20);
    });
}

// H71b: the same program with the inner switch built eagerly
#[test]
fn h71b_eager() {
    watchdog("h71b", 10, || {
        let ctx = SodiumCtx::new();
        let a = ctx.new_cell(10);
        let b = ctx.new_cell(20);
        let ccs = ctx.new_cell_sink(a.clone());
        let outer = ctx.transaction(|| {
            let inner = Cell::switch_c(&ccs.cell());
            let outer = Cell::switch_c(&ctx.new_cell(inner));
            ccs.send(b.clone());
            outer
        });
        assert_eq!(outer.sample(), 20);
    });
}

// H72: nested switch_s, selector updates in construction transaction
#[test]
fn h72_nested_switch_s_selector_update_same_tx() {
    watchdog("h72", 10, || {
        let ctx = SodiumCtx::new();
        let s1: StreamSink<i32> = ctx.new_stream_sink();
        let s2: StreamSink<i32> = ctx.new_stream_sink();
        let css = ctx.new_cell_sink(s1.stream());
        let (got, l) = ctx.transaction(|| {
            let c = ctx.new_cell(1);
            let inner_cs = css.cell();
            let outer = Cell::switch_s(&c.map(move |_: &i32| Cell::switch_s(&inner_cs)));
            let (got, k) = collector::<i32>();
            let l = outer.listen(k);
            css.send(s2.stream());
            (got, l)
        });
        s1.send(1);
        s2.send(2);
        println!("h72: {:?}", got.lock().unwrap());
        assert_eq!(*got.lock().unwrap(), vec![2]);
        l.unlisten();
    });
}
