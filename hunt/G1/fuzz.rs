#![allow(unused_imports, unused_variables, dead_code, unused_mut)]
// Randomised differential test: cells built as pure expressions over three sink cells (and over
// holds/accums of their updates), at random construction sites (top level, inside an open
// transaction before/after the sends, inside handlers and mapping functions at various propagation
// depths, inside post callbacks); after every transaction every cell must equal its expression over
// the current input values (C13), reads inside a transaction must see start-of-transaction values
// (C04), update streams must fire exactly once in transactions in which an input is updated (C13),
// lazies must denote the value when taken (C17), holds/accums must equal the fold of the events since
// construction (C04).
use sodium_rust::{Cell, CellLoop, CellSink, Lazy, Listener, Operational, SodiumCtx, Stream, StreamSink};
use std::sync::atomic::{AtomicUsize, Ordering};
use std::sync::{Arc, Mutex};

static TXN: AtomicUsize = AtomicUsize::new(0);

#[derive(Clone, Debug)]
enum Expr {
    Sink(usize),
    Fold(usize, usize), // (index in folds, sink it is fed from)
    Map(i64, Box<Expr>),
    Lift2(Box<Expr>, Box<Expr>),
    Lift3(Box<Expr>, Box<Expr>, Box<Expr>),
    Lift4(Box<Expr>, Box<Expr>, Box<Expr>, Box<Expr>),
    Lift6(Box<Expr>, Box<Expr>, Box<Expr>, Box<Expr>, Box<Expr>, Box<Expr>),
    Switch(Box<Expr>, Box<Expr>, Box<Expr>), // switch_c: selector even -> first, odd -> second
    DynSwitch(Box<Expr>, Box<Expr>), // switch_c over cells built by the selector's mapping function
    Same(Box<Expr>), // a cell that must equal another one (a closed CellLoop, a hold of value())
}

fn m(x: i64) -> i64 {
    x % 1_000_003
}

#[derive(Clone, Debug)]
struct Vals {
    s: [i64; 3],
    f: Vec<i64>,
}

impl Expr {
    fn eval(&self, v: &Vals) -> i64 {
        match self {
            Expr::Sink(i) => v.s[*i],
            Expr::Fold(i, _) => v.f[*i],
            Expr::Map(k, e) => m(e.eval(v) * 3 + k),
            Expr::Lift2(a, b) => m(a.eval(v) + 2 * b.eval(v)),
            Expr::Lift3(a, b, c) => m(a.eval(v) + 5 * b.eval(v) + 7 * c.eval(v)),
            Expr::Lift4(a, b, c, d) => m(a.eval(v) + 11 * b.eval(v) + 13 * c.eval(v) + 17 * d.eval(v)),
            Expr::Lift6(a, b, c, d, e, f) => m(a.eval(v)
                + 19 * b.eval(v)
                + 23 * c.eval(v)
                + 29 * d.eval(v)
                + 31 * e.eval(v)
                + 37 * f.eval(v)),
            Expr::Same(e) => e.eval(v),
            Expr::DynSwitch(s, a) => m(a.eval(v) + s.eval(v)),
            Expr::Switch(s, a, b) => {
                if s.eval(v) % 2 == 0 {
                    a.eval(v)
                } else {
                    b.eval(v)
                }
            }
        }
    }
    fn uses(&self, out: &mut [bool; 3]) {
        match self {
            Expr::Sink(i) => out[*i] = true,
            Expr::Fold(_, src) => out[*src] = true,
            Expr::Map(_, e) | Expr::Same(e) => e.uses(out),
            Expr::Lift2(a, b) | Expr::DynSwitch(a, b) => {
                a.uses(out);
                b.uses(out)
            }
            Expr::Lift3(a, b, c) | Expr::Switch(a, b, c) => {
                a.uses(out);
                b.uses(out);
                c.uses(out)
            }
            Expr::Lift4(a, b, c, d) => {
                a.uses(out);
                b.uses(out);
                c.uses(out);
                d.uses(out)
            }
            Expr::Lift6(a, b, c, d, e, f) => {
                a.uses(out);
                b.uses(out);
                c.uses(out);
                d.uses(out);
                e.uses(out);
                f.uses(out)
            }
        }
    }
    // does the cell's update stream fire in a transaction that updates the given sinks?
    fn fires(&self, updated: &[bool; 3], start: &Vals) -> bool {
        match self {
            Expr::Sink(i) => updated[*i],
            Expr::Fold(_, src) => updated[*src],
            Expr::Map(_, e) | Expr::Same(e) => e.fires(updated, start),
            Expr::Lift2(a, b) | Expr::DynSwitch(a, b) => a.fires(updated, start) || b.fires(updated, start),
            Expr::Lift3(a, b, c) => a.fires(updated, start) || b.fires(updated, start) || c.fires(updated, start),
            Expr::Lift4(a, b, c, d) => {
                a.fires(updated, start) || b.fires(updated, start) || c.fires(updated, start) || d.fires(updated, start)
            }
            Expr::Lift6(a, b, c, d, e, f) => {
                a.fires(updated, start)
                    || b.fires(updated, start)
                    || c.fires(updated, start)
                    || d.fires(updated, start)
                    || e.fires(updated, start)
                    || f.fires(updated, start)
            }
            Expr::Switch(s, a, b) => {
                s.fires(updated, start)
                    || if s.eval(start) % 2 == 0 { a.fires(updated, start) } else { b.fires(updated, start) }
            }
        }
    }
    fn has_switch(&self) -> bool {
        format!("{:?}", self).contains("Switch")
    }
    fn size(&self) -> usize {
        format!("{:?}", self).len()
    }
}

struct Rng(u64);
impl Rng {
    fn next(&mut self) -> u64 {
        self.0 ^= self.0 << 13;
        self.0 ^= self.0 >> 7;
        self.0 ^= self.0 << 17;
        self.0
    }
    fn below(&mut self, n: usize) -> usize {
        (self.next() % (n as u64)) as usize
    }
}

struct Entry {
    cell: Cell<i64>,
    expr: Expr,
    born_txn: usize,
    built_in_txn: bool,
    // Some(v): the cell is a hold of value(): it shows v until the end of the transaction that built
    // it, and its update stream fires in that transaction whether or not an input is updated
    value_hold: Option<i64>,
    fires: Arc<Mutex<Vec<(usize, i64)>>>,
    listener: Option<Listener>,
    unlistened_in: Option<usize>,
    skip_fires_in: Option<usize>,
}

#[derive(Clone, Copy)]
enum FoldKind {
    Hold,
    Accum,
    Collect,
}

struct FoldEntry {
    cell: Cell<i64>,
    src: usize,
    kind: FoldKind,
    born_txn: usize,
    built_in_txn: bool,
}

struct World {
    ctx: SodiumCtx,
    sinks: Vec<CellSink<i64>>,
    cur: Vals,  // values as of the start of the current transaction
    next: Vals, // values after the current transaction
    start: Vals, // values as of the start of the current transaction (not advanced by post)
    updated: [bool; 3],
    sends: Vec<(usize, i64)>,
    txn: usize,
    in_txn: bool,
    entries: Vec<Entry>,
    folds: Vec<FoldEntry>,
    streams: Vec<SEntry>,
    sfolds: Vec<SFold>,
    routers: Vec<REntry>,
    lazies: Vec<(Lazy<i64>, i64, String)>,
    rng: Rng,
    errors: Vec<String>,
    log: Vec<String>,
}

#[derive(Clone, Debug)]
enum SExpr {
    Upd(Expr),
    Ref(usize),
}

#[derive(Clone, Debug)]
enum SOp {
    Alias(SExpr),
    Map(i64, SExpr),
    Filter(SExpr),
    Merge(SExpr, SExpr),
    OrElse(SExpr, SExpr),
    Snapshot(SExpr, Expr),
    Gate(SExpr, Expr),
    Once(SExpr),
    Switch(Expr, SExpr, SExpr),
    DynSwitch(Expr, SExpr),
    Route(usize, i64), // (router, key)
}

struct SEntry {
    stream: Stream<i64>,
    op: SOp,
    born_txn: usize,
    built_in_txn: bool,
    once_done: bool,
    fires: Arc<Mutex<Vec<(usize, i64)>>>,
    _l: Listener,
    skip_fires_in: Option<usize>,
}

struct REntry {
    router: sodium_rust::Router<i64, i64>,
    src: SExpr,
    born_txn: usize,
    built_in_txn: bool,
    born_in_propagation: bool,
}

struct SFold {
    cell: Cell<i64>,
    src: usize, // stream entry
    kind: FoldKind,
    expect: i64,
    born_txn: usize,
    built_in_txn: bool,
}

type W = Arc<Mutex<World>>;

fn fold_step(kind: FoldKind, state: i64, a: i64) -> i64 {
    match kind {
        FoldKind::Hold => a,
        FoldKind::Accum => m(state * 2 + a),
        FoldKind::Collect => m(state * 3 + a),
    }
}

fn pick_arg(g: &mut World) -> (Cell<i64>, Expr) {
    let total = 3 + g.entries.len() + g.folds.len();
    let mut i = g.rng.below(total);
    if i >= 3 && i < 3 + g.entries.len() {
        let e = &g.entries[i - 3];
        // a hold of value() built in the transaction still open shows its placeholder value
        if e.value_hold.is_some() && e.born_txn == g.txn && g.in_txn {
            i = 0;
        }
    }
    if i < 3 {
        (g.sinks[i].cell(), Expr::Sink(i))
    } else if i < 3 + g.entries.len() {
        let e = &g.entries[i - 3];
        (e.cell.clone(), e.expr.clone())
    } else {
        let j = i - 3 - g.entries.len();
        let f = &g.folds[j];
        (f.cell.clone(), Expr::Fold(j, f.src))
    }
}

fn build_cell(w: &W, site: &str) {
    if std::env::var("FUZZ_TRACE").is_ok() {
        eprintln!("build_cell at {}", site);
    }
    let (kind, args, ctx, txn, in_txn): (usize, Vec<(Cell<i64>, Expr)>, SodiumCtx, usize, bool) = {
        let mut g = w.lock().unwrap();
        let kind = g.rng.below(11);
        let n = match kind {
            0 | 5 | 6 | 7 => 1,
            1 | 10 => 2,
            2 | 9 => 3,
            3 => 4,
            4 => 6,
            _ => 2,
        };
        let mut args = vec![];
        for _ in 0..n {
            let a = pick_arg(&mut g);
            args.push(a);
        }
        (kind, args, g.ctx.clone(), g.txn, g.in_txn)
    };
    if args.iter().map(|a| a.1.size()).sum::<usize>() > 500 {
        return;
    }
    let k = (txn as i64) % 5;
    if std::env::var("FUZZ_TRACE").is_ok() {
        eprintln!("  cell kind {} args {:?}", kind, args.iter().map(|a| a.1.clone()).collect::<Vec<_>>());
    }
    let bx = |i: usize| Box::new(args[i].1.clone());
    let fires = Arc::new(Mutex::new(Vec::new()));
    let mut value_hold = None;
    // construction and listening happen in one transaction (nested when a transaction is open)
    let built = ctx.transaction(|| {
        let (cell, expr) = match kind {
            0 => (args[0].0.map(move |x: &i64| m(*x * 3 + k)), Expr::Map(k, bx(0))),
            1 => (
                args[0].0.lift2(&args[1].0, |a: &i64, b: &i64| m(*a + 2 * *b)),
                Expr::Lift2(bx(0), bx(1)),
            ),
            2 => (
                args[0]
                    .0
                    .lift3(&args[1].0, &args[2].0, |a: &i64, b: &i64, c: &i64| m(*a + 5 * *b + 7 * *c)),
                Expr::Lift3(bx(0), bx(1), bx(2)),
            ),
            3 => (
                args[0].0.lift4(
                    &args[1].0,
                    &args[2].0,
                    &args[3].0,
                    |a: &i64, b: &i64, c: &i64, d: &i64| m(*a + 11 * *b + 13 * *c + 17 * *d),
                ),
                Expr::Lift4(bx(0), bx(1), bx(2), bx(3)),
            ),
            4 => (
                args[0].0.lift6(
                    &args[1].0,
                    &args[2].0,
                    &args[3].0,
                    &args[4].0,
                    &args[5].0,
                    |a: &i64, b: &i64, c: &i64, d: &i64, e: &i64, f: &i64| {
                        m(*a + 19 * *b + 23 * *c + 29 * *d + 31 * *e + 37 * *f)
                    },
                ),
                Expr::Lift6(bx(0), bx(1), bx(2), bx(3), bx(4), bx(5)),
            ),
            5 => {
                // a CellLoop used before it is closed, closed onto an existing cell
                let cl: CellLoop<i64> = ctx.new_cell_loop();
                let user = cl.cell().map(move |x: &i64| m(*x * 3 + k));
                cl.loop_(&args[0].0);
                (user, Expr::Map(k, Box::new(Expr::Same(bx(0)))))
            }
            6 => {
                // a hold of value(): equals the cell from the end of this transaction on
                let c = Operational::value(&args[0].0).hold(-7);
                value_hold = Some(-7);
                (c, Expr::Same(bx(0)))
            }
            7 => {
                // intermediate cells dropped at once
                let c = args[0].0.map(move |x: &i64| m(*x * 3 + k)).map(move |x: &i64| m(*x * 3 + k + 1));
                (c, Expr::Map(k + 1, Box::new(Expr::Map(k, bx(0)))))
            }
            10 => {
                if format!("{:?}", args[0].1) == format!("{:?}", args[1].1) {
                    return None;
                }
                let a = args[1].0.clone();
                let sel = args[0].0.map(move |v: &i64| {
                    let v = *v;
                    a.map(move |x: &i64| m(*x + v))
                });
                (Cell::switch_c(&sel), Expr::DynSwitch(bx(0), bx(1)))
            }
            9 => {
                let (a, b) = (args[1].0.clone(), args[2].0.clone());
                let sel = args[0].0.map(move |v: &i64| if *v % 2 == 0 { a.clone() } else { b.clone() });
                (Cell::switch_c(&sel), Expr::Switch(bx(0), bx(1), bx(2)))
            }
            _ => {
                // lift of a cell with a derivative of itself (glitch check)
                let d = args[0].0.lift2(&args[1].0, |a: &i64, b: &i64| m(*a + 2 * *b));
                let c = d.lift2(&args[0].0, |a: &i64, b: &i64| m(*a + 2 * *b));
                (c, Expr::Lift2(Box::new(Expr::Lift2(bx(0), bx(1))), bx(0)))
            }
        };
        let l = {
            let fires = fires.clone();
            Operational::updates(&cell).listen(move |v: &i64| {
                fires.lock().unwrap().push((TXN.load(Ordering::SeqCst), *v));
            })
        };
        let got = cell.sample();
        Some((cell, expr, l, got))
    });
    let (cell, expr, l, got) = match built {
        Some(x) => x,
        None => return,
    };
    let mut g = w.lock().unwrap();
    let expect_now = match value_hold {
        Some(v) => v,
        None => expr.eval(&g.cur),
    };
    if got != expect_now {
        let msg = format!(
            "txn {} site {}: new cell {:?} sampled {} at construction, expected {}",
            txn, site, expr, got, expect_now
        );
        g.errors.push(msg);
    }
    let n = g.entries.len();
    g.log.push(format!("txn {} site {} built #{} {:?}", txn, site, n, expr));
    g.entries.push(Entry {
        cell,
        expr,
        born_txn: txn,
        built_in_txn: in_txn,
        value_hold,
        fires,
        listener: Some(l),
        unlistened_in: None,
        skip_fires_in: None,
    });
}

fn build_fold(w: &W, site: &str) {
    let (src, kind, sc, ctx, txn, in_txn, init) = {
        let mut g = w.lock().unwrap();
        let src = g.rng.below(3);
        let kind = match g.rng.below(3) {
            0 => FoldKind::Hold,
            1 => FoldKind::Accum,
            _ => FoldKind::Collect,
        };
        let init = (g.rng.below(100)) as i64;
        (src, kind, g.sinks[src].cell(), g.ctx.clone(), g.txn, g.in_txn, init)
    };
    let cell = ctx.transaction(|| {
        let s = Operational::updates(&sc).map(|x: &i64| *x + 1);
        match kind {
            FoldKind::Hold => s.hold(init),
            FoldKind::Accum => s.accum(init, |a: &i64, st: &i64| m(*st * 2 + *a)),
            FoldKind::Collect => s
                .collect(init, |a: &i64, st: &i64| {
                    let n = m(*st * 3 + *a);
                    (n, n)
                })
                .hold(init),
        }
    });
    let got = cell.sample();
    let mut g = w.lock().unwrap();
    if got != init {
        g.errors
            .push(format!("txn {} site {}: new fold sampled {} expected init {}", txn, site, got, init));
    }
    let idx = g.folds.len();
    g.log.push(format!("txn {} site {} built fold #{} on sink {}", txn, site, idx, src));
    let mut expect_next = init;
    if in_txn {
        if let Some((_, v)) = g.sends.iter().find(|(i, _)| *i == src) {
            expect_next = fold_step(kind, init, *v + 1);
        }
    }
    g.cur.f.push(init);
    g.start.f.push(init);
    g.next.f.push(expect_next);
    g.folds.push(FoldEntry {
        cell,
        src,
        kind,
        born_txn: txn,
        built_in_txn: in_txn,
    });
}

// reads inside a transaction: every cell must show its start-of-transaction value
fn check_reads(w: &W, site: &str) {
    let (cells, folds, cur, txn) = {
        let g = w.lock().unwrap();
        let cells: Vec<(Cell<i64>, Expr, Option<i64>, usize, bool)> = g
            .entries
            .iter()
            .map(|e| (e.cell.clone(), e.expr.clone(), e.value_hold, e.born_txn, e.built_in_txn))
            .collect();
        let folds: Vec<Cell<i64>> = g.folds.iter().map(|f| f.cell.clone()).collect();
        (cells, folds, g.cur.clone(), g.txn)
    };
    let in_txn = w.lock().unwrap().in_txn;
    for (c, e, vh, born, built_in) in &cells {
        let got = c.sample();
        let mut exp = e.eval(&cur);
        if let Some(v) = vh {
            if *born == txn && in_txn {
                exp = *v;
            }
        }
        if got != exp {
            w.lock().unwrap().errors.push(format!(
                "txn {} site {}: read of {:?} gave {} expected start-of-txn value {}",
                txn, site, e, got, exp
            ));
        }
    }
    for (i, c) in folds.iter().enumerate() {
        let got = c.sample();
        if got != cur.f[i] {
            w.lock().unwrap().errors.push(format!(
                "txn {} site {}: read of fold #{} gave {} expected start-of-txn value {}",
                txn, site, i, got, cur.f[i]
            ));
        }
    }
    let mut g = w.lock().unwrap();
    if !cells.is_empty() {
        let i = g.rng.below(cells.len());
        let lz = if cells[i].1.has_switch() { Lazy::of_value(cells[i].0.sample()) } else { cells[i].0.sample_lazy() };
        let mut exp = cells[i].1.eval(&cur);
        if let Some(v) = cells[i].2 {
            if cells[i].3 == txn && in_txn {
                exp = v;
            }
        }
        g.lazies
            .push((lz, exp, format!("txn {} site {} cell {:?}", txn, site, cells[i].1)));
    }
    if !folds.is_empty() {
        let i = g.rng.below(folds.len());
        let lz = folds[i].sample_lazy();
        g.lazies.push((lz, cur.f[i], format!("txn {} site {} fold #{}", txn, site, i)));
    }
}

// drop the handle of a cell (or stream) and go on with an identity map of it
fn replace_one(w: &W, site: &str) {
    let which = w.lock().unwrap().rng.below(2);
    if which == 0 {
        let (i, old, ctx, txn) = {
            let mut g = w.lock().unwrap();
            if g.entries.is_empty() {
                return;
            }
            let n = g.entries.len();
            let i = g.rng.below(n);
            if g.entries[i].listener.is_none() {
                return;
            }
            (i, g.entries[i].cell.clone(), g.ctx.clone(), g.txn)
        };
        let fires = Arc::new(Mutex::new(Vec::new()));
        let (cell, l) = ctx.transaction(|| {
            let cell = old.map(|x: &i64| *x);
            let fires = fires.clone();
            let l = Operational::updates(&cell).listen(move |v: &i64| {
                fires.lock().unwrap().push((TXN.load(Ordering::SeqCst), *v));
            });
            (cell, l)
        });
        drop(old);
        let mut g = w.lock().unwrap();
        let old_l = g.entries[i].listener.replace(l);
        g.entries[i].cell = cell;
        g.entries[i].fires = fires;
        g.entries[i].skip_fires_in = Some(txn);
        g.log.push(format!("txn {} site {} replaced #{}", txn, site, i));
        drop(g);
        if let Some(l) = old_l {
            l.unlisten();
        }
    } else {
        let (i, old, ctx, txn) = {
            let mut g = w.lock().unwrap();
            if g.streams.is_empty() {
                return;
            }
            let n = g.streams.len();
            let i = g.rng.below(n);
            (i, g.streams[i].stream.clone(), g.ctx.clone(), g.txn)
        };
        let fires = Arc::new(Mutex::new(Vec::new()));
        let (stream, l) = ctx.transaction(|| {
            let stream = old.map(|x: &i64| *x);
            let fires = fires.clone();
            let l = stream.listen(move |v: &i64| {
                fires.lock().unwrap().push((TXN.load(Ordering::SeqCst), *v));
            });
            (stream, l)
        });
        drop(old);
        let mut g = w.lock().unwrap();
        let old_l = std::mem::replace(&mut g.streams[i]._l, l);
        g.streams[i].stream = stream;
        g.streams[i].fires = fires;
        g.streams[i].skip_fires_in = Some(txn);
        g.log.push(format!("txn {} site {} replaced S{}", txn, site, i));
        drop(g);
        old_l.unlisten();
    }
}

fn unlisten_one(w: &W, site: &str) {
    let mut g = w.lock().unwrap();
    if g.entries.is_empty() {
        return;
    }
    let n = g.entries.len();
    let i = g.rng.below(n);
    let txn = g.txn;
    let l = g.entries[i].listener.take();
    if l.is_some() {
        g.entries[i].unlistened_in = Some(txn);
        g.log.push(format!("txn {} site {} unlistened #{}", txn, site, i));
    }
    drop(g);
    if let Some(l) = l {
        l.unlisten();
    }
}


fn pick_sarg(g: &mut World) -> (Stream<i64>, SExpr) {
    let n = g.streams.len();
    let i = g.rng.below(n + 2);
    if i < n {
        (g.streams[i].stream.clone(), SExpr::Ref(i))
    } else {
        let (c, e) = pick_arg(g);
        (Operational::updates(&c), SExpr::Upd(e))
    }
}

fn build_stream(w: &W, site: &str) {
    if std::env::var("FUZZ_TRACE").is_ok() {
        eprintln!("build_stream at {}", site);
    }
    let (kind, a, b, c, ctx, txn, in_txn) = {
        let mut g = w.lock().unwrap();
        let kind = g.rng.below(10);
        let a = pick_sarg(&mut g);
        let b = pick_sarg(&mut g);
        let c = pick_arg(&mut g);
        (kind, a, b, c, g.ctx.clone(), g.txn, g.in_txn)
    };
    if c.1.size() > 300 {
        return;
    }
    if kind == 9 {
        // (known: the mapping function must not build on the stream whose lock is held)
        if let SExpr::Upd(e) = &a.1 {
            if format!("{:?}", e) == format!("{:?}", c.1) {
                return;
            }
        }
    }
    if let SExpr::Upd(e) = &a.1 {
        if e.size() > 300 {
            return;
        }
    }
    if let SExpr::Upd(e) = &b.1 {
        if e.size() > 300 {
            return;
        }
    }
    let k = (txn as i64) % 5;
    if std::env::var("FUZZ_TRACE").is_ok() {
        eprintln!("  stream kind {} a {:?} b {:?} c {:?}", kind, a.1, b.1, c.1);
    }
    let fires = Arc::new(Mutex::new(Vec::new()));
    let (stream, op, l) = ctx.transaction(|| {
        let (stream, op) = match kind {
            0 => (a.0.map(|x: &i64| *x), SOp::Alias(a.1.clone())),
            1 => (a.0.map(move |x: &i64| m(*x * 3 + k)), SOp::Map(k, a.1.clone())),
            2 => (a.0.filter(|x: &i64| *x % 3 != 0), SOp::Filter(a.1.clone())),
            3 => (
                a.0.merge(&b.0, |x: &i64, y: &i64| m(*x + 7 * *y)),
                SOp::Merge(a.1.clone(), b.1.clone()),
            ),
            4 => (a.0.or_else(&b.0), SOp::OrElse(a.1.clone(), b.1.clone())),
            5 => (
                a.0.snapshot(&c.0, |x: &i64, y: &i64| m(*x + 3 * *y)),
                SOp::Snapshot(a.1.clone(), c.1.clone()),
            ),
            6 => (a.0.gate(&c.0.map(|x: &i64| *x % 2 == 0)), SOp::Gate(a.1.clone(), c.1.clone())),
            7 => (a.0.once(), SOp::Once(a.1.clone())),
            9 => {
                let sa = a.0.clone();
                let sel = c.0.map(move |v: &i64| {
                    let v = *v;
                    sa.map(move |x: &i64| m(*x + v))
                });
                (Cell::switch_s(&sel), SOp::DynSwitch(c.1.clone(), a.1.clone()))
            }
            _ => {
                let (sa, sb) = (a.0.clone(), b.0.clone());
                let sel = c.0.map(move |v: &i64| if *v % 2 == 0 { sa.clone() } else { sb.clone() });
                (Cell::switch_s(&sel), SOp::Switch(c.1.clone(), a.1.clone(), b.1.clone()))
            }
        };
        let l = {
            let fires = fires.clone();
            stream.listen(move |v: &i64| {
                fires.lock().unwrap().push((TXN.load(Ordering::SeqCst), *v));
            })
        };
        (stream, op, l)
    });
    let mut g = w.lock().unwrap();
    let n = g.streams.len();
    g.log.push(format!("txn {} site {} built stream S{} {:?}", txn, site, n, op));
    g.streams.push(SEntry {
        stream,
        op,
        born_txn: txn,
        built_in_txn: in_txn,
        once_done: false,
        fires,
        _l: l,
        skip_fires_in: None,
    });
}

fn build_router(w: &W, site: &str) {
    let (a, ctx, txn, in_txn) = {
        let mut g = w.lock().unwrap();
        let a = pick_sarg(&mut g);
        (a, g.ctx.clone(), g.txn, g.in_txn)
    };
    if let SExpr::Upd(e) = &a.1 {
        if e.size() > 300 {
            return;
        }
    }
    let router = ctx.new_router(&a.0, |v: &i64| vec![*v % 3]);
    let mut g = w.lock().unwrap();
    let n = g.routers.len();
    g.log.push(format!("txn {} site {} built router R{} on {:?}", txn, site, n, a.1));
    g.routers.push(REntry {
        router,
        src: a.1,
        born_txn: txn,
        built_in_txn: in_txn,
        born_in_propagation: site.starts_with("handler") || site.starts_with("mapfn"),
    });
}

fn build_route(w: &W, site: &str) {
    let (ri, key, ctx, txn, in_txn) = {
        let mut g = w.lock().unwrap();
        if g.routers.is_empty() {
            return;
        }
        let n = g.routers.len();
        (g.rng.below(n), g.rng.below(3) as i64, g.ctx.clone(), g.txn, g.in_txn)
    };
    let fires = Arc::new(Mutex::new(Vec::new()));
    let (stream, l) = ctx.transaction(|| {
        let stream = {
            let g = w.lock().unwrap();
            g.routers[ri].router.filter_matches(&key)
        };
        let l = {
            let fires = fires.clone();
            stream.listen(move |v: &i64| {
                fires.lock().unwrap().push((TXN.load(Ordering::SeqCst), *v));
            })
        };
        (stream, l)
    });
    let mut g = w.lock().unwrap();
    let n = g.streams.len();
    let op = SOp::Route(ri, key);
    g.log.push(format!("txn {} site {} built stream S{} {:?}", txn, site, n, op));
    g.streams.push(SEntry {
        stream,
        op,
        born_txn: txn,
        built_in_txn: in_txn,
        once_done: false,
        fires,
        _l: l,
        skip_fires_in: None,
    });
}

fn build_sfold(w: &W, site: &str) {
    let (src, s, kind, ctx, txn, in_txn, init) = {
        let mut g = w.lock().unwrap();
        if g.streams.is_empty() {
            return;
        }
        let n = g.streams.len();
        let src = g.rng.below(n);
        let kind = match g.rng.below(3) {
            0 => FoldKind::Hold,
            1 => FoldKind::Accum,
            _ => FoldKind::Collect,
        };
        let init = (g.rng.below(100)) as i64;
        (src, g.streams[src].stream.clone(), kind, g.ctx.clone(), g.txn, g.in_txn, init)
    };
    let cell = ctx.transaction(|| match kind {
        FoldKind::Hold => s.hold(init),
        FoldKind::Accum => s.accum(init, |a: &i64, st: &i64| m(*st * 2 + *a)),
        FoldKind::Collect => s
            .collect(init, |a: &i64, st: &i64| {
                let n = m(*st * 3 + *a);
                (n, n)
            })
            .hold(init),
    });
    let got = cell.sample();
    let mut g = w.lock().unwrap();
    if got != init {
        g.errors
            .push(format!("txn {} site {}: new sfold sampled {} expected init {}", txn, site, got, init));
    }
    let n = g.sfolds.len();
    g.log.push(format!("txn {} site {} built sfold F{} on S{}", txn, site, n, src));
    g.sfolds.push(SFold {
        cell,
        src,
        kind,
        expect: init,
        born_txn: txn,
        built_in_txn: in_txn,
    });
}

fn check_sfold_reads(w: &W, site: &str) {
    let (v, txn, in_txn): (Vec<(Cell<i64>, i64)>, usize, bool) = {
        let g = w.lock().unwrap();
        (g.sfolds.iter().map(|f| (f.cell.clone(), f.expect)).collect(), g.txn, g.in_txn)
    };
    if !in_txn {
        return;
    }
    for (i, (c, exp)) in v.iter().enumerate() {
        let got = c.sample();
        if got != *exp {
            w.lock().unwrap().errors.push(format!(
                "txn {} site {}: read of sfold F{} gave {} expected start-of-txn value {}",
                txn, site, i, got, exp
            ));
        }
    }
}

// the events of transaction t, from the model
fn model_stream_events(g: &mut World, t: usize) -> Vec<Option<i64>> {
    let updated = g.updated;
    let next = g.next.clone();
    let cur_start = g.cur.clone(); // caller passes values as of the start of t in g.cur
    let mut sev: Vec<Option<i64>> = vec![];
    for idx in 0..g.streams.len() {
        let e = &g.streams[idx];
        let existed = e.born_txn < t || (e.born_txn == t && e.built_in_txn);
        let ev = |se: &SExpr, sev: &Vec<Option<i64>>| -> Option<i64> {
            match se {
                SExpr::Ref(i) => sev[*i],
                SExpr::Upd(x) => {
                    if x.fires(&updated, &cur_start) {
                        Some(x.eval(&next))
                    } else {
                        None
                    }
                }
            }
        };
        let mut fire_once = false;
        let r = if !existed {
            None
        } else {
            match &e.op {
                SOp::Alias(a) => ev(a, &sev),
                SOp::Map(k, a) => ev(a, &sev).map(|x| m(x * 3 + k)),
                SOp::Filter(a) => ev(a, &sev).filter(|x| x % 3 != 0),
                SOp::Merge(a, b) => match (ev(a, &sev), ev(b, &sev)) {
                    (Some(x), Some(y)) => Some(m(x + 7 * y)),
                    (Some(x), None) => Some(x),
                    (None, Some(y)) => Some(y),
                    _ => None,
                },
                SOp::OrElse(a, b) => ev(a, &sev).or(ev(b, &sev)),
                SOp::Snapshot(a, c) => ev(a, &sev).map(|x| m(x + 3 * c.eval(&cur_start))),
                SOp::Gate(a, c) => ev(a, &sev).filter(|_| c.eval(&cur_start) % 2 == 0),
                SOp::Route(ri, key) => {
                    let r = &g.routers[*ri];
                    let r_existed = r.born_txn < t || (r.born_txn == t && r.built_in_txn);
                    if r.born_txn == t && r.born_in_propagation && std::env::var("FUZZ_NOMASK").is_err() {
                        // known finding (router built during the propagation misses that event): take
                        // what was observed as the truth
                        e.fires.lock().unwrap().iter().filter(|(tx, _)| *tx == t).map(|(_, v)| *v).next()
                    } else if r_existed {
                        ev(&r.src, &sev).filter(|v| v % 3 == *key)
                    } else {
                        None
                    }
                }
                SOp::DynSwitch(c, a) => ev(a, &sev).map(|x| m(x + c.eval(&cur_start))),
                SOp::Switch(c, a, b) => {
                    if c.eval(&cur_start) % 2 == 0 {
                        ev(a, &sev)
                    } else {
                        ev(b, &sev)
                    }
                }
                SOp::Once(a) => {
                    if e.once_done {
                        None
                    } else {
                        let r = ev(a, &sev);
                        fire_once = r.is_some();
                        r
                    }
                }
            }
        };
        if fire_once {
            g.streams[idx].once_done = true;
        }
        sev.push(r);
    }
    sev
}

fn random_action(w: &W, site: &str) {
    let r = w.lock().unwrap().rng.below(20);
    match r {
        0..=3 => build_cell(w, site),
        4..=5 => build_fold(w, site),
        6..=7 => {
            check_reads(w, site);
            check_sfold_reads(w, site);
        }
        8 => unlisten_one(w, site),
        9..=12 => build_stream(w, site),
        13..=14 => build_sfold(w, site),
        15 => build_router(w, site),
        19 => replace_one(w, site),
        18 => {
            if std::env::var("FUZZ_GC").is_ok() {
                let ctx = w.lock().unwrap().ctx.clone();
                ctx.impl_.collect_cycles();
            }
        }
        16..=17 => build_route(w, site),
        _ => {}
    }
}

fn run_seed(seed: u64, n_txn: usize) -> Vec<String> {
    TXN.store(0, Ordering::SeqCst);
    let ctx = SodiumCtx::new();
    let sinks: Vec<CellSink<i64>> = (0..3).map(|i| ctx.new_cell_sink(i as i64 + 1)).collect();
    let w: W = Arc::new(Mutex::new(World {
        ctx: ctx.clone(),
        sinks: sinks.clone(),
        cur: Vals { s: [1, 2, 3], f: vec![] },
        next: Vals { s: [1, 2, 3], f: vec![] },
        start: Vals { s: [1, 2, 3], f: vec![] },
        updated: [false; 3],
        sends: vec![],
        txn: 0,
        in_txn: false,
        entries: vec![],
        folds: vec![],
        streams: vec![],
        sfolds: vec![],
        routers: vec![],
        lazies: vec![],
        rng: Rng(seed.wrapping_mul(2654435761) + 12345),
        errors: vec![],
        log: vec![],
    }));
    let trig: StreamSink<i64> = ctx.new_stream_sink();
    let mut keep: Vec<Listener> = vec![];
    let mut cur_stream: Stream<i64> = trig.stream();
    for depth in 0..6 {
        let w2 = w.clone();
        let site: &'static str = Box::leak(format!("mapfn@{}", depth).into_boxed_str());
        let mapped = cur_stream.map(move |x: &i64| {
            if (*x >> depth) & 1 == 1 {
                random_action(&w2, site);
            }
            *x
        });
        let w3 = w.clone();
        let site2: &'static str = Box::leak(format!("handler@{}", depth).into_boxed_str());
        let ctx2 = ctx.clone();
        keep.push(mapped.listen(move |x: &i64| {
            if (*x >> (depth + 6)) & 1 == 1 {
                random_action(&w3, site2);
            }
            if (*x >> (depth + 12)) & 1 == 1 {
                let w4 = w3.clone();
                let mut done = false;
                ctx2.post(move || {
                    if !done {
                        done = true;
                        {
                            let mut g = w4.lock().unwrap();
                            // the transaction is over: values are the new ones now
                            g.in_txn = false;
                            g.cur = g.next.clone();
                            g.sends = vec![];
                        }
                        random_action(&w4, "post");
                    }
                });
            }
        }));
        cur_stream = mapped;
    }
    for _ in 0..3 {
        build_cell(&w, "top");
    }
    for t in 1..=n_txn {
        TXN.store(t, Ordering::SeqCst);
        w.lock().unwrap().log.push(format!("--- txn {}", t));
        let (sends, bits, pre, mid, post_sends): (Vec<(usize, i64)>, i64, usize, usize, usize) = {
            let mut g = w.lock().unwrap();
            g.txn = t;
            let mut sends = vec![];
            for i in 0..3 {
                if g.rng.below(2) == 0 {
                    let v = (g.rng.below(1000)) as i64;
                    sends.push((i, v));
                }
            }
            let bits = (g.rng.next() & 0x3ffff) as i64;
            (sends, bits, g.rng.below(2), g.rng.below(2), g.rng.below(2))
        };
        {
            let mut g = w.lock().unwrap();
            g.updated = [false; 3];
            g.next = g.cur.clone();
            for (i, v) in &sends {
                g.updated[*i] = true;
                g.next.s[*i] = *v;
            }
            g.in_txn = true;
            g.start = g.cur.clone();
            g.sends = sends.clone();
            let msg = format!("    sends {:?}", sends);
            g.log.push(msg);
            for j in 0..g.folds.len() {
                let (src, kind) = (g.folds[j].src, g.folds[j].kind);
                if let Some((_, v)) = sends.iter().find(|(i, _)| *i == src) {
                    g.next.f[j] = fold_step(kind, g.cur.f[j], *v + 1);
                }
            }
        }
        ctx.transaction(|| {
            for _ in 0..pre {
                random_action(&w, "open-before-sends");
            }
            for (k, (i, v)) in sends.iter().enumerate() {
                sinks[*i].send(*v);
                if k == 0 {
                    for _ in 0..mid {
                        random_action(&w, "open-between-sends");
                    }
                }
            }
            trig.send(bits);
            for _ in 0..post_sends {
                random_action(&w, "open-after-sends");
            }
        });
        // end of transaction: checks
        let mut g = w.lock().unwrap();
        g.in_txn = false;
        // (a post callback may already have advanced g.cur: restore the start-of-txn values)
        g.cur = g.start.clone();
        let sev = model_stream_events(&mut g, t);
        g.cur = g.next.clone();
        g.sends = vec![];
        let cur = g.cur.clone();
        let updated = g.updated;
        let mut errs = vec![];
        for (idx, e) in g.streams.iter().enumerate() {
            let fires: Vec<(usize, i64)> =
                e.fires.lock().unwrap().iter().filter(|(tx, _)| *tx == t).cloned().collect();
            let exp: Vec<(usize, i64)> = sev[idx].iter().map(|v| (t, *v)).collect();
            if fires != exp && e.skip_fires_in != Some(t) {
                errs.push(format!(
                    "after txn {}: stream S{} {:?} (born txn {} in_txn {}) fired {:?} expected {:?}",
                    t, idx, e.op, e.born_txn, e.built_in_txn, fires, exp
                ));
            }
        }
        for j in 0..g.sfolds.len() {
            let (src, kind, born, bi) =
                (g.sfolds[j].src, g.sfolds[j].kind, g.sfolds[j].born_txn, g.sfolds[j].built_in_txn);
            let existed = born < t || (born == t && bi);
            if existed {
                if let Some(v) = sev[src] {
                    g.sfolds[j].expect = fold_step(kind, g.sfolds[j].expect, v);
                }
            }
            let got = g.sfolds[j].cell.sample();
            if got != g.sfolds[j].expect {
                errs.push(format!(
                    "after txn {}: sfold F{} on S{} (born txn {} in_txn {}) = {} expected {}",
                    t, j, src, born, bi, got, g.sfolds[j].expect
                ));
            }
        }
        for (idx, e) in g.entries.iter().enumerate() {
            let exp = e.expr.eval(&cur);
            let got = e.cell.sample();
            if got != exp {
                errs.push(format!(
                    "after txn {}: cell #{} {:?} (born txn {} in_txn {}) = {} expected {}",
                    t, idx, e.expr, e.born_txn, e.built_in_txn, got, exp
                ));
            }
            let input_updated = e.expr.fires(&updated, &g.start);
            let existed = e.born_txn < t || (e.born_txn == t && e.built_in_txn);
            let fires: Vec<(usize, i64)> =
                e.fires.lock().unwrap().iter().filter(|(tx, _)| *tx == t).cloned().collect();
            let mut exp_fires: Vec<(usize, i64)> =
                if input_updated && existed { vec![(t, exp)] } else { vec![] };
            if e.value_hold.is_some() && e.born_txn == t {
                exp_fires = vec![(t, exp)];
            }
            match e.unlistened_in {
                Some(u) if u < t => exp_fires = vec![],
                Some(u) if u == t => {
                    // unlistened during this transaction: it may or may not have been called before
                    if fires.is_empty() {
                        exp_fires = vec![];
                    }
                }
                _ => {}
            }
            if fires != exp_fires && e.skip_fires_in != Some(t) {
                errs.push(format!(
                    "after txn {}: updates of cell #{} {:?} (born txn {} in_txn {}) fired {:?} expected {:?}",
                    t, idx, e.expr, e.born_txn, e.built_in_txn, fires, exp_fires
                ));
            }
        }
        for (j, f) in g.folds.iter().enumerate() {
            let got = f.cell.sample();
            if got != cur.f[j] {
                errs.push(format!(
                    "after txn {}: fold #{} on sink {} (born txn {} in_txn {}) = {} expected {}",
                    t, j, f.src, f.born_txn, f.built_in_txn, got, cur.f[j]
                ));
            }
        }
        g.errors.extend(errs);
        if !g.errors.is_empty() {
            break;
        }
    }
    let mut g = w.lock().unwrap();
    let lazies = std::mem::take(&mut g.lazies);
    drop(g);
    for (lz, exp, what) in lazies {
        let got = lz.run();
        if got != exp {
            w.lock().unwrap().errors.push(format!("lazy taken at {} gave {} expected {}", what, got, exp));
        }
    }
    // leak check: let go of everything
    {
        let mut g = w.lock().unwrap();
        for e in g.entries.iter_mut() {
            if let Some(l) = e.listener.take() {
                l.unlisten();
            }
        }
        for e in g.streams.iter() {
            e._l.unlisten();
        }
        g.entries.clear();
        g.folds.clear();
        g.streams.clear();
        g.sfolds.clear();
        g.routers.clear();
        g.sinks.clear();
    }
    for l in keep.iter() {
        l.unlisten();
    }
    drop(keep);
    drop(cur_stream);
    drop(trig);
    drop(sinks);
    ctx.impl_.collect_cycles();
    let nc = ctx.impl_.node_count();
    if nc != 0 {
        w.lock().unwrap().errors.push(format!("leak: node_count {} after everything was dropped", nc));
    }
    let g = w.lock().unwrap();
    let mut out = g.errors.clone();
    if !out.is_empty() {
        out.push("--- log ---".to_string());
        let n = std::env::var("FUZZ_LOG").ok().and_then(|s| s.parse().ok()).unwrap_or(30usize);
        out.extend(g.log.iter().rev().take(n).rev().cloned());
    }
    out
}

#[test]
fn fuzz_cells() {
    let seeds: u64 = std::env::var("FUZZ_SEEDS").ok().and_then(|s| s.parse().ok()).unwrap_or(200);
    let start: u64 = std::env::var("FUZZ_START").ok().and_then(|s| s.parse().ok()).unwrap_or(1);
    let ntxn: usize = std::env::var("FUZZ_TXNS").ok().and_then(|s| s.parse().ok()).unwrap_or(10);
    let mut bad = 0;
    for seed in start..start + seeds {
        let (tx, rx) = std::sync::mpsc::channel();
        let h = std::thread::Builder::new()
            .stack_size(256 * 1024 * 1024)
            .spawn(move || {
                let r = std::panic::catch_unwind(|| run_seed(seed, ntxn));
                let _ = tx.send(r.map_err(|e| {
                    if let Some(s) = e.downcast_ref::<String>() {
                        s.clone()
                    } else if let Some(s) = e.downcast_ref::<&str>() {
                        s.to_string()
                    } else {
                        "panic".to_string()
                    }
                }));
            })
            .unwrap();
        match rx.recv_timeout(std::time::Duration::from_secs(120)) {
            Ok(Ok(errs)) => {
                if !errs.is_empty() {
                    bad += 1;
                    println!("SEED {} FAILED:", seed);
                    for e in errs.iter().take(400) {
                        println!("   {}", e);
                    }
                }
                h.join().ok();
            }
            Ok(Err(p)) => {
                bad += 1;
                println!("SEED {} PANICKED: {}", seed, p);
            }
            Err(_) => {
                println!("SEED {} HANG", seed);
                std::process::exit(99);
            }
        }
        if bad >= 3 {
            break;
        }
    }
    assert_eq!(bad, 0);
}
