#![allow(unused_imports, unused_variables, dead_code)]
use sodium_rust::{
    lambda1, lambda2, Cell, CellLoop, CellSink, Lazy, Listener, Operational, Router, SodiumCtx,
    Stream, StreamLoop, StreamSink,
};
use std::sync::{Arc, Mutex};
use std::time::Duration;

fn watchdog<F: FnOnce() + Send + 'static>(name: &'static str, f: F) {
    let (tx, rx) = std::sync::mpsc::channel();
    let h = std::thread::Builder::new()
        .stack_size(64 * 1024 * 1024)
        .spawn(move || {
            f();
            let _ = tx.send(());
        })
        .unwrap();
    match rx.recv_timeout(Duration::from_secs(10)) {
        Ok(()) => {
            h.join().unwrap();
        }
        Err(std::sync::mpsc::RecvTimeoutError::Disconnected) => {
            // thread panicked
            let r = h.join();
            if let Err(e) = r {
                std::panic::resume_unwind(e);
            }
        }
        Err(std::sync::mpsc::RecvTimeoutError::Timeout) => {
            eprintln!("HANG in {}", name);
            std::process::exit(99);
        }
    }
}

type Out<T> = Arc<Mutex<Vec<T>>>;
fn out<T>() -> Out<T> {
    Arc::new(Mutex::new(Vec::new()))
}
fn get<T: Clone>(o: &Out<T>) -> Vec<T> {
    o.lock().unwrap().clone()
}

// H1: loop stream already visited in this transaction (through a dependent), then closed by a later handler
#[test]
fn h01_loop_closed_after_loop_stream_visited() {
    watchdog("h01", || {
        let ctx = SodiumCtx::new();
        let x: StreamSink<i32> = ctx.new_stream_sink();
        let o_n = out::<i32>();
        let o_l = out::<i32>();
        let shared: Arc<Mutex<Option<StreamLoop<i32>>>> = Arc::new(Mutex::new(None));
        let keep: Arc<Mutex<Vec<Listener>>> = Arc::new(Mutex::new(Vec::new()));
        let t1 = x.stream().map(|a: &i32| *a);
        let t2 = t1.map(|a: &i32| *a).map(|a: &i32| *a).map(|a: &i32| *a).map(|a: &i32| *a);
        let l1 = {
            let ctx = ctx.clone();
            let xs = x.stream();
            let shared = shared.clone();
            let keep = keep.clone();
            let o_n = o_n.clone();
            t1.listen(move |_: &i32| {
                let sl: StreamLoop<i32> = ctx.new_stream_loop();
                let n = sl.stream().or_else(&xs.map(|a: &i32| *a + 1000));
                let o_n = o_n.clone();
                keep.lock().unwrap().push(n.listen(move |a: &i32| o_n.lock().unwrap().push(*a)));
                *shared.lock().unwrap() = Some(sl);
            })
        };
        let l2 = {
            let shared = shared.clone();
            let keep = keep.clone();
            let o_l = o_l.clone();
            let xs = x.stream();
            t2.listen(move |_: &i32| {
                let sl = shared.lock().unwrap().take().unwrap();
                sl.loop_(&xs.map(|a: &i32| *a + 1));
                let o_l = o_l.clone();
                keep.lock().unwrap().push(sl.stream().listen(move |a: &i32| o_l.lock().unwrap().push(*a)));
            })
        };
        x.send(1);
        println!("h01: n saw {:?}, listener on loop stream saw {:?}", get(&o_n), get(&o_l));
        assert_eq!(get(&o_l), vec![2]);
    });
}

// H2: lift2 built in a handler after input a updated; b updated in same transaction
#[test]
fn h02_lift_built_in_handler() {
    watchdog("h02", || {
        let ctx = SodiumCtx::new();
        let a: CellSink<i32> = ctx.new_cell_sink(1);
        let b: CellSink<i32> = ctx.new_cell_sink(10);
        let trig: StreamSink<()> = ctx.new_stream_sink();
        let holder: Arc<Mutex<Option<Cell<i32>>>> = Arc::new(Mutex::new(None));
        let o = out::<i32>();
        let keep: Arc<Mutex<Vec<Listener>>> = Arc::new(Mutex::new(Vec::new()));
        let l = {
            let ac = a.cell();
            let bc = b.cell();
            let holder = holder.clone();
            let o = o.clone();
            let keep = keep.clone();
            Operational::updates(&a.cell()).map(|x: &i32| *x).listen(move |_: &i32| {
                let lifted = ac.lift2(&bc, |x: &i32, y: &i32| *x + *y);
                assert_eq!(lifted.sample(), 11, "value at construction (old values)");
                let o = o.clone();
                let l = Operational::updates(&lifted).listen(move |v: &i32| o.lock().unwrap().push(*v));
                keep.lock().unwrap().push(l);
                *holder.lock().unwrap() = Some(lifted);
            })
        };
        ctx.transaction(|| {
            a.send(2);
            b.send(20);
        });
        let lifted = holder.lock().unwrap().clone().unwrap();
        assert_eq!(lifted.sample(), 22);
        assert_eq!(get(&o), vec![22]);
        b.send(30);
        assert_eq!(lifted.sample(), 32);
        assert_eq!(get(&o), vec![22, 32]);
        l.unlisten();
    });
}

// H2b: same but order b then a, and built on handler of b's updates while a updates later in propagation order
#[test]
fn h02b_lift_built_in_handler_other_order() {
    watchdog("h02b", || {
        let ctx = SodiumCtx::new();
        let a: CellSink<i32> = ctx.new_cell_sink(1);
        let b: CellSink<i32> = ctx.new_cell_sink(10);
        // a2 is a deep derived of a (takes more rounds)
        let a2 = a.cell().map(|x: &i32| *x).map(|x: &i32| *x).map(|x: &i32| *x).map(|x: &i32| *x);
        let holder: Arc<Mutex<Option<Cell<i32>>>> = Arc::new(Mutex::new(None));
        let o = out::<i32>();
        let keep: Arc<Mutex<Vec<Listener>>> = Arc::new(Mutex::new(Vec::new()));
        let l = {
            let ac = a2.clone();
            let bc = b.cell();
            let holder = holder.clone();
            let o = o.clone();
            let keep = keep.clone();
            Operational::updates(&b.cell()).map(|x: &i32| *x).listen(move |_: &i32| {
                let lifted = ac.lift2(&bc, |x: &i32, y: &i32| *x + *y);
                assert_eq!(lifted.sample(), 11, "value at construction (old values)");
                let o = o.clone();
                let l = Operational::updates(&lifted).listen(move |v: &i32| o.lock().unwrap().push(*v));
                keep.lock().unwrap().push(l);
                *holder.lock().unwrap() = Some(lifted);
            })
        };
        ctx.transaction(|| {
            a.send(2);
            b.send(20);
        });
        let lifted = holder.lock().unwrap().clone().unwrap();
        assert_eq!(lifted.sample(), 22);
        assert_eq!(get(&o), vec![22]);
        l.unlisten();
    });
}

// H3: accum built in handler of its own input counts the current event
#[test]
fn h03_accum_built_in_handler() {
    watchdog("h03", || {
        let ctx = SodiumCtx::new();
        let s: StreamSink<i32> = ctx.new_stream_sink();
        let holder: Arc<Mutex<Option<Cell<i32>>>> = Arc::new(Mutex::new(None));
        let l = {
            let st = s.stream();
            let holder = holder.clone();
            s.stream().map(|x: &i32| *x).listen(move |_: &i32| {
                let mut h = holder.lock().unwrap();
                if h.is_none() {
                    let acc = st.accum(0, |a: &i32, s: &i32| *a + *s);
                    assert_eq!(acc.sample(), 0);
                    *h = Some(acc);
                }
            })
        };
        s.send(5);
        let acc = holder.lock().unwrap().clone().unwrap();
        assert_eq!(acc.sample(), 5);
        s.send(7);
        assert_eq!(acc.sample(), 12);
        l.unlisten();
    });
}

// H4: sample_lazy of lift taken in handler, forced later after changes
#[test]
fn h04_sample_lazy_in_handler() {
    watchdog("h04", || {
        let ctx = SodiumCtx::new();
        let a: CellSink<i32> = ctx.new_cell_sink(1);
        let b: CellSink<i32> = ctx.new_cell_sink(10);
        let lifted = a.cell().lift2(&b.cell(), |x: &i32, y: &i32| *x + *y);
        let mapped = lifted.map(|x: &i32| *x * 2);
        let lz: Arc<Mutex<Vec<Lazy<i32>>>> = Arc::new(Mutex::new(Vec::new()));
        let l = {
            let lz = lz.clone();
            let mapped = mapped.clone();
            let lifted = lifted.clone();
            Operational::updates(&a.cell()).map(|x: &i32| *x).listen(move |_: &i32| {
                lz.lock().unwrap().push(lifted.sample_lazy());
                lz.lock().unwrap().push(mapped.sample_lazy());
            })
        };
        a.send(2);
        a.send(3);
        b.send(100);
        let v: Vec<i32> = lz.lock().unwrap().iter().map(|l| l.run()).collect();
        assert_eq!(v, vec![11, 22, 12, 24]);
        l.unlisten();
    });
}

// H5: Cell::listen inside handler on a cell updated in this transaction: exactly one call with new value
#[test]
fn h05_cell_listen_in_handler() {
    watchdog("h05", || {
        let ctx = SodiumCtx::new();
        let a: CellSink<i32> = ctx.new_cell_sink(1);
        let o = out::<i32>();
        let keep: Arc<Mutex<Vec<Listener>>> = Arc::new(Mutex::new(Vec::new()));
        let l = {
            let ac = a.cell();
            let o = o.clone();
            let keep = keep.clone();
            Operational::updates(&a.cell()).map(|x: &i32| *x).listen(move |_: &i32| {
                if keep.lock().unwrap().is_empty() {
                    let o = o.clone();
                    let l = ac.listen(move |v: &i32| o.lock().unwrap().push(*v));
                    keep.lock().unwrap().push(l);
                }
            })
        };
        a.send(2);
        assert_eq!(get(&o), vec![2]);
        a.send(3);
        assert_eq!(get(&o), vec![2, 3]);
        l.unlisten();
    });
}

// H6: hold built in handler, sampled by later handler in same transaction -> init
#[test]
fn h06_hold_in_handler_sampled_same_txn() {
    watchdog("h06", || {
        let ctx = SodiumCtx::new();
        let s: StreamSink<i32> = ctx.new_stream_sink();
        let holder: Arc<Mutex<Option<Cell<i32>>>> = Arc::new(Mutex::new(None));
        let o = out::<i32>();
        let l1 = {
            let st = s.stream();
            let holder = holder.clone();
            s.stream().map(|x: &i32| *x).listen(move |_: &i32| {
                let mut h = holder.lock().unwrap();
                if h.is_none() {
                    *h = Some(st.hold(-1));
                }
            })
        };
        // a later handler (deeper)
        let l2 = {
            let holder = holder.clone();
            let o = o.clone();
            s.stream().map(|x: &i32| *x).map(|x: &i32| *x).map(|x: &i32| *x).listen(move |_: &i32| {
                let h = holder.lock().unwrap();
                o.lock().unwrap().push(h.as_ref().unwrap().sample());
            })
        };
        s.send(5);
        assert_eq!(get(&o), vec![-1]);
        let c = holder.lock().unwrap().clone().unwrap();
        assert_eq!(c.sample(), 5);
        s.send(6);
        assert_eq!(get(&o), vec![-1, 5]);
        l1.unlisten();
        l2.unlisten();
    });
}

// H7: switch_s built in a handler in a transaction where the cell of streams has already been updated:
// the switch must follow the new stream from the next transaction on
#[test]
fn h07_switch_s_built_in_handler_after_selector_updated() {
    watchdog("h07", || {
        let ctx = SodiumCtx::new();
        let s1: StreamSink<i32> = ctx.new_stream_sink();
        let s2: StreamSink<i32> = ctx.new_stream_sink();
        let sel: CellSink<Stream<i32>> = ctx.new_cell_sink(s1.stream());
        let o = out::<i32>();
        let keep: Arc<Mutex<Vec<Listener>>> = Arc::new(Mutex::new(Vec::new()));
        let trig = Operational::updates(&sel.cell()).map(|_: &Stream<i32>| 0).map(|x: &i32| *x).map(|x: &i32| *x);
        let l = {
            let selc = sel.cell();
            let o = o.clone();
            let keep = keep.clone();
            trig.listen(move |_: &i32| {
                if keep.lock().unwrap().is_empty() {
                    let sw = Cell::switch_s(&selc);
                    let o = o.clone();
                    keep.lock().unwrap().push(sw.listen(move |v: &i32| o.lock().unwrap().push(*v)));
                }
            })
        };
        ctx.transaction(|| {
            sel.send(s2.stream());
            s1.send(1);
            s2.send(2);
        });
        s1.send(10);
        s2.send(20);
        println!("h07: {:?}", get(&o));
        assert_eq!(get(&o), vec![1, 20]);
        l.unlisten();
    });
}

// H8: same for switch_c
#[test]
fn h08_switch_c_built_in_handler_after_selector_updated() {
    watchdog("h08", || {
        let ctx = SodiumCtx::new();
        let c1: CellSink<i32> = ctx.new_cell_sink(1);
        let c2: CellSink<i32> = ctx.new_cell_sink(2);
        let sel: CellSink<Cell<i32>> = ctx.new_cell_sink(c1.cell());
        let holder: Arc<Mutex<Option<Cell<i32>>>> = Arc::new(Mutex::new(None));
        let trig = Operational::updates(&sel.cell()).map(|_: &Cell<i32>| 0).map(|x: &i32| *x).map(|x: &i32| *x);
        let l = {
            let selc = sel.cell();
            let holder = holder.clone();
            trig.listen(move |_: &i32| {
                let mut h = holder.lock().unwrap();
                if h.is_none() {
                    *h = Some(Cell::switch_c(&selc));
                }
            })
        };
        sel.send(c2.cell());
        let sw = holder.lock().unwrap().clone().unwrap();
        println!("h08: after switch {:?}", sw.sample());
        assert_eq!(sw.sample(), 2);
        c2.send(22);
        assert_eq!(sw.sample(), 22);
        c1.send(11);
        assert_eq!(sw.sample(), 22);
        l.unlisten();
    });
}

// H9: a router built by a handler on a stream that has already fired in this transaction
#[test]
fn h09_router_built_in_handler() {
    watchdog("h09", || {
        let ctx = SodiumCtx::new();
        let x: StreamSink<i32> = ctx.new_stream_sink();
        let o_r = out::<i32>();
        let o_f = out::<i32>();
        let keep: Arc<Mutex<Vec<Listener>>> = Arc::new(Mutex::new(Vec::new()));
        let routers: Arc<Mutex<Vec<Router<i32, i32>>>> = Arc::new(Mutex::new(Vec::new()));
        let trig = x.stream().map(|a: &i32| *a).map(|a: &i32| *a);
        let l = {
            let ctx = ctx.clone();
            let xs = x.stream();
            let o_r = o_r.clone();
            let o_f = o_f.clone();
            let keep = keep.clone();
            let routers = routers.clone();
            trig.listen(move |_: &i32| {
                if !keep.lock().unwrap().is_empty() {
                    return;
                }
                // control: filter built the same way
                let f = xs.filter(|a: &i32| *a % 2 == 1);
                let o_f = o_f.clone();
                keep.lock().unwrap().push(f.listen(move |a: &i32| o_f.lock().unwrap().push(*a)));
                let r: Router<i32, i32> = ctx.new_router(&xs, |a: &i32| vec![*a % 2]);
                let s = r.filter_matches(&1);
                let o_r = o_r.clone();
                keep.lock().unwrap().push(s.listen(move |a: &i32| o_r.lock().unwrap().push(*a)));
                routers.lock().unwrap().push(r);
            })
        };
        x.send(1);
        x.send(3);
        println!("h09: filter {:?} router {:?}", get(&o_f), get(&o_r));
        assert_eq!(get(&o_f), vec![1, 3]);
        assert_eq!(get(&o_r), vec![1, 3]);
        l.unlisten();
    });
}

// H10: things built and dropped by a handler are reclaimed
#[test]
fn h10_leaks_from_handler_built_things() {
    watchdog("h10", || {
        let ctx = SodiumCtx::new();
        {
            let x: StreamSink<i32> = ctx.new_stream_sink();
            let a: CellSink<i32> = ctx.new_cell_sink(1);
            let b: CellSink<i32> = ctx.new_cell_sink(10);
            let trig = x.stream().map(|a: &i32| *a).map(|a: &i32| *a);
            let l = {
                let ctx = ctx.clone();
                let xs = x.stream();
                let ac = a.cell();
                let bc = b.cell();
                trig.listen(move |_: &i32| {
                    let lifted = ac.lift2(&bc, |x: &i32, y: &i32| *x + *y);
                    let m = lifted.map(|x: &i32| *x * 2);
                    let l1 = m.listen(|_: &i32| {});
                    l1.unlisten();
                    let acc = xs.accum(0, |a: &i32, s: &i32| *a + *s);
                    let col = xs.collect(0, |a: &i32, s: &i32| (*a, *a + *s));
                    let l2 = col.listen(|_: &i32| {});
                    l2.unlisten();
                    let r: Router<i32, i32> = ctx.new_router(&xs, |a: &i32| vec![*a % 2]);
                    let rs = r.filter_matches(&1);
                    let l3 = rs.listen(|_: &i32| {});
                    l3.unlisten();
                    let d = Operational::defer(&xs);
                    let l4 = d.listen(|_: &i32| {});
                    l4.unlisten();
                    let sw = Cell::switch_c(&acc.map(move |_: &i32| m.clone()));
                    let l5 = sw.listen(|_: &i32| {});
                    l5.unlisten();
                    let cl: CellLoop<i32> = ctx.new_cell_loop();
                    let y = cl.cell().map(|x: &i32| *x + 1);
                    cl.loop_(&xs.snapshot(&y, |a: &i32, b: &i32| *a + *b).hold(0));
                    let o = xs.once();
                    let l6 = o.listen(|_: &i32| {});
                    l6.unlisten();
                    let v = Operational::value(&lifted);
                    let l7 = v.listen(|_: &i32| {});
                    l7.unlisten();
                })
            };
            ctx.impl_.collect_cycles();
            let base = ctx.impl_.node_count();
            let mut counts = vec![];
            for i in 0..6 {
                ctx.transaction(|| {
                    x.send(i);
                    a.send(i);
                });
                ctx.impl_.collect_cycles();
                counts.push(ctx.impl_.node_count());
            }
            println!("h10: base {} counts {:?}", base, counts);
            assert!(counts.iter().all(|c| *c == base), "node count grows");
            l.unlisten();
        }
        ctx.impl_.collect_cycles();
        assert_eq!(ctx.impl_.node_count(), 0);
    });
}

// H11: a hold cell dropped while its stream keeps exactly one external handle
#[test]
fn h11_hold_dropped_stream_kept() {
    watchdog("h11", || {
        let ctx = SodiumCtx::new();
        let ss: StreamSink<i32> = ctx.new_stream_sink();
        {
            let c = ss.stream().hold(0);
            assert_eq!(c.sample(), 0);
        }
        ctx.impl_.collect_cycles();
        let o = out::<i32>();
        let o2 = o.clone();
        let l = ss.stream().listen(move |a: &i32| o2.lock().unwrap().push(*a));
        ss.send(1);
        assert_eq!(get(&o), vec![1]);
        l.unlisten();
    });
}

// H12: cycles through a router / defer / value / once, built at top level or in a handler, are reclaimed
#[test]
fn h12_cycles_with_router_defer_value_once() {
    watchdog("h12", || {
        let ctx = SodiumCtx::new();
        {
            let x: StreamSink<i32> = ctx.new_stream_sink();
            let build = {
                let ctx = ctx.clone();
                let xs = x.stream();
                move || {
                    ctx.transaction(|| {
                        let sl: StreamLoop<i32> = ctx.new_stream_loop();
                        let inp = xs.or_else(&sl.stream());
                        let r: Router<i32, i32> = ctx.new_router(&inp, |a: &i32| vec![*a % 3]);
                        let r1 = r.filter_matches(&1);
                        let d = Operational::defer(&r1.map(|a: &i32| *a + 1));
                        let c = d.hold(0);
                        let v = Operational::value(&c).once();
                        sl.loop_(&v.filter(|a: &i32| *a < 10));
                        let acc = r.filter_matches(&2).accum(0, |a: &i32, s: &i32| *a + *s);
                        let l = acc.listen_weak(|_: &i32| {});
                        (c, l)
                    })
                }
            };
            let trig = x.stream().map(|a: &i32| *a).map(|a: &i32| *a);
            let keep: Arc<Mutex<Vec<(Cell<i32>, Listener)>>> = Arc::new(Mutex::new(Vec::new()));
            let l = {
                let keep = keep.clone();
                let build = build.clone();
                trig.listen(move |_: &i32| {
                    let mut k = keep.lock().unwrap();
                    k.clear();
                    k.push(build());
                })
            };
            let top = build();
            ctx.impl_.collect_cycles();
            let mut counts = vec![];
            for i in 0..8 {
                x.send(i);
                ctx.impl_.collect_cycles();
                counts.push(ctx.impl_.node_count());
            }
            println!("h12: counts {:?}", counts);
            assert!(counts[3..].iter().all(|c| *c == counts[3]), "node count grows");
            l.unlisten();
            keep.lock().unwrap().clear();
            drop(top);
        }
        ctx.impl_.collect_cycles();
        println!("h12: final {}", ctx.impl_.node_count());
        assert_eq!(ctx.impl_.node_count(), 0);
    });
}

// H13: defer / split built by a handler on a stream that has fired; reads in the deferred transactions
#[test]
fn h13_defer_split_in_handler() {
    watchdog("h13", || {
        let ctx = SodiumCtx::new();
        let x: StreamSink<i32> = ctx.new_stream_sink();
        let c = x.stream().hold(0);
        let trig = x.stream().map(|a: &i32| *a).map(|a: &i32| *a);
        let o = out::<(i32, i32)>();
        let o2 = out::<(i32, i32)>();
        let cells: Arc<Mutex<Vec<Cell<i32>>>> = Arc::new(Mutex::new(Vec::new()));
        let keep: Arc<Mutex<Vec<Listener>>> = Arc::new(Mutex::new(Vec::new()));
        let l = {
            let xs = x.stream();
            let c = c.clone();
            let o = o.clone();
            let o2 = o2.clone();
            let cells = cells.clone();
            let keep = keep.clone();
            trig.listen(move |_: &i32| {
                if !keep.lock().unwrap().is_empty() {
                    return;
                }
                let d = Operational::defer(&xs);
                let sp = xs.map(|a: &i32| vec![*a, *a + 1, *a + 2]).split();
                let (c1, c2) = (c.clone(), c.clone());
                let o = o.clone();
                let o2 = o2.clone();
                keep.lock().unwrap().push(d.listen(move |a: &i32| o.lock().unwrap().push((*a, c1.sample()))));
                keep.lock().unwrap().push(sp.listen(move |a: &i32| o2.lock().unwrap().push((*a, c2.sample()))));
                cells.lock().unwrap().push(d.hold(-1));
                cells.lock().unwrap().push(sp.accum(0, |a: &i32, s: &i32| *a + *s));
                cells.lock().unwrap().push(d.snapshot(&c, |a: &i32, b: &i32| *a * 100 + *b).hold(-1));
            })
        };
        x.send(5);
        let v: Vec<i32> = cells.lock().unwrap().iter().map(|c| c.sample()).collect();
        println!("h13: {:?} {:?} {:?}", get(&o), get(&o2), v);
        assert_eq!(get(&o), vec![(5, 5)]);
        assert_eq!(get(&o2), vec![(5, 5), (6, 5), (7, 5)]);
        assert_eq!(v, vec![5, 18, 505]);
        x.send(7);
        let v: Vec<i32> = cells.lock().unwrap().iter().map(|c| c.sample()).collect();
        assert_eq!(get(&o), vec![(5, 5), (7, 7)]);
        assert_eq!(v, vec![7, 18 + 24, 707]);
        l.unlisten();
    });
}

// H1 control: same as h01 but nothing that depends on the loop stream is updated before the loop is closed
#[test]
fn h01_control_loop_not_visited() {
    watchdog("h01control", || {
        let ctx = SodiumCtx::new();
        let x: StreamSink<i32> = ctx.new_stream_sink();
        let o_l = out::<i32>();
        let shared: Arc<Mutex<Option<StreamLoop<i32>>>> = Arc::new(Mutex::new(None));
        let keep: Arc<Mutex<Vec<Listener>>> = Arc::new(Mutex::new(Vec::new()));
        let t1 = x.stream().map(|a: &i32| *a);
        let t2 = t1.map(|a: &i32| *a).map(|a: &i32| *a).map(|a: &i32| *a).map(|a: &i32| *a);
        let l1 = {
            let ctx = ctx.clone();
            let shared = shared.clone();
            t1.listen(move |_: &i32| {
                let sl: StreamLoop<i32> = ctx.new_stream_loop();
                *shared.lock().unwrap() = Some(sl);
            })
        };
        let l2 = {
            let shared = shared.clone();
            let keep = keep.clone();
            let o_l = o_l.clone();
            let xs = x.stream();
            t2.listen(move |_: &i32| {
                let sl = shared.lock().unwrap().take().unwrap();
                sl.loop_(&xs.map(|a: &i32| *a + 1));
                let o_l = o_l.clone();
                keep.lock().unwrap().push(sl.stream().listen(move |a: &i32| o_l.lock().unwrap().push(*a)));
            })
        };
        x.send(1);
        assert_eq!(get(&o_l), vec![2]);
    });
}

// H1c: CellLoop variant. Handler 1 creates the CellLoop and merges the loop cell's update stream with a
// stream that has fired (so the loop's stream node is visited in the next round); a later handler closes
// the loop onto a cell that is updated in this transaction. Afterwards the loop cell must equal that cell.
#[test]
fn h01c_cell_loop_closed_after_visited() {
    watchdog("h01c", || {
        let ctx = SodiumCtx::new();
        let a: CellSink<i32> = ctx.new_cell_sink(1);
        let shared: Arc<Mutex<Option<CellLoop<i32>>>> = Arc::new(Mutex::new(None));
        let keep: Arc<Mutex<Vec<Listener>>> = Arc::new(Mutex::new(Vec::new()));
        let au = Operational::updates(&a.cell());
        let t1 = au.map(|x: &i32| *x);
        let t2 = t1.map(|x: &i32| *x).map(|x: &i32| *x).map(|x: &i32| *x).map(|x: &i32| *x).map(|x: &i32| *x);
        let l1 = {
            let ctx = ctx.clone();
            let au = au.clone();
            let shared = shared.clone();
            let keep = keep.clone();
            t1.listen(move |_: &i32| {
                if !keep.lock().unwrap().is_empty() {
                    return;
                }
                let cl: CellLoop<i32> = ctx.new_cell_loop();
                let n = Operational::updates(&cl.cell()).or_else(&au.map(|x: &i32| *x + 1000));
                keep.lock().unwrap().push(n.listen(|_: &i32| {}));
                *shared.lock().unwrap() = Some(cl);
            })
        };
        let closed: Arc<Mutex<Option<CellLoop<i32>>>> = Arc::new(Mutex::new(None));
        let l2 = {
            let shared = shared.clone();
            let closed = closed.clone();
            let ac = a.cell();
            t2.listen(move |_: &i32| {
                if let Some(cl) = shared.lock().unwrap().take() {
                    cl.loop_(&ac);
                    *closed.lock().unwrap() = Some(cl);
                }
            })
        };
        a.send(2);
        let cl = closed.lock().unwrap().take().unwrap();
        println!("h01c: a = {}, loop cell = {}", a.cell().sample(), cl.cell().sample());
        assert_eq!(cl.cell().sample(), a.cell().sample());
        l1.unlisten();
        l2.unlisten();
    });
}
