#![allow(dead_code, unused_variables, unused_imports)]
use sodium_rust::{
    lambda1, lambda2, Cell, CellLoop, CellSink, Lazy, Listener, Operational, Router, SodiumCtx,
    Stream, StreamLoop, StreamSink,
};
use std::sync::mpsc;
use std::sync::{Arc, Mutex};
use std::time::Duration;

type Rec<T> = Arc<Mutex<Vec<T>>>;
fn rec<T>() -> Rec<T> {
    Arc::new(Mutex::new(Vec::new()))
}
fn push<T: Clone + Send + 'static>(r: &Rec<T>) -> impl FnMut(&T) + Send + Sync + 'static {
    let r = r.clone();
    move |a: &T| r.lock().unwrap().push(a.clone())
}
fn get<T: Clone>(r: &Rec<T>) -> Vec<T> {
    r.lock().unwrap().clone()
}

/// run f on a thread (stack size `stack`), fail when it does not finish in `secs`
fn watchdog<F: FnOnce() + Send + 'static>(secs: u64, stack: usize, f: F) {
    let (tx, rx) = mpsc::channel();
    let h = std::thread::Builder::new()
        .stack_size(stack)
        .spawn(move || {
            f();
            let _ = tx.send(());
        })
        .unwrap();
    match rx.recv_timeout(Duration::from_secs(secs)) {
        Ok(()) => {
            h.join().unwrap();
        }
        Err(mpsc::RecvTimeoutError::Disconnected) => {
            // thread panicked
            let r = h.join();
            panic!("thread panicked: {:?}", r.err().map(|e| e.downcast_ref::<String>().cloned()));
        }
        Err(mpsc::RecvTimeoutError::Timeout) => panic!("HANG: watchdog timeout"),
    }
}

// H1: weak listener whose handle was dropped: does it still fire, and does that depend on when
// collections happen?
#[test]
fn h01_weak_listener_dropped_gc_timing() {
    let run = |collect: bool| {
        let ctx = SodiumCtx::new();
        let s: StreamSink<i32> = ctx.new_stream_sink();
        let out = rec();
        let l = s.stream().listen_weak(push(&out));
        s.send(1);
        drop(l);
        if collect {
            ctx.impl_.collect_cycles();
        }
        s.send(2);
        s.send(3);
        get(&out)
    };
    let a = run(false);
    let b = run(true);
    println!("no-collect {:?} collect {:?}", a, b);
    assert_eq!(a, b);
}

// H2: deep chain visited from below
#[test]
fn h02_deep_chain_from_below() {
    watchdog(120, 2 * 1024 * 1024, || {
        let ctx = SodiumCtx::new();
        let a: StreamSink<i32> = ctx.new_stream_sink();
        let b: StreamSink<i32> = ctx.new_stream_sink();
        let mut s = a.stream();
        let n: i32 = std::env::var("DEPTH").ok().and_then(|x| x.parse().ok()).unwrap_or(100);
        for _ in 0..n {
            s = s.map(|x: &i32| *x + 1);
        }
        let m = b.stream().merge(&s, |l: &i32, r: &i32| *l + *r);
        let out = rec();
        let l = m.listen(push(&out));
        ctx.transaction(|| {
            b.send(1);
            a.send(0);
        });
        assert_eq!(get(&out), vec![n + 1]);
        l.unlisten();
    });
}

// H4: listener attached from inside a handler on an already fired stream
#[test]
fn h04_listen_inside_handler() {
    let ctx = SodiumCtx::new();
    let s: StreamSink<i32> = ctx.new_stream_sink();
    let out = rec::<i32>();
    let keep: Arc<Mutex<Vec<Listener>>> = Arc::new(Mutex::new(Vec::new()));
    let st = s.stream();
    let m = st.map(|x: &i32| *x * 10);
    let l0;
    {
        let out = out.clone();
        let keep = keep.clone();
        let m = m.clone();
        l0 = st.listen(move |_x: &i32| {
            let l = m.listen(push(&out));
            keep.lock().unwrap().push(l);
        });
    }
    s.send(1);
    println!("h04 out {:?}", get(&out));
    assert_eq!(get(&out), vec![10]);
}

// H3: deep chain forward only, then drop + collect
#[test]
fn h03_deep_chain_forward_and_gc() {
    watchdog(120, 2 * 1024 * 1024, || {
        let ctx = SodiumCtx::new();
        let a: StreamSink<i32> = ctx.new_stream_sink();
        let mut s = a.stream();
        let n: i32 = std::env::var("DEPTH").ok().and_then(|x| x.parse().ok()).unwrap_or(100);
        for _ in 0..n {
            s = s.map(|x: &i32| *x + 1);
        }
        println!("built");
        let out = rec();
        let l = s.listen(push(&out));
        println!("listening");
        a.send(0);
        assert_eq!(get(&out), vec![n]);
        println!("forward ok");
        l.unlisten();
        drop(s);
        drop(l);
        println!("dropped");
        ctx.impl_.collect_cycles();
        println!("collected, nodes {}", ctx.impl_.node_count());
    });
}

// H5: map/snapshot/merge built inside a handler on already-fired streams (catch-up)
#[test]
fn h05_build_inside_handler() {
    let ctx = SodiumCtx::new();
    let s: StreamSink<i32> = ctx.new_stream_sink();
    let t: StreamSink<i32> = ctx.new_stream_sink();
    let out = rec::<i32>();
    let keep: Arc<Mutex<Vec<Listener>>> = Arc::new(Mutex::new(Vec::new()));
    let st = s.stream();
    let tt = t.stream();
    let c = st.hold(0);
    let l0;
    {
        let out = out.clone();
        let keep = keep.clone();
        let st2 = st.clone();
        let tt2 = tt.clone();
        let c = c.clone();
        l0 = st.map(|x: &i32| *x).map(|x: &i32| *x).listen(move |_x: &i32| {
            // merge of two already-fired streams + snapshot of c
            let m = st2
                .merge(&tt2, |a: &i32, b: &i32| *a * 100 + *b)
                .snapshot(&c, |a: &i32, b: &i32| *a * 10 + *b);
            let l = m.listen(push(&out));
            keep.lock().unwrap().push(l);
        });
    }
    ctx.transaction(|| {
        s.send(1);
        t.send(2);
    });
    println!("h05 out {:?}", get(&out));
    assert_eq!(get(&out), vec![1020]);
}

// H6: once
#[test]
fn h06_once_variants() {
    let ctx = SodiumCtx::new();
    let s: StreamSink<i32> = ctx.new_stream_sink();
    let out = rec::<i32>();
    let out2 = rec::<i32>();
    let (o, l, l2) = ctx.transaction(|| {
        s.send(1);
        let o = s.stream().once();
        let l = o.listen(push(&out));
        let o2 = o.once();
        let l2 = o2.listen(push(&out2));
        (o, l, l2)
    });
    s.send(2);
    s.send(3);
    // listen late on once
    let out3 = rec::<i32>();
    let l3 = o.listen(push(&out3));
    s.send(4);
    assert_eq!(get(&out), vec![1]);
    assert_eq!(get(&out2), vec![1]);
    assert_eq!(get(&out3), Vec::<i32>::new());
    // once created now
    let o4 = s.stream().once();
    let o5 = s.stream().filter(|x: &i32| *x > 5).once();
    let out4 = rec::<i32>();
    let out5 = rec::<i32>();
    let l4 = o4.listen(push(&out4));
    let l5 = o5.listen(push(&out5));
    s.send(5);
    s.send(6);
    s.send(7);
    assert_eq!(get(&out4), vec![5]);
    assert_eq!(get(&out5), vec![6]);
}

// H7: once: unobserved for a while (no listener), then listen. Should not fire later.
#[test]
fn h07_once_unobserved() {
    let ctx = SodiumCtx::new();
    let s: StreamSink<i32> = ctx.new_stream_sink();
    let o = s.stream().once();
    s.send(1);
    ctx.impl_.collect_cycles();
    let out = rec::<i32>();
    let l = o.listen(push(&out));
    s.send(2);
    assert_eq!(get(&out), Vec::<i32>::new());
    // once via clone dropped
    let o2 = s.stream().once();
    let o2c = o2.clone();
    drop(o2);
    ctx.impl_.collect_cycles();
    let out2 = rec::<i32>();
    let l2 = o2c.listen(push(&out2));
    s.send(3);
    s.send(4);
    assert_eq!(get(&out2), vec![3]);
}

// H8: merge with itself, merge left/right with reversed creation order through a StreamLoop
#[test]
fn h08_merge_shapes() {
    let ctx = SodiumCtx::new();
    let s: StreamSink<i32> = ctx.new_stream_sink();
    let st = s.stream();
    let out = rec::<String>();
    let m = st
        .map(|x: &i32| format!("L{}", x))
        .merge(&st.map(|x: &i32| format!("R{}", x)), |a: &String, b: &String| format!("{}{}", a, b));
    let mm = m.merge(&m, |a: &String, b: &String| format!("({}|{})", a, b));
    let l = mm.listen(push(&out));
    s.send(1);
    assert_eq!(get(&out), vec!["(L1R1|L1R1)".to_string()]);
    // reversed creation order
    let out2 = rec::<String>();
    let l2 = ctx.transaction(|| {
        let sl: StreamLoop<String> = ctx.new_stream_loop();
        let merged = st
            .map(|x: &i32| format!("a{}", x))
            .merge(&sl.stream(), |a: &String, b: &String| format!("{}+{}", a, b));
        let l2 = merged.listen(push(&out2));
        let late = st.map(|x: &i32| *x + 1).map(|x: &i32| *x + 1).map(|x: &i32| format!("b{}", x));
        sl.loop_(&late);
        l2
    });
    s.send(5);
    assert_eq!(get(&out2), vec!["a5+b7".to_string()]);
}

// H9: cell listen inside transactions with sends to lift inputs
#[test]
fn h09_cell_listen_in_txn() {
    let ctx = SodiumCtx::new();
    let a: CellSink<i32> = ctx.new_cell_sink(1);
    let b: CellSink<i32> = ctx.new_cell_sink(2);
    let out = rec::<i32>();
    let l = ctx.transaction(|| {
        a.send(10);
        let s = a.cell().lift2(&b.cell(), |x: &i32, y: &i32| *x * 100 + *y);
        b.send(20);
        let l = s.listen(push(&out));
        l
    });
    assert_eq!(get(&out), vec![1020]);
    ctx.transaction(|| {
        a.send(11);
        b.send(21);
    });
    assert_eq!(get(&out), vec![1020, 1121]);
    // listen before the sends, in txn
    let out2 = rec::<i32>();
    let s = a.cell().lift2(&b.cell(), |x: &i32, y: &i32| *x * 100 + *y);
    assert_eq!(s.sample(), 1121);
    let l2 = ctx.transaction(|| {
        let l2 = s.listen(push(&out2));
        a.send(12);
        assert_eq!(s.sample(), 1121);
        l2
    });
    assert_eq!(get(&out2), vec![1221]);
    assert_eq!(s.sample(), 1221);
}

// H10: listen on a cell from inside a handler
#[test]
fn h10_cell_listen_inside_handler() {
    let ctx = SodiumCtx::new();
    let a: CellSink<i32> = ctx.new_cell_sink(1);
    let t: StreamSink<i32> = ctx.new_stream_sink();
    let out = rec::<i32>();
    let keep: Arc<Mutex<Vec<Listener>>> = Arc::new(Mutex::new(Vec::new()));
    let m = a.cell().map(|x: &i32| *x + 1000);
    let l0;
    {
        let out = out.clone();
        let keep = keep.clone();
        let m = m.clone();
        l0 = t.stream().listen(move |_x: &i32| {
            let l = m.listen(push(&out));
            keep.lock().unwrap().push(l);
        });
    }
    // a updated in the same transaction, sent first so it is processed first
    ctx.transaction(|| {
        a.send(5);
        t.send(0);
    });
    println!("h10 {:?}", get(&out));
    assert_eq!(get(&out), vec![1005]);
    assert_eq!(m.sample(), 1005);
}

fn nodes(ctx: &SodiumCtx) -> usize {
    ctx.impl_.collect_cycles();
    ctx.impl_.node_count()
}

// H11: growth: repeated build/drop patterns must return to the baseline node count
#[test]
fn h11_growth() {
    let ctx = SodiumCtx::new();
    let s: StreamSink<i32> = ctx.new_stream_sink();
    let cs: CellSink<i32> = ctx.new_cell_sink(0);
    let vs: StreamSink<Vec<i32>> = ctx.new_stream_sink();
    let st = s.stream();
    let c = cs.cell();
    let router = ctx.new_router(&st, |x: &i32| vec![*x % 3]);
    s.send(0);
    let base = nodes(&ctx);
    let mut report = Vec::new();
    macro_rules! pat {
        ($name:expr, $body:block) => {{
            for i in 0..5 {
                $body;
                s.send(i);
                cs.send(i);
                vs.send(vec![i, i + 1]);
            }
            s.send(99);
            let n = nodes(&ctx);
            report.push(($name, n));
        }};
    }
    pat!("map+listen+unlisten", {
        let l = st.map(|x: &i32| *x + 1).listen(|_: &i32| {});
        s.send(1);
        l.unlisten();
    });
    pat!("cell listen/unlisten", {
        let l = c.listen(|_: &i32| {});
        cs.send(1);
        l.unlisten();
    });
    pat!("cell listen_weak drop", {
        let l = c.listen_weak(|_: &i32| {});
        cs.send(1);
        drop(l);
    });
    pat!("lift2 drop", {
        let x = c.lift2(&c.map(|x: &i32| *x + 1), |a: &i32, b: &i32| *a + *b);
        cs.send(2);
        let _ = x.sample();
    });
    pat!("lift2 unsampled drop", {
        let x = c.lift2(&c.map(|x: &i32| *x + 1), |a: &i32, b: &i32| *a + *b);
    });
    pat!("accum", {
        let x = st.accum(0, |a: &i32, s: &i32| *a + *s);
        s.send(2);
    });
    pat!("collect", {
        let x = st.collect(0, |a: &i32, s: &i32| (*a + *s, *a + *s));
        let l = x.listen(|_: &i32| {});
        s.send(2);
        l.unlisten();
    });
    pat!("once fired", {
        let x = st.once();
        let l = x.listen(|_: &i32| {});
        s.send(2);
        l.unlisten();
    });
    pat!("once unfired", {
        let x = st.once();
    });
    pat!("defer", {
        let x = Operational::defer(&st);
        let l = x.listen(|_: &i32| {});
        s.send(2);
        l.unlisten();
    });
    pat!("split", {
        let x = vs.stream().split();
        let l = x.listen(|_: &i32| {});
        vs.send(vec![1, 2, 3]);
        l.unlisten();
    });
    pat!("value", {
        let x = Operational::value(&c);
        let l = x.listen(|_: &i32| {});
        cs.send(2);
        l.unlisten();
    });
    pat!("router", {
        let x = router.filter_matches(&1);
        let l = x.listen(|_: &i32| {});
        s.send(1);
        l.unlisten();
    });
    pat!("switch_s", {
        let cc = st.map({
            let st = vs.stream();
            move |x: &i32| st.map(|v: &Vec<i32>| v.len() as i32)
        }).hold(ctx.new_stream());
        let x = Cell::switch_s(&cc);
        let l = x.listen(|_: &i32| {});
        s.send(1);
        vs.send(vec![1]);
        l.unlisten();
    });
    pat!("switch_c", {
        let c2 = c.clone();
        let cc = st.map(move |x: &i32| { let x = *x; c2.map(move |y: &i32| *y + x) }).hold(c.clone());
        let x = Cell::switch_c(&cc);
        let l = x.listen(|_: &i32| {});
        s.send(1);
        cs.send(5);
        l.unlisten();
    });
    pat!("gate/snapshot/filter", {
        let g = st.gate(&c.map(|x: &i32| *x > 0)).snapshot(&c, |a: &i32, b: &i32| *a + *b).filter(|x: &i32| *x > 0);
        let l = g.listen(|_: &i32| {});
        s.send(1);
        l.unlisten();
    });
    pat!("cell loop", {
        ctx.transaction(|| {
            let cl: CellLoop<i32> = ctx.new_cell_loop();
            let x = st.snapshot(&cl.cell(), |a: &i32, b: &i32| *a + *b).hold(0);
            cl.loop_(&x);
        });
    });
    pat!("build in map lambda", {
        let c2 = c.clone();
        let st2 = vs.stream();
        let x = st.map(move |x: &i32| {
            let h = st2.map(|v: &Vec<i32>| v.len() as i32).hold(0);
            h.lift2(&c2, |a: &i32, b: &i32| *a + *b)
        });
        let l = x.listen(|_c: &Cell<i32>| {});
        s.send(1);
        l.unlisten();
    });
    println!("base {} report {:?}", base, report);
    for (name, n) in &report {
        assert_eq!(*n, base, "pattern {} grew", name);
    }
}

// H12: C09 creation order: listener attached from a handler; only the creation order of the
// two independent definitions `l1` and `m` differs.
fn h12_prog(map_first: bool) -> Vec<i32> {
    let ctx = SodiumCtx::new();
    let s: StreamSink<i32> = ctx.new_stream_sink();
    let src = s.stream().map(|x: &i32| *x); // avoid listening on the sink itself
    let out = rec::<i32>();
    let keep: Arc<Mutex<Vec<Listener>>> = Arc::new(Mutex::new(Vec::new()));
    let slot: Arc<Mutex<Option<Stream<i32>>>> = Arc::new(Mutex::new(None));
    let mk_l1 = || {
        let out = out.clone();
        let keep = keep.clone();
        let slot = slot.clone();
        src.listen(move |_x: &i32| {
            let m = slot.lock().unwrap().clone().unwrap();
            let mut keep = keep.lock().unwrap();
            if keep.is_empty() {
                keep.push(m.listen(push(&out)));
            }
        })
    };
    let mk_m = || {
        let m = src.map(|x: &i32| *x * 10);
        *slot.lock().unwrap() = Some(m);
    };
    let l1;
    if map_first {
        mk_m();
        l1 = mk_l1();
    } else {
        l1 = mk_l1();
        mk_m();
    }
    s.send(1);
    s.send(2);
    get(&out)
}
#[test]
fn h12_listen_in_handler_creation_order() {
    let a = h12_prog(false);
    let b = h12_prog(true);
    println!("h12 listener-first {:?} map-first {:?}", a, b);
    assert_eq!(a, b);
}

// H13: explicit collections at odd moments
#[test]
fn h13_collect_at_odd_moments() {
    let ctx = SodiumCtx::new();
    let s: StreamSink<i32> = ctx.new_stream_sink();
    let out = rec::<i32>();
    let (l, l2) = ctx.transaction(|| {
        let sl: StreamLoop<i32> = ctx.new_stream_loop();
        let x = sl.stream().map(|x: &i32| *x + 1);
        ctx.impl_.collect_cycles();
        let acc = s.stream().accum(0, |a: &i32, b: &i32| *a + *b);
        ctx.impl_.collect_cycles();
        sl.loop_(&s.stream().snapshot(&acc, |a: &i32, b: &i32| *a + *b));
        let ctx2 = ctx.clone();
        let y = x.map(move |v: &i32| {
            ctx2.impl_.collect_cycles();
            *v
        });
        let ctx3 = ctx.clone();
        let l2 = y.listen(move |_: &i32| ctx3.impl_.collect_cycles());
        (y.listen(push(&out)), l2)
    });
    s.send(1);
    s.send(2);
    s.send(3);
    assert_eq!(get(&out), vec![2, 4, 7]);
}

// H14: scoped transactions closed in odd order
#[test]
fn h14_scoped_transactions() {
    let ctx = SodiumCtx::new();
    let a: StreamSink<i32> = ctx.new_stream_sink();
    let b: StreamSink<i32> = ctx.new_stream_sink();
    let out = rec::<i32>();
    let l = a.stream().merge(&b.stream(), |x: &i32, y: &i32| *x * 10 + *y).listen(push(&out));
    let t1 = ctx.new_transaction();
    a.send(1);
    let t2 = ctx.new_transaction();
    t1.close();
    t1.close();
    b.send(2);
    assert_eq!(get(&out), Vec::<i32>::new());
    drop(t1);
    assert_eq!(get(&out), Vec::<i32>::new());
    t2.close();
    assert_eq!(get(&out), vec![12]);
    drop(t2);
    a.send(3);
    assert_eq!(get(&out), vec![12, 3]);
}

// H15: long history, no growth
#[test]
fn h15_long_history() {
    let ctx = SodiumCtx::new();
    let s: StreamSink<i32> = ctx.new_stream_sink();
    let acc = s.stream().accum(0i64, |a: &i32, b: &i64| *a as i64 + *b);
    let d = Operational::defer(&s.stream());
    let cnt = Arc::new(Mutex::new(0i64));
    let l = {
        let cnt = cnt.clone();
        d.snapshot(&acc, |_: &i32, b: &i64| *b).listen(move |x: &i64| *cnt.lock().unwrap() = *x)
    };
    s.send(0);
    let n0 = nodes(&ctx);
    for i in 0..20000 {
        s.send(1);
    }
    let n1 = nodes(&ctx);
    assert_eq!(n0, n1);
    assert_eq!(*cnt.lock().unwrap(), 20000);
    assert_eq!(acc.sample(), 20000);
}

// H16: diamonds of lifts, single callback per transaction
#[test]
fn h16_lift_diamond_counts() {
    let ctx = SodiumCtx::new();
    let a: CellSink<i32> = ctx.new_cell_sink(1);
    let b: CellSink<i32> = ctx.new_cell_sink(2);
    let ca = a.cell();
    let cb = b.cell();
    let x = ca.lift2(&ca, |p: &i32, q: &i32| *p + *q);
    let y = x.lift3(&ca.map(|v: &i32| *v * 3), &cb, |p: &i32, q: &i32, r: &i32| *p + *q + *r);
    let z = y.lift6(&x, &ca, &cb, &y, &x, |p: &i32, q: &i32, r: &i32, s: &i32, t: &i32, u: &i32| {
        format!("{} {} {} {} {} {}", p, q, r, s, t, u)
    });
    let out = rec::<String>();
    let upd = rec::<String>();
    let l = z.listen(push(&out));
    let l2 = z.updates().listen(push(&upd));
    a.send(2);
    ctx.transaction(|| {
        b.send(5);
        a.send(3);
    });
    b.send(7);
    println!("{:?}", get(&out));
    assert_eq!(
        get(&out),
        vec!["7 2 1 2 7 2", "12 4 2 2 12 4", "20 6 3 5 20 6", "22 6 3 7 22 6"]
    );
    assert_eq!(get(&upd), vec!["12 4 2 2 12 4", "20 6 3 5 20 6", "22 6 3 7 22 6"]);
}

// H17: hold built inside a map lambda on a stream that may already have fired: creation order
fn h17_prog(q_first: bool) -> (i32, i32) {
    let ctx = SodiumCtx::new();
    let s: StreamSink<i32> = ctx.new_stream_sink();
    let src = s.stream().map(|x: &i32| *x);
    let slot: Arc<Mutex<Option<Stream<i32>>>> = Arc::new(Mutex::new(None));
    let mk_q = || {
        let q = src.map(|x: &i32| *x + 100);
        *slot.lock().unwrap() = Some(q);
    };
    let mk_p = || {
        let slot = slot.clone();
        src.map(move |_x: &i32| {
            let q = slot.lock().unwrap().clone().unwrap();
            q.hold(0)
        })
        .hold(Cell::new(&ctx, -1))
    };
    let p;
    if q_first {
        mk_q();
        p = mk_p();
    } else {
        p = mk_p();
        mk_q();
    }
    s.send(1);
    let inner = p.sample();
    let v1 = inner.sample();
    ctx.transaction(|| {});
    let v2 = inner.sample();
    (v1, v2)
}
#[test]
fn h17_hold_in_lambda_creation_order() {
    let a = h17_prog(false);
    let b = h17_prog(true);
    println!("h17 p-first {:?} q-first {:?}", a, b);
    assert_eq!(a, b);
    assert_eq!(a.0, 101);
}

// H18: Java-suite style value() compositions
#[test]
fn h18_value_compositions() {
    let ctx = SodiumCtx::new();
    let c: CellSink<i32> = ctx.new_cell_sink(9);
    // values then once
    let out = rec::<i32>();
    let l = ctx.transaction(|| Operational::value(&c.cell()).once().listen(push(&out)));
    c.send(8);
    c.send(7);
    assert_eq!(get(&out), vec![9]);
    // values twice then map
    let out2 = rec::<i32>();
    let l2 = ctx.transaction(|| {
        let v = Operational::value(&c.cell());
        let v2 = Operational::value(&v.hold(0)).map(|x: &i32| *x + 100);
        v2.listen(push(&out2))
    });
    c.send(2);
    c.send(3);
    println!("h18 twice {:?}", get(&out2));
    assert_eq!(get(&out2), vec![107, 102, 103]);
    // values late listen
    let v = Operational::value(&c.cell());
    let out3 = rec::<i32>();
    let l3 = v.listen(push(&out3));
    c.send(4);
    assert_eq!(get(&out3), vec![4]);
    // value then snapshot / merge / filter in same txn with a send
    let out4 = rec::<i32>();
    let l4 = ctx.transaction(|| {
        c.send(5);
        let v = Operational::value(&c.cell());
        let r = v
            .merge(&v.map(|x: &i32| *x * 2), |a: &i32, b: &i32| *a * 1000 + *b)
            .snapshot(&c.cell(), |a: &i32, b: &i32| *a * 10 + *b)
            .filter(|x: &i32| *x > 0);
        r.listen(push(&out4))
    });
    println!("h18 {:?}", get(&out4));
    assert_eq!(get(&out4), vec![50104]);
}

// H19: cell listen from a handler when the cell updates later in the same transaction
#[test]
fn h19_cell_listen_in_handler_cell_later() {
    let ctx = SodiumCtx::new();
    let a: StreamSink<i32> = ctx.new_stream_sink();
    let t: StreamSink<i32> = ctx.new_stream_sink();
    // long path to the cell so it settles after the handler ran
    let c = a
        .stream()
        .map(|x: &i32| *x)
        .map(|x: &i32| *x)
        .map(|x: &i32| *x)
        .map(|x: &i32| *x)
        .hold(0);
    let m = c.map(|x: &i32| *x + 1000);
    let out = rec::<i32>();
    let keep: Arc<Mutex<Vec<Listener>>> = Arc::new(Mutex::new(Vec::new()));
    let l0;
    {
        let out = out.clone();
        let keep = keep.clone();
        let m = m.clone();
        l0 = t.stream().listen(move |_x: &i32| {
            let l = m.listen(push(&out));
            keep.lock().unwrap().push(l);
        });
    }
    ctx.transaction(|| {
        t.send(0);
        a.send(5);
    });
    println!("h19 {:?}", get(&out));
    assert_eq!(get(&out), vec![1005]);
}

// H20: C13: c = q.hold(0); m = c.map(f) built inside a map lambda after q fired
#[test]
fn h20_map_of_hold_built_in_lambda() {
    let ctx = SodiumCtx::new();
    let s: StreamSink<i32> = ctx.new_stream_sink();
    let b: CellSink<i32> = ctx.new_cell_sink(7);
    let src = s.stream().map(|x: &i32| *x);
    let q = src.map(|x: &i32| *x + 100);
    let bc = b.cell();
    let p = {
        let q = q.clone();
        src.map(move |_x: &i32| {
            let c = q.hold(0);
            let m = c.map(|x: &i32| *x + 1);
            let l = c.lift2(&bc, |x: &i32, y: &i32| *x * 10 + *y);
            (c, m, l)
        })
        .hold((Cell::new(&ctx, -1), Cell::new(&ctx, -1), Cell::new(&ctx, -1)))
    };
    s.send(1);
    let (c, m, l) = p.sample();
    println!("h20 c={} m={} l={}", c.sample(), m.sample(), l.sample());
    assert_eq!(m.sample(), c.sample() + 1);
    assert_eq!(l.sample(), c.sample() * 10 + 7);
}

// H21: switch_s built inside a map lambda whose cell updates later in the same transaction
#[test]
fn h21_switch_s_built_in_lambda() {
    let ctx = SodiumCtx::new();
    let s: StreamSink<i32> = ctx.new_stream_sink();
    let e: StreamSink<i32> = ctx.new_stream_sink();
    let src = s.stream().map(|x: &i32| *x);
    let x = src.map(|x: &i32| *x).map(|x: &i32| *x).map(|x: &i32| *x);
    let es = e.stream();
    let never: Stream<i32> = ctx.new_stream();
    let p = {
        let x = x.clone();
        let es = es.clone();
        let never = never.clone();
        src.map(move |_x: &i32| {
            let es = es.clone();
            let csa = x.map(move |v: &i32| { let v = *v; es.map(move |w: &i32| *w + v) }).hold(never.clone());
            Cell::switch_s(&csa)
        })
        .hold(ctx.new_stream())
    };
    let out = rec::<i32>();
    let l = Cell::switch_s(&p).listen(push(&out));
    s.send(1000);
    e.send(1);
    e.send(2);
    println!("h21 {:?}", get(&out));
    assert_eq!(get(&out), vec![1001, 1002]);
}

// H22: switch_c built inside a map lambda whose outer cell updates later in the same transaction
#[test]
fn h22_switch_c_built_in_lambda() {
    let ctx = SodiumCtx::new();
    let s: StreamSink<i32> = ctx.new_stream_sink();
    let e: CellSink<i32> = ctx.new_cell_sink(5);
    let src = s.stream().map(|x: &i32| *x);
    let x = src.map(|x: &i32| *x).map(|x: &i32| *x).map(|x: &i32| *x);
    let ec = e.cell();
    let zero = Cell::new(&ctx, 0);
    let p = {
        let x = x.clone();
        let ec = ec.clone();
        let zero = zero.clone();
        src.map(move |_x: &i32| {
            let ec = ec.clone();
            let cca = x.map(move |v: &i32| { let v = *v; ec.map(move |w: &i32| *w + v) }).hold(zero.clone());
            Cell::switch_c(&cca)
        })
        .hold(Cell::new(&ctx, -1))
    };
    let out = rec::<i32>();
    let l = Cell::switch_c(&p).listen(push(&out));
    s.send(1000);
    e.send(6);
    println!("h22 {:?}", get(&out));
    assert_eq!(get(&out), vec![-1, 1005, 1006]);
}

// H23: last handle of a derived stream dropped inside a handler of the transaction in which it is queued
#[test]
fn h23_drop_stream_in_handler() {
    let ctx = SodiumCtx::new();
    let s: StreamSink<i32> = ctx.new_stream_sink();
    let src = s.stream().map(|x: &i32| *x);
    let slot: Arc<Mutex<Option<Stream<i32>>>> = Arc::new(Mutex::new(None));
    let l = {
        let slot = slot.clone();
        src.listen(move |_x: &i32| {
            slot.lock().unwrap().take();
        })
    };
    *slot.lock().unwrap() = Some(src.map(|x: &i32| *x + 1));
    s.send(1);
    s.send(2);
    println!("h23 survived");
}

// H24: same with a cell (hold)
#[test]
fn h24_drop_cell_in_handler() {
    let ctx = SodiumCtx::new();
    let s: StreamSink<i32> = ctx.new_stream_sink();
    let src = s.stream().map(|x: &i32| *x);
    let slot: Arc<Mutex<Option<Cell<i32>>>> = Arc::new(Mutex::new(None));
    let l = {
        let slot = slot.clone();
        src.listen(move |_x: &i32| {
            slot.lock().unwrap().take();
        })
    };
    *slot.lock().unwrap() = Some(src.hold(0));
    s.send(1);
    s.send(2);
    println!("h24 survived");
}

// H25: assorted C02 sanity: gate/filter_option/map_to/snapshot3-6 with same-transaction cell updates
#[test]
fn h25_c02_sanity() {
    let ctx = SodiumCtx::new();
    let s: StreamSink<i32> = ctx.new_stream_sink();
    let g: CellSink<bool> = ctx.new_cell_sink(false);
    let c1: CellSink<i32> = ctx.new_cell_sink(1);
    let c2 = c1.cell().map(|x: &i32| *x * 2);
    let c3 = c2.lift2(&c1.cell(), |a: &i32, b: &i32| *a + *b);
    let st = s.stream();
    let out = rec::<String>();
    let r = st
        .gate(&g.cell())
        .map(|x: &i32| if *x % 2 == 0 { Some(*x) } else { None })
        .filter_option()
        .snapshot6(&c1.cell(), &c2, &c3, &c1.cell(), &c2, |a: &i32, b: &i32, c: &i32, d: &i32, e: &i32, f: &i32| {
            format!("{} {} {} {} {} {}", a, b, c, d, e, f)
        });
    let l = r.listen(push(&out));
    let out2 = rec::<&'static str>();
    let l2 = st.map_to("x").listen(push(&out2));
    ctx.transaction(|| {
        s.send(2);
        g.send(true);
        c1.send(10);
    });
    ctx.transaction(|| {
        g.send(false);
        s.send(4);
        c1.send(20);
    });
    s.send(6);
    ctx.transaction(|| {
        g.send(true);
        c1.send(30);
    });
    s.send(7);
    s.send(8);
    assert_eq!(get(&out), vec!["4 10 20 30 10 20", "8 30 60 90 30 60"]);
    assert_eq!(get(&out2).len(), 5);
}

// H26: coalescer with several sends, merge with itself, hold
#[test]
fn h26_coalesce() {
    let ctx = SodiumCtx::new();
    let s: StreamSink<i32> = ctx.new_stream_sink_with_coalescer(|a: &i32, b: &i32| *a * 10 + *b);
    let st = s.stream();
    let m = st.merge(&st.map(|x: &i32| *x + 1), |a: &i32, b: &i32| *a * 1000 + *b);
    let c = m.hold(0);
    let out = rec::<i32>();
    let l = c.listen(push(&out));
    ctx.transaction(|| {
        s.send(1);
        s.send(2);
        let _x = st.map(|x: &i32| *x);
        s.send(3);
    });
    s.send(4);
    ctx.transaction(|| {
        s.send(5);
        s.send(6);
    });
    assert_eq!(get(&out), vec![0, 123124, 4005, 56057]);
}

// H27: split/defer ordering and post from handlers
#[test]
fn h27_split_defer_order() {
    let prog = |swap: bool| {
        let ctx = SodiumCtx::new();
        let s: StreamSink<Vec<i32>> = ctx.new_stream_sink();
        let out = rec::<String>();
        let st = s.stream();
        let (a, b);
        if swap {
            b = st.map(|v: &Vec<i32>| v.len() as i32);
            a = st.split();
        } else {
            a = st.split();
            b = st.map(|v: &Vec<i32>| v.len() as i32);
        }
        let acc = a.accum(0, |x: &i32, s: &i32| *x + *s);
        let d = Operational::defer(&a.map(|x: &i32| *x * 100));
        let o1 = out.clone();
        let o2 = out.clone();
        let o3 = out.clone();
        let l1 = a.snapshot(&acc, |x: &i32, s: &i32| format!("a{}:{}", x, s)).listen(move |x: &String| o1.lock().unwrap().push(x.clone()));
        let l2 = d.snapshot(&acc, |x: &i32, s: &i32| format!("d{}:{}", x, s)).listen(move |x: &String| o2.lock().unwrap().push(x.clone()));
        let l3 = b.listen(move |x: &i32| o3.lock().unwrap().push(format!("b{}", x)));
        s.send(vec![1, 2, 3]);
        s.send(vec![]);
        s.send(vec![4]);
        get(&out)
    };
    let x = prog(false);
    let y = prog(true);
    println!("h27 {:?}", x);
    assert_eq!(x, y);
    assert_eq!(
        x,
        vec!["b3", "a1:0", "d100:1", "a2:1", "d200:3", "a3:3", "d300:6", "b0", "b1", "a4:6", "d400:10"]
    );
}

// H28: cell listen inside a post callback, and post from a handler
#[test]
fn h28_post() {
    let ctx = SodiumCtx::new();
    let s: StreamSink<i32> = ctx.new_stream_sink();
    let c = s.stream().hold(0);
    let out = rec::<i32>();
    let keep: Arc<Mutex<Vec<Listener>>> = Arc::new(Mutex::new(Vec::new()));
    let l = {
        let ctx2 = ctx.clone();
        let c = c.clone();
        let out = out.clone();
        let keep = keep.clone();
        s.stream().map(|x: &i32| *x).listen(move |x: &i32| {
            let c = c.clone();
            let out = out.clone();
            let keep = keep.clone();
            let x = *x;
            ctx2.post(move || {
                out.lock().unwrap().push(-x);
                if keep.lock().unwrap().is_empty() {
                    let l = c.listen(push(&out));
                    keep.lock().unwrap().push(l);
                }
            });
        })
    };
    s.send(1);
    s.send(2);
    assert_eq!(get(&out), vec![-1, 1, 2, -2]);
}

// H29: a Lazy obtained by sample_lazy outlives the cell; its thunk owns the mapping function and
// through it a handle that the (dropped) map node declared
#[test]
fn h29_user_held_lazy_outlives_cell() {
    let ctx = SodiumCtx::new();
    let lz;
    {
        let a: CellSink<i32> = ctx.new_cell_sink(1);
        let zs: CellSink<i32> = ctx.new_cell_sink(100);
        let z = zs.cell();
        let zdep = z.to_dep();
        let m = a.cell().map(lambda1(move |x: &i32| *x + z.sample(), vec![zdep]));
        lz = m.sample_lazy();
    }
    println!("h29 collecting");
    ctx.impl_.collect_cycles();
    println!("h29 collected, nodes {}", ctx.impl_.node_count());
    let v = lz.run();
    println!("h29 v {}", v);
    assert_eq!(v, 101);
    drop(lz);
    assert_eq!(nodes(&ctx), 0);
}

// H30: as H29 but the mapped cell is part of a (garbage) cycle, so its nodes are alive when collected
#[test]
fn h30_user_held_lazy_outlives_cycle() {
    let ctx = SodiumCtx::new();
    let lz;
    {
        let s: StreamSink<i32> = ctx.new_stream_sink();
        let zs: CellSink<i32> = ctx.new_cell_sink(100);
        let z = zs.cell();
        let keep = ctx.transaction(|| {
            let cl: CellLoop<i32> = ctx.new_cell_loop();
            let zdep = z.to_dep();
            let z2 = z.clone();
            let m = cl.cell().map(lambda1(move |x: &i32| *x + z2.sample(), vec![zdep]));
            let x = s.stream().snapshot(&m, |a: &i32, b: &i32| *a + *b).hold(0);
            cl.loop_(&x);
            (m.sample_lazy(), m, x)
        });
        drop(z);
        drop(zs);
        ctx.impl_.collect_cycles();
        lz = keep.0.clone();
        // the cycle becomes garbage here; z's node is now referenced by the mapping function only
    }
    println!("h30 collecting");
    ctx.impl_.collect_cycles();
    println!("h30 collected, nodes {}", ctx.impl_.node_count());
    let v = lz.run();
    println!("h30 v {}", v);
    drop(lz);
    assert_eq!(nodes(&ctx), 0);
}
