#![allow(unused)]
use sodium_rust::*;
use std::sync::{Arc, Mutex};
use std::time::Duration;

fn rec<A: Clone + Send + 'static>() -> (Arc<Mutex<Vec<A>>>, impl FnMut(&A) + Send + Sync + 'static) {
    let out: Arc<Mutex<Vec<A>>> = Arc::new(Mutex::new(Vec::new()));
    let o2 = out.clone();
    (out, move |a: &A| o2.lock().unwrap().push(a.clone()))
}

fn watchdog<F: FnOnce() + Send + 'static>(name: &str, secs: u64, f: F) {
    let (tx, rx) = std::sync::mpsc::channel();
    let h = std::thread::spawn(move || {
        f();
        let _ = tx.send(());
    });
    match rx.recv_timeout(Duration::from_secs(secs)) {
        Ok(()) => { h.join().unwrap(); }
        Err(std::sync::mpsc::RecvTimeoutError::Timeout) => panic!("HANG in {}", name),
        Err(_) => { if let Err(e) = h.join() { std::panic::resume_unwind(e); } }
    }
}

// H1: listener registered inside a handler on a stream already fired+visited this transaction
#[test]
fn h01_listen_in_handler_on_fired_stream() {
    watchdog("h01", 10, || {
        let ctx = SodiumCtx::new();
        let ss: StreamSink<i32> = ctx.new_stream_sink();
        let m = ss.stream().map(|x: &i32| x + 100);
        let (out, k) = rec::<i32>();
        let k = Arc::new(Mutex::new(Some(k)));
        let inner: Arc<Mutex<Vec<Listener>>> = Arc::new(Mutex::new(Vec::new()));
        let inner2 = inner.clone();
        let m2 = m.clone();
        let l = ss.stream().listen(move |_x: &i32| {
            if let Some(k) = k.lock().unwrap().take() {
                inner2.lock().unwrap().push(m2.listen(k));
            }
        });
        ss.send(1);
        ss.send(2);
        println!("h01 out = {:?}", out.lock().unwrap());
        assert_eq!(*out.lock().unwrap(), vec![101, 102]);
    });
}

// H2: cell.listen inside a handler; cell updated in this transaction and already visited
#[test]
fn h02_cell_listen_in_handler() {
    watchdog("h02", 10, || {
        let ctx = SodiumCtx::new();
        let ss: StreamSink<i32> = ctx.new_stream_sink();
        let c = ss.stream().hold(0);
        let c2 = c.map(|x: &i32| x * 10);
        let (out, k) = rec::<i32>();
        let k = Arc::new(Mutex::new(Some(k)));
        let inner: Arc<Mutex<Vec<Listener>>> = Arc::new(Mutex::new(Vec::new()));
        let inner2 = inner.clone();
        let c2b = c2.clone();
        // listener registered last so it runs after c2's nodes
        let l = ss.stream().listen(move |_x: &i32| {
            if let Some(k) = k.lock().unwrap().take() {
                inner2.lock().unwrap().push(c2b.listen(k));
            }
        });
        ss.send(1);
        ss.send(2);
        println!("h02 out = {:?}", out.lock().unwrap());
        assert_eq!(*out.lock().unwrap(), vec![10, 20]);
    });
}

// H3: route requested inside a handler after router node was updated
#[test]
fn h03_route_in_handler() {
    watchdog("h03", 10, || {
        let ctx = SodiumCtx::new();
        let ss: StreamSink<i32> = ctx.new_stream_sink();
        let r: Arc<Router<i32, i32>> = Arc::new(ctx.new_router(&ss.stream(), |x: &i32| vec![x % 2]));
        let (out, k) = rec::<i32>();
        let k = Arc::new(Mutex::new(Some(k)));
        let inner: Arc<Mutex<Vec<Listener>>> = Arc::new(Mutex::new(Vec::new()));
        let inner2 = inner.clone();
        let r2 = r.clone();
        let l = ss.stream().listen(move |_x: &i32| {
            if let Some(k) = k.lock().unwrap().take() {
                inner2.lock().unwrap().push(r2.filter_matches(&1).listen(k));
            }
        });
        ss.send(1);
        ss.send(3);
        println!("h03 out = {:?}", out.lock().unwrap());
        assert_eq!(*out.lock().unwrap(), vec![1, 3]);
    });
}

// H4: switch_s built inside a handler; inner stream fires later in the same transaction
#[test]
fn h04_switch_s_in_handler() {
    watchdog("h04", 10, || {
        let ctx = SodiumCtx::new();
        let ss: StreamSink<i32> = ctx.new_stream_sink();
        let m = ss.stream().map(|x: &i32| x + 1).map(|x: &i32| x + 1).map(|x: &i32| x + 1);
        let csa = ctx.new_cell(m.clone());
        let (out, k) = rec::<i32>();
        let k = Arc::new(Mutex::new(Some(k)));
        let inner: Arc<Mutex<Vec<Listener>>> = Arc::new(Mutex::new(Vec::new()));
        let inner2 = inner.clone();
        let l = ss.stream().listen(move |_x: &i32| {
            if let Some(k) = k.lock().unwrap().take() {
                inner2.lock().unwrap().push(Cell::switch_s(&csa).listen(k));
            }
        });
        ss.send(1);
        ss.send(2);
        println!("h04 out = {:?}", out.lock().unwrap());
        assert_eq!(*out.lock().unwrap(), vec![4, 5]);
    });
}

// H5: switch_c built inside a handler; outer cell updates later in the same transaction
#[test]
fn h05_switch_c_in_handler() {
    watchdog("h05", 10, || {
        let ctx = SodiumCtx::new();
        let ss: StreamSink<i32> = ctx.new_stream_sink();
        let c1 = ctx.new_cell(100);
        let c2 = ctx.new_cell(200);
        let c1b = c1.clone();
        let c2b = c2.clone();
        let cca = ss.stream().map(|x: &i32| *x).map(|x: &i32| *x).map(move |x: &i32| if x % 2 == 0 { c1b.clone() } else { c2b.clone() }).hold(c1.clone());
        let (out, k) = rec::<i32>();
        let k = Arc::new(Mutex::new(Some(k)));
        let inner: Arc<Mutex<Vec<Listener>>> = Arc::new(Mutex::new(Vec::new()));
        let inner2 = inner.clone();
        let l = ss.stream().listen(move |_x: &i32| {
            if let Some(k) = k.lock().unwrap().take() {
                inner2.lock().unwrap().push(Cell::switch_c(&cca).listen(k));
            }
        });
        ss.send(1);
        ss.send(2);
        println!("h05 out = {:?}", out.lock().unwrap());
        assert_eq!(*out.lock().unwrap(), vec![200, 100]);
    });
}

// H6: canonical dynamic FRP: new inner cell built with hold inside the map closure, on a stream that
// already fired in this transaction
#[test]
fn h06_switch_c_new_cell_hold_in_map() {
    watchdog("h06", 10, || {
        let ctx = SodiumCtx::new();
        let ss: StreamSink<i32> = ctx.new_stream_sink();
        let other = ss.stream().map(|x: &i32| x * 10);
        let other2 = other.clone();
        let cca = ss.stream().map(|x: &i32| *x).map(|x: &i32| *x)
            .map(move |x: &i32| other2.hold(*x)).hold(ctx.new_cell(0));
        let sw = Cell::switch_c(&cca);
        let (out, k) = rec::<i32>();
        let l = sw.listen(k);
        ss.send(1);
        let held = cca.sample().sample();
        println!("h06 out = {:?} sw={} held={}", out.lock().unwrap(), sw.sample(), held);
        assert_eq!(sw.sample(), held);
        ss.send(2);
        let held = cca.sample().sample();
        println!("h06 out = {:?} sw={} held={}", out.lock().unwrap(), sw.sample(), held);
        assert_eq!(sw.sample(), held);
    });
}

// H7: nested switch_c built inside a map closure
#[test]
fn h07_nested_switch_c_in_map() {
    watchdog("h07", 10, || {
        let ctx = SodiumCtx::new();
        let ss: StreamSink<i32> = ctx.new_stream_sink();
        let a = ss.stream().map(|x: &i32| x + 1000).hold(1000);
        let b = ss.stream().map(|x: &i32| x + 2000).hold(2000);
        let (a2, b2) = (a.clone(), b.clone());
        // inner cca: deep, so it updates after the outer map closure ran
        let inner_cca = ss.stream().map(|x: &i32| *x).map(|x: &i32| *x).map(|x: &i32| *x).map(|x: &i32| *x)
            .map(move |x: &i32| if x % 2 == 0 { a2.clone() } else { b2.clone() }).hold(a.clone());
        let inner_cca2 = inner_cca.clone();
        let outer = ss.stream().map(move |_x: &i32| Cell::switch_c(&inner_cca2)).hold(ctx.new_cell(-1));
        let sw = Cell::switch_c(&outer);
        let (out, k) = rec::<i32>();
        let l = sw.listen(k);
        ss.send(1);
        println!("h07 out = {:?}", out.lock().unwrap());
        ss.send(2);
        println!("h07 out = {:?}", out.lock().unwrap());
        assert_eq!(*out.lock().unwrap(), vec![-1, 2001, 1002]);
    });
}

// H8: strong listeners survive dropping of all handles + collections, across many operators
#[test]
fn h08_strong_listener_survives_drop() {
    watchdog("h08", 20, || {
        let ctx = SodiumCtx::new();
        let ss: StreamSink<i32> = ctx.new_stream_sink();
        let sc: StreamSink<i32> = ctx.new_stream_sink_with_coalescer(|a: &i32, b: &i32| a + b);
        let outs: Arc<Mutex<Vec<(String, Arc<Mutex<Vec<i32>>>)>>> = Arc::new(Mutex::new(Vec::new()));
        let reg = |name: &str| {
            let (o, k) = rec::<i32>();
            outs.lock().unwrap().push((name.to_string(), o));
            k
        };
        {
            let s = ss.stream();
            // defer
            let _ = s.map(|x: &i32| *x).listen(reg("map"));
            let _ = Operational::defer(&s).listen(reg("defer"));
            let _ = s.map(|x: &i32| vec![*x, *x + 1]).split().listen(reg("split"));
            let _ = s.once().listen(reg("once"));
            let _ = s.accum(0, |a: &i32, s: &i32| a + s).listen(reg("accum"));
            let _ = s.collect(0, |a: &i32, s: &i32| (a + s, a + s)).listen(reg("collect"));
            let _ = s.hold(0).lift2(&sc.stream().hold(0), |a: &i32, b: &i32| a * 100 + b).listen(reg("lift2"));
            let r = ctx.new_router(&s, |x: &i32| vec![x % 3, x % 3]);
            let _ = r.filter_matches(&1).listen(reg("route1"));
            let _ = r.filter_matches(&2).map(|x: &i32| -x).listen(reg("route2m"));
            let evens = s.filter(|x: &i32| x % 2 == 0);
            let odds = s.filter(|x: &i32| x % 2 == 1);
            let (e2, o2) = (evens.clone(), odds.clone());
            let csa = s.map(move |x: &i32| if x % 3 == 0 { e2.clone() } else { o2.clone() }).hold(evens.clone());
            let _ = Cell::switch_s(&csa).listen(reg("switch_s"));
            let ce = evens.hold(-2);
            let co = odds.hold(-1);
            let (ce2, co2) = (ce.clone(), co.clone());
            let cca = s.map(move |x: &i32| if x % 3 == 0 { ce2.clone() } else { co2.clone() }).hold(ce.clone());
            let _ = Cell::switch_c(&cca).listen(reg("switch_c"));
            let _ = s.gate(&s.map(|x: &i32| x % 2 == 0).hold(true)).listen(reg("gate"));
            let _ = s.snapshot(&ce, |a: &i32, b: &i32| a * 100 + b).listen(reg("snapshot"));
            let _ = Operational::value(&ce).listen(reg("value"));
            let _ = Operational::updates(&co).listen(reg("updates"));
            let _ = sc.stream().listen(reg("coal"));
            ctx.transaction(|| {
                let sl: StreamLoop<i32> = ctx.new_stream_loop();
                let c = sl.stream().hold(0);
                let _ = c.listen(reg("loop"));
                sl.loop_(&s.snapshot(&c, |a: &i32, b: &i32| a + b));
            });
            ctx.transaction(|| {
                let cl: CellLoop<i32> = ctx.new_cell_loop();
                let c = s.snapshot(&cl.cell(), |a: &i32, b: &i32| a + b).hold(0);
                cl.loop_(&c);
                let _ = cl.cell().listen(reg("cloop"));
            });
        }
        ctx.impl_.collect_cycles();
        ctx.impl_.collect_cycles();
        for i in 1..=6 {
            ctx.transaction(|| { ss.send(i); sc.send(i); sc.send(1); });
            ctx.impl_.collect_cycles();
        }
        // reference: same with handles kept — compute by rebuilding with kept handles
        for (n, o) in outs.lock().unwrap().iter() {
            println!("h08 {} = {:?}", n, o.lock().unwrap());
        }
    });
}

fn growth<F: FnMut(i32)>(name: &str, ctx: &SodiumCtx, mut f: F) {
    for i in 0..20 { f(i); }
    ctx.impl_.collect_cycles();
    let n1 = ctx.impl_.node_count();
    for i in 20..320 { f(i); }
    ctx.impl_.collect_cycles();
    let n2 = ctx.impl_.node_count();
    println!("growth {}: {} -> {}", name, n1, n2);
    assert!(n2 <= n1 + 2, "growth in {}: {} -> {}", name, n1, n2);
}

// H9: node growth under repeated dynamic switching
#[test]
fn h09_growth_switch() {
    watchdog("h09", 60, || {
        let ctx = SodiumCtx::new();
        let ss: StreamSink<i32> = ctx.new_stream_sink();
        let s = ss.stream();
        let s2 = s.map(|x: &i32| *x);
        let csa = s.map(move |x: &i32| { let x = *x; s2.map(move |y: &i32| y + x) }).hold(ctx.new_stream());
        let sw = Cell::switch_s(&csa);
        let (out, k) = rec::<i32>();
        let l = sw.listen(k);
        growth("switch_s", &ctx, |i| ss.send(i));
        let s3 = s.map(|x: &i32| *x);
        let cca = s.map(move |x: &i32| { let x = *x; s3.map(move |y: &i32| y + x).hold(x) }).hold(ctx.new_cell(0));
        let swc = Cell::switch_c(&cca);
        let (out2, k2) = rec::<i32>();
        let l2 = swc.listen(k2);
        growth("switch_c", &ctx, |i| ss.send(i));
        println!("{:?}", &out2.lock().unwrap()[..10]);
    });
}

// H10: router request/drop cycles
#[test]
fn h10_growth_router() {
    watchdog("h10", 60, || {
        let ctx = SodiumCtx::new();
        let ss: StreamSink<i32> = ctx.new_stream_sink();
        let r = ctx.new_router(&ss.stream(), |x: &i32| vec![x % 5]);
        let (out, k) = rec::<i32>();
        let k = Arc::new(Mutex::new(k));
        growth("router", &ctx, |i| {
            let k = k.clone();
            let fm = r.filter_matches(&(i % 5));
            let l = fm.listen(move |x: &i32| (k.lock().unwrap())(x));
            ss.send(i);
            l.unlisten();
        });
        let exp: Vec<i32> = (0..320).collect();
        assert_eq!(*out.lock().unwrap(), exp);
        // and keys that are never requested again: route to many distinct keys once
        let r2 = ctx.new_router(&ss.stream(), |x: &i32| vec![*x]);
        growth("router-distinct", &ctx, |i| {
            let fm = r2.filter_matches(&i);
            let l = fm.listen(|_x: &i32| {});
            ss.send(i);
            l.unlisten();
        });
    });
}

// H11: listen/unlisten cycles, cells
#[test]
fn h11_growth_listen() {
    watchdog("h11", 60, || {
        let ctx = SodiumCtx::new();
        let ss: StreamSink<i32> = ctx.new_stream_sink();
        let c = ss.stream().hold(0);
        growth("cell-listen", &ctx, |i| {
            let l = c.listen(|_x: &i32| {});
            ss.send(i);
            l.unlisten();
        });
        growth("cell-listen-weak-drop", &ctx, |i| {
            let l = c.listen_weak(|_x: &i32| {});
            ss.send(i);
        });
        growth("defer-drop", &ctx, |i| {
            let d = Operational::defer(&ss.stream());
            ss.send(i);
        });
        growth("listen-in-txn-unlisten-in-txn", &ctx, |i| {
            ctx.transaction(|| {
                let l = c.listen(|_x: &i32| {});
                ss.send(i);
                l.unlisten();
            });
        });
    });
}

// H12: unlisten inside open transaction; self-unlisten in handler for cell; re-listen
#[test]
fn h12_unlisten_variants() {
    watchdog("h12", 10, || {
        let ctx = SodiumCtx::new();
        let ss: StreamSink<i32> = ctx.new_stream_sink();
        let c = ss.stream().hold(0);
        // a) listen, send, unlisten in one transaction
        let (out, k) = rec::<i32>();
        ctx.transaction(|| { let l = c.listen(k); ss.send(1); l.unlisten(); });
        ss.send(2);
        assert_eq!(*out.lock().unwrap(), Vec::<i32>::new());
        // b) self-unlisten in handler on first call
        let slot: Arc<Mutex<Option<Listener>>> = Arc::new(Mutex::new(None));
        let slot2 = slot.clone();
        let (out, mut k) = rec::<i32>();
        let l = c.listen(move |x: &i32| { k(x); if let Some(l) = slot2.lock().unwrap().take() { l.unlisten(); } });
        // initial value already delivered (2) before slot filled
        *slot.lock().unwrap() = Some(l);
        ss.send(3);
        ss.send(4);
        assert_eq!(*out.lock().unwrap(), vec![2, 3]);
        // c) stream listener: unlisten in transaction after send, then new listener in same transaction
        let (o1, k1) = rec::<i32>();
        let (o2, k2) = rec::<i32>();
        let l1 = ss.stream().listen(k1);
        let l2 = ctx.transaction(|| { ss.send(5); l1.unlisten(); ss.stream().listen(k2) });
        ss.send(6);
        l2.unlisten();
        ss.send(7);
        assert_eq!(*o1.lock().unwrap(), Vec::<i32>::new());
        assert_eq!(*o2.lock().unwrap(), vec![5, 6]);
        drop((c, l1, l2, slot));
        ctx.impl_.collect_cycles();
        println!("h12 nodes {}", ctx.impl_.node_count());
        assert_eq!(ctx.impl_.node_count(), 1);
    });
}

// H13: scoped transactions, out-of-order close, post inside
#[test]
fn h13_scoped_transactions() {
    watchdog("h13", 10, || {
        let ctx = SodiumCtx::new();
        let ss: StreamSink<i32> = ctx.new_stream_sink_with_coalescer(|a: &i32, b: &i32| a * 10 + b);
        let (out, k) = rec::<i32>();
        let c = ss.stream().hold(0);
        let t1 = ctx.new_transaction();
        let t2 = ctx.new_transaction();
        ss.send(1);
        let l = c.listen(k);
        t1.close();
        ss.send(2);
        assert_eq!(*out.lock().unwrap(), Vec::<i32>::new());
        let (o2, k2) = rec::<i32>();
        let ss2 = ss.clone();
        let ctx2 = ctx.clone();
        let keep: Arc<Mutex<Vec<Listener>>> = Arc::new(Mutex::new(vec![]));
        let keep2 = keep.clone();
        let c2 = c.clone();
        let k2 = Arc::new(Mutex::new(Some(k2)));
        ctx.post(move || {
            // after the transaction: cell has the new value
            if let Some(k2) = k2.lock().unwrap().take() {
                keep2.lock().unwrap().push(c2.listen(k2));
                ss2.send(3);
            }
        });
        t1.close();
        drop(t2);
        drop(t1);
        println!("h13 out={:?} o2={:?}", out.lock().unwrap(), o2.lock().unwrap());
        assert_eq!(*out.lock().unwrap(), vec![12, 3]);
        assert_eq!(*o2.lock().unwrap(), vec![12, 3]);
    });
}

// H14: deep chains (long construction history): recursion depth in propagation / drop / gc
#[test]
fn h14_deep_chain() {
    let n: usize = std::env::var("H14_N").ok().and_then(|s| s.parse().ok()).unwrap_or(500);
    let h = std::thread::Builder::new().stack_size(8 * 1024 * 1024).spawn(move || {
        let ctx = SodiumCtx::new();
        let ss: StreamSink<i32> = ctx.new_stream_sink();
        let mut s = ss.stream();
        for _ in 0..n { s = s.map(|x: &i32| x + 1); }
        let (out, k) = rec::<i32>();
        let l = s.listen(k);
        println!("built");
        ss.send(0);
        println!("sent {:?}", out.lock().unwrap());
        ctx.impl_.collect_cycles();
        println!("collected");
        l.unlisten();
        drop(l);
        drop(s);
        println!("dropped");
        ctx.impl_.collect_cycles();
        println!("nodes {}", ctx.impl_.node_count());
    }).unwrap();
    h.join().unwrap();
}

// H15: user-held sample_lazy() of a mapped cell whose function owns a declared handle; the cell's
// nodes become cyclic garbage
#[test]
fn h15_lazy_outlives_collected_nodes() {
    watchdog("h15", 10, || {
        let ctx = SodiumCtx::new();
        let ss: StreamSink<i32> = ctx.new_stream_sink();
        let lz = ctx.transaction(|| {
            let cl: CellLoop<i32> = ctx.new_cell_loop();
            let h = ctx.new_cell(5);
            let h2 = h.clone();
            let x = cl.cell().map(lambda1(move |v: &i32| v + h2.sample(), vec![h.to_dep()]));
            let lz = x.sample_lazy();
            let y = ss.stream().snapshot(&x, |a: &i32, b: &i32| a + b).hold(0);
            cl.loop_(&y);
            lz
        });
        ctx.impl_.collect_cycles();
        println!("h15 nodes after collect: {}", ctx.impl_.node_count());
        println!("h15 lz = {}", lz.run());
        assert_eq!(lz.run(), 5);
    });
}

// H15b: control — same without keeping the lazy
#[test]
fn h15b_control() {
    watchdog("h15b", 10, || {
        let ctx = SodiumCtx::new();
        let ss: StreamSink<i32> = ctx.new_stream_sink();
        ctx.transaction(|| {
            let cl: CellLoop<i32> = ctx.new_cell_loop();
            let h = ctx.new_cell(5);
            let h2 = h.clone();
            let x = cl.cell().map(lambda1(move |v: &i32| v + h2.sample(), vec![h.to_dep()]));
            let y = ss.stream().snapshot(&x, |a: &i32, b: &i32| a + b).hold(0);
            cl.loop_(&y);
        });
        ctx.impl_.collect_cycles();
        println!("h15b nodes after collect: {}", ctx.impl_.node_count());
        assert_eq!(ctx.impl_.node_count(), 1);
    });
}

// H15c: the lazy is kept by another cell via hold_lazy (canonical use of sample_lazy)
#[test]
fn h15c_hold_lazy_keeps_thunk() {
    watchdog("h15c", 10, || {
        let ctx = SodiumCtx::new();
        let ss: StreamSink<i32> = ctx.new_stream_sink();
        let ss2: StreamSink<i32> = ctx.new_stream_sink();
        let z = ctx.transaction(|| {
            let cl: CellLoop<i32> = ctx.new_cell_loop();
            let h = ctx.new_cell(5);
            let h2 = h.clone();
            let x = cl.cell().map(lambda1(move |v: &i32| v + h2.sample(), vec![h.to_dep()]));
            let z = ss2.stream().hold_lazy(x.sample_lazy());
            let y = ss.stream().snapshot(&x, |a: &i32, b: &i32| a + b).hold(0);
            cl.loop_(&y);
            z
        });
        ss2.send(1); // any later transaction runs a collection
        println!("h15c z = {}", z.sample());
    });
}

// H16: a handler drops the last handle of an unobserved cell / stream that is queued for update
#[test]
fn h16_drop_leaf_cell_in_handler() {
    watchdog("h16", 10, || {
        let ctx = SodiumCtx::new();
        let ss: StreamSink<i32> = ctx.new_stream_sink();
        let slot: Arc<Mutex<Option<Cell<i32>>>> = Arc::new(Mutex::new(None));
        let slot2 = slot.clone();
        let l = ss.stream().listen(move |_x: &i32| { *slot2.lock().unwrap() = None; });
        *slot.lock().unwrap() = Some(ss.stream().hold(0));
        let (out, k) = rec::<i32>();
        let l2 = ss.stream().listen(k);
        ss.send(1);
        assert_eq!(*out.lock().unwrap(), vec![1]);
    });
}

#[test]
fn h16b_drop_leaf_stream_in_handler() {
    watchdog("h16b", 10, || {
        let ctx = SodiumCtx::new();
        let ss: StreamSink<i32> = ctx.new_stream_sink();
        let slot: Arc<Mutex<Option<Stream<i32>>>> = Arc::new(Mutex::new(None));
        let slot2 = slot.clone();
        let l = ss.stream().listen(move |_x: &i32| { *slot2.lock().unwrap() = None; });
        *slot.lock().unwrap() = Some(ss.stream().map(|x: &i32| x + 1));
        let (out, k) = rec::<i32>();
        let l2 = ss.stream().listen(k);
        ss.send(1);
        assert_eq!(*out.lock().unwrap(), vec![1]);
    });
}

// H17: switch_s built inside a map closure; its outer cell updates later in the same transaction
#[test]
fn h17_switch_s_in_closure_outer_updates() {
    watchdog("h17", 10, || {
        let ctx = SodiumCtx::new();
        let ss: StreamSink<i32> = ctx.new_stream_sink();
        let a: Stream<i32> = ss.stream().map(|x: &i32| x + 1000);
        let b: Stream<i32> = ss.stream().map(|x: &i32| x + 2000);
        let (a2, b2) = (a.clone(), b.clone());
        // deep: updates after the closure below has run
        let csa = ss.stream().map(|x: &i32| *x).map(|x: &i32| *x).map(|x: &i32| *x)
            .map(move |x: &i32| if x % 2 == 0 { a2.clone() } else { b2.clone() }).hold(a.clone());
        let csa2 = csa.clone();
        // a stream of freshly built switches (dynamic FRP: FRP logic constructed in a map function)
        let outer = ss.stream().map(move |_x: &i32| Cell::switch_s(&csa2)).hold(ctx.new_stream());
        let sw = Cell::switch_s(&outer);
        let (out, k) = rec::<i32>();
        let l = sw.listen(k);
        ss.send(1);
        ss.send(2);
        ss.send(3);
        println!("h17 out = {:?}", out.lock().unwrap());
        // T1: outer holds never -> nothing. T2: outer holds switch#1 (inner = b since T1) -> 2002.
        // T3: outer holds switch#2 (inner = a since T2) -> 1003
        assert_eq!(*out.lock().unwrap(), vec![2002, 1003]);
    });
}

// H18: cell listener's first value in the registering transaction, for many cell shapes and
// orders of send/listen/build inside one transaction
#[test]
fn h18_cell_listen_registering_txn() {
    watchdog("h18", 20, || {
        for order in 0..6 {
            let ctx = SodiumCtx::new();
            let sa: StreamSink<i32> = ctx.new_stream_sink();
            let sb: StreamSink<i32> = ctx.new_stream_sink();
            let ssel: StreamSink<bool> = ctx.new_stream_sink();
            let ca = sa.stream().hold(1);
            let cb = sb.stream().hold(2);
            let outs: Arc<Mutex<Vec<(String, Arc<Mutex<Vec<i32>>>, Cell<i32>)>>> = Arc::new(Mutex::new(Vec::new()));
            let build_and_listen = || {
                let (ca2, cb2) = (ca.clone(), cb.clone());
                let cca = ssel.stream().map(move |b: &bool| if *b { ca2.clone() } else { cb2.clone() }).hold(ca.clone());
                let cells: Vec<(&str, Cell<i32>)> = vec![
                    ("ca", ca.clone()),
                    ("map", ca.map(|x: &i32| x * 10)),
                    ("lift2", ca.lift2(&cb, |a: &i32, b: &i32| a * 100 + b)),
                    ("lift3", ca.lift3(&cb, &ca, |a: &i32, b: &i32, c: &i32| a * 10000 + b * 100 + c)),
                    ("switch_c", Cell::switch_c(&cca)),
                    ("switch_c_map", Cell::switch_c(&cca).map(|x: &i32| -x)),
                    ("accum", sa.stream().accum(0, |a: &i32, s: &i32| a + s)),
                    ("snaphold", sa.stream().snapshot(&cb, |a: &i32, b: &i32| a + b).hold(-1)),
                    ("const", ctx.new_cell(7)),
                    ("holdlazy", sb.stream().hold_lazy(ca.sample_lazy())),
                ];
                let mut ls = vec![];
                for (n, c) in cells {
                    let (o, k) = rec::<i32>();
                    ls.push(c.listen(k));
                    outs.lock().unwrap().push((n.to_string(), o, c));
                }
                ls
            };
            let ls = ctx.transaction(|| {
                match order {
                    0 => { let l = build_and_listen(); sa.send(5); sb.send(6); ssel.send(false); l }
                    1 => { sa.send(5); sb.send(6); ssel.send(false); build_and_listen() }
                    2 => { sa.send(5); let l = build_and_listen(); sb.send(6); ssel.send(false); l }
                    3 => { ssel.send(false); let l = build_and_listen(); sb.send(6); l }
                    4 => { ssel.send(false); sb.send(6); build_and_listen() }
                    _ => { build_and_listen() }
                }
            });
            for (n, o, c) in outs.lock().unwrap().iter() {
                let got = o.lock().unwrap().clone();
                let now = c.sample();
                if got != vec![now] {
                    println!("h18 MISMATCH order {} {}: listener got {:?}, cell value after txn {}", order, n, got, now);
                }
            }
            // second transaction: all update consistently
            ctx.transaction(|| { sa.send(8); sb.send(9); ssel.send(true); });
            for (n, o, c) in outs.lock().unwrap().iter() {
                let got = o.lock().unwrap().clone();
                let now = c.sample();
                if got.last() != Some(&now) || got.len() > 2 {
                    println!("h18 MISMATCH2 order {} {}: listener got {:?}, cell value after txn {}", order, n, got, now);
                }
            }
            println!("order {} done: {:?}", order, outs.lock().unwrap().iter().map(|(n, o, _)| (n.clone(), o.lock().unwrap().clone())).collect::<Vec<_>>());
        }
    });
}

// H19: router odd selectors and request patterns (no closure-phase requests)
#[test]
fn h19_router_patterns() {
    watchdog("h19", 20, || {
        let ctx = SodiumCtx::new();
        let ss: StreamSink<i32> = ctx.new_stream_sink_with_coalescer(|a: &i32, b: &i32| a + b);
        let r = ctx.new_router(&ss.stream(), |x: &i32| {
            let mut v = vec![];
            for k in 0..4 { if (x >> k) & 1 == 1 { v.push(k); v.push(k); } }
            v.reverse();
            v
        });
        let mk = |k: i32| { let (o, h) = rec::<i32>(); let s = r.filter_matches(&k); let l = s.listen(h); (o, s, l) };
        let (o0, s0, l0) = mk(0);
        ss.send(1); ss.send(2); ss.send(3);
        let (o1, s1, l1) = mk(1);
        let (o0b, s0b, l0b) = mk(0); // same key again
        // request inside a transaction after the send
        let (o2, s2, l2) = ctx.transaction(|| { ss.send(4); ss.send(3); mk(2) }); // coalesced 7 = 0b0111
        // drop and re-request key 1 while old listener stays
        drop(s1);
        let (o1b, s1b, l1b) = mk(1);
        ss.send(15);
        // unlisten + drop everything of key 0, collect, re-request
        l0.unlisten(); l0b.unlisten(); drop((s0, s0b, l0, l0b));
        ctx.impl_.collect_cycles();
        let (o0c, s0c, l0c) = mk(0);
        ss.send(1);
        // drop router, keep streams
        drop(mk); drop(r);
        ctx.impl_.collect_cycles();
        ss.send(7);
        // key 3 requested, dropped without listening, then fired, then requested again
        println!("o0={:?} o0b={:?} o0c={:?} o1={:?} o1b={:?} o2={:?}", o0.lock().unwrap(), o0b.lock().unwrap(), o0c.lock().unwrap(), o1.lock().unwrap(), o1b.lock().unwrap(), o2.lock().unwrap());
        assert_eq!(*o0.lock().unwrap(), vec![1, 3, 7, 15]);
        assert_eq!(*o0b.lock().unwrap(), vec![7, 15]);
        assert_eq!(*o0c.lock().unwrap(), vec![1, 7]);
        assert_eq!(*o1.lock().unwrap(), vec![7, 15, 7]);
        assert_eq!(*o1b.lock().unwrap(), vec![15, 7]);
        assert_eq!(*o2.lock().unwrap(), vec![7, 15, 7]);
    });
}

// H20: loops: sends and listens around loop_ within the loop transaction
#[test]
fn h20_loops_in_txn() {
    watchdog("h20", 10, || {
        for order in 0..4 {
            let ctx = SodiumCtx::new();
            let ss: StreamSink<i32> = ctx.new_stream_sink();
            let (o1, k1) = rec::<i32>();
            let (o2, k2) = rec::<i32>();
            let (o3, k3) = rec::<i32>();
            let ls = ctx.transaction(|| {
                if order == 0 { ss.send(1); }
                let sl: StreamLoop<i32> = ctx.new_stream_loop();
                let cl: CellLoop<i32> = ctx.new_cell_loop();
                let l1 = sl.stream().listen(k1);
                let l2 = cl.cell().listen(k2);
                let sw = Cell::switch_c(&ctx.new_cell(cl.cell()));
                let l3 = sw.listen(k3);
                if order == 1 { ss.send(1); }
                let acc = ss.stream().snapshot(&cl.cell(), |a: &i32, b: &i32| a + b);
                sl.loop_(&acc);
                if order == 2 { ss.send(1); }
                cl.loop_(&sl.stream().hold(100));
                if order == 3 { ss.send(1); }
                (l1, l2, l3)
            });
            ss.send(10);
            println!("h20 order {}: {:?} {:?} {:?}", order, o1.lock().unwrap(), o2.lock().unwrap(), o3.lock().unwrap());
            assert_eq!(*o1.lock().unwrap(), vec![101, 111]);
            assert_eq!(*o2.lock().unwrap(), vec![101, 111]);
            assert_eq!(*o3.lock().unwrap(), vec![101, 111]);
            drop(ls);
        }
    });
}

// H4b: switch_s built inside a map closure (no listener registered in a handler): the event its
// inner stream fires later in the same transaction is lost
#[test]
fn h04b_switch_s_in_map_closure_loses_event() {
    watchdog("h04b", 10, || {
        let ctx = SodiumCtx::new();
        let ss: StreamSink<i32> = ctx.new_stream_sink();
        // fires after the closure below has run (three hops deeper)
        let m = ss.stream().map(|x: &i32| x + 1).map(|x: &i32| x + 1).map(|x: &i32| x + 1);
        let csa = ctx.new_cell(m.clone());
        let cca = ss.stream().map(move |_x: &i32| Cell::switch_s(&csa).hold(-1)).hold(ctx.new_cell(-2));
        let swc = Cell::switch_c(&cca);
        let (out, k) = rec::<i32>();
        let l = swc.listen(k);
        ss.send(1);
        println!("h04b out = {:?}; held cell = {}", out.lock().unwrap(), cca.sample().sample());
        // control: the same with the switch built outside
        assert_eq!(*out.lock().unwrap(), vec![-2, 4]);
    });
}

#[test]
fn h04c_control_switch_s_outside() {
    watchdog("h04c", 10, || {
        let ctx = SodiumCtx::new();
        let ss: StreamSink<i32> = ctx.new_stream_sink();
        let m = ss.stream().map(|x: &i32| x + 1).map(|x: &i32| x + 1).map(|x: &i32| x + 1);
        let csa = ctx.new_cell(m.clone());
        let pre = Cell::switch_s(&csa);
        let cca = ss.stream().map(move |_x: &i32| pre.hold(-1)).hold(ctx.new_cell(-2));
        let swc = Cell::switch_c(&cca);
        let (out, k) = rec::<i32>();
        let l = swc.listen(k);
        ss.send(1);
        println!("h04c out = {:?}; held cell = {}", out.lock().unwrap(), cca.sample().sample());
        assert_eq!(*out.lock().unwrap(), vec![-2, 4]);
    });
}

// H2b: cell.listen inside a handler for cells that are not updated in this transaction
#[test]
fn h02b_cell_listen_in_handler_unchanged_cells() {
    watchdog("h02b", 10, || {
        let ctx = SodiumCtx::new();
        let ss: StreamSink<i32> = ctx.new_stream_sink();
        let other: StreamSink<i32> = ctx.new_stream_sink();
        let k7 = ctx.new_cell(7);
        let held = other.stream().hold(3);
        let filtered = ss.stream().filter(|x: &i32| *x > 100).hold(9); // visited, not fired
        let (o1, k1) = rec::<i32>();
        let (o2, k2) = rec::<i32>();
        let (o3, k3) = rec::<i32>();
        let ks = Arc::new(Mutex::new(Some((k1, k2, k3))));
        let keep: Arc<Mutex<Vec<Listener>>> = Arc::new(Mutex::new(vec![]));
        let keep2 = keep.clone();
        let l = ss.stream().listen(move |_x: &i32| {
            if let Some((k1, k2, k3)) = ks.lock().unwrap().take() {
                let mut keep = keep2.lock().unwrap();
                keep.push(k7.listen(k1));
                keep.push(held.listen(k2));
                keep.push(filtered.listen(k3));
            }
        });
        ss.send(1);
        other.send(4);
        ss.send(200);
        println!("h02b {:?} {:?} {:?}", o1.lock().unwrap(), o2.lock().unwrap(), o3.lock().unwrap());
        assert_eq!(*o1.lock().unwrap(), vec![7]);
        assert_eq!(*o2.lock().unwrap(), vec![3, 4]);
        assert_eq!(*o3.lock().unwrap(), vec![9, 200]);
    });
}

// H1b: order dependence of F1: the same program with the map created after the outer listener
#[test]
fn h01b_order_dependence() {
    watchdog("h01b", 10, || {
        let ctx = SodiumCtx::new();
        let ss: StreamSink<i32> = ctx.new_stream_sink();
        let (out, k) = rec::<i32>();
        let k = Arc::new(Mutex::new(Some(k)));
        let inner: Arc<Mutex<Vec<Listener>>> = Arc::new(Mutex::new(Vec::new()));
        let inner2 = inner.clone();
        let slot: Arc<Mutex<Option<Stream<i32>>>> = Arc::new(Mutex::new(None));
        let slot2 = slot.clone();
        let l = ss.stream().listen(move |_x: &i32| {
            if let Some(k) = k.lock().unwrap().take() {
                inner2.lock().unwrap().push(slot2.lock().unwrap().as_ref().unwrap().listen(k));
            }
        });
        *slot.lock().unwrap() = Some(ss.stream().map(|x: &i32| x + 100));
        ss.send(1);
        ss.send(2);
        println!("h01b out = {:?}", out.lock().unwrap());
        assert_eq!(*out.lock().unwrap(), vec![101, 102]);
    });
}
