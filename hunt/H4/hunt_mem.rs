#![allow(unused)]
use sodium_rust::*;
use std::alloc::{GlobalAlloc, Layout, System};
use std::sync::atomic::{AtomicIsize, Ordering};

struct Counting;
static LIVE: AtomicIsize = AtomicIsize::new(0);
unsafe impl GlobalAlloc for Counting {
    unsafe fn alloc(&self, l: Layout) -> *mut u8 { LIVE.fetch_add(l.size() as isize, Ordering::SeqCst); System.alloc(l) }
    unsafe fn dealloc(&self, p: *mut u8, l: Layout) { LIVE.fetch_sub(l.size() as isize, Ordering::SeqCst); System.dealloc(p, l) }
    unsafe fn realloc(&self, p: *mut u8, l: Layout, n: usize) -> *mut u8 { LIVE.fetch_add(n as isize - l.size() as isize, Ordering::SeqCst); System.realloc(p, l, n) }
}
#[global_allocator]
static A: Counting = Counting;

fn live() -> isize { LIVE.load(Ordering::SeqCst) }

fn measure<F: FnMut(i32)>(name: &str, ctx: &SodiumCtx, mut f: F) -> (isize, isize) {
    for i in 0..200 { f(i); }
    ctx.impl_.collect_cycles();
    let m1 = live();
    let n1 = ctx.impl_.node_count();
    for i in 0..2000 { f(i); }
    ctx.impl_.collect_cycles();
    let m2 = live();
    let n2 = ctx.impl_.node_count();
    println!("{}: live bytes {} -> {} (delta {} = {} per iteration), nodes {} -> {}", name, m1, m2, m2 - m1, (m2 - m1) / 2000, n1, n2);
    (m2 - m1, (n2 - n1) as isize)
}

#[test]
fn m1_listen_unlisten_after_handle_drop() {
    let ctx = SodiumCtx::new();
    let ss: StreamSink<i32> = ctx.new_stream_sink();
    let s = ss.stream();
    // control: drop order that frees immediately
    let (d0, _) = measure("control (unlisten, then drop m)", &ctx, |i| {
        let m = s.map(|x: &i32| x + 1);
        let l = m.listen(|_x: &i32| {});
        ss.send(i);
        l.unlisten();
        drop(m);
    });
    let (d1, _) = measure("drop m, then unlisten", &ctx, |i| {
        let m = s.map(|x: &i32| x + 1);
        let l = m.listen(|_x: &i32| {});
        drop(m);
        ss.send(i);
        l.unlisten();
    });
    assert!(d1 < 2000 * 16, "memory grows by {} bytes over 2000 iterations", d1);
}

#[test]
fn m2_breakdown() {
    let ctx = SodiumCtx::new();
    let ss: StreamSink<i32> = ctx.new_stream_sink();
    let s = ss.stream();
    measure("map+drop", &ctx, |i| { let m = s.map(|x: &i32| x + 1); drop(m); });
    measure("send only", &ctx, |i| { ss.send(i); });
    measure("listen+unlisten on s", &ctx, |i| { let l = s.listen(|_x: &i32| {}); l.unlisten(); });
    measure("listen_weak+drop on s", &ctx, |i| { let l = s.listen_weak(|_x: &i32| {}); drop(l); });
    measure("map, listen, unlisten, drop (no send)", &ctx, |i| { let m = s.map(|x: &i32| x + 1); let l = m.listen(|_x: &i32| {}); l.unlisten(); drop(m); });
    measure("map, listen, unlisten, drop l, drop m (no send)", &ctx, |i| { let m = s.map(|x: &i32| x + 1); let l = m.listen(|_x: &i32| {}); l.unlisten(); drop(l); drop(m); });
    measure("hold+drop", &ctx, |i| { let c = s.hold(0); drop(c); });
    measure("clone+drop", &ctx, |i| { let c = s.clone(); drop(c); });
    measure("new ctx", &ctx, |i| { let c = SodiumCtx::new(); drop(c); });
}

#[test]
fn m3_dependents_debug() {
    let ctx = SodiumCtx::new();
    let ss: StreamSink<i32> = ctx.new_stream_sink();
    let s = ss.stream();
    let l = s.listen_weak(|_x: &i32| {});
    println!("before: {:?}", l.impl_);
    for _ in 0..5 { let m = s.map(|x: &i32| x + 1); drop(m); }
    println!("after 5 map+drop: {:?}", l.impl_);
    ctx.impl_.collect_cycles();
    println!("after collect: {:?}", l.impl_);
    let l2 = s.listen_weak(|_x: &i32| {});
    drop(l2);
    println!("after weak listen+drop: {:?}", l.impl_);
}

#[test]
fn m4_dynamic_switch_growth() {
    let ctx = SodiumCtx::new();
    let ss: StreamSink<i32> = ctx.new_stream_sink();
    let s = ss.stream();
    let data = s.map(|x: &i32| *x); // long-lived
    let data2 = data.clone();
    let csa = s.map(move |x: &i32| { let x = *x; data2.map(move |y: &i32| y + x) }).hold(ctx.new_stream());
    let sw = Cell::switch_s(&csa);
    let l = sw.listen(|_x: &i32| {});
    let (d, n) = measure("switch_s, new inner = long_lived.map(..) per event", &ctx, |i| ss.send(i));
    let t0 = std::time::Instant::now();
    for i in 0..2000 { ss.send(i); }
    let t1 = t0.elapsed();
    for i in 0..20000 { ss.send(i); }
    let t0 = std::time::Instant::now();
    for i in 0..2000 { ss.send(i); }
    let t2 = t0.elapsed();
    println!("2000 sends: {:?} early, {:?} after 20000 more events", t1, t2);
    println!("graph: nodes {}", ctx.impl_.node_count());
    assert!(d < 2000 * 16, "memory grows by {} bytes over 2000 events", d);
}

#[test]
fn m5_router_distinct_keys_growth() {
    let ctx = SodiumCtx::new();
    let ss: StreamSink<i32> = ctx.new_stream_sink();
    let r = ctx.new_router(&ss.stream(), |x: &i32| vec![*x]);
    let mut key = 0;
    let (d, n) = measure("router: request key, listen, fire, unlisten, drop (distinct keys)", &ctx, |_i| {
        key += 1;
        let fm = r.filter_matches(&key);
        let l = fm.listen(|_x: &i32| {});
        ss.send(key);
        l.unlisten();
    });
    let (d2, n) = measure("router: same without firing the key", &ctx, |_i| {
        key += 1;
        let fm = r.filter_matches(&key);
        let l = fm.listen(|_x: &i32| {});
        ss.send(-1);
        l.unlisten();
    });
    assert!(d < 2000 * 16 && d2 < 2000 * 16, "memory grows by {} / {} bytes over 2000 iterations", d, d2);
}

// number of entries (live or dead) in the dependents list of the node a listener listens to,
// read off the Debug output of the listener
fn upstream_dependents(l: &Listener) -> usize {
    let s = format!("{:?}", l.impl_);
    // second "(Node" line is the upstream node
    let line = s.lines().filter(|l| l.starts_with("(Node")).nth(1).unwrap().to_string();
    let deps = line.split("(dependents [").nth(1).unwrap();
    let deps = deps.trim_end_matches("])");
    if deps.is_empty() { 0 } else { deps.split(',').count() }
}

#[test]
fn m6_listen_unlisten_cycles() {
    let ctx = SodiumCtx::new();
    let ss: StreamSink<i32> = ctx.new_stream_sink();
    let s = ss.stream();
    let probe = s.listen_weak(|_x: &i32| {});
    let t0 = std::time::Instant::now();
    for i in 0..2000 { ss.send(i); }
    let t_before = t0.elapsed();
    for i in 0..20000 {
        let l = s.listen(|_x: &i32| {});
        ss.send(i);
        l.unlisten();
    }
    ctx.impl_.collect_cycles();
    let t0 = std::time::Instant::now();
    for i in 0..2000 { ss.send(i); }
    let t_after = t0.elapsed();
    let n = upstream_dependents(&probe);
    println!("m6: dependents entries of the sink's node after 20000 listen/unlisten cycles: {}; 2000 sends took {:?} before, {:?} after; node_count {}", n, t_before, t_after, ctx.impl_.node_count());
    assert!(n <= 2, "{} entries left in the dependents list", n);
}
