#![allow(dead_code, unused_variables, unused_imports)]
use sodium_rust::*;
use std::sync::mpsc;
use std::sync::{Arc, Mutex};
use std::time::Duration;

/// run `f` on another thread; panic with HANG if it does not finish in `secs`
fn watchdog<F: FnOnce() + Send + 'static>(name: &str, secs: u64, f: F) {
    let (tx, rx) = mpsc::channel();
    let h = std::thread::spawn(move || {
        f();
        let _ = tx.send(());
    });
    match rx.recv_timeout(Duration::from_secs(secs)) {
        Ok(()) => {
            h.join().unwrap();
        }
        Err(mpsc::RecvTimeoutError::Timeout) => panic!("HANG in {}", name),
        Err(mpsc::RecvTimeoutError::Disconnected) => {
            // thread panicked
            match h.join() {
                Ok(()) => {}
                Err(e) => std::panic::resume_unwind(e),
            }
        }
    }
}

fn rec<A: Clone + Send + 'static>() -> (Arc<Mutex<Vec<A>>>, impl FnMut(&A) + Send + Sync + 'static) {
    let out = Arc::new(Mutex::new(Vec::new()));
    let o2 = out.clone();
    (out, move |a: &A| o2.lock().unwrap().push(a.clone()))
}

// H1: a route stream that lost its last handle while "buffered" is freed by the collection that
// runs at the end of the transaction opened inside filter_matches, which holds the table lock.
#[test]
fn h01_router_filter_matches_after_clone_drop() {
    watchdog("h01", 5, || {
        let ctx = SodiumCtx::new();
        let ss: StreamSink<i32> = ctx.new_stream_sink();
        let r = ctx.new_router(&ss.stream(), |a: &i32| vec![*a % 2]);
        let s1 = r.filter_matches(&1);
        let s1b = s1.clone();
        drop(s1b);
        drop(s1);
        let s0 = r.filter_matches(&0);
        let (out, k) = rec::<i32>();
        let l = s0.listen(k);
        ss.send(2);
        ss.send(3);
        assert_eq!(*out.lock().unwrap(), vec![2]);
        l.unlisten();
    });
}

// same program without the extra clone: control
#[test]
fn h01b_router_control() {
    watchdog("h01b", 5, || {
        let ctx = SodiumCtx::new();
        let ss: StreamSink<i32> = ctx.new_stream_sink();
        let r = ctx.new_router(&ss.stream(), |a: &i32| vec![*a % 2]);
        let s1 = r.filter_matches(&1);
        drop(s1);
        let s0 = r.filter_matches(&0);
        let (out, k) = rec::<i32>();
        let l = s0.listen(k);
        ss.send(2);
        ss.send(3);
        assert_eq!(*out.lock().unwrap(), vec![2]);
        l.unlisten();
    });
}

// H2: auto traits
trait NotSync {
    fn is_sync(&self) -> bool {
        false
    }
}
impl<T> NotSync for std::marker::PhantomData<T> {}
struct W<T>(std::marker::PhantomData<T>);
impl<T: Sync + Send> W<T> {
    fn is_sync(&self) -> bool {
        true
    }
}
impl<T> std::ops::Deref for W<T> {
    type Target = std::marker::PhantomData<T>;
    fn deref(&self) -> &Self::Target {
        &self.0
    }
}
macro_rules! send_sync {
    ($t:ty) => {
        (stringify!($t), W::<$t>(std::marker::PhantomData).is_sync())
    };
}

#[test]
fn h02_send_sync() {
    let v = vec![
        send_sync!(SodiumCtx),
        send_sync!(Stream<i32>),
        send_sync!(Cell<i32>),
        send_sync!(StreamSink<i32>),
        send_sync!(CellSink<i32>),
        send_sync!(StreamLoop<i32>),
        send_sync!(CellLoop<i32>),
        send_sync!(Listener),
        send_sync!(Lazy<i32>),
        send_sync!(Router<i32, i32>),
        send_sync!(Transaction),
        send_sync!(Dep),
    ];
    println!("{:?}", v);
    let bad: Vec<_> = v.iter().filter(|x| !x.1).collect();
    assert!(bad.is_empty(), "not Send+Sync: {:?}", bad);
}

// H1c: the route stream is kept by a garbage cycle (accum); the cycle is freed by the collection
// that runs inside the next filter_matches
#[test]
fn h01c_router_filter_matches_after_dropped_accum() {
    watchdog("h01c", 5, || {
        let ctx = SodiumCtx::new();
        let ss: StreamSink<i32> = ctx.new_stream_sink();
        let r = ctx.new_router(&ss.stream(), |a: &i32| vec![*a % 2]);
        let s1 = r.filter_matches(&1);
        let acc = s1.accum(0, |a: &i32, b: &i32| *a + *b);
        drop(s1);
        drop(acc);
        let s0 = r.filter_matches(&0);
        let (out, k) = rec::<i32>();
        let l = s0.listen(k);
        ss.send(2);
        ss.send(3);
        assert_eq!(*out.lock().unwrap(), vec![2]);
        l.unlisten();
    });
}

// control: a collection in between
#[test]
fn h01d_router_control_collect_between() {
    watchdog("h01d", 5, || {
        let ctx = SodiumCtx::new();
        let ss: StreamSink<i32> = ctx.new_stream_sink();
        let r = ctx.new_router(&ss.stream(), |a: &i32| vec![*a % 2]);
        let s1 = r.filter_matches(&1);
        let acc = s1.accum(0, |a: &i32, b: &i32| *a + *b);
        drop(s1);
        drop(acc);
        ctx.impl_.collect_cycles();
        let s0 = r.filter_matches(&0);
        let (out, k) = rec::<i32>();
        let l = s0.listen(k);
        ss.send(2);
        ss.send(3);
        assert_eq!(*out.lock().unwrap(), vec![2]);
        l.unlisten();
    });
}

// ---------- E3: weak listener dropped from another handler; creation order of K and the map ----------
fn e3_variant(k_first: bool) -> Vec<i32> {
    let ctx = SodiumCtx::new();
    let ss: StreamSink<i32> = ctx.new_stream_sink();
    let s = ss.stream();
    let slot: Arc<Mutex<Option<Listener>>> = Arc::new(Mutex::new(None));
    let (out, k) = rec::<i32>();
    let mk_k = |s: &Stream<i32>| {
        let slot = slot.clone();
        s.listen(move |_: &i32| {
            // drop the weak listener
            slot.lock().unwrap().take();
        })
    };
    let kl;
    let m;
    if k_first {
        kl = mk_k(&s);
        m = s.map(|a: &i32| *a + 100);
    } else {
        m = s.map(|a: &i32| *a + 100);
        kl = mk_k(&s);
    }
    let l = m.listen_weak(k);
    *slot.lock().unwrap() = Some(l);
    ss.send(1);
    ss.send(2);
    kl.unlisten();
    let r = out.lock().unwrap().clone();
    r
}

#[test]
fn e03_weak_listener_dropped_in_handler_order() {
    watchdog("e03", 5, || {
        let a = e3_variant(true);
        let b = e3_variant(false);
        println!("k first: {:?}, map first: {:?}", a, b);
        assert_eq!(a, b);
    });
}

// ---------- E4: unlisten from another handler on the same stream; creation order ----------
fn e4_variant(k_first: bool) -> Vec<i32> {
    let ctx = SodiumCtx::new();
    let ss: StreamSink<i32> = ctx.new_stream_sink();
    let s = ss.stream();
    let slot: Arc<Mutex<Option<Listener>>> = Arc::new(Mutex::new(None));
    let (out, k) = rec::<i32>();
    let mk_k = |s: &Stream<i32>| {
        let slot = slot.clone();
        s.listen(move |_: &i32| {
            if let Some(l) = slot.lock().unwrap().take() {
                l.unlisten();
            }
        })
    };
    let kl;
    let l;
    if k_first {
        kl = mk_k(&s);
        l = s.listen(k);
    } else {
        l = s.listen(k);
        kl = mk_k(&s);
    }
    *slot.lock().unwrap() = Some(l);
    ss.send(1);
    ss.send(2);
    kl.unlisten();
    let r = out.lock().unwrap().clone();
    r
}

#[test]
fn e04_unlisten_in_handler_same_stream_order() {
    watchdog("e04", 5, || {
        let a = e4_variant(true);
        let b = e4_variant(false);
        println!("k first: {:?}, l first: {:?}", a, b);
        assert_eq!(a, b);
    });
}

// ---------- E5: hold built inside a handler in the transaction where its stream fires ----------
#[test]
fn e05_hold_built_in_handler() {
    watchdog("e05", 5, || {
        let ctx = SodiumCtx::new();
        let ss: StreamSink<i32> = ctx.new_stream_sink();
        let trig: StreamSink<i32> = ctx.new_stream_sink();
        let s2 = ss.stream().map(|a: &i32| *a).map(|a: &i32| *a);
        let slot: Arc<Mutex<Option<Cell<i32>>>> = Arc::new(Mutex::new(None));
        let kl;
        {
            let slot = slot.clone();
            let s2 = s2.clone();
            kl = trig.stream().listen(move |_: &i32| {
                *slot.lock().unwrap() = Some(s2.hold(0));
            });
        }
        ctx.transaction(|| {
            trig.send(0);
            ss.send(7);
        });
        let c = slot.lock().unwrap().take().unwrap();
        println!("hold built in handler (stream fires later in txn): {}", c.sample());
        let n1 = { ctx.impl_.collect_cycles(); ctx.impl_.node_count() };
        drop(c);
        ctx.impl_.collect_cycles();
        let n2 = ctx.impl_.node_count();
        println!("node_count before drop {}, after drop+collect {}", n1, n2);
        ss.send(8);
        ctx.impl_.collect_cycles();
        println!("node_count after another txn {}", ctx.impl_.node_count());
        kl.unlisten();
    });
}

// ---------- E6: switch_s built in a handler, selector updates later in same transaction ----------
#[test]
fn e06_switch_s_built_in_handler() {
    watchdog("e06", 5, || {
        let ctx = SodiumCtx::new();
        let trig: StreamSink<i32> = ctx.new_stream_sink();
        let sa: StreamSink<i32> = ctx.new_stream_sink();
        let sb: StreamSink<i32> = ctx.new_stream_sink();
        let sel: StreamSink<Stream<i32>> = ctx.new_stream_sink();
        let sel2 = sel.stream().map(|s: &Stream<i32>| s.clone()).map(|s: &Stream<i32>| s.clone());
        let csa = sel2.hold(sa.stream());
        let (out, k) = rec::<i32>();
        let k = Arc::new(Mutex::new(Some(k)));
        let slot: Arc<Mutex<Vec<Listener>>> = Arc::new(Mutex::new(Vec::new()));
        let kl;
        {
            let slot = slot.clone();
            let csa = csa.clone();
            kl = trig.stream().listen(move |_: &i32| {
                let sw = Cell::switch_s(&csa);
                if let Some(k) = k.lock().unwrap().take() {
                    slot.lock().unwrap().push(sw.listen(k));
                }
            });
        }
        ctx.transaction(|| {
            trig.send(0);
            sel.send(sb.stream());
        });
        sa.send(1);
        sb.send(2);
        println!("switch_s in handler out = {:?}", out.lock().unwrap());
        assert_eq!(*out.lock().unwrap(), vec![2]);
        kl.unlisten();
    });
}

// ---------- E7: collect_cycles at odd moments ----------
#[test]
fn e07_collect_in_handler_and_map() {
    watchdog("e07", 5, || {
        let ctx = SodiumCtx::new();
        let ss: StreamSink<i32> = ctx.new_stream_sink();
        let ctx2 = ctx.clone();
        let m = ss.stream().map(move |a: &i32| {
            ctx2.impl_.collect_cycles();
            *a + 1
        });
        let acc = m.accum(0, |a: &i32, s: &i32| *a + *s);
        let ctx3 = ctx.clone();
        let (out, mut k) = rec::<i32>();
        let l = acc.listen(move |a: &i32| {
            ctx3.impl_.collect_cycles();
            k(a)
        });
        // garbage cycle pending
        let g = ss.stream().accum(0, |a: &i32, s: &i32| *a + *s);
        drop(g);
        ctx.transaction(|| {
            let g2 = ss.stream().accum(0, |a: &i32, s: &i32| *a + *s);
            ctx.impl_.collect_cycles();
            ss.send(1);
            ctx.impl_.collect_cycles();
            drop(g2);
            ctx.impl_.collect_cycles();
        });
        ss.send(2);
        assert_eq!(*out.lock().unwrap(), vec![0, 2, 5]);
        l.unlisten();
        drop(acc);
        drop(m);
        ctx.impl_.collect_cycles();
        println!("e07 node_count {}", ctx.impl_.node_count());
    });
}

#[test]
fn e03b_debug() {
    let ctx = SodiumCtx::new();
    let ss: StreamSink<i32> = ctx.new_stream_sink();
    let s = ss.stream();
    let slot: Arc<Mutex<Option<Listener>>> = Arc::new(Mutex::new(None));
    let slot2 = slot.clone();
    let kl = s.listen(move |a: &i32| {
        println!("K {} start", a);
        let l = slot2.lock().unwrap().take();
        println!("K took {}", l.is_some());
        drop(l);
        println!("K {} end", a);
    });
    let m = s.map(|a: &i32| { println!("map {}", a); *a + 100 });
    let l = m.listen_weak(|a: &i32| println!("L {}", a));
    *slot.lock().unwrap() = Some(l);
    ss.send(1);
    ss.send(2);
    kl.unlisten();
}

fn e8_variant(collect: bool, on_cell: bool) -> Vec<i32> {
    let ctx = SodiumCtx::new();
    let ss: StreamSink<i32> = ctx.new_stream_sink();
    let (out, k) = rec::<i32>();
    let l = if on_cell { ss.stream().hold(0).listen_weak(k) } else { ss.stream().listen_weak(k) };
    ss.send(1);
    drop(l);
    if collect {
        ctx.impl_.collect_cycles();
    }
    ss.send(2);
    ss.send(3);
    let r = out.lock().unwrap().clone();
    r
}

#[test]
fn e08_weak_listener_drop_then_send() {
    watchdog("e08", 5, || {
        let mut bad = vec![];
        for on_cell in [false, true] {
            let a = e8_variant(false, on_cell);
            let b = e8_variant(true, on_cell);
            println!("on_cell {}: no collect: {:?}, collect: {:?}", on_cell, a, b);
            if a != b {
                bad.push((on_cell, a, b));
            }
        }
        assert!(bad.is_empty(), "outputs depend on an extra collect_cycles(): {:?}", bad);
    });
}

fn rss_kb() -> usize {
    let s = std::fs::read_to_string("/proc/self/statm").unwrap();
    let pages: usize = s.split_whitespace().nth(1).unwrap().parse().unwrap();
    pages * 4
}

// ---------- E10: dead dependents entries accumulate on a long-lived stream ----------
#[test]
fn e10_dependents_growth() {
    watchdog("e10", 300, || {
        let mut bad = vec![];
        for variant in ["listen+unlisten", "map+drop", "cell.listen+unlisten"] {
            let ctx = SodiumCtx::new();
            let ss: StreamSink<i32> = ctx.new_stream_sink();
            let s = ss.stream();
            let c = s.hold(0);
            let time_send = |n: usize| {
                let t = std::time::Instant::now();
                for i in 0..n {
                    ss.send(i as i32);
                }
                t.elapsed().as_nanos() as f64 / n as f64
            };
            ctx.impl_.collect_cycles();
            let base_nodes = ctx.impl_.node_count();
            let base_rss = rss_kb();
            let t0 = time_send(200);
            let mut last = (0isize, 0f64);
            for round in 0..3 {
                for _ in 0..20_000 {
                    match variant {
                        "listen+unlisten" => s.listen(|_: &i32| {}).unlisten(),
                        "map+drop" => drop(s.map(|a: &i32| *a)),
                        _ => c.listen(|_: &i32| {}).unlisten(),
                    }
                }
                ctx.impl_.collect_cycles();
                let t1 = time_send(200);
                last = (rss_kb() as isize - base_rss as isize, t1 / t0);
                println!(
                    "{} round {}: node_count {} (base {}), rss +{} kB, ns/send {:.0} (base {:.0})",
                    variant,
                    round,
                    ctx.impl_.node_count(),
                    base_nodes,
                    last.0,
                    t1,
                    t0
                );
                assert_eq!(ctx.impl_.node_count(), base_nodes);
            }
            if !(last.0 < 4000 && last.1 < 20.0) {
                bad.push(format!("{}: memory +{} kB, send {:.0}x slower after 60000 create/dispose rounds", variant, last.0, last.1));
            }
        }
        assert!(bad.is_empty(), "{:#?}", bad);
    });
}

// ---------- E9: two contexts interleaved ----------
fn e9_prog(ctx: &SodiumCtx, tag: i32, hook: &dyn Fn(usize)) -> (Vec<i32>, usize) {
    let ss: StreamSink<i32> = ctx.new_stream_sink();
    let (out, k) = rec::<i32>();
    hook(0);
    let acc = ss.stream().accum(tag, |a: &i32, s: &i32| *a + *s);
    hook(1);
    let d = Operational::defer(&Operational::updates(&acc));
    let l = d.or_else(&ss.stream()).listen(k);
    hook(2);
    let t = ctx.new_transaction();
    ss.send(1);
    hook(3);
    t.close();
    hook(4);
    ss.send(2);
    hook(5);
    let g = ss.stream().accum(0, |a: &i32, s: &i32| *a + *s);
    drop(g);
    hook(6);
    ss.send(3);
    l.unlisten();
    drop(d);
    drop(acc);
    hook(7);
    ctx.impl_.collect_cycles();
    let r = out.lock().unwrap().clone();
    (r, ctx.impl_.node_count())
}

#[test]
fn e09_two_contexts_interleaved() {
    watchdog("e09", 20, || {
        let alone = e9_prog(&SodiumCtx::new(), 10, &|_| {});
        println!("alone: {:?}", alone);
        for at in 0..8 {
            let ctx_a = SodiumCtx::new();
            let ctx_b = SodiumCtx::new();
            let inner = std::cell::RefCell::new(None);
            let outer = e9_prog(&ctx_a, 10, &|i| {
                if i == at {
                    *inner.borrow_mut() = Some(e9_prog(&ctx_b, 10, &|_| {}));
                }
            });
            assert_eq!(outer, alone, "outer at {}", at);
            assert_eq!(inner.borrow().clone().unwrap(), alone, "inner at {}", at);
        }
        // B run inside a handler of A
        let ctx_a = SodiumCtx::new();
        let ctx_b = SodiumCtx::new();
        let ssa: StreamSink<i32> = ctx_a.new_stream_sink();
        let res = Arc::new(Mutex::new(None));
        let res2 = res.clone();
        let l = ssa.stream().listen(move |_: &i32| {
            *res2.lock().unwrap() = Some(e9_prog(&ctx_b, 10, &|_| {}));
        });
        ssa.send(1);
        assert_eq!(res.lock().unwrap().clone().unwrap(), alone);
        l.unlisten();
        // on threads
        let hs: Vec<_> = (0..4)
            .map(|_| std::thread::spawn(|| e9_prog(&SodiumCtx::new(), 10, &|_| {})))
            .collect();
        for h in hs {
            assert_eq!(h.join().unwrap(), alone);
        }
    });
}

// ---------- E13: scoped transaction closed on another thread; sends from several threads one after another ----------
#[test]
fn e13_transaction_across_threads() {
    watchdog("e13", 10, || {
        let ctx = SodiumCtx::new();
        let ss: StreamSink<i32> = ctx.new_stream_sink();
        let (out, k) = rec::<i32>();
        let l = ss.stream().listen(k);
        let t = ctx.new_transaction();
        ss.send(1);
        let ss2 = ss.clone();
        std::thread::spawn(move || {
            ss2.send(2);
            drop(t);
        })
        .join()
        .unwrap();
        let ss3 = ss.clone();
        std::thread::spawn(move || ss3.send(3)).join().unwrap();
        println!("e13 {:?}", out.lock().unwrap());
        assert_eq!(*out.lock().unwrap(), vec![2, 3]);
        l.unlisten();
    });
}

// ---------- E15: coalescer / once ----------
#[test]
fn e15_coalescer_once() {
    watchdog("e15", 10, || {
        let ctx = SodiumCtx::new();
        let ss: StreamSink<i32> = ctx.new_stream_sink_with_coalescer(|a: &i32, b: &i32| *a * 10 + *b);
        let (out, k) = rec::<i32>();
        let (out2, k2) = rec::<i32>();
        let l = ss.stream().listen(k);
        let o = ss.stream().once();
        let l2 = o.listen(k2);
        ctx.transaction(|| {
            ss.send(1);
            ss.send(2);
            ss.send(3);
        });
        ss.send(4);
        ctx.transaction(|| {
            ss.send(5);
            let o2 = ss.stream().once();
            ss.send(6);
            let (out3, k3) = rec::<i32>();
            let l3 = o2.listen(k3);
            ctx.post(move || {
                println!("once built mid txn: {:?}", out3.lock().unwrap());
                let _ = &l3;
            });
        });
        println!("{:?} {:?}", out.lock().unwrap(), out2.lock().unwrap());
        assert_eq!(*out.lock().unwrap(), vec![123, 4, 56]);
        assert_eq!(*out2.lock().unwrap(), vec![123]);
        l.unlisten();
        l2.unlisten();
    });
}

// ---------- E17: long chain ----------
fn e17_run(n: usize, upto: usize) {
    let ctx = SodiumCtx::new();
    let ss: StreamSink<i32> = ctx.new_stream_sink();
    let mut s = ss.stream();
    for _ in 0..n {
        s = s.map(|a: &i32| *a + 1);
    }
    eprintln!("built");
    if upto == 0 { std::mem::forget(s); return; }
    let (out, k) = rec::<i32>();
    let l = s.listen(k);
    ss.send(0);
    eprintln!("sent: {:?}", out.lock().unwrap());
    if upto == 1 { std::mem::forget(s); return; }
    l.unlisten();
    drop(s);
    eprintln!("dropped");
    if upto == 2 { return; }
    ctx.impl_.collect_cycles();
    eprintln!("collected: nodes {}", ctx.impl_.node_count());
}

#[test]
fn e17_long_chain() {
    let n: usize = std::env::var("E17_N").ok().and_then(|x| x.parse().ok()).unwrap_or(20000);
    let upto: usize = std::env::var("E17_UPTO").ok().and_then(|x| x.parse().ok()).unwrap_or(3);
    let stack: usize = std::env::var("E17_STACK").ok().and_then(|x| x.parse().ok()).unwrap_or(8 << 20);
    std::thread::Builder::new().stack_size(stack).spawn(move || e17_run(n, upto)).unwrap().join().unwrap();
}

// ---------- E6b: switch_s built inside a map function (sanctioned by the docs), selector steps later in the same transaction ----------
#[test]
fn e06b_switch_s_built_in_map() {
    watchdog("e06b", 5, || {
        let ctx = SodiumCtx::new();
        let trig: StreamSink<i32> = ctx.new_stream_sink();
        let sa: StreamSink<i32> = ctx.new_stream_sink();
        let sb: StreamSink<i32> = ctx.new_stream_sink();
        let sel: StreamSink<Stream<i32>> = ctx.new_stream_sink();
        let sel2 = sel.stream().map(|s: &Stream<i32>| s.clone()).map(|s: &Stream<i32>| s.clone());
        let csa = sel2.hold(sa.stream());
        let csa_dep = csa.to_dep();
        let built = trig
            .stream()
            .map(lambda1(move |_: &i32| Cell::switch_s(&csa), vec![csa_dep]));
        let outer = Cell::switch_s(&built.hold(ctx.new_stream()));
        let (out, k) = rec::<i32>();
        let l = outer.listen(k);
        ctx.transaction(|| {
            trig.send(0);
            sel.send(sb.stream());
        });
        sa.send(1);
        sb.send(2);
        println!("e06b out = {:?}", out.lock().unwrap());
        assert_eq!(*out.lock().unwrap(), vec![2]);
        l.unlisten();
    });
}

// ---------- E6c: the same with switch_c ----------
#[test]
fn e06c_switch_c_built_in_map() {
    watchdog("e06c", 5, || {
        let ctx = SodiumCtx::new();
        let trig: StreamSink<i32> = ctx.new_stream_sink();
        let ca: CellSink<i32> = ctx.new_cell_sink(1);
        let cb: CellSink<i32> = ctx.new_cell_sink(2);
        let sel: StreamSink<Cell<i32>> = ctx.new_stream_sink();
        let sel2 = sel.stream().map(|s: &Cell<i32>| s.clone()).map(|s: &Cell<i32>| s.clone());
        let cca = sel2.hold(ca.cell());
        let cca_dep = cca.to_dep();
        let built = trig
            .stream()
            .map(lambda1(move |_: &i32| Cell::switch_c(&cca), vec![cca_dep]));
        let outer = Cell::switch_c(&built.hold(ctx.new_cell(-1)));
        let (out, k) = rec::<i32>();
        let l = outer.listen(k);
        ctx.transaction(|| {
            trig.send(0);
            sel.send(cb.cell());
        });
        ca.send(10);
        cb.send(20);
        println!("e06c out = {:?}", out.lock().unwrap());
        assert_eq!(*out.lock().unwrap(), vec![-1, 2, 20]);
        l.unlisten();
    });
}

// ---------- E5b: hold built in a handler after its stream already fired in this transaction ----------
#[test]
fn e05b_hold_built_in_handler_after_firing() {
    watchdog("e05b", 5, || {
        let ctx = SodiumCtx::new();
        let ss: StreamSink<i32> = ctx.new_stream_sink();
        let s = ss.stream();
        let deep = s.map(|a: &i32| *a).map(|a: &i32| *a);
        let slot: Arc<Mutex<Vec<Cell<i32>>>> = Arc::new(Mutex::new(Vec::new()));
        let kl;
        {
            let slot = slot.clone();
            let s = s.clone();
            let ctx2 = ctx.clone();
            kl = deep.listen(move |_: &i32| {
                // NB: s is not the stream whose lock is held here (that one is `deep`)
                let _ = &ctx2;
                slot.lock().unwrap().push(s.hold(0));
                slot.lock().unwrap().push(s.map(|a: &i32| *a).hold(0));
            });
        }
        ss.send(7);
        let v: Vec<i32> = slot.lock().unwrap().iter().map(|c| c.sample()).collect();
        println!("e05b: hold = {}, map.hold = {}", v[0], v[1]);
        assert_eq!(v, vec![7, 7]);
        kl.unlisten();
    });
}

// ---------- E24: thread B only clones/drops handles (opens no transaction, never sends) while thread A sends ----------
#[test]
fn e24_clone_drop_vs_collection() {
    watchdog("e24", 120, || {
        use std::sync::atomic::{AtomicBool, Ordering};
        let ctx = SodiumCtx::new();
        let ss: StreamSink<i32> = ctx.new_stream_sink();
        let mut chain = vec![ss.stream()];
        for _ in 0..100 {
            let last = chain.last().unwrap().clone();
            chain.push(last.map(|a: &i32| *a + 1).or_else(&last));
        }
        let count = Arc::new(Mutex::new(0usize));
        let c2 = count.clone();
        let l = chain.last().unwrap().listen(move |_: &i32| *c2.lock().unwrap() += 1);
        let stop = Arc::new(AtomicBool::new(false));
        let hb;
        {
            let chain = chain.clone();
            let stop = stop.clone();
            hb = std::thread::spawn(move || {
                let mut n = 0u64;
                while !stop.load(Ordering::SeqCst) {
                    for s in &chain {
                        let c = s.clone();
                        drop(c);
                    }
                    n += 1;
                }
                n
            });
        }
        let n_send = 2000;
        for i in 0..n_send {
            ss.send(i);
        }
        stop.store(true, Ordering::SeqCst);
        let n = hb.join().unwrap();
        println!("B iterations {}, listener calls {}", n, *count.lock().unwrap());
        assert_eq!(*count.lock().unwrap(), n_send as usize);
        l.unlisten();
        drop(chain);
        drop(ss);
        ctx.impl_.collect_cycles();
        println!("nodes {}", ctx.impl_.node_count());
        assert_eq!(ctx.impl_.node_count(), 0);
    });
}

// ---------- E18: medium program, extra collections / clone+drop between all steps ----------
fn e18_prog(noise: bool) -> (Vec<String>, usize) {
    let ctx = SodiumCtx::new();
    let log: Arc<Mutex<Vec<String>>> = Arc::new(Mutex::new(Vec::new()));
    let mk = |tag: &'static str| {
        let log = log.clone();
        move |a: &i32| log.lock().unwrap().push(format!("{}:{}", tag, a))
    };
    let n = |ctx: &SodiumCtx| {
        if noise {
            ctx.impl_.collect_cycles();
        }
    };
    let ss: StreamSink<i32> = ctx.new_stream_sink();
    let cs: CellSink<i32> = ctx.new_cell_sink(100);
    n(&ctx);
    let r = ctx.new_router(&ss.stream(), |a: &i32| vec![*a % 3, 7]);
    let r0 = r.filter_matches(&0);
    n(&ctx);
    let r7 = r.filter_matches(&7);
    let acc = r7.accum(0, |a: &i32, s: &i32| *a + *s);
    n(&ctx);
    let l2 = acc.lift2(&cs.cell(), |a: &i32, b: &i32| *a + *b);
    let sel: StreamSink<Cell<i32>> = ctx.new_stream_sink();
    let sw = Cell::switch_c(&sel.stream().hold(l2.clone()));
    n(&ctx);
    let ssel: StreamSink<Stream<i32>> = ctx.new_stream_sink();
    let sws = Cell::switch_s(&ssel.stream().hold(r0.clone()));
    let d = Operational::defer(&sws);
    let sp = ss.stream().map(|a: &i32| vec![*a, *a + 1]).split();
    let on = sp.once();
    n(&ctx);
    let mut ls = vec![
        sw.listen(mk("sw")),
        d.listen(mk("d")),
        sp.listen(mk("sp")),
        on.listen(mk("on")),
        Operational::value(&l2).listen(mk("v")),
    ];
    if noise {
        let _c = (r0.clone(), r7.clone(), acc.clone(), l2.clone(), sw.clone(), sws.clone(), d.clone(), sp.clone());
    }
    n(&ctx);
    ss.send(3);
    n(&ctx);
    ss.send(4);
    n(&ctx);
    sel.send(acc.clone());
    n(&ctx);
    ssel.send(r7.clone());
    drop(r0);
    n(&ctx);
    ss.send(5);
    cs.send(200);
    n(&ctx);
    ctx.transaction(|| {
        ss.send(6);
        n(&ctx);
        sel.send(l2.clone());
        cs.send(300);
    });
    n(&ctx);
    drop(r7);
    drop(acc);
    ss.send(9);
    n(&ctx);
    for l in ls.drain(..) {
        l.unlisten();
    }
    drop((l2, sw, sws, d, sp, on, r));
    drop((ss, cs, sel, ssel));
    ctx.impl_.collect_cycles();
    let r = log.lock().unwrap().clone();
    (r, ctx.impl_.node_count())
}

#[test]
fn e18_metamorphic_noise() {
    watchdog("e18", 20, || {
        let a = e18_prog(false);
        let b = e18_prog(true);
        println!("{:?}", a);
        assert_eq!(a, b);
    });
}

// ---------- E28: position of definitions relative to sends inside one transaction ----------
fn e28_prog(pos: usize) -> Vec<String> {
    let ctx = SodiumCtx::new();
    let log: Arc<Mutex<Vec<String>>> = Arc::new(Mutex::new(Vec::new()));
    let mk = |tag: &'static str| {
        let log = log.clone();
        move |a: &i32| log.lock().unwrap().push(format!("{}:{}", tag, a))
    };
    let ss: StreamSink<i32> = ctx.new_stream_sink();
    let cs: CellSink<i32> = ctx.new_cell_sink(10);
    let mut keep: Vec<Listener> = vec![];
    let mut cells: Vec<Cell<i32>> = vec![];
    let mut build = |keep: &mut Vec<Listener>, cells: &mut Vec<Cell<i32>>| {
        let h = ss.stream().hold(0);
        let m = cs.cell().map(|a: &i32| *a + 1);
        let l2 = h.lift2(&m, |a: &i32, b: &i32| *a * 1000 + *b);
        let sn = ss.stream().snapshot(&cs.cell(), |a: &i32, b: &i32| *a * 1000 + *b);
        let on = ss.stream().once();
        let r = ctx.new_router(&ss.stream(), |a: &i32| vec![*a]);
        keep.push(l2.listen(mk("l2")));
        keep.push(sn.listen(mk("sn")));
        keep.push(on.listen(mk("on")));
        keep.push(r.filter_matches(&5).listen(mk("r5")));
        keep.push(Operational::value(&cs.cell()).listen(mk("v")));
        keep.push(Operational::updates(&l2).listen(mk("u")));
        cells.push(l2);
    };
    ctx.transaction(|| {
        if pos == 0 { build(&mut keep, &mut cells); }
        ss.send(5);
        if pos == 1 { build(&mut keep, &mut cells); }
        cs.send(20);
        if pos == 2 { build(&mut keep, &mut cells); }
    });
    log.lock().unwrap().push(format!("sample:{}", cells[0].sample()));
    ss.send(6);
    cs.send(30);
    log.lock().unwrap().push(format!("sample:{}", cells[0].sample()));
    for l in keep { l.unlisten(); }
    let mut r = log.lock().unwrap().clone();
    // only per-listener sequences are specified
    r.sort_by_key(|x| x.split(':').next().unwrap().to_string());
    r
}

#[test]
fn e28_definition_position_in_transaction() {
    watchdog("e28", 10, || {
        let a = e28_prog(0);
        println!("{:?}", a);
        for pos in 1..3 {
            let b = e28_prog(pos);
            assert_eq!(a, b, "pos {}", pos);
        }
    });
}

// ---------- E26: weak listener dropped inside the transaction before the send ----------
#[test]
fn e26_weak_listener_dropped_in_transaction() {
    watchdog("e26", 5, || {
        let ctx = SodiumCtx::new();
        let ss: StreamSink<i32> = ctx.new_stream_sink();
        let (out, k) = rec::<i32>();
        let l = ss.stream().listen_weak(k);
        ctx.transaction(|| {
            drop(l);
            ss.send(1);
        });
        ss.send(2);
        println!("e26 {:?}", out.lock().unwrap());
        assert_eq!(*out.lock().unwrap(), Vec::<i32>::new());
    });
}

// ---------- E27: CellLoop clones / drops / collections around loop_ ----------
#[test]
fn e27_cell_loop_noise() {
    watchdog("e27", 5, || {
        let run = |noise: bool| {
            let ctx = SodiumCtx::new();
            let ss: StreamSink<i32> = ctx.new_stream_sink();
            let (out, k) = rec::<i32>();
            let (c, l) = ctx.transaction(|| {
                let cl: CellLoop<i32> = ctx.new_cell_loop();
                let cl2 = if noise { Some(cl.clone()) } else { None };
                if noise { ctx.impl_.collect_cycles(); }
                let nxt = ss.stream().snapshot(&cl.cell(), |a: &i32, b: &i32| *a + *b).hold(1);
                if noise { ctx.impl_.collect_cycles(); }
                let l = nxt.listen(k);
                if noise { drop(cl2); ctx.impl_.collect_cycles(); }
                cl.loop_(&nxt);
                if noise { ctx.impl_.collect_cycles(); }
                drop(cl);
                if noise { ctx.impl_.collect_cycles(); }
                (nxt, l)
            });
            ss.send(1);
            if noise { ctx.impl_.collect_cycles(); }
            ss.send(2);
            let r = (out.lock().unwrap().clone(), c.sample());
            l.unlisten();
            drop(c);
            drop(ss);
            ctx.impl_.collect_cycles();
            (r, ctx.impl_.node_count())
        };
        let a = run(false);
        let b = run(true);
        println!("{:?} {:?}", a, b);
        assert_eq!(a, b);
    });
}
