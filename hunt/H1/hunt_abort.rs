use sodium_rust::*;
use std::sync::{Arc, Mutex};

fn run(n: i32) -> i32 {
    let ctx = SodiumCtx::new();
    let sink: StreamSink<i32> = ctx.new_stream_sink();
    let sl: StreamLoop<i32> = ctx.new_stream_loop();
    let last = Arc::new(Mutex::new(0));
    let last2 = last.clone();
    let l = ctx.transaction(|| {
        let s = sink.stream().or_else(&sl.stream());
        let next = s.filter(move |x: &i32| *x < n).map(|x: &i32| *x + 1);
        sl.loop_(&Operational::defer(&next));
        s.listen(move |x: &i32| *last2.lock().unwrap() = *x)
    });
    sink.send(0);
    l.unlisten();
    let r = *last.lock().unwrap();
    r
}

// a counter that feeds itself through Operational::defer: one deferred event per step
#[test]
fn defer_chain_depth() {
    let n: i32 = std::env::var("HUNT_N").ok().and_then(|s| s.parse().ok()).unwrap_or(20000);
    let h = std::thread::Builder::new()
        .stack_size(8 * 1024 * 1024)
        .spawn(move || run(n))
        .unwrap();
    let r = h.join().unwrap();
    println!("counted to {}", r);
    assert_eq!(r, n);
}
