#![allow(dead_code, unused_variables, unused_imports)]
use sodium_rust::*;
use std::sync::mpsc;
use std::sync::{Arc, Mutex};
use std::time::Duration;

/// run `f` on its own thread; panic if it does not finish within 10 s
fn watchdog<F: FnOnce() + Send + 'static>(f: F) {
    let (tx, rx) = mpsc::channel();
    let h = std::thread::spawn(move || {
        f();
        let _ = tx.send(());
    });
    match rx.recv_timeout(Duration::from_secs(10)) {
        Ok(()) => h.join().unwrap(),
        Err(mpsc::RecvTimeoutError::Disconnected) => {
            // panicked
            if let Err(e) = h.join() {
                std::panic::resume_unwind(e);
            }
        }
        Err(mpsc::RecvTimeoutError::Timeout) => panic!("HANG: watchdog timeout"),
    }
}

fn log<T: Clone + Send + 'static>() -> (Arc<Mutex<Vec<T>>>, impl Fn(T) + Clone + Send + Sync + 'static) {
    let v: Arc<Mutex<Vec<T>>> = Arc::new(Mutex::new(Vec::new()));
    let v2 = v.clone();
    (v, move |x: T| v2.lock().unwrap().push(x))
}

// E9a: order of deferred events of one source, with an explicit post that sends into the source
#[test]
fn e9a_defer_order_with_post_send() {
    watchdog(|| {
        let ctx = SodiumCtx::new();
        let sink: StreamSink<i32> = ctx.new_stream_sink();
        let (src_log, push_src) = log::<i32>();
        let (out_log, push_out) = log::<i32>();
        let l0 = sink.stream().listen(move |a: &i32| push_src(*a));
        let d = Operational::defer(&sink.stream());
        let l1 = d.listen(move |a: &i32| push_out(*a));
        ctx.transaction(|| {
            let sink2 = sink.clone();
            ctx.post(move || sink2.send(2));
            sink.send(1);
        });
        let src = src_log.lock().unwrap().clone();
        let out = out_log.lock().unwrap().clone();
        println!("e9a source order {:?}, deferred order {:?}", src, out);
        assert_eq!(src, vec![1, 2]);
        assert_eq!(out, vec![1, 2], "deferred events of one source out of order");
        l0.unlisten();
        l1.unlisten();
    });
}

// E9b: same with only defer (no explicit post)
#[test]
fn e9b_defer_order_pure() {
    watchdog(|| {
        let ctx = SodiumCtx::new();
        let a: StreamSink<i32> = ctx.new_stream_sink();
        let da = Operational::defer(&a.stream());
        let b = da.map(|x: &i32| *x + 100);
        let m = a.stream().or_else(&b);
        let (src_log, push_src) = log::<i32>();
        let (out_log, push_out) = log::<i32>();
        let l0 = m.listen(move |a: &i32| push_src(*a));
        let dm = Operational::defer(&m);
        let l1 = dm.listen(move |a: &i32| push_out(*a));
        a.send(1);
        let src = src_log.lock().unwrap().clone();
        let out = out_log.lock().unwrap().clone();
        println!("e9b source order {:?}, deferred order {:?}", src, out);
        assert_eq!(src, vec![1, 101]);
        assert_eq!(out, vec![1, 101], "deferred events of one source out of order");
        l0.unlisten();
        l1.unlisten();
    });
}

// E1: hold built inside a handler after its source was already visited
#[test]
fn e1_hold_built_in_handler() {
    watchdog(|| {
        let ctx = SodiumCtx::new();
        let s: StreamSink<i32> = ctx.new_stream_sink();
        let s0: StreamSink<i32> = ctx.new_stream_sink();
        let cell_slot: Arc<Mutex<Option<Cell<i32>>>> = Arc::new(Mutex::new(None));
        let l;
        {
            let cell_slot = cell_slot.clone();
            let st = s.stream();
            l = s0.stream().listen(move |_: &i32| {
                *cell_slot.lock().unwrap() = Some(st.hold(0));
            });
        }
        ctx.transaction(|| {
            s.send(5);
            s0.send(1);
        });
        let c = cell_slot.lock().unwrap().clone().unwrap();
        println!("e1 sample after txn: {}", c.sample());
        // empty transaction
        ctx.transaction(|| {});
        println!("e1 sample after empty txn: {}", c.sample());
        assert_eq!(c.sample(), 5);
        l.unlisten();
    });
}

// E2: listen built inside a handler after its source was already visited
#[test]
fn e2_listen_built_in_handler() {
    watchdog(|| {
        let ctx = SodiumCtx::new();
        let s: StreamSink<i32> = ctx.new_stream_sink();
        let s0: StreamSink<i32> = ctx.new_stream_sink();
        let (out_log, push_out) = log::<i32>();
        let slot: Arc<Mutex<Vec<Listener>>> = Arc::new(Mutex::new(Vec::new()));
        let l;
        {
            let slot = slot.clone();
            let st = s.stream();
            l = s0.stream().listen(move |_: &i32| {
                let push_out = push_out.clone();
                slot.lock().unwrap().push(st.listen(move |a: &i32| push_out(*a)));
            });
        }
        ctx.transaction(|| {
            s.send(5);
            s0.send(1);
        });
        println!("e2 after txn: {:?}", out_log.lock().unwrap());
        assert_eq!(*out_log.lock().unwrap(), vec![5]);
        ctx.transaction(|| {});
        assert_eq!(*out_log.lock().unwrap(), vec![5]);
        l.unlisten();
    });
}

// E2b: contrast: same as E2 but the source is sent (hence visited) after the trigger
#[test]
fn e2b_listen_built_in_handler_other_order() {
    watchdog(|| {
        let ctx = SodiumCtx::new();
        let s0: StreamSink<i32> = ctx.new_stream_sink();
        let s: StreamSink<i32> = ctx.new_stream_sink();
        let (out_log, push_out) = log::<i32>();
        let slot: Arc<Mutex<Vec<Listener>>> = Arc::new(Mutex::new(Vec::new()));
        let l;
        {
            let slot = slot.clone();
            let st = s.stream();
            l = s0.stream().listen(move |_: &i32| {
                let push_out = push_out.clone();
                slot.lock().unwrap().push(st.listen(move |a: &i32| push_out(*a)));
            });
        }
        ctx.transaction(|| {
            s0.send(1);
            s.send(5);
        });
        println!("e2b after txn: {:?}", out_log.lock().unwrap());
        assert_eq!(*out_log.lock().unwrap(), vec![5]);
        l.unlisten();
    });
}

// E2c: contrast: listen on a map of the source, built in the handler
#[test]
fn e2c_listen_on_map_built_in_handler() {
    watchdog(|| {
        let ctx = SodiumCtx::new();
        let s: StreamSink<i32> = ctx.new_stream_sink();
        let s0: StreamSink<i32> = ctx.new_stream_sink();
        let (out_log, push_out) = log::<i32>();
        let slot: Arc<Mutex<Vec<Listener>>> = Arc::new(Mutex::new(Vec::new()));
        let l;
        {
            let slot = slot.clone();
            let st = s.stream();
            l = s0.stream().listen(move |_: &i32| {
                let push_out = push_out.clone();
                slot.lock().unwrap().push(st.map(|a: &i32| *a).listen(move |a: &i32| push_out(*a)));
            });
        }
        ctx.transaction(|| {
            s.send(5);
            s0.send(1);
        });
        println!("e2c after txn: {:?}", out_log.lock().unwrap());
        assert_eq!(*out_log.lock().unwrap(), vec![5]);
        l.unlisten();
    });
}

// E3: hold built in a handler leaves a pre_eot entry pending after the close (keeps nodes alive)
#[test]
fn e3_pending_pre_eot_after_close() {
    watchdog(|| {
        let ctx = SodiumCtx::new();
        {
            let s: StreamSink<i32> = ctx.new_stream_sink();
            let s0: StreamSink<i32> = ctx.new_stream_sink();
            let l;
            {
                let st = s.stream();
                l = s0.stream().listen(move |_: &i32| {
                    let _c = st.hold(0);
                });
            }
            s0.send(1);
            l.unlisten();
        }
        ctx.impl_.collect_cycles();
        let n1 = ctx.impl_.node_count();
        ctx.transaction(|| {});
        ctx.impl_.collect_cycles();
        let n2 = ctx.impl_.node_count();
        println!("e3 node_count after drop+collect: {}, after one more empty txn: {}", n1, n2);
        assert_eq!(n1, 0, "nodes alive after everything was dropped and collected");
    });
}

// E9c: split: order across two collections of one source
#[test]
fn e9c_split_order() {
    watchdog(|| {
        let ctx = SodiumCtx::new();
        let sink: StreamSink<Vec<i32>> = ctx.new_stream_sink();
        let sl: StreamLoop<Vec<i32>> = ctx.new_stream_loop();
        let (out_log, push_out) = log::<i32>();
        let (src_log, push_src) = log::<Vec<i32>>();
        let (l0, l1) = ctx.transaction(|| {
            let s = sink.stream().or_else(&sl.stream());
            let sp: Stream<i32> = s.split();
            sl.loop_(&sp.filter(|x: &i32| *x == 1).map(|_: &i32| vec![10, 20]));
            let l0 = s.listen(move |v: &Vec<i32>| push_src(v.clone()));
            let l1 = sp.listen(move |a: &i32| push_out(*a));
            (l0, l1)
        });
        sink.send(vec![1, 2]);
        println!("e9c source {:?} split out {:?}", src_log.lock().unwrap(), out_log.lock().unwrap());
        assert_eq!(*out_log.lock().unwrap(), vec![1, 2, 10, 20]);
        l0.unlisten();
        l1.unlisten();
    });
}

// E4: a value whose Drop opens a transaction, dropped while the firing is cleared
struct Tok(Arc<dyn Fn() + Send + Sync>);
impl Clone for Tok {
    fn clone(&self) -> Tok {
        Tok(self.0.clone())
    }
}
impl Drop for Tok {
    fn drop(&mut self) {
        (self.0)()
    }
}

#[test]
fn e4_drop_opens_transaction_in_pre_post() {
    watchdog(|| {
        let ctx = SodiumCtx::new();
        let toks: StreamSink<Tok> = ctx.new_stream_sink();
        let cs: CellSink<i32> = ctx.new_cell_sink(0);
        let c = cs.cell();
        let (seen_log, push_seen) = log::<i32>();
        let ctx2 = ctx.clone();
        let tok = Tok(Arc::new(move || ctx2.transaction(|| {})));
        ctx.transaction(|| {
            toks.send(tok.clone());
            cs.send(7);
            let c = c.clone();
            ctx.post(move || push_seen(c.sample()));
        });
        println!("e4 post saw {:?}", seen_log.lock().unwrap());
        assert_eq!(*seen_log.lock().unwrap(), vec![7]);
    });
}

// E7: panic inside a closure transaction leaves the transaction open
#[test]
fn e7_panic_in_transaction_closure() {
    watchdog(|| {
        let ctx = SodiumCtx::new();
        let s: StreamSink<i32> = ctx.new_stream_sink();
        let (out_log, push_out) = log::<i32>();
        let l = s.stream().listen(move |a: &i32| push_out(*a));
        let ctx2 = ctx.clone();
        let r = std::panic::catch_unwind(std::panic::AssertUnwindSafe(|| {
            ctx2.transaction(|| {
                panic!("user error");
            })
        }));
        assert!(r.is_err());
        s.send(1);
        println!("e7 after panic, send delivered: {:?}", out_log.lock().unwrap());
        assert_eq!(*out_log.lock().unwrap(), vec![1]);
        l.unlisten();
    });
}

// E7b: same with a scoped transaction (has Drop): should be fine
#[test]
fn e7b_panic_in_scoped_transaction() {
    watchdog(|| {
        let ctx = SodiumCtx::new();
        let s: StreamSink<i32> = ctx.new_stream_sink();
        let (out_log, push_out) = log::<i32>();
        let l = s.stream().listen(move |a: &i32| push_out(*a));
        let ctx2 = ctx.clone();
        let r = std::panic::catch_unwind(std::panic::AssertUnwindSafe(|| {
            let _t = ctx2.new_transaction();
            panic!("user error");
        }));
        assert!(r.is_err());
        s.send(1);
        assert_eq!(*out_log.lock().unwrap(), vec![1]);
        l.unlisten();
    });
}

// E5: coalescer left fold incl. nested transactions and scoped ones
#[test]
fn e5_coalescer_left_fold() {
    watchdog(|| {
        let ctx = SodiumCtx::new();
        let s: StreamSink<i64> = ctx.new_stream_sink_with_coalescer(|a: &i64, b: &i64| a * 10 + b);
        let (out_log, push_out) = log::<i64>();
        let l = s.stream().listen(move |a: &i64| push_out(*a));
        ctx.transaction(|| {
            s.send(1);
            ctx.transaction(|| {
                s.send(2);
                let t = ctx.new_transaction();
                s.send(3);
                t.close();
                t.close();
                drop(t);
                s.send(4);
            });
            assert!(out_log.lock().unwrap().is_empty());
            s.send(5);
        });
        assert_eq!(*out_log.lock().unwrap(), vec![12345]);
        s.send(6);
        ctx.transaction(|| {});
        assert_eq!(*out_log.lock().unwrap(), vec![12345, 6]);
        l.unlisten();
    });
}

// E10: post ordering / immediacy
#[test]
fn e10_post_basic() {
    watchdog(|| {
        let ctx = SodiumCtx::new();
        let (out_log, push_out) = log::<&'static str>();
        {
            let p = push_out.clone();
            ctx.post(move || p("immediate"));
        }
        assert_eq!(*out_log.lock().unwrap(), vec!["immediate"]);
        ctx.transaction(|| {
            let p = push_out.clone();
            ctx.post(move || p("a"));
            let p = push_out.clone();
            let ctx2 = ctx.clone();
            ctx.transaction(|| {
                ctx2.post(move || p("b"));
            });
            assert_eq!(out_log.lock().unwrap().len(), 1);
            let p = push_out.clone();
            let p2 = push_out.clone();
            let ctx3 = ctx.clone();
            ctx.post(move || {
                p("c");
                let p2 = p2.clone();
                ctx3.post(move || p2("c-inner"));
            });
            let p = push_out.clone();
            ctx.post(move || p("d"));
        });
        println!("e10 {:?}", out_log.lock().unwrap());
        assert_eq!(*out_log.lock().unwrap(), vec!["immediate", "a", "b", "c", "c-inner", "d"]);
    });
}

// E15: deferred event sees the cell updates of its producing transaction; own transaction each
#[test]
fn e15_defer_sees_cell_updates() {
    watchdog(|| {
        let ctx = SodiumCtx::new();
        let s: StreamSink<i32> = ctx.new_stream_sink();
        let cs: CellSink<i32> = ctx.new_cell_sink(0);
        let d = Operational::defer(&s.stream()).snapshot(&cs.cell(), |a: &i32, b: &i32| (*a, *b));
        let (out_log, push_out) = log::<(i32, i32)>();
        let l = d.listen(move |a: &(i32, i32)| push_out(*a));
        ctx.transaction(|| {
            s.send(1);
            cs.send(10);
        });
        ctx.transaction(|| {
            cs.send(20);
            s.send(2);
        });
        assert_eq!(*out_log.lock().unwrap(), vec![(1, 10), (2, 20)]);
        l.unlisten();
    });
}

// E16: Cell::listen inside a transaction that also sends: exactly once, new value
#[test]
fn e16_cell_listen_in_sending_txn() {
    watchdog(|| {
        let ctx = SodiumCtx::new();
        let cs: CellSink<i32> = ctx.new_cell_sink(0);
        let (out_log, push_out) = log::<i32>();
        let l = ctx.transaction(|| {
            cs.send(1);
            let l = cs.cell().listen(move |a: &i32| push_out(*a));
            cs.send(2);
            assert_eq!(cs.cell().sample(), 0);
            l
        });
        assert_eq!(*out_log.lock().unwrap(), vec![2]);
        assert_eq!(cs.cell().sample(), 2);
        ctx.transaction(|| {});
        assert_eq!(*out_log.lock().unwrap(), vec![2]);
        l.unlisten();
    });
}

// E17: growth over many transactions
#[test]
fn e17_growth() {
    watchdog(|| {
        let ctx = SodiumCtx::new();
        let s: StreamSink<i32> = ctx.new_stream_sink();
        let cs: CellSink<i32> = ctx.new_cell_sink(0);
        let d = Operational::defer(&s.stream());
        let sp: Stream<i32> = s.stream().map(|a: &i32| vec![*a, *a + 1]).split();
        let acc = d.or_else(&sp).accum(0, |a: &i32, b: &i32| *a + *b);
        let (out_log, push_out) = log::<i32>();
        let l = acc.listen(move |a: &i32| push_out(*a));
        let mut counts = vec![];
        for i in 0..300 {
            ctx.transaction(|| {
                s.send(i);
                cs.send(i);
                // transient stuff
                let l2 = cs.cell().listen(|_: &i32| {});
                l2.unlisten();
                let o = s.stream().once();
                let l3 = o.listen_weak(|_: &i32| {});
                drop(l3);
                let v = Operational::value(&cs.cell());
                let l4 = v.listen(|_: &i32| {});
                l4.unlisten();
            });
            if i == 10 || i == 100 || i == 299 {
                ctx.impl_.collect_cycles();
                counts.push(ctx.impl_.node_count());
            }
        }
        println!("e17 node counts {:?} events {}", counts, out_log.lock().unwrap().len());
        assert_eq!(counts[0], counts[2]);
        l.unlisten();
    });
}

// E19: unlisten from own handler
#[test]
fn e19_unlisten_in_own_handler() {
    watchdog(|| {
        let ctx = SodiumCtx::new();
        let s: StreamSink<i32> = ctx.new_stream_sink();
        let (out_log, push_out) = log::<i32>();
        let slot: Arc<Mutex<Option<Listener>>> = Arc::new(Mutex::new(None));
        let slot2 = slot.clone();
        let l = s.stream().listen(move |a: &i32| {
            push_out(*a);
            if let Some(l) = slot2.lock().unwrap().take() {
                l.unlisten();
            }
        });
        *slot.lock().unwrap() = Some(l);
        s.send(1);
        s.send(2);
        assert_eq!(*out_log.lock().unwrap(), vec![1]);
    });
}

// E21: post from a handler samples the updated cell
#[test]
fn e21_post_in_handler_sees_update() {
    watchdog(|| {
        let ctx = SodiumCtx::new();
        let s: StreamSink<i32> = ctx.new_stream_sink();
        let c = s.stream().hold(0);
        let c2 = c.map(|a: &i32| *a * 2);
        let (out_log, push_out) = log::<(i32, i32, i32)>();
        let ctx2 = ctx.clone();
        let c3 = c.clone();
        let c4 = c2.clone();
        let l = s.stream().listen(move |a: &i32| {
            let push_out = push_out.clone();
            let before = c3.sample();
            let c3 = c3.clone();
            let c4 = c4.clone();
            ctx2.post(move || push_out((before, c3.sample(), c4.sample())));
        });
        s.send(1);
        s.send(2);
        assert_eq!(*out_log.lock().unwrap(), vec![(0, 1, 2), (1, 2, 4)]);
        l.unlisten();
    });
}

// E22: split / defer / once / hold built after the send, inside the same closure transaction
#[test]
fn e22_built_after_send_in_closure() {
    watchdog(|| {
        let ctx = SodiumCtx::new();
        let s: StreamSink<Vec<i32>> = ctx.new_stream_sink();
        let (out_log, push_out) = log::<String>();
        let ls = ctx.transaction(|| {
            s.send(vec![1, 2]);
            let p = push_out.clone();
            let sp: Stream<i32> = s.stream().split();
            let l1 = sp.listen(move |a: &i32| p(format!("split {}", a)));
            let p = push_out.clone();
            let d = Operational::defer(&s.stream());
            let l2 = d.listen(move |a: &Vec<i32>| p(format!("defer {:?}", a)));
            let p = push_out.clone();
            let o = s.stream().once();
            let l3 = o.listen(move |a: &Vec<i32>| p(format!("once {:?}", a)));
            let c = s.stream().hold(vec![]);
            assert_eq!(c.sample(), Vec::<i32>::new());
            assert!(out_log.lock().unwrap().is_empty());
            (l1, l2, l3, c)
        });
        println!("e22 {:?}", out_log.lock().unwrap());
        assert_eq!(ls.3.sample(), vec![1, 2]);
        assert_eq!(
            *out_log.lock().unwrap(),
            vec!["once [1, 2]", "split 1", "split 2", "defer [1, 2]"]
        );
        s.send(vec![3]);
        println!("e22 {:?}", out_log.lock().unwrap());
        assert_eq!(out_log.lock().unwrap().len(), 6);
    });
}

// E24: scoped transactions interleaved with closures; nothing delivered before the outermost close
#[test]
fn e24_scoped_nesting() {
    watchdog(|| {
        let ctx = SodiumCtx::new();
        let s: StreamSink<i32> = ctx.new_stream_sink_with_coalescer(|a: &i32, b: &i32| a + b);
        let (out_log, push_out) = log::<i32>();
        let l = s.stream().listen(move |a: &i32| push_out(*a));
        let t1 = ctx.new_transaction();
        s.send(1);
        let t2 = ctx.new_transaction();
        s.send(2);
        t1.close(); // out of order close
        assert!(out_log.lock().unwrap().is_empty());
        ctx.transaction(|| s.send(4));
        assert!(out_log.lock().unwrap().is_empty());
        t1.close();
        drop(t1);
        assert!(out_log.lock().unwrap().is_empty());
        drop(t2);
        assert_eq!(*out_log.lock().unwrap(), vec![7]);
        ctx.transaction(|| {});
        {
            let _t = ctx.new_transaction();
        }
        assert_eq!(*out_log.lock().unwrap(), vec![7]);
        s.send(8);
        assert_eq!(*out_log.lock().unwrap(), vec![7, 8]);
        l.unlisten();
    });
}

// E26: loop_ after the send in the same transaction
#[test]
fn e26_loop_after_send() {
    watchdog(|| {
        let ctx = SodiumCtx::new();
        let s: StreamSink<i32> = ctx.new_stream_sink();
        let (out_log, push_out) = log::<i32>();
        let l = ctx.transaction(|| {
            let sl: StreamLoop<i32> = ctx.new_stream_loop();
            let l = sl.stream().listen(move |a: &i32| push_out(*a));
            s.send(3);
            sl.loop_(&s.stream().map(|a: &i32| *a + 1));
            l
        });
        assert_eq!(*out_log.lock().unwrap(), vec![4]);
        s.send(5);
        assert_eq!(*out_log.lock().unwrap(), vec![4, 6]);
        l.unlisten();
    });
}

// E1b: hold built inside a map function (idiomatic: FRP construction in a map feeding a switch)
#[test]
fn e1b_hold_built_in_map_fn() {
    watchdog(|| {
        let ctx = SodiumCtx::new();
        let sa: StreamSink<i32> = ctx.new_stream_sink();
        let sb: StreamSink<i32> = ctx.new_stream_sink();
        let sbs = sb.stream();
        let cells = sa.stream().map(move |x: &i32| sbs.hold(*x));
        let cc = cells.hold(ctx.new_cell(-1));
        let out = Cell::switch_c(&cc);
        ctx.transaction(|| {
            sa.send(0);
            sb.send(5);
        });
        println!("e1b out after txn: {}", out.sample());
        assert_eq!(out.sample(), 5);
    });
}

// E30: switch_s built in a handler; its cell of streams updates later in the same transaction
#[test]
fn e30_switch_s_built_in_handler_then_outer_update() {
    watchdog(|| {
        let ctx = SodiumCtx::new();
        let s0: StreamSink<i32> = ctx.new_stream_sink();
        let sx: StreamSink<i32> = ctx.new_stream_sink();
        let inner1: StreamSink<i32> = ctx.new_stream_sink();
        let inner2: StreamSink<i32> = ctx.new_stream_sink();
        let i2 = inner2.stream();
        // deep, so that it is visited after the handler ran
        let xs = sx
            .stream()
            .map(|a: &i32| *a)
            .map(|a: &i32| *a)
            .map(|a: &i32| *a)
            .map(move |_: &i32| i2.clone());
        let csa = xs.hold(inner1.stream());
        let slot: Arc<Mutex<Option<Stream<i32>>>> = Arc::new(Mutex::new(None));
        let slot2 = slot.clone();
        let l = s0.stream().listen(move |_: &i32| {
            *slot2.lock().unwrap() = Some(Cell::switch_s(&csa));
        });
        ctx.transaction(|| {
            s0.send(1);
            sx.send(1);
        });
        let sw = slot.lock().unwrap().clone().unwrap();
        let (out_log, push_out) = log::<i32>();
        let l2 = sw.listen(move |a: &i32| push_out(*a));
        inner1.send(1);
        inner2.send(2);
        assert_eq!(*out_log.lock().unwrap(), vec![2]);
        l.unlisten();
        l2.unlisten();
    });
}

// E31: switch_c built in a handler; its cell of cells updates later in the same transaction
#[test]
fn e31_switch_c_built_in_handler_then_outer_update() {
    watchdog(|| {
        let ctx = SodiumCtx::new();
        let s0: StreamSink<i32> = ctx.new_stream_sink();
        let sx: StreamSink<i32> = ctx.new_stream_sink();
        let c1 = ctx.new_cell(1);
        let c2 = ctx.new_cell(2);
        let xs = sx
            .stream()
            .map(|a: &i32| *a)
            .map(|a: &i32| *a)
            .map(|a: &i32| *a)
            .map(move |_: &i32| c2.clone());
        let cca = xs.hold(c1);
        let slot: Arc<Mutex<Option<Cell<i32>>>> = Arc::new(Mutex::new(None));
        let slot2 = slot.clone();
        let l = s0.stream().listen(move |_: &i32| {
            *slot2.lock().unwrap() = Some(Cell::switch_c(&cca));
        });
        ctx.transaction(|| {
            s0.send(1);
            sx.send(1);
        });
        let sw = slot.lock().unwrap().clone().unwrap();
        assert_eq!(sw.sample(), 2);
        l.unlisten();
    });
}

// E32: idiomatic nested switch: the inner switch is built by a cell-map function that is first
// forced while the outer switch initialises (inside the close), in a transaction that also sends
#[test]
fn e32_nested_switch_built_lazily_in_sending_txn() {
    watchdog(|| {
        let ctx = SodiumCtx::new();
        let sel: CellSink<i32> = ctx.new_cell_sink(0);
        let ccs: CellSink<Cell<i32>> = ctx.new_cell_sink(ctx.new_cell(10));
        let cc = ccs.cell();
        let c20 = ctx.new_cell(20);
        let out = ctx.transaction(|| {
            let out = Cell::switch_c(&sel.cell().map(move |_: &i32| Cell::switch_c(&cc)));
            ccs.send(c20.clone());
            out
        });
        println!("e32 out {}", out.sample());
        assert_eq!(out.sample(), 20);
    });
}

// E33: CellLoop handle cloned and dropped so that its loop node is freed by the collector
// (the StreamLoop destructor opens a transaction from inside the collector)
#[test]
fn e33_loop_freed_by_collector() {
    watchdog(|| {
        let ctx = SodiumCtx::new();
        let s: StreamSink<i32> = ctx.new_stream_sink();
        let (out_log, push_out) = log::<i32>();
        let l = s.stream().listen(move |a: &i32| push_out(*a));
        {
            let (cl, c) = ctx.transaction(|| {
                let cl: CellLoop<i32> = ctx.new_cell_loop();
                let c = s.stream().snapshot(&cl.cell(), |a: &i32, b: &i32| *a + *b).hold(0);
                cl.loop_(&c);
                (cl, c)
            });
            let cl2 = cl.clone();
            drop(cl2);
            drop(cl);
            s.send(1);
            assert_eq!(c.sample(), 1);
            s.send(2);
            assert_eq!(c.sample(), 3);
        }
        s.send(3);
        ctx.impl_.collect_cycles();
        println!("e33 node count {}", ctx.impl_.node_count());
        assert_eq!(*out_log.lock().unwrap(), vec![1, 2, 3]);
        l.unlisten();
    });
}

// E34: growth with repeated switching to freshly built streams / cells
#[test]
fn e34_switch_growth() {
    watchdog(|| {
        let ctx = SodiumCtx::new();
        let src: StreamSink<i32> = ctx.new_stream_sink();
        let sel: StreamSink<i32> = ctx.new_stream_sink();
        let srcs = src.stream();
        let srcs2 = src.stream();
        let css = sel.stream().map(move |k: &i32| { let k = *k; srcs.map(move |a: &i32| *a + k) }).hold(src.stream());
        let ccc = sel.stream().map(move |k: &i32| srcs2.hold(*k)).hold(ctx.new_cell(0));
        let out_s = Cell::switch_s(&css);
        let out_c = Cell::switch_c(&ccc);
        let (out_log, push_out) = log::<i32>();
        let p2 = push_out.clone();
        let l1 = out_s.listen(move |a: &i32| push_out(*a));
        let l2 = out_c.listen(move |a: &i32| p2(*a));
        let mut counts = vec![];
        for i in 0..200 {
            sel.send(i);
            src.send(1000);
            if i == 10 || i == 199 {
                ctx.impl_.collect_cycles();
                counts.push(ctx.impl_.node_count());
            }
        }
        println!("e34 counts {:?}", counts);
        assert_eq!(counts[0], counts[1]);
        l1.unlisten();
        l2.unlisten();
    });
}

// E35: coalescing sink, hold and listener built after some sends in the transaction
#[test]
fn e35_coalescer_hold_late() {
    watchdog(|| {
        let ctx = SodiumCtx::new();
        let s: StreamSink<i32> = ctx.new_stream_sink_with_coalescer(|a: &i32, b: &i32| a * 10 + b);
        let (out_log, push_out) = log::<i32>();
        let (c, l) = ctx.transaction(|| {
            s.send(1);
            let c = s.stream().hold(0);
            s.send(2);
            let l = c.listen(move |a: &i32| push_out(*a));
            s.send(3);
            (c, l)
        });
        assert_eq!(c.sample(), 123);
        assert_eq!(*out_log.lock().unwrap(), vec![123]);
        l.unlisten();
    });
}

// E36: a handler posts a send into another sink; a post inside a nested transaction in a handler
#[test]
fn e36_post_send_from_handler() {
    watchdog(|| {
        let ctx = SodiumCtx::new();
        let a: StreamSink<i32> = ctx.new_stream_sink();
        let b: StreamSink<i32> = ctx.new_stream_sink();
        let cb = b.stream().hold(0);
        let (out_log, push_out) = log::<(i32, i32)>();
        let ctx2 = ctx.clone();
        let b2 = b.clone();
        let l = a.stream().listen(move |x: &i32| {
            let b2 = b2.clone();
            let x = *x;
            let ctx3 = ctx2.clone();
            ctx2.transaction(|| ctx3.post(move || b2.send(x * 2)));
        });
        let ca = a.stream().hold(0);
        let l2 = b.stream().snapshot(&ca, |b: &i32, a: &i32| (*a, *b)).listen(move |p: &(i32, i32)| push_out(*p));
        a.send(1);
        a.send(2);
        assert_eq!(*out_log.lock().unwrap(), vec![(1, 2), (2, 4)]);
        assert_eq!(cb.sample(), 4);
        l.unlisten();
        l2.unlisten();
    });
}

// E2d: defer built in a handler on an already visited source
#[test]
fn e2d_defer_built_in_handler() {
    watchdog(|| {
        let ctx = SodiumCtx::new();
        let s: StreamSink<i32> = ctx.new_stream_sink();
        let s0: StreamSink<i32> = ctx.new_stream_sink();
        let (out_log, push_out) = log::<i32>();
        let slot: Arc<Mutex<Vec<Listener>>> = Arc::new(Mutex::new(Vec::new()));
        let l;
        {
            let slot = slot.clone();
            let st = s.stream();
            l = s0.stream().listen(move |_: &i32| {
                let push_out = push_out.clone();
                slot.lock().unwrap().push(Operational::defer(&st).listen(move |a: &i32| push_out(*a)));
            });
        }
        ctx.transaction(|| {
            s.send(5);
            s0.send(1);
        });
        println!("e2d after txn: {:?}", out_log.lock().unwrap());
        assert_eq!(*out_log.lock().unwrap(), vec![5]);
        l.unlisten();
    });
}

// E37: two defers of one source merged: separate transactions; defer+once; split of Option
#[test]
fn e37_defer_misc() {
    watchdog(|| {
        let ctx = SodiumCtx::new();
        let s: StreamSink<i32> = ctx.new_stream_sink();
        let d1 = Operational::defer(&s.stream());
        let d2 = Operational::defer(&s.stream());
        let m = d1.merge(&d2, |a: &i32, b: &i32| *a + *b);
        let (out_log, push_out) = log::<i32>();
        let l = m.listen(move |a: &i32| push_out(*a));
        let (o_log, push_o) = log::<i32>();
        let l2 = Operational::defer(&s.stream()).once().listen(move |a: &i32| push_o(*a));
        let (sp_log, push_sp) = log::<i32>();
        let sp: Stream<i32> = s.stream().map(|a: &i32| if *a % 2 == 0 { Some(*a) } else { None }).split();
        let l3 = sp.listen(move |a: &i32| push_sp(*a));
        s.send(1);
        s.send(2);
        assert_eq!(*out_log.lock().unwrap(), vec![1, 1, 2, 2]);
        assert_eq!(*o_log.lock().unwrap(), vec![1]);
        assert_eq!(*sp_log.lock().unwrap(), vec![2]);
        l.unlisten();
        l2.unlisten();
        l3.unlisten();
        drop((m, d1, d2, sp));
        ctx.impl_.collect_cycles();
        assert_eq!(ctx.impl_.node_count(), 1);
    });
}

// E38: deferred output dropped between the source firing and the post
#[test]
fn e38_defer_output_dropped() {
    watchdog(|| {
        let ctx = SodiumCtx::new();
        let s: StreamSink<i32> = ctx.new_stream_sink();
        let slot: Arc<Mutex<Option<(Stream<i32>, Listener)>>> = Arc::new(Mutex::new(None));
        let (out_log, push_out) = log::<i32>();
        {
            let d = Operational::defer(&s.stream());
            let l = d.listen_weak(move |a: &i32| push_out(*a));
            *slot.lock().unwrap() = Some((d, l));
        }
        let slot2 = slot.clone();
        // dropped by a post that runs before the deferred event's post
        ctx.transaction(|| {
            ctx.post(move || {
                slot2.lock().unwrap().take();
            });
            s.send(1);
        });
        s.send(2);
        println!("e38 {:?}", out_log.lock().unwrap());
        ctx.impl_.collect_cycles();
        assert_eq!(ctx.impl_.node_count(), 1);
    });
}

// E4b: same as E4 without a user Drop: the payload is a CellLoop, whose loop node's destructor
// (impl_/stream_loop.rs) builds a Stream, i.e. opens a transaction, when the firing is cleared
#[test]
fn e4b_loop_payload_dropped_in_pre_post() {
    watchdog(|| {
        let ctx = SodiumCtx::new();
        let loops: StreamSink<CellLoop<i32>> = ctx.new_stream_sink();
        let cs: CellSink<i32> = ctx.new_cell_sink(0);
        let c = cs.cell();
        let (seen_log, push_seen) = log::<i32>();
        ctx.transaction(|| {
            loops.send(ctx.new_cell_loop());
            cs.send(7);
            let c = c.clone();
            ctx.post(move || push_seen(c.sample()));
        });
        println!("e4b post saw {:?}", seen_log.lock().unwrap());
        assert_eq!(*seen_log.lock().unwrap(), vec![7]);
    });
}

// E32b: nested switch_s built lazily while the outer switch initialises: event of the construction
// transaction is lost (control: the un-nested switch delivers it)
#[test]
fn e32b_nested_switch_s_loses_event() {
    watchdog(|| {
        let ctx = SodiumCtx::new();
        let inner: StreamSink<i32> = ctx.new_stream_sink();
        let sel: CellSink<i32> = ctx.new_cell_sink(0);
        let csa = ctx.new_cell(inner.stream());
        let csa2 = csa.clone();
        let (ctl_log, push_ctl) = log::<i32>();
        let (out_log, push_out) = log::<i32>();
        let ls = ctx.transaction(|| {
            let control = Cell::switch_s(&csa);
            let nested = Cell::switch_s(&sel.cell().map(move |_: &i32| Cell::switch_s(&csa2)));
            let l1 = control.listen(move |a: &i32| push_ctl(*a));
            let l2 = nested.listen(move |a: &i32| push_out(*a));
            inner.send(1);
            (l1, l2)
        });
        inner.send(2);
        println!("e32b control {:?} nested {:?}", ctl_log.lock().unwrap(), out_log.lock().unwrap());
        assert_eq!(*ctl_log.lock().unwrap(), vec![1, 2]);
        assert_eq!(*out_log.lock().unwrap(), vec![1, 2]);
        ls.0.unlisten();
        ls.1.unlisten();
    });
}
