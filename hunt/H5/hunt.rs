#![allow(unused_variables, unused_imports, dead_code)]
use sodium_rust::*;
use std::sync::{Arc, Mutex};
use std::time::Duration;

/// Runs `f` on a fresh thread; panics with "HANG" if it does not finish within `secs`.
fn watchdog<F: FnOnce() + Send + 'static>(secs: u64, f: F) {
    let (tx, rx) = std::sync::mpsc::channel::<Result<(), String>>();
    std::thread::Builder::new()
        .stack_size(8 * 1024 * 1024)
        .spawn(move || {
            let r = std::panic::catch_unwind(std::panic::AssertUnwindSafe(f));
            let r = r.map_err(|e| {
                if let Some(s) = e.downcast_ref::<String>() {
                    s.clone()
                } else if let Some(s) = e.downcast_ref::<&str>() {
                    s.to_string()
                } else {
                    "panic".to_string()
                }
            });
            let _ = tx.send(r);
        })
        .unwrap();
    match rx.recv_timeout(Duration::from_secs(secs)) {
        Ok(Ok(())) => {}
        Ok(Err(e)) => panic!("PANIC inside: {}", e),
        Err(_) => panic!("HANG: no completion within {} s", secs),
    }
}

// H1: a handler (registered first) drops the last handle of a map stream whose node is already queued.
#[test]
fn h01_drop_map_handle_in_handler() {
    watchdog(10, || {
        let ctx = SodiumCtx::new();
        let ss: StreamSink<i32> = ctx.new_stream_sink();
        let slot: Arc<Mutex<Option<Stream<i32>>>> = Arc::new(Mutex::new(None));
        let slot2 = slot.clone();
        let l = ss.stream().listen(move |_: &i32| {
            slot2.lock().unwrap().take();
        });
        let m = ss.stream().map(|x: &i32| x + 1);
        *slot.lock().unwrap() = Some(m);
        ss.send(1);
        ss.send(2);
        l.unlisten();
    });
}

// H2: the same with a hold cell.
#[test]
fn h02_drop_hold_handle_in_handler() {
    watchdog(10, || {
        let ctx = SodiumCtx::new();
        let ss: StreamSink<i32> = ctx.new_stream_sink();
        let slot: Arc<Mutex<Option<Cell<i32>>>> = Arc::new(Mutex::new(None));
        let slot2 = slot.clone();
        let l = ss.stream().listen(move |_: &i32| {
            slot2.lock().unwrap().take();
        });
        let c = ss.stream().hold(0);
        *slot.lock().unwrap() = Some(c);
        ss.send(1);
        ss.send(2);
        l.unlisten();
    });
}

// H3: switch_s built inside a handler; selector cell updates later in the same transaction.
#[test]
fn h03_switch_s_built_in_handler() {
    watchdog(10, || {
        let ctx = SodiumCtx::new();
        let ss: StreamSink<i32> = ctx.new_stream_sink();
        let a: StreamSink<i32> = ctx.new_stream_sink();
        let b: StreamSink<i32> = ctx.new_stream_sink();
        let out: Arc<Mutex<Vec<i32>>> = Arc::new(Mutex::new(Vec::new()));
        let keep: Arc<Mutex<Vec<Listener>>> = Arc::new(Mutex::new(Vec::new()));
        let sel_slot: Arc<Mutex<Option<Cell<Stream<i32>>>>> = Arc::new(Mutex::new(None));
        let l;
        {
            let out = out.clone();
            let keep = keep.clone();
            let sel_slot = sel_slot.clone();
            let done = Arc::new(Mutex::new(false));
            l = ss.stream().listen(move |_: &i32| {
                let mut d = done.lock().unwrap();
                if *d {
                    return;
                }
                *d = true;
                let sel = sel_slot.lock().unwrap().clone().unwrap();
                let sw = Cell::switch_s(&sel);
                let out = out.clone();
                keep.lock()
                    .unwrap()
                    .push(sw.listen(move |x: &i32| out.lock().unwrap().push(*x)));
            });
        }
        let bs = b.stream();
        let sel = ss.stream().map(move |_: &i32| bs.clone()).hold(a.stream());
        *sel_slot.lock().unwrap() = Some(sel);
        ss.send(0); // builds the switch inside the handler, selector updates in the same transaction
        a.send(10);
        b.send(20);
        a.send(11);
        b.send(21);
        assert_eq!(*out.lock().unwrap(), vec![20, 21]);
        l.unlisten();
    });
}

// H5: collect_cycles from inside a handler
#[test]
fn h05_collect_inside_handler() {
    watchdog(10, || {
        let ctx = SodiumCtx::new();
        let ss: StreamSink<i32> = ctx.new_stream_sink();
        let out: Arc<Mutex<Vec<i32>>> = Arc::new(Mutex::new(Vec::new()));
        let acc = ss.stream().accum(0, |a: &i32, s: &i32| a + s);
        let ctx2 = ctx.clone();
        let l0 = ss.stream().listen(move |_: &i32| ctx2.impl_.collect_cycles());
        let out2 = out.clone();
        let l = acc.listen(move |x: &i32| out2.lock().unwrap().push(*x));
        let ctx3 = ctx.clone();
        let l1 = acc.updates().listen(move |_: &i32| ctx3.impl_.collect_cycles());
        ss.send(1);
        ss.send(2);
        ss.send(3);
        assert_eq!(*out.lock().unwrap(), vec![0, 1, 3, 6]);
        l.unlisten();
        l0.unlisten();
        l1.unlisten();
        drop(acc);
        drop(ss);
        ctx.impl_.collect_cycles();
        assert_eq!(ctx.impl_.node_count(), 0);
    });
}

// H9: router: pending garbage filter_matches stream + top-level filter_matches
#[test]
fn h09_router_filter_matches_deadlock() {
    watchdog(10, || {
        let ctx = SodiumCtx::new();
        let ss: StreamSink<i32> = ctx.new_stream_sink();
        let r = ctx.new_router(&ss.stream(), |x: &i32| vec![*x % 2]);
        let s1 = r.filter_matches(&1);
        let s1b = s1.clone();
        drop(s1b);
        drop(s1);
        let s2 = r.filter_matches(&0);
        let out: Arc<Mutex<Vec<i32>>> = Arc::new(Mutex::new(Vec::new()));
        let out2 = out.clone();
        let l = s2.listen(move |x: &i32| out2.lock().unwrap().push(*x));
        ss.send(2);
        assert_eq!(*out.lock().unwrap(), vec![2]);
        l.unlisten();
    });
}

// H12: user-held unforced Lazy of a mapped cell whose function declares a dep, in a garbage cycle
#[test]
fn h12_user_held_lazy_in_cycle() {
    watchdog(10, || {
        let ctx = SodiumCtx::new();
        let lz;
        {
            let ss: StreamSink<i32> = ctx.new_stream_sink();
            let x = ctx.new_cell(5);
            let sl: StreamLoop<i32> = ctx.new_stream_loop();
            let c = sl.stream().hold(0);
            let xd = x.to_dep();
            let mapped = c.map(lambda1(move |v: &i32| v + x.sample(), vec![xd]));
            let n = ss.stream().snapshot(&mapped, |a: &i32, b: &i32| a + b);
            sl.loop_(&n);
            lz = mapped.sample_lazy();
        }
        ctx.impl_.collect_cycles();
        assert_eq!(lz.run(), 5);
    });
}

// H13: switch_c whose SELECTOR depends on the switch's output through a CellLoop
#[test]
fn h13_switch_c_selector_depends_on_output() {
    watchdog(10, || {
        let ctx = SodiumCtx::new();
        let out_v: Arc<Mutex<Vec<i32>>> = Arc::new(Mutex::new(Vec::new()));
        {
            let ss: StreamSink<i32> = ctx.new_stream_sink();
            let c1 = ctx.new_cell(1);
            let c2 = ctx.new_cell(2);
            let lp: CellLoop<i32> = ctx.new_cell_loop();
            let c1b = c1.clone();
            let c2b = c2.clone();
            let cca = ss
                .stream()
                .snapshot(&lp.cell(), move |_: &i32, v: &i32| {
                    if *v == 1 {
                        c2b.clone()
                    } else {
                        c1b.clone()
                    }
                })
                .hold(c1.clone());
            let out = Cell::switch_c(&cca);
            lp.loop_(&out);
            let out_v2 = out_v.clone();
            let l = out.listen(move |x: &i32| out_v2.lock().unwrap().push(*x));
            ss.send(0);
            ss.send(0);
            ss.send(0);
            l.unlisten();
        }
        println!("out = {:?}", out_v.lock().unwrap());
        ctx.impl_.collect_cycles();
        assert_eq!(*out_v.lock().unwrap(), vec![1, 2, 1, 2]);
        assert_eq!(ctx.impl_.node_count(), 0);
    });
}

// H13b: same, never any event / never sampled
#[test]
fn h13b_switch_c_selector_depends_on_output_no_events() {
    watchdog(10, || {
        let ctx = SodiumCtx::new();
        {
            let ss: StreamSink<i32> = ctx.new_stream_sink();
            let c1 = ctx.new_cell(1);
            let c2 = ctx.new_cell(2);
            let lp: CellLoop<i32> = ctx.new_cell_loop();
            let c1b = c1.clone();
            let c2b = c2.clone();
            let cca = ss
                .stream()
                .snapshot(&lp.cell(), move |_: &i32, v: &i32| {
                    if *v == 1 {
                        c2b.clone()
                    } else {
                        c1b.clone()
                    }
                })
                .hold(c1.clone());
            let out = Cell::switch_c(&cca);
            lp.loop_(&out);
        }
        ctx.impl_.collect_cycles();
        assert_eq!(ctx.impl_.node_count(), 0);
    });
}

// ---------- batch 2 ----------

// control for H13: same shape, loop closed through a lift instead of a switch -> must be 0
#[test]
fn h13c_control_lift_instead_of_switch() {
    watchdog(10, || {
        let ctx = SodiumCtx::new();
        {
            let ss: StreamSink<i32> = ctx.new_stream_sink();
            let c1 = ctx.new_cell(1);
            let lp: CellLoop<i32> = ctx.new_cell_loop();
            let cca = ss
                .stream()
                .snapshot(&lp.cell(), move |_: &i32, v: &i32| *v + 1)
                .hold(0);
            let out = cca.lift2(&c1, |a: &i32, b: &i32| a + b);
            lp.loop_(&out);
            let l = out.listen(|_: &i32| {});
            ss.send(0);
            l.unlisten();
        }
        ctx.impl_.collect_cycles();
        assert_eq!(ctx.impl_.node_count(), 0);
    });
}

// control for H13: switch_c with the selector NOT depending on the output -> must be 0
#[test]
fn h13d_control_switch_no_cycle() {
    watchdog(10, || {
        let ctx = SodiumCtx::new();
        {
            let ss: StreamSink<i32> = ctx.new_stream_sink();
            let c1 = ctx.new_cell(1);
            let c2 = ctx.new_cell(2);
            let other = ctx.new_cell(7);
            let c1b = c1.clone();
            let c2b = c2.clone();
            let cca = ss
                .stream()
                .snapshot(&other, move |_: &i32, v: &i32| {
                    if *v == 1 {
                        c2b.clone()
                    } else {
                        c1b.clone()
                    }
                })
                .hold(c1.clone());
            let out = Cell::switch_c(&cca);
            let l = out.listen(|_: &i32| {});
            ss.send(0);
            l.unlisten();
        }
        ctx.impl_.collect_cycles();
        assert_eq!(ctx.impl_.node_count(), 0);
    });
}

// H9b: router; a garbage cycle hanging off a filter_matches stream is pending when filter_matches is called at top level
#[test]
fn h09b_router_filter_matches_deadlock() {
    watchdog(10, || {
        let ctx = SodiumCtx::new();
        let ss: StreamSink<i32> = ctx.new_stream_sink();
        let r = ctx.new_router(&ss.stream(), |x: &i32| vec![*x % 2]);
        {
            let s1 = r.filter_matches(&1);
            let acc = s1.accum(0, |a: &i32, s: &i32| a + s);
        }
        let s2 = r.filter_matches(&0);
        let out: Arc<Mutex<Vec<i32>>> = Arc::new(Mutex::new(Vec::new()));
        let out2 = out.clone();
        let l = s2.listen(move |x: &i32| out2.lock().unwrap().push(*x));
        ss.send(2);
        assert_eq!(*out.lock().unwrap(), vec![2]);
        l.unlisten();
    });
}

// H15: repeated switching to freshly built streams: node count bounded?
#[test]
fn h15_repeated_switch_growth() {
    watchdog(20, || {
        let ctx = SodiumCtx::new();
        let src: StreamSink<i32> = ctx.new_stream_sink();
        let sel: CellSink<Stream<i32>> = ctx.new_cell_sink(src.stream());
        let sw = Cell::switch_s(&sel.cell());
        let selc: CellSink<Cell<i32>> = ctx.new_cell_sink(ctx.new_cell(0));
        let swc = Cell::switch_c(&selc.cell());
        let l = sw.listen(|_: &i32| {});
        let l2 = swc.listen(|_: &i32| {});
        let mut counts = Vec::new();
        for i in 0..50 {
            let k = i;
            sel.send(src.stream().map(move |x: &i32| x + k));
            selc.send(src.stream().map(move |x: &i32| x + k).hold(0).map(|x: &i32| x * 2));
            src.send(i);
            counts.push(ctx.impl_.node_count());
        }
        println!("counts {:?}", counts);
        assert_eq!(counts[10], counts[49]);
        l.unlisten();
        l2.unlisten();
    });
}

// H16: temporary nodes built and dropped inside a transaction leave dead weak dependents
#[test]
fn h16_dead_dependents() {
    watchdog(60, || {
        let ctx = SodiumCtx::new();
        let src: StreamSink<i32> = ctx.new_stream_sink();
        let s = src.stream();
        let l = s.listen(|_: &i32| {});
        let time = |n: usize| {
            let t0 = std::time::Instant::now();
            for _ in 0..n {
                src.send(1);
            }
            t0.elapsed()
        };
        let before = time(200);
        for _ in 0..20000 {
            ctx.transaction(|| {
                let t = s.map(|x: &i32| x + 1);
                drop(t);
            });
        }
        let after = time(200);
        println!(
            "node_count {} dependents {} before {:?} after {:?}",
            ctx.impl_.node_count(),
            s.impl_.node.data.dependents.read().len(),
            before,
            after
        );
        assert!(s.impl_.node.data.dependents.read().len() < 100);
        l.unlisten();
    });
}

// H17: StreamLoop dropped inside a handler / cloned / never looped
#[test]
fn h17_stream_loop_odd_drops() {
    watchdog(10, || {
        let ctx = SodiumCtx::new();
        let ss: StreamSink<i32> = ctx.new_stream_sink();
        let slot: Arc<Mutex<Option<StreamLoop<i32>>>> = Arc::new(Mutex::new(None));
        let out: Arc<Mutex<Vec<i32>>> = Arc::new(Mutex::new(Vec::new()));
        let sl: StreamLoop<i32> = ctx.new_stream_loop();
        let c = sl.stream().hold(0);
        let n = ss.stream().snapshot(&c, |a: &i32, b: &i32| a + b);
        sl.loop_(&n);
        *slot.lock().unwrap() = Some(sl);
        let slot2 = slot.clone();
        let l0 = ss.stream().listen(move |_: &i32| {
            slot2.lock().unwrap().take();
        });
        let out2 = out.clone();
        let l = c.listen(move |x: &i32| out2.lock().unwrap().push(*x));
        ss.send(1);
        ss.send(2);
        ss.send(3);
        assert_eq!(*out.lock().unwrap(), vec![0, 1, 3, 6]);
        l.unlisten();
        l0.unlisten();
        drop(c);
        drop(n);
        drop(ss);
        ctx.impl_.collect_cycles();
        assert_eq!(ctx.impl_.node_count(), 0);
    });
}

// H18: never-looped loops, collect while transaction open
#[test]
fn h18_collect_in_open_transaction() {
    watchdog(10, || {
        let ctx = SodiumCtx::new();
        let out: Arc<Mutex<Vec<i32>>> = Arc::new(Mutex::new(Vec::new()));
        let ss: StreamSink<i32> = ctx.new_stream_sink();
        let t = ctx.new_transaction();
        let lp: CellLoop<i32> = ctx.new_cell_loop();
        let s = ss.stream().snapshot(&lp.cell(), |a: &i32, b: &i32| a + b);
        ctx.impl_.collect_cycles();
        let c = s.hold(0);
        ctx.impl_.collect_cycles();
        lp.loop_(&c);
        ctx.impl_.collect_cycles();
        let out2 = out.clone();
        let l = c.listen(move |x: &i32| out2.lock().unwrap().push(*x));
        ctx.impl_.collect_cycles();
        t.close();
        drop(lp);
        ss.send(1);
        ss.send(2);
        assert_eq!(*out.lock().unwrap(), vec![0, 1, 3]);
        l.unlisten();
        drop(c);
        drop(s);
        drop(ss);
        ctx.impl_.collect_cycles();
        assert_eq!(ctx.impl_.node_count(), 0);
    });
}

// control for H9b: collecting before the second filter_matches avoids the hang
#[test]
fn h09c_router_control() {
    watchdog(10, || {
        let ctx = SodiumCtx::new();
        let ss: StreamSink<i32> = ctx.new_stream_sink();
        let r = ctx.new_router(&ss.stream(), |x: &i32| vec![*x % 2]);
        {
            let s1 = r.filter_matches(&1);
            let acc = s1.accum(0, |a: &i32, s: &i32| a + s);
        }
        ctx.impl_.collect_cycles();
        let s2 = r.filter_matches(&0);
        assert_eq!(ctx.impl_.node_count(), 3);
    });
}

// H15b: repeated switching: dependents list of the long-lived source
#[test]
fn h15b_repeated_switch_dependents_growth() {
    watchdog(60, || {
        let ctx = SodiumCtx::new();
        let src: StreamSink<i32> = ctx.new_stream_sink();
        let sel: CellSink<Stream<i32>> = ctx.new_cell_sink(src.stream());
        let sw = Cell::switch_s(&sel.cell());
        let l = sw.listen(|_: &i32| {});
        let mut lens = Vec::new();
        for i in 0..2000 {
            let k = i;
            ctx.transaction(|| {
                sel.send(src.stream().map(move |x: &i32| x + k));
                src.send(i);
            });
            if i % 200 == 0 {
                lens.push((ctx.impl_.node_count(), src.stream().impl_.node.data.dependents.read().len()));
            }
        }
        println!("(node_count, dependents of src) {:?}", lens);
        assert!(lens.last().unwrap().1 < 50);
        l.unlisten();
    });
}

// H15c: as H15b but each send in its own transaction; plus timing
#[test]
fn h15c_repeated_switch_separate_transactions() {
    watchdog(120, || {
        let ctx = SodiumCtx::new();
        let src: StreamSink<i32> = ctx.new_stream_sink();
        let sel: CellSink<Stream<i32>> = ctx.new_cell_sink(src.stream());
        let sw = Cell::switch_s(&sel.cell());
        let l = sw.listen(|_: &i32| {});
        let mut lens = Vec::new();
        let mut t0 = std::time::Instant::now();
        for i in 0..20001 {
            let k = i;
            sel.send(src.stream().map(move |x: &i32| x + k));
            src.send(i);
            if i % 2000 == 0 {
                lens.push((ctx.impl_.node_count(), src.stream().impl_.node.data.dependents.read().len(), t0.elapsed().as_millis()));
                t0 = std::time::Instant::now();
            }
        }
        println!("(node_count, dependents of src, ms per 2000 rounds) {:?}", lens);
        // the last 2000 rounds must not be several times slower than the first 2000
        assert!(lens.last().unwrap().2 < 3 * lens[1].2, "per-round time grows with the number of past switches");
        l.unlisten();
    });
}

// H16b: top-level build + drop (no enclosing transaction)
#[test]
fn h16b_toplevel_build_drop() {
    watchdog(60, || {
        let ctx = SodiumCtx::new();
        let src: StreamSink<i32> = ctx.new_stream_sink();
        let s = src.stream();
        for _ in 0..1000 {
            let t = s.map(|x: &i32| x + 1);
            let c = t.hold(0);
            let l = c.listen(|_: &i32| {});
            l.unlisten();
        }
        println!("dependents {}", s.impl_.node.data.dependents.read().len());
        assert!(s.impl_.node.data.dependents.read().len() < 10);
    });
}

// ---------- batch 3 ----------

// H20: a StreamLoop handle captured by a handler closure; the listen node is freed by a collection
#[test]
fn h20_stream_loop_dropped_during_collect() {
    watchdog(10, || {
        let ctx = SodiumCtx::new();
        {
            let ss: StreamSink<i32> = ctx.new_stream_sink();
            let sl: StreamLoop<i32> = ctx.new_stream_loop();
            let c = sl.stream().hold(0);
            let n = ss.stream().snapshot(&c, |a: &i32, b: &i32| a + b);
            sl.loop_(&n);
            // weak listener inside the cycle, its handler owns the StreamLoop handle
            let l = n.listen_weak(move |_: &i32| {
                let _ = &sl;
            });
            // make the output of the cycle keep the listener: use defer-like keep alive is not public; just leak handle into closure of a map in the cycle
            let l = Arc::new(Mutex::new(Some(l)));
            let l2 = l.clone();
            let keep = c.updates().map(move |x: &i32| {
                let _ = &l2;
                *x
            });
            ss.send(1);
            drop(keep);
        }
        ctx.impl_.collect_cycles();
        println!("node_count {}", ctx.impl_.node_count());
    });
}

// H41: towers of diamonds: time of transactions / collections as the tower grows
#[test]
fn h41_diamond_towers() {
    watchdog(120, || {
        for &n in &[10usize, 20, 40, 80] {
            let ctx = SodiumCtx::new();
            let cs = ctx.new_cell_sink(1u64);
            let mut c = cs.cell();
            let ss: StreamSink<u64> = ctx.new_stream_sink();
            let mut s = ss.stream();
            for _ in 0..n {
                c = c.lift2(&c, |a: &u64, b: &u64| a.wrapping_add(*b));
                s = s.merge(&s, |a: &u64, b: &u64| a.wrapping_add(*b));
            }
            let l = c.listen(|_: &u64| {});
            let l2 = s.listen(|_: &u64| {});
            let t0 = std::time::Instant::now();
            for i in 0..5 {
                cs.send(i);
                ss.send(i);
            }
            let el = t0.elapsed();
            l.unlisten();
            l2.unlisten();
            drop(c);
            drop(s);
            drop(cs);
            drop(ss);
            let t1 = std::time::Instant::now();
            ctx.impl_.collect_cycles();
            println!("n {} nodes-left {} sends {:?} final collect {:?}", n, ctx.impl_.node_count(), el, t1.elapsed());
            assert_eq!(ctx.impl_.node_count(), 0);
        }
    });
}

// H44: cycles closed through defer / split
#[test]
fn h44_defer_split_cycles() {
    watchdog(10, || {
        let ctx = SodiumCtx::new();
        let out: Arc<Mutex<Vec<i32>>> = Arc::new(Mutex::new(Vec::new()));
        {
            let ss: StreamSink<i32> = ctx.new_stream_sink();
            let sl: StreamLoop<i32> = ctx.new_stream_loop();
            let all = ss.stream().or_else(&sl.stream());
            let dec = all.filter(|x: &i32| *x > 0).map(|x: &i32| x - 1);
            let d = Operational::defer(&dec);
            sl.loop_(&d);
            let sl2: StreamLoop<i32> = ctx.new_stream_loop();
            let all2 = ss.stream().or_else(&sl2.stream());
            let sp = all2.filter(|x: &i32| *x > 0).map(|x: &i32| vec![x - 1]).split();
            sl2.loop_(&sp);
            let out2 = out.clone();
            let l = all.listen(move |x: &i32| out2.lock().unwrap().push(*x));
            let out3 = out.clone();
            let l2 = all2.listen(move |x: &i32| out3.lock().unwrap().push(100 + *x));
            ss.send(2);
            l.unlisten();
            l2.unlisten();
        }
        println!("out {:?}", out.lock().unwrap());
        ctx.impl_.collect_cycles();
        assert_eq!(ctx.impl_.node_count(), 0);
    });
}

// H44b: same without any event
#[test]
fn h44b_defer_split_cycles_no_event() {
    watchdog(10, || {
        let ctx = SodiumCtx::new();
        {
            let ss: StreamSink<i32> = ctx.new_stream_sink();
            let sl: StreamLoop<i32> = ctx.new_stream_loop();
            let all = ss.stream().or_else(&sl.stream());
            let dec = all.filter(|x: &i32| *x > 0).map(|x: &i32| x - 1);
            let d = Operational::defer(&dec);
            sl.loop_(&d);
            let sl2: StreamLoop<i32> = ctx.new_stream_loop();
            let all2 = ss.stream().or_else(&sl2.stream());
            let sp = all2.filter(|x: &i32| *x > 0).map(|x: &i32| vec![x - 1]).split();
            sl2.loop_(&sp);
        }
        ctx.impl_.collect_cycles();
        assert_eq!(ctx.impl_.node_count(), 0);
    });
}

// H51: a cell built inside a handler: after everything is dropped a collection must reclaim all nodes
#[test]
fn h51_hold_built_in_handler_pending_pre_eot() {
    watchdog(10, || {
        let ctx = SodiumCtx::new();
        {
            let ss: StreamSink<i32> = ctx.new_stream_sink();
            let other: StreamSink<i32> = ctx.new_stream_sink();
            let os = other.stream();
            let l = ss.stream().listen(move |_: &i32| {
                let c = os.hold(0);
                drop(c);
            });
            ss.send(1);
            l.unlisten();
        }
        ctx.impl_.collect_cycles();
        let n1 = ctx.impl_.node_count();
        ctx.transaction(|| {});
        let n2 = ctx.impl_.node_count();
        println!("after collect {} ; after one more (empty) transaction {}", n1, n2);
        assert_eq!(n1, 0);
    });
}

// H52: switch_c built in a handler, selector updates later in the same transaction
#[test]
fn h52_switch_c_built_in_handler() {
    watchdog(10, || {
        let ctx = SodiumCtx::new();
        let ss: StreamSink<i32> = ctx.new_stream_sink();
        let a = ctx.new_cell_sink(10);
        let b = ctx.new_cell_sink(20);
        let out: Arc<Mutex<Vec<i32>>> = Arc::new(Mutex::new(Vec::new()));
        let keep: Arc<Mutex<Vec<Listener>>> = Arc::new(Mutex::new(Vec::new()));
        let sel_slot: Arc<Mutex<Option<Cell<Cell<i32>>>>> = Arc::new(Mutex::new(None));
        let l;
        {
            let out = out.clone();
            let keep = keep.clone();
            let sel_slot = sel_slot.clone();
            let done = Arc::new(Mutex::new(false));
            l = ss.stream().listen(move |_: &i32| {
                let mut d = done.lock().unwrap();
                if *d {
                    return;
                }
                *d = true;
                let sel = sel_slot.lock().unwrap().clone().unwrap();
                let sw = Cell::switch_c(&sel);
                let out = out.clone();
                keep.lock()
                    .unwrap()
                    .push(sw.updates().listen(move |x: &i32| out.lock().unwrap().push(*x)));
            });
        }
        let bc = b.cell();
        let sel = ss.stream().map(move |_: &i32| bc.clone()).hold(a.cell());
        *sel_slot.lock().unwrap() = Some(sel);
        ss.send(0);
        a.send(11);
        b.send(21);
        println!("out {:?}", out.lock().unwrap());
        l.unlisten();
    });
}

// H60: which operators panic when their last handle is dropped by an earlier handler of the same transaction
#[test]
fn h60_drop_in_handler_matrix() {
    let ops: Vec<(&str, Box<dyn Fn(&Stream<i32>) -> Box<dyn std::any::Any + Send> + Send + Sync>)> = vec![
        ("map", Box::new(|s| Box::new(s.map(|x: &i32| *x)))),
        ("filter", Box::new(|s| Box::new(s.filter(|x: &i32| *x > 0)))),
        ("merge", Box::new(|s| Box::new(s.or_else(&s.map(|x: &i32| *x))))),
        ("once", Box::new(|s| Box::new(s.once()))),
        ("hold", Box::new(|s| Box::new(s.hold(0)))),
        ("accum", Box::new(|s| Box::new(s.accum(0, |a: &i32, b: &i32| a + b)))),
        ("collect", Box::new(|s| Box::new(s.collect(0, |a: &i32, b: &i32| (a + b, a + b))))),
        ("defer", Box::new(|s| Box::new(Operational::defer(s)))),
        ("cellmap", Box::new(|s| Box::new(s.hold(0).map(|x: &i32| *x)))),
        ("lift2", Box::new(|s| { let c = s.hold(0); Box::new(c.lift2(&c, |a: &i32, b: &i32| a + b)) })),
        ("switch_s", Box::new(|s| { let c = s.map(|_: &i32| 0).hold(0); let s2 = s.clone(); Box::new(Cell::switch_s(&c.map(move |_: &i32| s2.clone()))) })),
    ];
    let mut bad = Vec::new();
    for (name, mk) in ops {
        let (tx, rx) = std::sync::mpsc::channel();
        std::thread::spawn(move || {
            let r = std::panic::catch_unwind(std::panic::AssertUnwindSafe(|| {
                let ctx = SodiumCtx::new();
                let ss: StreamSink<i32> = ctx.new_stream_sink();
                let slot: Arc<Mutex<Option<Box<dyn std::any::Any + Send>>>> = Arc::new(Mutex::new(None));
                let slot2 = slot.clone();
                let l = ss.stream().listen(move |_: &i32| {
                    slot2.lock().unwrap().take();
                });
                let x = mk(&ss.stream());
                *slot.lock().unwrap() = Some(x);
                ss.send(1);
                ss.send(2);
                l.unlisten();
            }));
            let _ = tx.send(r.is_ok());
        });
        match rx.recv_timeout(Duration::from_secs(10)) {
            Ok(true) => {}
            Ok(false) => bad.push(format!("{}: panic", name)),
            Err(_) => bad.push(format!("{}: hang", name)),
        }
    }
    println!("BAD: {:?}", bad);
    assert!(bad.is_empty());
}

// ---------- batch 4 ----------

fn chain(n: usize, cyc: bool) {
    let ctx = SodiumCtx::new();
    let ss: StreamSink<i32> = ctx.new_stream_sink();
    let mut s = ss.stream();
    if cyc {
        // a garbage cycle at the bottom so that the collector (mark_gray/scan/collect_white) walks the chain
        let acc = s.accum(0, |a: &i32, b: &i32| a + b);
        s = acc.updates();
    }
    for _ in 0..n {
        s = s.map(|x: &i32| x + 1);
    }
    let l = s.listen(|_: &i32| {});
    ss.send(1);
    l.unlisten();
    drop(ss);
    drop(s);
    ctx.impl_.collect_cycles();
    assert_eq!(ctx.impl_.node_count(), 0);
}

// default test-thread stack (2 MiB)
#[test]
#[ignore]
fn h19_chain_1000() { chain(1000, false); }
#[test]
#[ignore]
fn h19_chain_3000() { chain(3000, false); }
#[test]
#[ignore]
fn h19_chain_10000() { chain(10000, false); }
#[test]
#[ignore]
fn h19_chain_cyc_1000() { chain(1000, true); }
#[test]
#[ignore]
fn h19_chain_cyc_3000() { chain(3000, true); }

// H12b: a live cell created with hold_lazy from the Lazy of a mapped cell (function with declared deps) that sits in a garbage cycle
#[test]
fn h12b_hold_lazy_of_foreign_lazy() {
    watchdog(10, || {
        let ctx = SodiumCtx::new();
        let keep_sink: StreamSink<i32> = ctx.new_stream_sink();
        let keep;
        {
            let ss: StreamSink<i32> = ctx.new_stream_sink();
            let x = ctx.new_cell(5);
            let sl: StreamLoop<i32> = ctx.new_stream_loop();
            let c = sl.stream().hold(0);
            let xd = x.to_dep();
            let mapped = c.map(lambda1(move |v: &i32| v + x.sample(), vec![xd]));
            let n = ss.stream().snapshot(&mapped, |a: &i32, b: &i32| a + b);
            sl.loop_(&n);
            keep = keep_sink.stream().hold_lazy(mapped.sample_lazy());
        }
        ctx.impl_.collect_cycles();
        assert_eq!(keep.sample(), 5);
    });
}

// H61: a weak listener whose handle is dropped by an earlier handler of the same transaction
#[test]
fn h61_weak_listener_dropped_in_handler() {
    watchdog(10, || {
        let ctx = SodiumCtx::new();
        let ss: StreamSink<i32> = ctx.new_stream_sink();
        let slot: Arc<Mutex<Option<Listener>>> = Arc::new(Mutex::new(None));
        let out: Arc<Mutex<Vec<i32>>> = Arc::new(Mutex::new(Vec::new()));
        let slot2 = slot.clone();
        let la = ss.stream().listen(move |_: &i32| {
            slot2.lock().unwrap().take();
        });
        let out2 = out.clone();
        let lb = ss.stream().listen_weak(move |x: &i32| out2.lock().unwrap().push(*x));
        *slot.lock().unwrap() = Some(lb);
        ss.send(1);
        ss.send(2);
        println!("out {:?}", out.lock().unwrap());
        assert_eq!(*out.lock().unwrap(), Vec::<i32>::new());
        la.unlisten();
    });
}

#[test]
#[ignore]
fn h19_stage_probe() {
    let n = 3000;
    let ctx = SodiumCtx::new();
    let ss: StreamSink<i32> = ctx.new_stream_sink();
    let mut s = ss.stream();
    for _ in 0..n {
        s = s.map(|x: &i32| x + 1);
    }
    eprintln!("built; nodes {}", ctx.impl_.node_count());
    let l = s.listen(|_: &i32| {});
    eprintln!("listened");
    ss.send(1);
    eprintln!("sent");
    l.unlisten();
    eprintln!("unlistened");
    drop(ss);
    eprintln!("sink dropped");
    drop(s);
    eprintln!("chain dropped");
    ctx.impl_.collect_cycles();
    eprintln!("collected");
}
#[test]
#[ignore]
fn h19_stage_probe_build_only() {
    let n = 3000;
    let ctx = SodiumCtx::new();
    let ss: StreamSink<i32> = ctx.new_stream_sink();
    let mut s = ss.stream();
    for i in 0..n {
        s = s.map(|x: &i32| x + 1);
        if i % 500 == 0 { eprintln!("built {}", i); }
    }
    eprintln!("built; nodes {}", ctx.impl_.node_count());
    std::mem::forget(s);
    std::mem::forget(ss);
}

fn build_chain_depth(n: usize) {
    let ctx = SodiumCtx::new();
    let ss: StreamSink<i32> = ctx.new_stream_sink();
    let mut s = ss.stream();
    for _ in 0..n {
        s = s.map(|x: &i32| x + 1);
    }
    eprintln!("built {} nodes {}", n, ctx.impl_.node_count());
    std::mem::forget(s);
    std::mem::forget(ss);
}
#[test]
#[ignore]
fn h19_build_8mib() {
    // main-thread sized stack (8 MiB)
    let n: usize = std::env::var("CHAIN_N").ok().and_then(|s| s.parse().ok()).unwrap_or(10000);
    std::thread::Builder::new().stack_size(8 * 1024 * 1024).spawn(move || build_chain_depth(n)).unwrap().join().unwrap();
}

// ---------- batch 5 ----------

// H77: repeated patterns with cyclic candidates: node_count must stay bounded
#[test]
fn h77_repeated_patterns_node_count() {
    watchdog(60, || {
        let ctx = SodiumCtx::new();
        let src: StreamSink<i32> = ctx.new_stream_sink();
        let selc: CellSink<Cell<i32>> = ctx.new_cell_sink(ctx.new_cell(0));
        let swc = Cell::switch_c(&selc.cell());
        let sels: CellSink<Stream<i32>> = ctx.new_cell_sink(src.stream());
        let sws = Cell::switch_s(&sels.cell());
        let l = swc.listen(|_: &i32| {});
        let l2 = sws.listen(|_: &i32| {});
        let mut counts = Vec::new();
        for i in 0..60 {
            // candidates with internal cycles
            selc.send(src.stream().accum(0, |a: &i32, s: &i32| a + s));
            sels.send(src.stream().collect(0, |a: &i32, s: &i32| (a + s, a + s)));
            src.send(i);
            // listen/unlisten on a cell, value + once
            let lx = swc.listen(|_: &i32| {});
            lx.unlisten();
            let o = Operational::value(&swc).once();
            let lo = o.listen(|_: &i32| {});
            src.send(i);
            lo.unlisten();
            // loops built and dropped in one transaction
            ctx.transaction(|| {
                let lp: CellLoop<i32> = ctx.new_cell_loop();
                let c = src.stream().snapshot(&lp.cell(), |a: &i32, b: &i32| a + b).hold(0);
                lp.loop_(&c);
            });
            counts.push(ctx.impl_.node_count());
        }
        println!("counts {:?}", counts);
        assert_eq!(counts[20], counts[59]);
        l.unlisten();
        l2.unlisten();
        drop(swc);
        drop(sws);
        drop(selc);
        drop(sels);
        drop(src);
        ctx.impl_.collect_cycles();
        assert_eq!(ctx.impl_.node_count(), 0);
    });
}

// H78: handler replaces a stored subgraph on every event (subgraph built inside the handler on another source)
#[test]
fn h78_handler_rebuilds_subgraph() {
    watchdog(60, || {
        let ctx = SodiumCtx::new();
        let trig: StreamSink<i32> = ctx.new_stream_sink();
        let data: StreamSink<i32> = ctx.new_stream_sink();
        let out: Arc<Mutex<Vec<i32>>> = Arc::new(Mutex::new(Vec::new()));
        let store: Arc<Mutex<Option<(Cell<i32>, Listener)>>> = Arc::new(Mutex::new(None));
        let ds = data.stream();
        let (store2, out2) = (store.clone(), out.clone());
        let l = trig.stream().listen(move |k: &i32| {
            let k = *k;
            let acc = ds.accum(0, move |a: &i32, s: &i32| a * k + s);
            let out3 = out2.clone();
            let li = acc.updates().listen(move |x: &i32| out3.lock().unwrap().push(*x));
            if let Some((_, old)) = store2.lock().unwrap().replace((acc, li)) {
                old.unlisten();
            }
        });
        let mut counts = Vec::new();
        for i in 0..40 {
            trig.send(i);
            data.send(1);
            data.send(1);
            counts.push(ctx.impl_.node_count());
        }
        println!("counts {:?}", counts);
        println!("out {:?}", &out.lock().unwrap()[..12]);
        assert_eq!(counts[10], counts[39]);
        // accum's function gets (event, state): state' = 1*k + state
        let o = out.lock().unwrap().clone();
        let mut exp = Vec::new();
        for k in 0..40 { exp.push(k); exp.push(2 * k); }
        assert_eq!(o, exp);
        l.unlisten();
        if let Some((_, old)) = store.lock().unwrap().take() { old.unlisten(); }
        drop(trig); drop(data);
        ctx.impl_.collect_cycles();
        ctx.transaction(|| {});
        assert_eq!(ctx.impl_.node_count(), 0);
    });
}

// ---------- batch 6 ----------

// H81: CellLoop clones dropped at odd moments
#[test]
fn h81_cell_loop_clones() {
    watchdog(10, || {
        let ctx = SodiumCtx::new();
        let out: Arc<Mutex<Vec<i32>>> = Arc::new(Mutex::new(Vec::new()));
        {
            let ss: StreamSink<i32> = ctx.new_stream_sink();
            let lp: CellLoop<i32> = ctx.new_cell_loop();
            let lp2 = lp.clone();
            drop(lp2);
            let lp3 = lp.clone();
            let c = ss.stream().snapshot(&lp.cell(), |a: &i32, b: &i32| a + b).hold(0);
            drop(lp);
            ctx.impl_.collect_cycles();
            lp3.loop_(&c);
            let lp4 = lp3.clone();
            drop(lp3);
            let out2 = out.clone();
            let l = c.listen(move |x: &i32| out2.lock().unwrap().push(*x));
            ss.send(1);
            drop(lp4);
            ss.send(2);
            l.unlisten();
        }
        assert_eq!(*out.lock().unwrap(), vec![0, 1, 3]);
        ctx.impl_.collect_cycles();
        assert_eq!(ctx.impl_.node_count(), 0);
    });
}

// H82: chain of garbage cycles linked only through cell VALUES hanging off a big live graph:
// number of collector passes / total time
#[test]
fn h82_value_linked_cycles_time() {
    watchdog(300, || {
        for &(n, m) in &[(50usize, 200usize), (100, 200), (200, 200), (200, 400)] {
            let ctx = SodiumCtx::new();
            let ss: StreamSink<i32> = ctx.new_stream_sink();
            // big live graph: chain of m maps
            let mut big = ss.stream();
            for _ in 0..m {
                big = big.map(|x: &i32| x + 1);
            }
            // n cycles (accum) on `big`, each one kept alive only by a handle stored as the value of a constant... use closures (undeclared capture)
            #[derive(Clone)]
            struct Link(Option<Arc<(Cell<i32>, Link)>>);
            let mut link = Link(None);
            ctx.transaction(|| {
                for _ in 0..n {
                    let acc = big.accum(0, |a: &i32, s: &i32| a + s);
                    link = Link(Some(Arc::new((acc, link.clone()))));
                }
            });
            // store the head as value of a cell in a garbage cycle so that the collector frees it
            let head = ss.stream().map(move |_: &i32| link.clone()).hold(Link(None));
            drop(head);
            let t0 = std::time::Instant::now();
            ctx.impl_.collect_cycles();
            println!("n {} m {} collect {:?} nodes left {}", n, m, t0.elapsed(), ctx.impl_.node_count());
        }
    });
}

// H83: long history of plain sends: per-send time must stay flat
#[test]
fn h83_long_history() {
    watchdog(300, || {
        let ctx = SodiumCtx::new();
        let ss: StreamSink<i64> = ctx.new_stream_sink();
        let acc = ss.stream().accum(0i64, |a: &i64, s: &i64| a + s);
        let sw = Cell::switch_c(&ss.stream().map({ let acc = acc.clone(); move |_: &i64| acc.clone() }).hold(acc.clone()));
        let d = Operational::defer(&ss.stream());
        let sp = ss.stream().map(|x: &i64| vec![*x, *x]).split();
        let cnt = Arc::new(Mutex::new(0i64));
        let c2 = cnt.clone();
        let l = sw.listen(move |x: &i64| *c2.lock().unwrap() += *x);
        let l2 = d.listen(|_: &i64| {});
        let l3 = sp.listen(|_: &i64| {});
        let mut times = Vec::new();
        for r in 0..10 {
            let t0 = std::time::Instant::now();
            for i in 0..2000 {
                ss.send(i);
            }
            times.push((t0.elapsed().as_millis(), ctx.impl_.node_count()));
        }
        println!("(ms per 2000 sends, nodes) {:?}", times);
        l.unlisten(); l2.unlisten(); l3.unlisten();
    });
}

#[test]
#[ignore]
fn h13_trace() {
    let _ = env_logger::builder().is_test(false).try_init();
    let ctx = SodiumCtx::new();
    {
        let ss: StreamSink<i32> = ctx.new_stream_sink();
        let c1 = ctx.new_cell(1);
        let c2 = ctx.new_cell(2);
        let lp: CellLoop<i32> = ctx.new_cell_loop();
        let c1b = c1.clone();
        let c2b = c2.clone();
        let cca = ss
            .stream()
            .snapshot(&lp.cell(), move |_: &i32, v: &i32| if *v == 1 { c2b.clone() } else { c1b.clone() })
            .hold(c1.clone());
        let out = Cell::switch_c(&cca);
        lp.loop_(&out);
        let l = out.listen(|_: &i32| {});
        ss.send(0);
        l.unlisten();
    }
    eprintln!("=====FINAL=====");
    ctx.impl_.collect_cycles();
    eprintln!("left {}", ctx.impl_.node_count());
}
