#![allow(unused)]
use sodium_rust::*;
use std::sync::{Arc, Mutex};
use std::time::Duration;

fn watchdog<F: FnOnce() + Send + 'static>(name: &'static str, f: F) {
    let (tx, rx) = std::sync::mpsc::channel();
    let h = std::thread::Builder::new()
        .stack_size(64 * 1024 * 1024)
        .spawn(move || {
            let r = std::panic::catch_unwind(std::panic::AssertUnwindSafe(f));
            let _ = tx.send(r);
        })
        .unwrap();
    match rx.recv_timeout(Duration::from_secs(20)) {
        Ok(Ok(())) => {}
        Ok(Err(e)) => std::panic::resume_unwind(e),
        Err(_) => panic!("HANG in {}", name),
    }
}

type Log<T> = Arc<Mutex<Vec<T>>>;
fn log<T>() -> Log<T> {
    Arc::new(Mutex::new(Vec::new()))
}
fn push<T>(l: &Log<T>, t: T) {
    l.lock().unwrap().push(t)
}
fn get<T: Clone>(l: &Log<T>) -> Vec<T> {
    l.lock().unwrap().clone()
}

// H1: switch_s built by a handler in the transaction in which the selector cell changes,
// while the old inner stream does not fire.
#[test]
fn h1_switch_s_built_by_handler_selector_changed() {
    watchdog("h1", || {
        let ctx = SodiumCtx::new();
        let out = log::<i32>();
        {
            let sa: StreamSink<i32> = ctx.new_stream_sink();
            let sb: StreamSink<i32> = ctx.new_stream_sink();
            let sel: StreamSink<Stream<i32>> = ctx.new_stream_sink();
            let csel = sel.stream().hold(sa.stream());
            let trig: StreamSink<i32> = ctx.new_stream_sink();
            let keep: Arc<Mutex<Vec<Listener>>> = Arc::new(Mutex::new(Vec::new()));
            // make sure the selector's update stream is visited before the trigger handler
            let l0 = sel.stream().listen(|_: &Stream<i32>| {});
            let l1 = {
                let csel = csel.clone();
                let out = out.clone();
                let keep = keep.clone();
                trig.stream().listen(move |_: &i32| {
                    let sw = Cell::switch_s(&csel);
                    let out = out.clone();
                    keep.lock().unwrap().push(sw.listen(move |x: &i32| push(&out, *x)));
                })
            };
            ctx.transaction(|| {
                sel.send(sb.stream());
                trig.send(0);
            });
            sa.send(1);
            sb.send(2);
            println!("h1 out = {:?}", get(&out));
            l0.unlisten();
            l1.unlisten();
            for l in keep.lock().unwrap().iter() {
                l.unlisten();
            }
        }
        assert_eq!(get(&out), vec![2]);
    });
}

// H2: same for switch_c
#[test]
fn h2_switch_c_built_by_handler_selector_changed() {
    watchdog("h2", || {
        let ctx = SodiumCtx::new();
        let out = log::<i32>();
        let ca: CellSink<i32> = ctx.new_cell_sink(10);
        let cb: CellSink<i32> = ctx.new_cell_sink(20);
        let sel: StreamSink<Cell<i32>> = ctx.new_stream_sink();
        let csel = sel.stream().hold(ca.cell());
        let trig: StreamSink<i32> = ctx.new_stream_sink();
        let keep: Arc<Mutex<Vec<Listener>>> = Arc::new(Mutex::new(Vec::new()));
        let l0 = sel.stream().listen(|_: &Cell<i32>| {});
        let l1 = {
            let csel = csel.clone();
            let out = out.clone();
            let keep = keep.clone();
            trig.stream().listen(move |_: &i32| {
                let sw = Cell::switch_c(&csel);
                let out = out.clone();
                keep.lock().unwrap().push(sw.listen(move |x: &i32| push(&out, *x)));
            })
        };
        ctx.transaction(|| {
            sel.send(cb.cell());
            trig.send(0);
        });
        ca.send(11);
        cb.send(21);
        println!("h2 out = {:?}", get(&out));
        // the switch is pulled by its listener: it fires the new cell's value in the building transaction
        assert_eq!(get(&out), vec![20, 21]);
    });
}

// H3: router created by a handler on a stream that already fired
#[test]
#[ignore]
fn h3_router_built_by_handler() {
    watchdog("h3", || {
        let ctx = SodiumCtx::new();
        let out = log::<i32>();
        let s: StreamSink<i32> = ctx.new_stream_sink();
        let keep: Arc<Mutex<Vec<Listener>>> = Arc::new(Mutex::new(Vec::new()));
        let keepr: Arc<Mutex<Vec<Router<i32, i32>>>> = Arc::new(Mutex::new(Vec::new()));
        let l1 = {
            let ctx = ctx.clone();
            let st = s.stream();
            let out = out.clone();
            let keep = keep.clone();
            let keepr = keepr.clone();
            let first = Arc::new(Mutex::new(true));
            s.stream().listen(move |_: &i32| {
                let mut f = first.lock().unwrap();
                if !*f {
                    return;
                }
                *f = false;
                // NOTE: st is the stream whose lock is held -> use a mapped copy instead
            })
        };
        let m = s.stream().map(|x: &i32| *x);
        let l2 = {
            let ctx = ctx.clone();
            let m2 = m.clone();
            let out = out.clone();
            let keep = keep.clone();
            let keepr = keepr.clone();
            let first = Arc::new(Mutex::new(true));
            s.stream().listen(move |_: &i32| {
                let mut f = first.lock().unwrap();
                if !*f {
                    return;
                }
                *f = false;
                let r: Router<i32, i32> = Router::new(&ctx, &m2, |x: &i32| vec![*x % 2]);
                let out = out.clone();
                keep.lock()
                    .unwrap()
                    .push(r.filter_matches(&1).listen(move |x: &i32| push(&out, *x)));
                keepr.lock().unwrap().push(r);
            })
        };
        // make m visited before l2? order of dependents: l1, m, l2 -> m is visited in the same round
        s.send(1);
        s.send(3);
        println!("h3 out = {:?}", get(&out));
        assert_eq!(get(&out), vec![1, 3]);
    });
}

#[test]
fn dbg_h2() {
    watchdog("dbg_h2", || {
        let ctx = SodiumCtx::new();
        let ca: CellSink<i32> = ctx.new_cell_sink(10);
        let cb: CellSink<i32> = ctx.new_cell_sink(20);
        let sel: StreamSink<Cell<i32>> = ctx.new_stream_sink();
        let csel = sel.stream().hold(ca.cell());
        let trig: StreamSink<i32> = ctx.new_stream_sink();
        let l0 = sel.stream().listen(|_: &Cell<i32>| {println!("sel handler");});
        let l1 = {
            let csel = csel.clone();
            trig.stream().listen(move |_: &i32| {
                println!("trig handler: csel.sample().sample() = {}", csel.sample().sample());
            })
        };
        ctx.transaction(|| {
            sel.send(cb.cell());
            trig.send(0);
            println!("in txn: csel.sample().sample() = {}", csel.sample().sample());
        });
        println!("after: csel.sample().sample() = {}", csel.sample().sample());
    });
}

// H1b: switch_s built by a handler, not observed until after the transaction
#[test]
fn h1b_switch_s_built_by_handler_unobserved() {
    watchdog("h1b", || {
        let ctx = SodiumCtx::new();
        let out = log::<i32>();
        let sa: StreamSink<i32> = ctx.new_stream_sink();
        let sb: StreamSink<i32> = ctx.new_stream_sink();
        let sel: StreamSink<Stream<i32>> = ctx.new_stream_sink();
        let csel = sel.stream().hold(sa.stream());
        let trig: StreamSink<i32> = ctx.new_stream_sink();
        let keep: Arc<Mutex<Vec<Stream<i32>>>> = Arc::new(Mutex::new(Vec::new()));
        let l0 = sel.stream().listen(|_: &Stream<i32>| {});
        let l1 = {
            let csel = csel.clone();
            let keep = keep.clone();
            trig.stream().listen(move |_: &i32| {
                keep.lock().unwrap().push(Cell::switch_s(&csel));
            })
        };
        ctx.transaction(|| {
            sel.send(sb.stream());
            trig.send(0);
        });
        let sw = keep.lock().unwrap()[0].clone();
        let l2 = {
            let out = out.clone();
            sw.listen(move |x: &i32| push(&out, *x))
        };
        sa.send(1);
        sb.send(2);
        println!("h1b out = {:?}", get(&out));
        assert_eq!(get(&out), vec![2]);
    });
}

// H2b: switch_c built by a handler, not observed until after the transaction
#[test]
fn h2b_switch_c_built_by_handler_unobserved() {
    watchdog("h2b", || {
        let ctx = SodiumCtx::new();
        let out = log::<i32>();
        let ca: CellSink<i32> = ctx.new_cell_sink(10);
        let cb: CellSink<i32> = ctx.new_cell_sink(20);
        let sel: StreamSink<Cell<i32>> = ctx.new_stream_sink();
        let csel = sel.stream().hold(ca.cell());
        let trig: StreamSink<i32> = ctx.new_stream_sink();
        let keep: Arc<Mutex<Vec<Cell<i32>>>> = Arc::new(Mutex::new(Vec::new()));
        let l0 = sel.stream().listen(|_: &Cell<i32>| {});
        let l1 = {
            let csel = csel.clone();
            let keep = keep.clone();
            trig.stream().listen(move |_: &i32| {
                keep.lock().unwrap().push(Cell::switch_c(&csel));
            })
        };
        ctx.transaction(|| {
            sel.send(cb.cell());
            trig.send(0);
        });
        let sw = keep.lock().unwrap()[0].clone();
        let l2 = {
            let out = out.clone();
            sw.listen(move |x: &i32| push(&out, *x))
        };
        ca.send(11);
        cb.send(21);
        println!("h2b out = {:?}", get(&out));
        assert_eq!(get(&out), vec![20, 21]);
    });
}

#[cfg(feature = "verif_hooks")]
#[test]
fn dbg_h1b() {
    use sodium_rust::verif::*;
    watchdog("dbg_h1b", || {
        let ctx = SodiumCtx::new();
        let out = log::<i32>();
        let sa: StreamSink<i32> = ctx.new_stream_sink();
        let sb: StreamSink<i32> = ctx.new_stream_sink();
        let sel: StreamSink<Stream<i32>> = ctx.new_stream_sink();
        let csel = sel.stream().hold(sa.stream());
        let trig: StreamSink<i32> = ctx.new_stream_sink();
        let keep: Arc<Mutex<Vec<Stream<i32>>>> = Arc::new(Mutex::new(Vec::new()));
        let l0 = sel.stream().listen(|_: &Stream<i32>| {});
        let l1 = {
            let csel = csel.clone();
            let keep = keep.clone();
            trig.stream().listen(move |_: &i32| {
                println!("handler start");
                keep.lock().unwrap().push(Cell::switch_s(&csel));
                println!("handler end");
            })
        };
        println!("sa {} sb {} sel {} csel {} trig {}", sa.stream().impl_.node.gc_node.v_id(), sb.stream().impl_.node.gc_node.v_id(), sel.stream().impl_.node.gc_node.v_id(), csel.impl_.node.gc_node.v_id(), trig.stream().impl_.node.gc_node.v_id());
        take_update_log();
        ctx.transaction(|| {
            sel.send(sb.stream());
            trig.send(0);
        });
        let sw = keep.lock().unwrap()[0].clone();
        println!("sw {}", sw.impl_.node.gc_node.v_id());
        for (k, id) in take_update_log() { println!("{} {}", k as char, id); }
        for n in ctx.impl_.gc_ctx().v_registry() { println!("{} {} freed={}", n.v_id(), n.v_name(), n.v_freed()); }
    });
}

// T4: defer / split built by a handler on a stream that already fired
#[test]
fn t4_defer_split_built_by_handler() {
    watchdog("t4", || {
        let ctx = SodiumCtx::new();
        let out = log::<String>();
        let s: StreamSink<i32> = ctx.new_stream_sink();
        let m = s.stream().map(|x: &i32| *x);
        let mv = s.stream().map(|x: &i32| vec![*x, *x + 1, *x + 2]);
        let c = s.stream().hold(0);
        let keep: Arc<Mutex<Vec<Listener>>> = Arc::new(Mutex::new(Vec::new()));
        let first = Arc::new(Mutex::new(true));
        let l = {
            let (m, mv, c, out, keep, first) = (m.clone(), mv.clone(), c.clone(), out.clone(), keep.clone(), first.clone());
            s.stream().listen(move |_: &i32| {
                let mut f = first.lock().unwrap();
                if !*f { return; }
                *f = false;
                let d = Operational::defer(&m);
                let sp = mv.split();
                let (o1, c1) = (out.clone(), c.clone());
                keep.lock().unwrap().push(d.listen(move |x: &i32| push(&o1, format!("d{} c{}", x, c1.sample()))));
                let (o2, c2) = (out.clone(), c.clone());
                keep.lock().unwrap().push(sp.listen(move |x: &i32| push(&o2, format!("s{} c{}", x, c2.sample()))));
            })
        };
        s.send(1);
        println!("t4 after first: {:?}", get(&out));
        s.send(10);
        println!("t4 out = {:?}", get(&out));
        assert_eq!(get(&out), vec!["d1 c1", "s1 c1", "s2 c1", "s3 c1", "d10 c10", "s10 c10", "s11 c10", "s12 c10"]);
    });
}

// T6: post from a handler sees all cell updates, including cells created by handlers
#[test]
fn t6_post_sees_cells_created_by_handlers() {
    watchdog("t6", || {
        let ctx = SodiumCtx::new();
        let out = log::<String>();
        let s: StreamSink<i32> = ctx.new_stream_sink();
        let m = s.stream().map(|x: &i32| *x * 2);
        let l = {
            let (ctx2, m, out) = (ctx.clone(), m.clone(), out.clone());
            s.stream().listen(move |_: &i32| {
                let c = m.hold(-1);
                let acc = m.accum(100, |a: &i32, s: &i32| a + s);
                let out = out.clone();
                let ctx3 = ctx2.clone();
                ctx2.post(move || {
                    push(&out, format!("post c={} acc={}", c.sample(), acc.sample()));
                    let out2 = out.clone();
                    let c = c.clone();
                    ctx3.post(move || push(&out2, format!("post2 c={}", c.sample())));
                    push(&out, "post end".to_string());
                });
            })
        };
        s.send(1);
        println!("t6 out = {:?}", get(&out));
        assert_eq!(get(&out), vec!["post c=2 acc=102", "post2 c=2", "post end"]);
    });
}

// T8: coalescer: nested transactions, left fold in send order
#[test]
fn t8_coalescer() {
    watchdog("t8", || {
        let ctx = SodiumCtx::new();
        let out = log::<String>();
        let s: StreamSink<String> = ctx.new_stream_sink_with_coalescer(|a: &String, b: &String| format!("({}+{})", a, b));
        let o = out.clone();
        let l = s.stream().listen(move |x: &String| push(&o, x.clone()));
        ctx.transaction(|| {
            s.send("a".into());
            ctx.transaction(|| {
                s.send("b".into());
                let t = ctx.new_transaction();
                s.send("c".into());
                t.close();
                t.close();
                drop(t);
            });
            s.send("d".into());
        });
        s.send("e".into());
        ctx.transaction(|| {});
        println!("t8 out = {:?}", get(&out));
        assert_eq!(get(&out), vec!["(((a+b)+c)+d)", "e"]);
    });
}

// T9: coalescer sink sent from a post callback and from a deferred transaction
#[test]
fn t9_coalescer_from_post() {
    watchdog("t9", || {
        let ctx = SodiumCtx::new();
        let out = log::<String>();
        let s: StreamSink<i32> = ctx.new_stream_sink_with_coalescer(|a: &i32, b: &i32| a * 10 + b);
        let o = out.clone();
        let c = s.stream().hold(0);
        let l = s.stream().listen(move |x: &i32| push(&o, format!("{}", x)));
        let trig: StreamSink<i32> = ctx.new_stream_sink();
        let (s2, ctx2) = (s.clone(), ctx.clone());
        let l2 = trig.stream().listen(move |x: &i32| {
            let (s3, x) = (s2.clone(), *x);
            ctx2.post(move || { s3.send(x); s3.send(x + 1); });
            let (s3, ctx3) = (s2.clone(), ctx2.clone());
            ctx2.post(move || { ctx3.transaction(|| { s3.send(x + 2); s3.send(x + 3); }) });
        });
        ctx.transaction(|| { s.send(1); trig.send(5); s.send(2); });
        println!("t9 out = {:?} c={}", get(&out), c.sample());
        assert_eq!(get(&out), vec!["12", "5", "6", "78"]);
        assert_eq!(c.sample(), 78);
    });
}

// T10: nothing left pending after close: an empty transaction delivers nothing, also after handler-built stuff
#[test]
fn t10_nothing_pending() {
    watchdog("t10", || {
        let ctx = SodiumCtx::new();
        let out = log::<String>();
        let s: StreamSink<i32> = ctx.new_stream_sink();
        let s2: StreamSink<i32> = ctx.new_stream_sink();
        let m = s.stream().map(|x: &i32| *x + 1);
        let keep: Arc<Mutex<Vec<Listener>>> = Arc::new(Mutex::new(Vec::new()));
        let keeps: Arc<Mutex<Vec<Stream<i32>>>> = Arc::new(Mutex::new(Vec::new()));
        let l = {
            let (ctx2, m, out, keep, keeps, s2s) = (ctx.clone(), m.clone(), out.clone(), keep.clone(), keeps.clone(), s2.stream());
            s.stream().listen(move |_: &i32| {
                let a = m.merge(&s2s, |a: &i32, b: &i32| a + b);
                let b = a.filter(|x: &i32| *x > 0).once();
                let c = Operational::value(&a.hold(7));
                let d = Operational::updates(&m.hold(3).lift2(&s2s.hold(4), |a: &i32, b: &i32| a * b));
                let sl: StreamLoop<i32> = StreamLoop::new(&ctx2);
                let e = sl.stream().map(|x: &i32| *x);
                sl.loop_(&m);
                for (n, st) in [("a", a), ("b", b), ("c", c), ("d", d), ("e", e)] {
                    let o = out.clone();
                    keep.lock().unwrap().push(st.listen(move |x: &i32| push(&o, format!("{}{}", n, x))));
                    keeps.lock().unwrap().push(st);
                }
            })
        };
        s.send(1);
        println!("t10 first = {:?}", get(&out));
        let n = get(&out).len();
        ctx.transaction(|| {});
        // attach new listeners to everything: nothing may be delivered
        let ks = keeps.lock().unwrap().clone();
        for st in ks.iter() {
            let o = out.clone();
            keep.lock().unwrap().push(st.listen(move |x: &i32| push(&o, format!("LATE{}", x))));
        }
        ctx.transaction(|| {});
        println!("t10 out = {:?}", get(&out));
        assert_eq!(get(&out).len(), n);
    });
}

// C: loop created and used by one handler, closed by a later handler of the same transaction
#[test]
fn c1_loop_closed_by_later_handler() {
    watchdog("c1", || {
        let ctx = SodiumCtx::new();
        let out = log::<String>();
        let s: StreamSink<i32> = ctx.new_stream_sink();
        let m = s.stream().map(|x: &i32| *x + 100);
        let slot: Arc<Mutex<Option<StreamLoop<i32>>>> = Arc::new(Mutex::new(None));
        let keep: Arc<Mutex<Vec<Listener>>> = Arc::new(Mutex::new(Vec::new()));
        let m2 = m.map(|x: &i32| *x);
        let l1 = {
            let (ctx2, m, out, slot, keep) = (ctx.clone(), m.clone(), out.clone(), slot.clone(), keep.clone());
            s.stream().listen(move |_: &i32| {
                if slot.lock().unwrap().is_some() { return; }
                let sl: StreamLoop<i32> = StreamLoop::new(&ctx2);
                let x = sl.stream().merge(&m, |a: &i32, b: &i32| a * 1000 + b);
                let o = out.clone();
                keep.lock().unwrap().push(x.listen(move |v: &i32| push(&o, format!("x{}", v))));
                *slot.lock().unwrap() = Some(sl);
            })
        };
        // a handler two rounds later closes the loop
        let looped = Arc::new(Mutex::new(false));
        let l2 = {
            let (m, slot, looped) = (m.clone(), slot.clone(), looped.clone());
            m2.listen(move |_: &i32| {
                let mut d = looped.lock().unwrap();
                if *d { return; }
                *d = true;
                slot.lock().unwrap().as_ref().unwrap().loop_(&m);
            })
        };
        s.send(1);
        println!("c1 first = {:?}", get(&out));
        s.send(2);
        println!("c1 out = {:?}", get(&out));
        assert_eq!(get(&out), vec!["x101101", "x102102"]);
    });
}

// leak battery: things built by handlers and dropped
#[test]
fn leak_battery() {
    watchdog("leak", || {
        let ctx = SodiumCtx::new();
        let s: StreamSink<i32> = ctx.new_stream_sink();
        let m = s.stream().map(|x: &i32| *x + 1);
        let cs = m.hold(0);
        let r: Router<i32, i32> = Router::new(&ctx, &m, |x: &i32| vec![*x % 3]);
        let l = {
            let (ctx2, m, cs, r) = (ctx.clone(), m.clone(), cs.clone(), r);
            s.stream().listen(move |x: &i32| {
                let a = m.map(|x: &i32| *x);
                let b = a.hold(0);
                let c = b.lift2(&cs, |a: &i32, b: &i32| a + b);
                let cc = ctx2.new_cell(c.clone());
                let sw = Cell::switch_c(&cc);
                let ss = Cell::switch_s(&ctx2.new_cell(a.clone()));
                let l1 = sw.listen(|_: &i32| {});
                let l2 = ss.listen(|_: &i32| {});
                let l3 = r.filter_matches(&(*x % 3)).listen(|_: &i32| {});
                let d = Operational::defer(&a);
                let l4 = d.listen(|_: &i32| {});
                let acc = a.accum(0, |a: &i32, s: &i32| a + s);
                let l5 = acc.listen_weak(|_: &i32| {});
                let o = a.once();
                let l6 = o.listen(|_: &i32| {});
                l1.unlisten(); l2.unlisten(); l3.unlisten(); l4.unlisten(); l6.unlisten();
            })
        };
        let mut counts = vec![];
        for i in 0..30 {
            s.send(i);
            ctx.impl_.collect_cycles();
            counts.push(ctx.impl_.node_count());
        }
        println!("leak counts = {:?}", counts);
        assert_eq!(counts[10], counts[29]);
    });
}

// leak battery 2: objects built by a handler live for one more transaction, then are dropped by the next handler / a post
#[test]
fn leak_battery2() {
    watchdog("leak2", || {
        let ctx = SodiumCtx::new();
        let s: StreamSink<i32> = ctx.new_stream_sink();
        let m = s.stream().map(|x: &i32| *x + 1);
        let mv = s.stream().map(|x: &i32| vec![*x, *x]);
        let cs = m.hold(0);
        struct Bag { ls: Vec<Listener>, ss: Vec<Stream<i32>>, cs: Vec<Cell<i32>> }
        let bag: Arc<Mutex<Option<Bag>>> = Arc::new(Mutex::new(None));
        let l = {
            let (ctx2, m, mv, cs, bag) = (ctx.clone(), m.clone(), mv.clone(), cs.clone(), bag.clone());
            s.stream().listen(move |x: &i32| {
                let old = bag.lock().unwrap().take();
                if *x % 2 == 0 {
                    drop(old);
                } else {
                    ctx2.post(move || { let _ = &old; });
                }
                let sp = mv.split();
                let v = Operational::value(&cs);
                let u = Operational::updates(&cs);
                let g = m.gate(&cs.map(|x: &i32| *x % 2 == 0));
                let col = m.collect(0, |a: &i32, s: &i32| (*a + *s, *s + 1));
                let cs2 = cs.clone();
                let snap = m.snapshot(&cs, lambda2(move |a: &i32, b: &i32| *a + *b + cs2.sample(), vec![cs.to_dep()]));
                let (cl_cell, cl_out) = ctx2.transaction(|| {
                    let cl: CellLoop<i32> = CellLoop::new(&ctx2);
                    let out = m.snapshot(&cl.cell(), |a: &i32, b: &i32| *a + *b).hold(0);
                    cl.loop_(&out);
                    (cl.cell(), out)
                });
                let swc = Cell::switch_c(&m.map({let cl_out = cl_out.clone(); let cs = cs.clone(); move |x: &i32| if *x % 2 == 0 { cl_out.clone() } else { cs.clone() }}).hold(cs.clone()));
                let sws = Cell::switch_s(&m.map({let sp = sp.clone(); let u = u.clone(); move |x: &i32| if *x % 2 == 0 { sp.clone() } else { u.clone() }}).hold(v.clone()));
                let mut ls = vec![];
                let ss = vec![sp, v, u, g, col, snap, sws];
                for st in ss.iter() { ls.push(st.listen_weak(|_: &i32| {})); }
                let cs_ = vec![cl_cell, cl_out, swc];
                for c in cs_.iter() { ls.push(c.listen_weak(|_: &i32| {})); }
                *bag.lock().unwrap() = Some(Bag { ls, ss, cs: cs_ });
            })
        };
        let mut counts = vec![];
        for i in 0..30 {
            s.send(i);
            ctx.impl_.collect_cycles();
            counts.push(ctx.impl_.node_count());
        }
        println!("leak2 counts = {:?}", counts);
        assert_eq!(counts[10], counts[28]);
        assert_eq!(counts[11], counts[29]);
    });
}

// D1: a closure owning a CellLoop handle is dropped in the pre_post phase (once detaching from its source)
#[test]
fn d1_loop_handle_dropped_in_pre_post() {
    watchdog("d1", || {
        let ctx = SodiumCtx::new();
        let out = log::<String>();
        let s: StreamSink<i32> = ctx.new_stream_sink();
        let cl: CellLoop<i32> = ctx.transaction(|| {
            let cl: CellLoop<i32> = CellLoop::new(&ctx);
            cl.loop_(&ctx.new_cell(5));
            cl
        });
        let o = s.stream().map(move |x: &i32| *x + cl.cell().sample()).once();
        let c = s.stream().hold(0);
        let l = {
            let (ctx2, c, out) = (ctx.clone(), c.clone(), out.clone());
            o.listen(move |x: &i32| {
                let (c, out, x) = (c.clone(), out.clone(), *x);
                ctx2.post(move || push(&out, format!("post x={} c={}", x, c.sample())));
            })
        };
        s.send(1);
        println!("d1 out = {:?}", get(&out));
        assert_eq!(get(&out), vec!["post x=6 c=1"]);
    });
}

// D2: a weak listener whose closure owns a CellLoop handle is reclaimed by the cycle collector
#[test]
fn d2_loop_handle_dropped_in_collection() {
    watchdog("d2", || {
        let ctx = SodiumCtx::new();
        let out = log::<String>();
        let s: StreamSink<i32> = ctx.new_stream_sink();
        for i in 0..3 {
            let cl: CellLoop<i32> = ctx.transaction(|| {
                let cl: CellLoop<i32> = CellLoop::new(&ctx);
                cl.loop_(&s.stream().hold(5));
                cl
            });
            let o = out.clone();
            let acc = s.stream().accum(0, |a: &i32, b: &i32| a + b);
            let l = acc.listen_weak(move |x: &i32| push(&o, format!("{} {}", x, cl.cell().sample())));
            s.send(i);
            drop(l);
            drop(acc);
            s.send(10 + i);
            println!("d2 nodes = {}", ctx.impl_.node_count());
        }
        println!("d2 out = {:?}", get(&out));
    });
}

// D3: a stream (whose mapping closure owns a CellLoop handle) is the old value of a cell of streams;
// it is released in the pre_post phase when the cell is updated
#[test]
fn d3_loop_handle_dropped_in_pre_post() {
    watchdog("d3", || {
        let ctx = SodiumCtx::new();
        let out = log::<String>();
        let s0: StreamSink<i32> = ctx.new_stream_sink();
        let cl: CellLoop<i32> = ctx.transaction(|| {
            let cl: CellLoop<i32> = CellLoop::new(&ctx);
            cl.loop_(&ctx.new_cell(5));
            cl
        });
        let old = s0.stream().map(move |x: &i32| *x + cl.cell().sample());
        let sel: StreamSink<Stream<i32>> = ctx.new_stream_sink();
        let csel = sel.stream().hold(old);
        let later = sel.stream().map(|_: &Stream<i32>| 1).map(|x: &i32| *x + 1).hold(0);
        let l = {
            let (ctx2, later, out) = (ctx.clone(), later.clone(), out.clone());
            sel.stream().listen(move |_: &Stream<i32>| {
                let (later, out) = (later.clone(), out.clone());
                ctx2.post(move || push(&out, format!("post later={}", later.sample())));
            })
        };
        sel.send(ctx.new_stream());
        println!("d3 out = {:?} later now = {}", get(&out), later.sample());
        assert_eq!(get(&out), vec!["post later=2"]);
    });
}

struct Tr(&'static str, Log<String>);
impl Drop for Tr { fn drop(&mut self) { push(&self.1, format!("drop {}", self.0)); } }

#[test]
fn d3dbg() {
    watchdog("d3dbg", || {
        let ctx = SodiumCtx::new();
        let out = log::<String>();
        let s0: StreamSink<i32> = ctx.new_stream_sink();
        let cl: CellLoop<i32> = ctx.transaction(|| {
            let cl: CellLoop<i32> = CellLoop::new(&ctx);
            cl.loop_(&ctx.new_cell(5));
            cl
        });
        let tr = Tr("closure", out.clone());
        let old = s0.stream().map(move |x: &i32| { let _ = &tr; *x + cl.cell().sample() });
        let sel: StreamSink<Stream<i32>> = ctx.new_stream_sink();
        let csel = sel.stream().hold(old);
        let later = sel.stream().map(|_: &Stream<i32>| 1).map(|x: &i32| *x + 1).hold(0);
        let l = {
            let (ctx2, later, out) = (ctx.clone(), later.clone(), out.clone());
            sel.stream().listen(move |_: &Stream<i32>| {
                let (later, out) = (later.clone(), out.clone());
                push(&out, "handler".to_string());
                ctx2.post(move || push(&out, format!("post later={}", later.sample())));
            })
        };
        sel.send(ctx.new_stream());
        push(&out, "after send".to_string());
        println!("d3dbg out = {:?} later now = {}", get(&out), later.sample());
    });
}

// odd combos for panics / hangs
#[test]
fn odd_combos() {
    watchdog("odd", || {
        let ctx = SodiumCtx::new();
        let out = log::<String>();
        let s: StreamSink<i32> = ctx.new_stream_sink();
        let m = s.stream().map(|x: &i32| *x + 1);
        let keep: Arc<Mutex<Vec<Listener>>> = Arc::new(Mutex::new(Vec::new()));
        let selfl: Arc<Mutex<Option<Listener>>> = Arc::new(Mutex::new(None));
        let l = {
            let (ctx2, m, out, keep) = (ctx.clone(), m.clone(), out.clone(), keep.clone());
            s.stream().listen(move |x: &i32| {
                let never: Stream<i32> = ctx2.new_stream();
                let k0 = ctx2.new_cell(7);
                let kk = ctx2.new_cell(k0.clone());
                let sw = Cell::switch_c(&kk);
                let ks = ctx2.new_cell(never.clone());
                let sws = Cell::switch_s(&ks);
                let v = Operational::value(&k0);
                let vv = Operational::value(&sw);
                let e: Stream<Vec<i32>> = m.map(|_: &i32| Vec::<i32>::new());
                let es = e.split();
                let dd = Operational::defer(&Operational::defer(&m));
                let oo = m.once().once();
                let od = Operational::defer(&m).once();
                let r: Router<i32, i32> = Router::new(&ctx2, &m, |x: &i32| vec![*x, *x, *x]);
                let rs = r.filter_matches(&(*x + 1));
                let r2: Router<i32, i32> = Router::new(&ctx2, &rs, |_: &i32| vec![]);
                let rs2 = r2.filter_matches(&0);
                let t = ctx2.new_transaction();
                let hl = m.hold_lazy(sw.sample_lazy());
                t.close();
                let g = m.gate(&m.map(|x: &i32| *x % 2 == 0).hold(true));
                for (n, st) in [("never", never), ("sws", sws), ("v", v), ("vv", vv), ("es", es), ("dd", dd), ("oo", oo), ("od", od), ("rs", rs), ("rs2", rs2), ("g", g), ("hl", Operational::value(&hl))] {
                    let o = out.clone();
                    keep.lock().unwrap().push(st.listen(move |x: &i32| push(&o, format!("{}{}", n, x))));
                }
            })
        };
        // a listener that unlistens itself
        {
            let (selfl2, o) = (selfl.clone(), out.clone());
            let ll = m.listen(move |x: &i32| {
                push(&o, format!("self{}", x));
                if let Some(l) = selfl2.lock().unwrap().take() { l.unlisten(); }
            });
            *selfl.lock().unwrap() = Some(ll);
        }
        s.send(1);
        println!("odd 1 = {:?}", get(&out));
        out.lock().unwrap().clear();
        s.send(2);
        println!("odd 2 = {:?}", get(&out));
        for l in keep.lock().unwrap().drain(..) { l.unlisten(); }
        l.unlisten();
        drop(m);
        ctx.impl_.collect_cycles();
        println!("odd nodes = {}", ctx.impl_.node_count());
    });
}

#[test]
fn leak_router() {
    watchdog("leak_router", || {
        let ctx = SodiumCtx::new();
        let s: StreamSink<i32> = ctx.new_stream_sink();
        let m = s.stream().map(|x: &i32| *x + 1);
        let out = log::<i32>();
        let l = {
            let (ctx2, m, out) = (ctx.clone(), m.clone(), out.clone());
            s.stream().listen(move |x: &i32| {
                // router in a feedback loop, built by a handler
                let (r, rs, acc) = ctx2.transaction(|| {
                    let sl: StreamLoop<i32> = StreamLoop::new(&ctx2);
                    let inp = m.or_else(&sl.stream());
                    let r: Router<i32, i32> = Router::new(&ctx2, &inp, |x: &i32| vec![*x % 2]);
                    let rs = r.filter_matches(&0);
                    let acc = rs.accum(0, |a: &i32, b: &i32| a + b);
                    sl.loop_(&Operational::defer(&rs.map(|x: &i32| *x + 1)).filter(|x: &i32| *x < 0));
                    (r, rs, acc)
                });
                let o = out.clone();
                let l = rs.listen_weak(move |x: &i32| push(&o, *x));
                let _ = (r, acc, l);
            })
        };
        let mut counts = vec![];
        for i in 0..20 {
            s.send(i);
            ctx.impl_.collect_cycles();
            counts.push(ctx.impl_.node_count());
        }
        println!("leak_router counts = {:?} out={:?}", counts, get(&out));
        assert_eq!(counts[5], counts[19]);
    });
}

// explicit collection from inside a handler, after dropping things
#[test]
fn gc_in_handler() {
    watchdog("gc_in_handler", || {
        let ctx = SodiumCtx::new();
        let out = log::<String>();
        let s: StreamSink<i32> = ctx.new_stream_sink();
        let m = s.stream().map(|x: &i32| *x + 1);
        let bag: Arc<Mutex<Vec<Cell<i32>>>> = Arc::new(Mutex::new(Vec::new()));
        let l = {
            let (ctx2, m, out, bag) = (ctx.clone(), m.clone(), out.clone(), bag.clone());
            s.stream().listen(move |x: &i32| {
                let old: Vec<Cell<i32>> = bag.lock().unwrap().drain(..).collect();
                drop(old);
                let c = m.map(|x: &i32| *x * 2).hold(0);
                let acc = m.accum(0, |a: &i32, b: &i32| a + b);
                let o = out.clone();
                let lw = acc.listen_weak(move |x: &i32| push(&o, format!("acc{}", x)));
                drop(lw);
                if *x % 2 == 0 { drop(c); } else { bag.lock().unwrap().push(c); }
                bag.lock().unwrap().push(acc);
                ctx2.impl_.collect_cycles();
            })
        };
        for i in 0..6 { s.send(i); }
        println!("gc_in_handler out = {:?} nodes={}", get(&out), ctx.impl_.node_count());
    });
}

// H3 minimal + controls
#[test]
fn h3_minimal() {
    watchdog("h3min", || {
        let ctx = SodiumCtx::new();
        let s: StreamSink<i32> = ctx.new_stream_sink();
        let t: StreamSink<()> = ctx.new_stream_sink();
        let out = log::<String>();
        let keep: Arc<Mutex<Vec<(Router<i32, i32>, Listener)>>> = Arc::new(Mutex::new(Vec::new()));
        let l = {
            let (ctx2, ss, out, keep) = (ctx.clone(), s.stream(), out.clone(), keep.clone());
            t.stream().listen(move |_: &()| {
                let r: Router<i32, i32> = Router::new(&ctx2, &ss, |x: &i32| vec![*x]);
                let o = out.clone();
                let l = r.filter_matches(&1).listen(move |x: &i32| push(&o, format!("router:{}", x)));
                // control: a filter built at the same place sees the event
                let o = out.clone();
                let l2 = ss.filter(|x: &i32| *x == 1).listen(move |x: &i32| push(&o, format!("filter:{}", x)));
                keep.lock().unwrap().push((r, l));
                std::mem::forget(l2);
            })
        };
        ctx.transaction(|| { s.send(1); t.send(()); });
        println!("h3min out = {:?}", get(&out));
        let mut first = get(&out); first.sort();
        // control 2: same construction at top level inside the transaction, after the send
        let out2 = log::<String>();
        ctx.transaction(|| {
            s.send(1);
            let r: Router<i32, i32> = Router::new(&ctx, &s.stream(), |x: &i32| vec![*x]);
            let o = out2.clone();
            let l = r.filter_matches(&1).listen(move |x: &i32| push(&o, format!("router:{}", x)));
            std::mem::forget((r, l));
        });
        println!("h3min control out2 = {:?}", get(&out2));
        assert_eq!(get(&out2), vec!["router:1"]);
        assert_eq!(first, vec!["filter:1", "router:1"]);
    });
}

// c1 analog with CellLoop
#[test]
fn c2_cellloop_closed_by_later_handler() {
    watchdog("c2", || {
        let ctx = SodiumCtx::new();
        let out = log::<String>();
        let s: StreamSink<i32> = ctx.new_stream_sink();
        let m = s.stream().map(|x: &i32| *x + 100);
        let c = m.hold(0);
        let m2 = m.map(|x: &i32| *x);
        let slot: Arc<Mutex<Option<CellLoop<i32>>>> = Arc::new(Mutex::new(None));
        let keep: Arc<Mutex<Vec<Listener>>> = Arc::new(Mutex::new(Vec::new()));
        let l1 = {
            let (ctx2, m, out, slot, keep) = (ctx.clone(), m.clone(), out.clone(), slot.clone(), keep.clone());
            s.stream().listen(move |_: &i32| {
                if slot.lock().unwrap().is_some() { return; }
                let cl: CellLoop<i32> = CellLoop::new(&ctx2);
                let x = Operational::updates(&cl.cell()).merge(&m, |a: &i32, b: &i32| a * 1000 + b);
                let o = out.clone();
                keep.lock().unwrap().push(x.listen(move |v: &i32| push(&o, format!("x{}", v))));
                *slot.lock().unwrap() = Some(cl);
            })
        };
        let looped = Arc::new(Mutex::new(false));
        let l2 = {
            let (c, slot, looped) = (c.clone(), slot.clone(), looped.clone());
            m2.listen(move |_: &i32| {
                let mut d = looped.lock().unwrap();
                if *d { return; }
                *d = true;
                slot.lock().unwrap().as_ref().unwrap().loop_(&c);
            })
        };
        s.send(1);
        s.send(2);
        println!("c2 out = {:?}", get(&out));
        assert_eq!(get(&out), vec!["x101101", "x102102"]);
    });
}

// Transaction objects opened by handlers / post callbacks
#[test]
fn txn_objects_in_handlers() {
    watchdog("txn_objects", || {
        let ctx = SodiumCtx::new();
        let out = log::<String>();
        let s: StreamSink<i32> = ctx.new_stream_sink();
        let s2: StreamSink<i32> = ctx.new_stream_sink_with_coalescer(|a: &i32, b: &i32| a * 10 + b);
        let c = s.stream().hold(0);
        let held: Arc<Mutex<Option<Transaction>>> = Arc::new(Mutex::new(None));
        let o = out.clone();
        let l2 = s2.stream().listen(move |x: &i32| push(&o, format!("s2:{}", x)));
        let l = {
            let (ctx2, out, held, s2, c) = (ctx.clone(), out.clone(), held.clone(), s2.clone(), c.clone());
            s.stream().listen(move |x: &i32| {
                // a transaction object opened by a handler and closed by a post callback
                *held.lock().unwrap() = Some(ctx2.new_transaction());
                let (held, out, s2, c, x) = (held.clone(), out.clone(), s2.clone(), c.clone(), *x);
                let (held2, out2, c2) = (held.clone(), out.clone(), c.clone());
                ctx2.post(move || { push(&out, format!("post1 c={}", c.sample())); s2.send(x); s2.send(x + 1); });
                ctx2.post(move || { push(&out2, format!("post2 c={}", c2.sample())); held2.lock().unwrap().take(); push(&out2, "post2 end".to_string()); });
            })
        };
        s.send(1);
        push(&out, "after send".to_string());
        ctx.transaction(|| {});
        println!("txn_objects out = {:?}", get(&out));
        assert_eq!(get(&out), vec!["post1 c=1", "post2 c=1", "s2:12", "post2 end", "after send"]);
    });
}

// unlisten inside the transaction that registered the listener; unlisten of a cell listener
#[test]
fn unlisten_variants() {
    watchdog("unlisten", || {
        let ctx = SodiumCtx::new();
        let out = log::<String>();
        let s: StreamSink<i32> = ctx.new_stream_sink();
        let c = s.stream().hold(0);
        ctx.transaction(|| {
            let o = out.clone();
            let l = c.listen(move |x: &i32| push(&o, format!("A{}", x)));
            l.unlisten();
            let o = out.clone();
            let l = s.stream().listen(move |x: &i32| push(&o, format!("B{}", x)));
            s.send(1);
            l.unlisten();
        });
        let o = out.clone();
        let l = c.listen(move |x: &i32| push(&o, format!("C{}", x)));
        s.send(2);
        l.unlisten();
        s.send(3);
        ctx.impl_.collect_cycles();
        println!("unlisten out = {:?} nodes={}", get(&out), ctx.impl_.node_count());
        assert_eq!(get(&out), vec!["C1", "C2"]);
    });
}

// variant of the known depth-first post nesting: defer(m) where m also carries another deferred stream
#[test]
fn defer_order_variant() {
    watchdog("defer_order", || {
        let ctx = SodiumCtx::new();
        let out = log::<String>();
        let s: StreamSink<i32> = ctx.new_stream_sink();
        let d = Operational::defer(&s.stream().map(|x: &i32| *x + 100));
        let m = s.stream().map(|x: &i32| *x).map(|x: &i32| *x).or_else(&d);
        let dm = Operational::defer(&m);
        let o = out.clone();
        let l0 = m.listen(move |x: &i32| push(&o, format!("m{}", x)));
        let o = out.clone();
        let l = dm.listen(move |x: &i32| push(&o, format!("dm{}", x)));
        s.send(1);
        println!("defer_order out = {:?}", get(&out));
        // variant of the known depth-first post nesting (m fires 1 then 101, defer(m) re-emits 101 then 1)
        assert_eq!(get(&out), vec!["m1", "m101", "dm1", "dm101"]);
    });
}
