#![allow(unused)]
use sodium_rust::*;
use std::sync::{Arc, Mutex};
use std::time::Duration;

type Log = Arc<Mutex<Vec<(usize, i32)>>>;

struct Rng(u64);
impl Rng {
    fn next(&mut self) -> u64 {
        self.0 ^= self.0 << 13;
        self.0 ^= self.0 >> 7;
        self.0 ^= self.0 << 17;
        self.0
    }
    fn below(&mut self, n: usize) -> usize {
        (self.next() % (n as u64)) as usize
    }
}

fn w(x: i32) -> i32 {
    x.rem_euclid(1000)
}

struct Env {
    ctx: SodiumCtx,
    streams: Vec<Stream<i32>>,
    cells: Vec<Cell<i32>>,
    routers: Vec<Router<i32, i32>>,
    desc: Vec<String>,
}

fn build(env: &mut Env, seed: u64, nops: usize, ops_mask: u64) {
    let mut rng = Rng(seed.wrapping_mul(0x9E3779B97F4A7C15) | 1);
    for _ in 0..nops {
        let op = loop {
            let op = rng.below(21);
            if ops_mask & (1 << op) != 0 {
                break op;
            }
        };
        let ns = env.streams.len();
        let nc = env.cells.len();
        let i_s = rng.below(ns);
        let s = env.streams[i_s].clone();
        let si = rng.below(ns);
        let s2 = env.streams[si].clone();
        let i_c = rng.below(nc);
        let c = env.cells[i_c].clone();
        let i_c2 = rng.below(nc);
        let c2 = env.cells[i_c2].clone();
        let (ns0, nc0) = (ns, nc);
        let ctx = env.ctx.clone();
        match op {
            0 => env.streams.push(s.map(|x: &i32| w(*x * 2 + 1))),
            1 => env.streams.push(s.filter(|x: &i32| *x % 3 != 0)),
            2 => env.streams.push(s.merge(&s2, |a: &i32, b: &i32| w(*a * 3 + *b))),
            3 => env.streams.push(s.or_else(&s2)),
            4 => env.cells.push(s.hold(rng.below(10) as i32)),
            5 => env.streams.push(s.snapshot(&c, |a: &i32, b: &i32| w(*a * 7 + *b))),
            6 => env.cells.push(c.lift2(&c2, |a: &i32, b: &i32| w(*a * 11 + *b))),
            7 => {
                let (p, q) = (s.clone(), s2.clone());
                let i_sel = rng.below(ns);
                env.desc.push(format!("   (next switch_s selector = S{})", i_sel));
                let sel = env.streams[i_sel].clone();
                let cs = sel.map(move |x: &i32| if *x % 2 == 0 { p.clone() } else { q.clone() }).hold(s.clone());
                env.streams.push(Cell::switch_s(&cs));
            }
            8 => {
                let (p, q) = (c.clone(), c2.clone());
                let cc = s.map(move |x: &i32| if *x % 2 == 0 { p.clone() } else { q.clone() }).hold(c.clone());
                env.cells.push(Cell::switch_c(&cc));
            }
            9 => env.streams.push(Operational::value(&c)),
            10 => env.streams.push(Operational::updates(&c)),
            11 => env.streams.push(s.once()),
            12 => env.cells.push(s.accum(1, |a: &i32, st: &i32| w(*a + *st * 2))),
            13 => env.streams.push(s.collect(2, |a: &i32, st: &i32| (w(*a + *st), w(*st + 1)))),
            14 => env.streams.push(s.gate(&c.map(|x: &i32| *x % 2 == 0))),
            15 => {
                let r: Router<i32, i32> = Router::new(&ctx, &s, |x: &i32| vec![*x % 3, (*x + 1) % 3]);
                env.streams.push(r.filter_matches(&(rng.below(3) as i32)));
                env.routers.push(r);
            }
            16 => env.streams.push(Operational::defer(&s)),
            17 => env.streams.push(s.map(|x: &i32| vec![*x, w(*x + 1)]).split()),
            18 => {
                let cell = ctx.transaction(|| {
                    let cl: CellLoop<i32> = CellLoop::new(&ctx);
                    let out = s.snapshot(&cl.cell(), |a: &i32, b: &i32| w(*a + *b * 2)).hold(3);
                    cl.loop_(&out);
                    cl.cell()
                });
                env.cells.push(cell);
            }
            19 => env.cells.push(c.map(|x: &i32| w(*x * 5 + 2))),
            20 => {
                if env.routers.is_empty() {
                    env.streams.push(s.map(|x: &i32| w(*x + 3)));
                } else {
                    let r = &env.routers[rng.below(env.routers.len())];
                    env.streams.push(r.filter_matches(&(rng.below(3) as i32)));
                }
            }
            _ => unreachable!(),
        }
        let names = ["map","filter","merge","or_else","hold","snapshot","lift2","switch_s","switch_c","value","updates","once","accum","collect","gate","router","defer","split","cellloop","cmap","route"];
        let res = if env.streams.len() > ns0 { format!("S{}", ns0) } else { format!("C{}", 1000 + nc0) };
        env.desc.push(format!("{} = {}(s=S{}, s2=S{}, c=C{}, c2=C{})", res, names[op], i_s, si, 1000 + i_c, 1000 + i_c2));
    }
}

fn run(seed: u64, nops: usize, delay: Option<usize>, ops_mask: u64) -> (Vec<Vec<i32>>, usize) {
    let r = run2(seed, nops, delay, ops_mask);
    (r.0, r.1)
}
fn run2(seed: u64, nops: usize, delay: Option<usize>, ops_mask: u64) -> (Vec<Vec<i32>>, usize, Vec<String>) {
    let ctx = SodiumCtx::new();
    let log: Log = Arc::new(Mutex::new(Vec::new()));
    let s1: StreamSink<i32> = ctx.new_stream_sink();
    let s2: StreamSink<i32> = ctx.new_stream_sink();
    let trig: StreamSink<i32> = ctx.new_stream_sink();
    let mut base_s = vec![s1.stream(), s2.stream()];
    for i in 0..5 {
        let p = base_s[base_s.len() - 1 - (i % 2)].clone();
        base_s.push(p.map(|x: &i32| w(*x + 1)));
    }
    base_s.push(base_s[3].merge(&base_s[4], |a: &i32, b: &i32| w(*a + *b)));
    let base_c = vec![base_s[2].hold(0), base_s[1].hold(5), base_s[5].hold(1)];
    let env = Arc::new(Mutex::new(Env { ctx: ctx.clone(), streams: base_s, cells: base_c, routers: vec![], desc: vec![] }));
    let listeners: Arc<Mutex<Vec<Listener>>> = Arc::new(Mutex::new(Vec::new()));
    let nbase_s = env.lock().unwrap().streams.len();
    let nbase_c = env.lock().unwrap().cells.len();
    let do_build = {
        let (env, log, listeners) = (env.clone(), log.clone(), listeners.clone());
        move || {
            let mut env = env.lock().unwrap();
            build(&mut env, seed, nops, ops_mask);
            for (i, s) in env.streams.iter().enumerate().skip(nbase_s) {
                let log = log.clone();
                listeners.lock().unwrap().push(s.listen(move |x: &i32| log.lock().unwrap().push((i, *x))));
            }
            for (i, c) in env.cells.iter().enumerate().skip(nbase_c) {
                let log = log.clone();
                listeners.lock().unwrap().push(c.listen(move |x: &i32| log.lock().unwrap().push((1000 + i, *x))));
            }
        }
    };
    let mut tl = None;
    let mode = std::env::var("MODE").unwrap_or("handler".to_string());
    match delay {
        None => {
            if mode == "post" {
                ctx.transaction(|| {
                    s1.send(3);
                    s2.send(4);
                    trig.send(0);
                });
                do_build();
            } else {
                ctx.transaction(|| {
                    do_build();
                    s1.send(3);
                    s2.send(4);
                    trig.send(0);
                });
            }
        }
        Some(d) => {
            let mut t = trig.stream();
            for _ in 0..d {
                t = t.map(|x: &i32| *x);
            }
            let done = Arc::new(Mutex::new(false));
            let do_build = Arc::new(Mutex::new(do_build));
            if mode == "handler" {
                tl = Some(t.listen(move |_: &i32| {
                    let mut dn = done.lock().unwrap();
                    if *dn { return; }
                    *dn = true;
                    (do_build.lock().unwrap())();
                }));
                ctx.transaction(|| { s1.send(3); s2.send(4); trig.send(0); });
            } else if mode == "mapfn" {
                let t2 = t.map(move |x: &i32| {
                    let mut dn = done.lock().unwrap();
                    if !*dn { *dn = true; (do_build.lock().unwrap())(); }
                    *x
                });
                tl = Some(t2.listen(|_: &i32| {}));
                ctx.transaction(|| { s1.send(3); s2.send(4); trig.send(0); });
            } else if mode == "after" {
                // built at top level in the transaction, after the sends
                ctx.transaction(|| { s1.send(3); s2.send(4); trig.send(0); (do_build.lock().unwrap())(); });
            } else if mode == "mid" {
                ctx.transaction(|| { s1.send(3); (do_build.lock().unwrap())(); s2.send(4); trig.send(0); });
            } else if mode == "post" {
                let ctx2 = ctx.clone();
                tl = Some(t.listen(move |_: &i32| {
                    let mut dn = done.lock().unwrap();
                    if *dn { return; }
                    *dn = true;
                    let do_build = do_build.clone();
                    ctx2.post(move || (do_build.lock().unwrap())());
                }));
                ctx.transaction(|| { s1.send(3); s2.send(4); trig.send(0); });
            } else { panic!("mode"); }
        }
    }
    s1.send(5);
    s2.send(6);
    ctx.transaction(|| {
        s1.send(7);
        s2.send(8);
    });
    s1.send(9);
    s2.send(10);
    let n = { let e = env.lock().unwrap(); e.streams.len().max(1000 + e.cells.len()) };
    let mut per: Vec<Vec<i32>> = vec![vec![]; 1100];
    for (i, v) in log.lock().unwrap().iter() {
        per[*i].push(*v);
    }
    let desc = env.lock().unwrap().desc.clone();
    // cleanup & leak check
    for l in listeners.lock().unwrap().drain(..) {
        l.unlisten();
    }
    if let Some(l) = tl { l.unlisten(); }
    {
        let mut e = env.lock().unwrap();
        e.streams.clear();
        e.cells.clear();
        e.routers.clear();
    }
    drop(s1); drop(s2); drop(trig);
    ctx.impl_.collect_cycles();
    (per, ctx.impl_.node_count(), desc)
}

fn watchdog<F: FnOnce() + Send + 'static>(name: String, f: F) -> Result<(), String> {
    let (tx, rx) = std::sync::mpsc::channel();
    let _h = std::thread::Builder::new().stack_size(64 * 1024 * 1024).spawn(move || {
        let r = std::panic::catch_unwind(std::panic::AssertUnwindSafe(f));
        let _ = tx.send(r.map_err(|e| {
            if let Some(s) = e.downcast_ref::<String>() { s.clone() } else if let Some(s) = e.downcast_ref::<&str>() { s.to_string() } else { "panic".to_string() }
        }));
    }).unwrap();
    match rx.recv_timeout(Duration::from_secs(20)) {
        Ok(Ok(())) => Ok(()),
        Ok(Err(e)) => Err(format!("PANIC in {}: {}", name, e)),
        Err(_) => Err(format!("HANG in {}", name)),
    }
}

#[test]
fn fuzz() {
    let mask: u64 = std::env::var("OPS_MASK").ok().and_then(|s| u64::from_str_radix(&s, 16).ok()).unwrap_or(0xFFFFF);
    let nseeds: u64 = std::env::var("NSEEDS").ok().and_then(|s| s.parse().ok()).unwrap_or(200);
    let nops: usize = std::env::var("NOPS").ok().and_then(|s| s.parse().ok()).unwrap_or(6);
    let mut failures = 0;
    let mut reorders = 0;
    for seed in 1..=nseeds {
        for delay in [0usize, 1, 2, 3, 5] {
            let res = Arc::new(Mutex::new(None));
            let res2 = res.clone();
            let r = watchdog(format!("seed {} delay {}", seed, delay), move || {
                let a = run(seed, nops, None, mask);
                let b = run(seed, nops, Some(delay), mask);
                *res2.lock().unwrap() = Some((a, b));
            });
            if let Err(e) = r {
                println!("{}", e);
                failures += 1;
                continue;
            }
            let ((a, na), (b, nb)) = res.lock().unwrap().take().unwrap();
            let same_multiset = a.iter().zip(b.iter()).all(|(x, y)| { let (mut x, mut y) = (x.clone(), y.clone()); x.sort(); y.sort(); x == y });
            if a != b && same_multiset && std::env::var("STRICT").is_err() {
                reorders += 1;
                let desc = run2(seed, nops, None, mask).2;
                for i in 0..a.len() {
                    if a[i] != b[i] {
                        let key = format!("S{} = ", i);
                        for d in desc.iter() {
                            if d.starts_with(&key) && (d.contains("= defer") || d.contains("= split")) {
                                println!("SAME-SOURCE REORDER seed {} delay {} out {}: {:?} vs {:?}  [{}]", seed, delay, i, a[i], b[i], d);
                            }
                        }
                    }
                }
            } else if a != b {
                failures += 1;
                println!("MISMATCH seed {} delay {}", seed, delay);
                for i in 0..a.len() {
                    if a[i] != b[i] {
                        println!("   out {}: top-level {:?}  handler {:?}", i, a[i], b[i]);
                    }
                }
                if std::env::var("SHOW").is_ok() { for d in run2(seed, nops, None, mask).2 { println!("      {}", d); } }
                let mut env = Env { ctx: SodiumCtx::new(), streams: vec![], cells: vec![], routers: vec![], desc: vec![] };
            }
            if na != 0 || nb != 0 {
                failures += 1;
                println!("LEAK seed {} delay {}: nodes left top-level {} handler {}", seed, delay, na, nb);
            }
        }
    }
    println!("fuzz failures: {} (reorders only: {})", failures, reorders);
    assert_eq!(failures, 0);
}


fn run_k(seed: u64, nops: usize, delay: Option<usize>, ops_mask: u64, k: usize, premask: u64) -> (Vec<Vec<i32>>, usize) {
    let ctx = SodiumCtx::new();
    let log: Log = Arc::new(Mutex::new(Vec::new()));
    let s1: StreamSink<i32> = ctx.new_stream_sink();
    let s2: StreamSink<i32> = ctx.new_stream_sink();
    let trig: StreamSink<i32> = ctx.new_stream_sink();
    let mut base_s = vec![s1.stream(), s2.stream()];
    for i in 0..5 {
        let p = base_s[base_s.len() - 1 - (i % 2)].clone();
        base_s.push(p.map(|x: &i32| w(*x + 1)));
    }
    base_s.push(base_s[3].merge(&base_s[4], |a: &i32, b: &i32| w(*a + *b)));
    let base_c = vec![base_s[2].hold(0), base_s[1].hold(5), base_s[5].hold(1)];
    let mut env0 = Env { ctx: ctx.clone(), streams: base_s, cells: base_c, routers: vec![], desc: vec![] };
    // pre-existing stateful network, built before anything fires
    build(&mut env0, seed ^ 0xABCDEF, 8, premask);
    let env = Arc::new(Mutex::new(env0));
    let listeners: Arc<Mutex<Vec<Listener>>> = Arc::new(Mutex::new(Vec::new()));
    let nbase_s = env.lock().unwrap().streams.len();
    let nbase_c = env.lock().unwrap().cells.len();
    let do_build = {
        let (env, log, listeners) = (env.clone(), log.clone(), listeners.clone());
        move || {
            let mut env = env.lock().unwrap();
            build(&mut env, seed, nops, ops_mask);
            for (i, s) in env.streams.iter().enumerate().skip(nbase_s) {
                let log = log.clone();
                listeners.lock().unwrap().push(s.listen(move |x: &i32| log.lock().unwrap().push((i, *x))));
            }
            for (i, c) in env.cells.iter().enumerate().skip(nbase_c) {
                let log = log.clone();
                listeners.lock().unwrap().push(c.listen(move |x: &i32| log.lock().unwrap().push((1000 + i, *x))));
            }
        }
    };
    let do_build = Arc::new(Mutex::new(do_build));
    let mut tl = None;
    if let Some(d) = delay {
        let mut t = trig.stream();
        for _ in 0..d { t = t.map(|x: &i32| *x); }
        let cnt = Arc::new(Mutex::new(0usize));
        let do_build = do_build.clone();
        tl = Some(t.listen(move |_: &i32| {
            let mut c = cnt.lock().unwrap();
            if *c == k { (do_build.lock().unwrap())(); }
            *c += 1;
        }));
    }
    let sends = [(3, 4), (5, 6), (7, 8), (9, 10), (11, 12)];
    for (i, (a, b)) in sends.iter().enumerate() {
        ctx.transaction(|| {
            if delay.is_none() && i == k { (do_build.lock().unwrap())(); }
            if i % 2 == 0 { s1.send(*a); s2.send(*b); } else if i % 3 == 0 { s1.send(*a); } else { s2.send(*b); s1.send(*a); }
            trig.send(0);
        });
    }
    let mut per: Vec<Vec<i32>> = vec![vec![]; 1100];
    for (i, v) in log.lock().unwrap().iter() { per[*i].push(*v); }
    if std::env::var("SHOW").is_ok() && delay.is_none() { for d in env.lock().unwrap().desc.iter() { println!("      {}", d); } }
    for l in listeners.lock().unwrap().drain(..) { l.unlisten(); }
    if let Some(l) = tl { l.unlisten(); }
    { let mut e = env.lock().unwrap(); e.streams.clear(); e.cells.clear(); e.routers.clear(); }
    drop(s1); drop(s2); drop(trig);
    ctx.impl_.collect_cycles();
    (per, ctx.impl_.node_count())
}

#[test]
fn fuzz_k() {
    let mask: u64 = std::env::var("OPS_MASK").ok().and_then(|s| u64::from_str_radix(&s, 16).ok()).unwrap_or(0xFFFFF);
    let premask: u64 = std::env::var("PRE_MASK").ok().and_then(|s| u64::from_str_radix(&s, 16).ok()).unwrap_or(0xFFFFF);
    let nseeds: u64 = std::env::var("NSEEDS").ok().and_then(|s| s.parse().ok()).unwrap_or(200);
    let nops: usize = std::env::var("NOPS").ok().and_then(|s| s.parse().ok()).unwrap_or(6);
    let mut failures = 0;
    let mut reorders = 0;
    let first: u64 = std::env::var("FIRST").ok().and_then(|s| s.parse().ok()).unwrap_or(1);
    for seed in first..first + nseeds {
        for k in [1usize, 2, 3] {
        for delay in [0usize, 2, 4] {
            let res = Arc::new(Mutex::new(None));
            let res2 = res.clone();
            let r = watchdog(format!("seed {} delay {} k {}", seed, delay, k), move || {
                let a = run_k(seed, nops, None, mask, k, premask);
                let b = run_k(seed, nops, Some(delay), mask, k, premask);
                *res2.lock().unwrap() = Some((a, b));
            });
            if let Err(e) = r { println!("{}", e); failures += 1; continue; }
            let ((a, na), (b, nb)) = res.lock().unwrap().take().unwrap();
            let same_multiset = a.iter().zip(b.iter()).all(|(x, y)| { let (mut x, mut y) = (x.clone(), y.clone()); x.sort(); y.sort(); x == y });
            if a != b && same_multiset { reorders += 1; }
            else if a != b {
                failures += 1;
                println!("MISMATCH seed {} delay {} k {}", seed, delay, k);
                for i in 0..a.len() { if a[i] != b[i] { println!("   out {}: top-level {:?}  handler {:?}", i, a[i], b[i]); } }
            }
            if na != 0 || nb != 0 { failures += 1; println!("LEAK seed {} delay {} k {}: nodes left top-level {} handler {}", seed, delay, k, na, nb); }
        }}
    }
    println!("fuzz_k failures: {} (reorders only: {})", failures, reorders);
    assert_eq!(failures, 0);
}


struct Chaos {
    env: Env,
    listeners: Vec<Listener>,
    rng: Rng,
    log: Log,
    s3: StreamSink<i32>,
    txns: Vec<Transaction>,
    mask: u64,
    calls: usize,
}

fn chaos_step(ch: &Arc<Mutex<Chaos>>, in_post: bool) {
    let mut guard = ch.lock().unwrap();
    let c = &mut *guard;
    c.calls += 1;
    let nact = 1 + c.rng.below(4);
    for _ in 0..nact {
        let act = c.rng.below(10);
        match act {
            0 | 1 => {
                let seed = c.rng.next();
                let mask = c.mask;
                build(&mut c.env, seed, 1 + (seed % 3) as usize, mask);
            }
            2 | 3 => {
                let log = c.log.clone();
                let weak = c.rng.below(2) == 0;
                if c.rng.below(2) == 0 {
                    let i = c.rng.below(c.env.streams.len());
                    let st = c.env.streams[i].clone();
                    let k = move |x: &i32| log.lock().unwrap().push((i, *x));
                    c.listeners.push(if weak { st.listen_weak(k) } else { st.listen(k) });
                } else {
                    let i = c.rng.below(c.env.cells.len());
                    let ce = c.env.cells[i].clone();
                    let k = move |x: &i32| log.lock().unwrap().push((1000 + i, *x));
                    c.listeners.push(if weak { ce.listen_weak(k) } else { ce.listen(k) });
                }
            }
            4 => {
                if !c.listeners.is_empty() {
                    let i = c.rng.below(c.listeners.len());
                    let l = c.listeners.swap_remove(i);
                    l.unlisten();
                }
            }
            5 => {
                // drop some handles (not the base ones)
                if c.env.streams.len() > 12 { let i = 8 + c.rng.below(c.env.streams.len() - 8); c.env.streams.swap_remove(i); }
                if c.env.cells.len() > 6 { let i = 3 + c.rng.below(c.env.cells.len() - 3); c.env.cells.swap_remove(i); }
                if c.env.routers.len() > 1 { let i = c.rng.below(c.env.routers.len()); c.env.routers.swap_remove(i); }
            }
            6 => {
                if !in_post {
                    let ch2 = ch.clone();
                    let ctx = c.env.ctx.clone();
                    let v = c.rng.below(20) as i32;
                    let kind = c.rng.below(3);
                    let s3 = c.s3.clone();
                    ctx.post(move || {
                        if kind == 0 { s3.send(v); } else if kind == 1 { chaos_step(&ch2, true); } else { chaos_step(&ch2, true); s3.send(v); }
                    });
                }
            }
            7 => {
                if c.rng.below(2) == 0 { let t = c.env.ctx.new_transaction(); c.txns.push(t); }
                else if let Some(t) = c.txns.pop() { if c.rng.below(2) == 0 { t.close(); } drop(t); }
            }
            8 => {
                let i = c.rng.below(c.env.cells.len());
                let v = c.env.cells[i].sample();
                c.log.lock().unwrap().push((2000 + i, v));
            }
            _ => {
                // weak listener dropped at once
                let i = c.rng.below(c.env.streams.len());
                let log = c.log.clone();
                let _ = c.env.streams[i].listen_weak(move |x: &i32| log.lock().unwrap().push((3000 + i, *x)));
            }
        }
    }
    // transactions opened in this step are closed before it returns
    for t in c.txns.drain(..) { drop(t); }
}

fn run_chaos(seed: u64, mask: u64) -> Result<(), String> {
    let ctx = SodiumCtx::new();
    let log: Log = Arc::new(Mutex::new(Vec::new()));
    let s1: StreamSink<i32> = ctx.new_stream_sink();
    let s2: StreamSink<i32> = ctx.new_stream_sink();
    let s3: StreamSink<i32> = ctx.new_stream_sink();
    let trig: StreamSink<i32> = ctx.new_stream_sink();
    let mut base_s = vec![s1.stream(), s2.stream(), s3.stream()];
    for i in 0..5 {
        let p = base_s[base_s.len() - 1 - (i % 3)].clone();
        base_s.push(p.map(|x: &i32| w(*x + 1)));
    }
    let base_c = vec![base_s[3].hold(0), base_s[1].hold(5), base_s[5].hold(1)];
    let mut env0 = Env { ctx: ctx.clone(), streams: base_s, cells: base_c, routers: vec![], desc: vec![] };
    build(&mut env0, seed ^ 0xABCDEF, 6, mask);
    let ch = Arc::new(Mutex::new(Chaos { env: env0, listeners: vec![], rng: Rng(seed.wrapping_mul(77) | 1), log: log.clone(), s3: s3.clone(), txns: vec![], mask, calls: 0 }));
    let mut tls = vec![];
    let mut t = trig.stream();
    for d in 0..5 {
        let ch2 = ch.clone();
        if d % 2 == 0 {
            tls.push(t.listen(move |_: &i32| chaos_step(&ch2, false)));
        } else {
            let t2 = t.map(move |x: &i32| { chaos_step(&ch2, false); *x });
            tls.push(t2.listen(|_: &i32| {}));
        }
        t = t.map(|x: &i32| *x);
    }
    let mut rng = Rng(seed | 1);
    for i in 0..12 {
        ctx.transaction(|| {
            let k = rng.below(4);
            if k != 0 { s1.send(i * 2 + 1); }
            if k != 1 { s2.send(i * 2 + 2); }
            if rng.below(3) != 0 { trig.send(0); }
        });
    }
    if std::env::var("STATS").is_ok() { let c = ch.lock().unwrap(); println!("seed {} calls {} streams {} cells {} routers {} listeners {} log {} nodes {}", seed, c.calls, c.env.streams.len(), c.env.cells.len(), c.env.routers.len(), c.listeners.len(), log.lock().unwrap().len(), ctx.impl_.node_count()); }
    // nothing pending: attach listeners everywhere, run an empty transaction
    let before = log.lock().unwrap().len();
    {
        let c = ch.lock().unwrap();
        let mut ls = vec![];
        for (i, st) in c.env.streams.iter().enumerate() {
            let log = log.clone();
            ls.push(st.listen(move |x: &i32| log.lock().unwrap().push((5000 + i, *x))));
        }
        ctx.transaction(|| {});
        for l in ls { l.unlisten(); }
    }
    let after = log.lock().unwrap().len();
    if before != after { return Err(format!("events delivered in an empty transaction: {:?}", &log.lock().unwrap()[before..])); }
    // cleanup & leak check
    for l in tls { l.unlisten(); }
    {
        let mut c = ch.lock().unwrap();
        for l in c.listeners.drain(..) { l.unlisten(); }
        c.env.streams.clear(); c.env.cells.clear(); c.env.routers.clear();
    }
    drop(t);
    drop(ch);
    drop(s1); drop(s2); drop(s3); drop(trig);
    ctx.impl_.collect_cycles();
    let n = ctx.impl_.node_count();
    if n != 0 { return Err(format!("leak: {} nodes left", n)); }
    Ok(())
}

#[test]
fn fuzz_chaos() {
    let mask: u64 = std::env::var("OPS_MASK").ok().and_then(|s| u64::from_str_radix(&s, 16).ok()).unwrap_or(0x1FFFFF);
    let nseeds: u64 = std::env::var("NSEEDS").ok().and_then(|s| s.parse().ok()).unwrap_or(200);
    let first: u64 = std::env::var("FIRST").ok().and_then(|s| s.parse().ok()).unwrap_or(1);
    let mut failures = 0;
    for seed in first..first + nseeds {
        let res = Arc::new(Mutex::new(None));
        let res2 = res.clone();
        let r = watchdog(format!("chaos seed {}", seed), move || { *res2.lock().unwrap() = Some(run_chaos(seed, mask)); });
        match r {
            Err(e) => { println!("{}", e); failures += 1; }
            Ok(()) => { if let Some(Err(e)) = res.lock().unwrap().take() { println!("FAIL chaos seed {}: {}", seed, e); failures += 1; } }
        }
    }
    println!("fuzz_chaos failures: {}", failures);
    assert_eq!(failures, 0);
}
