#![allow(unused)]
use sodium_rust::*;
use std::sync::{Arc, Mutex};
use std::time::Duration;

fn watchdog<F: FnOnce() + Send + 'static>(name: &str, f: F) {
    let (tx, rx) = std::sync::mpsc::channel();
    let h = std::thread::Builder::new()
        .stack_size(64 * 1024 * 1024)
        .spawn(move || {
            f();
            let _ = tx.send(());
        })
        .unwrap();
    match rx.recv_timeout(Duration::from_secs(20)) {
        Ok(()) => {
            h.join().unwrap();
        }
        Err(std::sync::mpsc::RecvTimeoutError::Disconnected) => {
            // panicked
            let r = h.join();
            if let Err(e) = r {
                std::panic::resume_unwind(e);
            }
        }
        Err(std::sync::mpsc::RecvTimeoutError::Timeout) => {
            panic!("HANG in {}", name);
        }
    }
}

type Log<T> = Arc<Mutex<Vec<T>>>;
fn log<T>() -> Log<T> {
    Arc::new(Mutex::new(Vec::new()))
}
fn rec<T: Clone + Send + 'static>(l: &Log<T>) -> impl FnMut(&T) + Send + Sync + 'static {
    let l = l.clone();
    move |a: &T| l.lock().unwrap().push(a.clone())
}
fn freed(ctx: &SodiumCtx) -> usize {
    ctx.impl_.collect_cycles();
    ctx.impl_.node_count()
}

// H1: switch_s built by a handler after the cell of streams already updated in this transaction
#[test]
fn h01_switch_s_built_by_handler_after_outer_update() {
    watchdog("h01", || {
        let ctx = SodiumCtx::new();
        let out = log::<i32>();
        {
            let s0: StreamSink<i32> = ctx.new_stream_sink();
            let s1: StreamSink<i32> = ctx.new_stream_sink();
            let sel: StreamSink<Stream<i32>> = ctx.new_stream_sink();
            let csa = sel.stream().hold(s0.stream());
            let trig: StreamSink<()> = ctx.new_stream_sink();
            let keep: Arc<Mutex<Vec<Listener>>> = Arc::new(Mutex::new(Vec::new()));
            let l0;
            {
                let csa = csa.clone();
                let out = out.clone();
                let keep = keep.clone();
                l0 = trig.stream().listen(move |_: &()| {
                    let sw = Cell::switch_s(&csa);
                    keep.lock().unwrap().push(sw.listen(rec(&out)));
                });
            }
            let s1s = s1.stream();
            ctx.transaction(|| {
                sel.send(s1s.clone());
                trig.send(());
            });
            s0.send(100);
            s1.send(1);
            l0.unlisten();
            for l in keep.lock().unwrap().iter() {
                l.unlisten();
            }
            keep.lock().unwrap().clear();
        }
        assert_eq!(*out.lock().unwrap(), vec![1]);
        assert_eq!(freed(&ctx), 0);
    });
}

// H2: switch_c built by a handler after the cell of cells already updated in this transaction
#[test]
fn h02_switch_c_built_by_handler_after_outer_update() {
    watchdog("h02", || {
        let ctx = SodiumCtx::new();
        let out = log::<i32>();
        {
            let c0: CellSink<i32> = ctx.new_cell_sink(0);
            let c1: CellSink<i32> = ctx.new_cell_sink(10);
            let sel: StreamSink<Cell<i32>> = ctx.new_stream_sink();
            let cca = sel.stream().hold(c0.cell());
            let trig: StreamSink<()> = ctx.new_stream_sink();
            let keep: Arc<Mutex<Vec<Listener>>> = Arc::new(Mutex::new(Vec::new()));
            let l0;
            {
                let cca = cca.clone();
                let out = out.clone();
                let keep = keep.clone();
                l0 = trig.stream().listen(move |_: &()| {
                    let sw = Cell::switch_c(&cca);
                    keep.lock().unwrap().push(sw.listen(rec(&out)));
                });
            }
            let c1c = c1.cell();
            ctx.transaction(|| {
                sel.send(c1c.clone());
                trig.send(());
            });
            c0.send(100);
            c1.send(11);
            l0.unlisten();
            for l in keep.lock().unwrap().iter() {
                l.unlisten();
            }
            keep.lock().unwrap().clear();
        }
        println!("h02 out {:?}", out.lock().unwrap());
        assert_eq!(*out.lock().unwrap(), vec![10, 11]);
        assert_eq!(freed(&ctx), 0);
    });
}

// H9: router built by a handler after its input already fired in this transaction
#[test]
fn h09_router_built_by_handler() {
    watchdog("h09", || {
        let ctx = SodiumCtx::new();
        let out = log::<i32>();
        {
            let inp: StreamSink<i32> = ctx.new_stream_sink();
            let keep: Arc<Mutex<Vec<Listener>>> = Arc::new(Mutex::new(Vec::new()));
            let l0;
            {
                let ins = inp.stream();
                let out = out.clone();
                let keep = keep.clone();
                let ctx2 = ctx.clone();
                l0 = inp.stream().listen(move |_: &i32| {
                    if keep.lock().unwrap().is_empty() {
                        let r = ctx2.new_router(&ins, |a: &i32| vec![a % 2]);
                        let s = r.filter_matches(&1);
                        keep.lock().unwrap().push(s.listen(rec(&out)));
                    }
                });
            }
            inp.send(1);
            inp.send(3);
            inp.send(4);
            l0.unlisten();
            for l in keep.lock().unwrap().iter() {
                l.unlisten();
            }
            keep.lock().unwrap().clear();
        }
        assert_eq!(*out.lock().unwrap(), vec![1, 3]);
        assert_eq!(freed(&ctx), 0);
    });
}

// H15: phantom edge: hold node declares the stream twice, one for CellData's copy
#[test]
fn h15_drop_cell_then_use_stream() {
    watchdog("h15", || {
        let ctx = SodiumCtx::new();
        let out = log::<i32>();
        let ss: StreamSink<i32> = ctx.new_stream_sink();
        let c = ss.stream().hold(0);
        drop(c);
        ctx.impl_.collect_cycles();
        println!("nodes {}", ctx.impl_.node_count());
        let l = ss.stream().listen(rec(&out));
        ss.send(1);
        l.unlisten();
        assert_eq!(*out.lock().unwrap(), vec![1]);
    });
}

// H20: a switch_c built by a mapping function, force-updated by an outer switch_c in the same
// propagation round (before its pre_eot set-up ran), while its own selector fires
#[test]
fn h20_nested_switch_c_same_round() {
    watchdog("h20", || {
        let ctx = SodiumCtx::new();
        let out = log::<i32>();
        let trigger: StreamSink<i32> = ctx.new_stream_sink();
        let t = trigger.stream();
        let c0 = ctx.new_cell(0);
        let ctx2 = ctx.clone();
        let t2 = t.clone();
        let tm = t.map(|x: &i32| *x);
        let cca1 = tm
            .map(move |x: &i32| {
                let x = *x;
                let ctx3 = ctx2.clone();
                // a cell of cells whose updates stream fires in this very transaction
                let inner_sel = t2.map(move |y: &i32| ctx3.new_cell(*y + 100)).hold(ctx2.new_cell(x));
                Cell::switch_c(&inner_sel)
            })
            .hold(c0);
        let sw1 = Cell::switch_c(&cca1);
        let q = t.merge(&sw1.updates(), |a: &i32, b: &i32| a * 1000 + b);
        let l = q.listen(rec(&out));
        trigger.send(1);
        trigger.send(2);
        l.unlisten();
        println!("h20 out {:?}", out.lock().unwrap());
    });
}

fn h20_variant(with_q: bool, inner_fires: bool) -> Vec<i32> {
    let ctx = SodiumCtx::new();
    let out = log::<i32>();
    let trigger: StreamSink<i32> = ctx.new_stream_sink();
    let other: StreamSink<i32> = ctx.new_stream_sink();
    let t = trigger.stream();
    let c0 = ctx.new_cell(0);
    let ctx2 = ctx.clone();
    let t2 = if inner_fires { t.clone() } else { other.stream() };
    let tm = t.map(|x: &i32| *x);
    let cca1 = tm
        .map(move |x: &i32| {
            let x = *x;
            let ctx3 = ctx2.clone();
            let inner_sel = t2.map(move |y: &i32| ctx3.new_cell(*y + 100)).hold(ctx2.new_cell(x));
            Cell::switch_c(&inner_sel)
        })
        .hold(c0);
    let sw1 = Cell::switch_c(&cca1);
    let l = if with_q {
        let q = t.merge(&sw1.updates(), |a: &i32, b: &i32| a * 1000 + b);
        q.listen(rec(&out))
    } else {
        sw1.updates().listen(rec(&out))
    };
    trigger.send(1);
    other.send(5);
    trigger.send(2);
    l.unlisten();
    let r = out.lock().unwrap().clone();
    r
}

#[test]
fn h20_variants() {
    for (q, f) in [(false, false), (false, true), (true, false), (true, true)] {
        let r = std::panic::catch_unwind(|| h20_variant(q, f));
        println!("with_q={} inner_fires={} -> {:?}", q, f, r.map_err(|_| "PANIC"));
    }
}

fn h21_variant(with_q: bool) -> Vec<i32> {
    let ctx = SodiumCtx::new();
    let out = log::<i32>();
    let trigger: StreamSink<i32> = ctx.new_stream_sink();
    let t = trigger.stream();
    let c0 = ctx.new_cell(0);
    let ctx2 = ctx.clone();
    let t2 = t.clone();
    let tm = t.map(|x: &i32| *x);
    let cca1 = tm
        .map(move |x: &i32| {
            // a fresh switch_s over a constant cell holding t (which fires in this very transaction), held
            let sw = Cell::switch_s(&ctx2.new_cell(t2.map(|y: &i32| *y + 100)));
            sw.hold(7)
        })
        .hold(c0);
    let sw1 = Cell::switch_c(&cca1);
    let l = if with_q {
        let q = t.merge(&sw1.updates(), |a: &i32, b: &i32| a * 1000 + b);
        q.listen(rec(&out))
    } else {
        sw1.updates().listen(rec(&out))
    };
    trigger.send(1);
    trigger.send(2);
    l.unlisten();
    let r = out.lock().unwrap().clone();
    r
}

#[test]
fn h21_variants() {
    for q in [false, true] {
        let r = std::panic::catch_unwind(|| h21_variant(q));
        println!("with_q={} -> {:?}", q, r.map_err(|_| "PANIC"));
    }
}

// FINDING 2a (panic)
#[test]
fn f2a_fresh_switch_c_forced_before_setup_panics() {
    watchdog("f2a", || {
        let ctx = SodiumCtx::new();
        let out = log::<i32>();
        let t: StreamSink<i32> = ctx.new_stream_sink();
        let ts = t.stream();
        let tc: Stream<Cell<i32>> = { let ctx = ctx.clone(); ts.map(move |x: &i32| ctx.new_cell(*x + 100)) };
        let cca = {
            let ctx2 = ctx.clone();
            ts.map(move |_: &i32| Cell::switch_c(&tc.hold(ctx2.new_cell(7)))).hold(ctx.new_cell(0))
        };
        let sw = Cell::switch_c(&cca);
        let q = ts.merge(&sw.updates(), |a: &i32, b: &i32| a * 1000 + b);
        let l = q.listen(rec(&out));
        t.send(1);
        l.unlisten();
        assert_eq!(*out.lock().unwrap(), vec![1101]);
    });
}

// FINDING 2b (wrong value)
#[test]
fn f2b_fresh_switch_s_forced_before_setup_loses_event() {
    watchdog("f2b", || {
        let run = |with_merge: bool| {
            let ctx = SodiumCtx::new();
            let out = log::<i32>();
            let t: StreamSink<i32> = ctx.new_stream_sink();
            let ts = t.stream();
            let tplus = ts.map(|x: &i32| *x + 100);
            let cca = {
                let ctx2 = ctx.clone();
                ts.map(move |_: &i32| Cell::switch_s(&ctx2.new_cell(tplus.clone())).hold(7)).hold(ctx.new_cell(0))
            };
            let sw = Cell::switch_c(&cca);
            let l = if with_merge {
                ts.merge(&sw.updates(), |a: &i32, b: &i32| a * 1000 + b).listen(rec(&out))
            } else {
                sw.updates().listen(rec(&out))
            };
            t.send(1);
            t.send(2);
            l.unlisten();
            let r = out.lock().unwrap().clone();
            r
        };
        let a = run(false);
        let b = run(true);
        println!("f2b: alone {:?} merged {:?}", a, b);
        assert_eq!(a, vec![101, 102]);
        assert_eq!(b, vec![1101, 2102]);
    });
}

#[test]
fn h30_leak_switch_c_built_in_builder() {
    watchdog("h30", || {
        let ctx = SodiumCtx::new();
        {
            let a: StreamSink<i32> = ctx.new_stream_sink();
            let b: StreamSink<i32> = ctx.new_stream_sink();
            let c: CellSink<i32> = ctx.new_cell_sink(0);
            let keep: Arc<Mutex<Vec<Cell<i32>>>> = Arc::new(Mutex::new(vec![]));
            let pins: Arc<Mutex<Vec<Listener>>> = Arc::new(Mutex::new(vec![]));
            let bs = b.stream();
            let cc = c.cell();
            let (keep2, pins2) = (keep.clone(), pins.clone());
            let sel = a.stream().map(|x: &i32| *x).map(move |_: &i32| {
                let cc2 = cc.clone();
                let inner = bs.map(|x: &i32| *x).map(move |_: &i32| cc2.clone());
                let n = Cell::switch_c(&inner.hold(cc.clone()));
                pins2.lock().unwrap().push(n.listen(|_: &i32| {}));
                keep2.lock().unwrap().push(n);
                bs.clone()
            });
            let sw = Cell::switch_s(&sel.hold(b.stream()));
            let pin = sw.listen(|_: &i32| {});
            a.send(36);
            println!("nodes before teardown {}", ctx.impl_.node_count());
            pin.unlisten();
            for l in pins.lock().unwrap().iter() { l.unlisten(); }
            pins.lock().unwrap().clear();
            keep.lock().unwrap().clear();
        }
        let n = freed(&ctx);
        println!("nodes after teardown {}", n);
        assert_eq!(n, 0);
    });
}

#[test]
fn h31_nested_dynamic_switch_c() {
    watchdog("h31", || {
        let ctx = SodiumCtx::new();
        let t: StreamSink<i32> = ctx.new_stream_sink();
        let c: CellSink<i32> = ctx.new_cell_sink(0);
        let ts = t.stream();
        let cc = c.cell();
        let pins: Arc<Mutex<Vec<Listener>>> = Arc::new(Mutex::new(vec![]));
        let sel = {
            let (ts, cc, pins) = (ts.clone(), cc.clone(), pins.clone());
            ts.clone().map(|x: &i32| *x).map(move |_: &i32| {
                let cc2 = cc.clone();
                let sel2 = ts.map(|x: &i32| *x).map(move |_: &i32| cc2.clone());
                let n = Cell::switch_c(&sel2.hold(cc.clone()));
                pins.lock().unwrap().push(n.listen(|_: &i32| {}));
                n
            })
        };
        let sw = Cell::switch_c(&sel.hold(cc.clone()));
        let pin = sw.listen(|_: &i32| {});
        ctx.transaction(|| { c.send(10); t.send(17); });
        println!("h31 survived");
    });
}

// FINDING 2a', simpler: no merge needed, the switch's current inner cell updates in the same transaction
#[test]
fn f2c_switch_c_replacement_contains_switch_c() {
    watchdog("f2c", || {
        let ctx = SodiumCtx::new();
        let out = log::<i32>();
        let t: StreamSink<i32> = ctx.new_stream_sink();
        let ts = t.stream();
        let c0 = ts.hold(0);
        let tm = ts.map(|x: &i32| *x);
        let sel = {
            let (ts, c0) = (ts.clone(), c0.clone());
            tm.map(move |_: &i32| {
                let c0b = c0.clone();
                Cell::switch_c(&ts.map(move |_: &i32| c0b.clone()).hold(c0.clone()))
            })
        };
        let sw = Cell::switch_c(&sel.hold(c0.clone()));
        let l = sw.listen(rec(&out));
        t.send(1);
        l.unlisten();
        assert_eq!(*out.lock().unwrap(), vec![0, 1]);
    });
}

// FINDING 2b', simpler
#[test]
fn f2d_switch_c_replacement_contains_switch_s() {
    watchdog("f2d", || {
        let ctx = SodiumCtx::new();
        let out = log::<i32>();
        let t: StreamSink<i32> = ctx.new_stream_sink();
        let ts = t.stream();
        let c0 = ts.hold(0);
        let tm = ts.map(|x: &i32| *x);
        let sel = {
            let (ts, ctx) = (ts.clone(), ctx.clone());
            tm.map(move |_: &i32| Cell::switch_s(&ctx.new_cell(ts.map(|x: &i32| *x + 100))).hold(7))
        };
        let sw = Cell::switch_c(&sel.hold(c0.clone()));
        let l = sw.listen(rec(&out));
        t.send(1);
        l.unlisten();
        println!("f2d {:?}", out.lock().unwrap());
        assert_eq!(*out.lock().unwrap(), vec![0, 101]);
    });
}

// control for f2d: same program, but the initial inner cell does not update in that transaction
#[test]
fn f2d_control() {
    watchdog("f2dc", || {
        let ctx = SodiumCtx::new();
        let out = log::<i32>();
        let t: StreamSink<i32> = ctx.new_stream_sink();
        let ts = t.stream();
        let c0 = ctx.new_cell(0);
        let tm = ts.map(|x: &i32| *x);
        let sel = {
            let (ts, ctx) = (ts.clone(), ctx.clone());
            tm.map(move |_: &i32| Cell::switch_s(&ctx.new_cell(ts.map(|x: &i32| *x + 100))).hold(7))
        };
        let sw = Cell::switch_c(&sel.hold(c0.clone()));
        let l = sw.listen(rec(&out));
        t.send(1);
        l.unlisten();
        println!("f2d control {:?}", out.lock().unwrap());
        assert_eq!(*out.lock().unwrap(), vec![0, 101]);
    });
}

// HA: loop created+used by one handler, closed by a later handler of the same transaction
#[test]
fn f3_loop_closed_by_later_handler_loses_event() {
    watchdog("h40", || {
        let ctx = SodiumCtx::new();
        let out = log::<i32>();
        let t: StreamSink<i32> = ctx.new_stream_sink();
        let ts = t.stream();
        let x = ts.map(|v: &i32| *v + 10);
        let s = ts.map(|v: &i32| *v + 20);
        let t1 = ts.map(|v: &i32| *v);
        let t2 = t1.map(|v: &i32| *v).map(|v: &i32| *v); // runs in a later round than t1
        let slot: Arc<Mutex<Option<StreamLoop<i32>>>> = Arc::new(Mutex::new(None));
        let keep: Arc<Mutex<Vec<Listener>>> = Arc::new(Mutex::new(vec![]));
        let tr: Arc<Mutex<Option<Transaction>>> = Arc::new(Mutex::new(None));
        let l1 = {
            let (ctx, x, slot, keep, out) = (ctx.clone(), x.clone(), slot.clone(), keep.clone(), out.clone());
            t1.listen(move |_: &i32| {
                let lp: StreamLoop<i32> = ctx.new_stream_loop();
                let m = lp.stream().merge(&x, |a: &i32, b: &i32| a * 1000 + b);
                keep.lock().unwrap().push(m.listen(rec(&out)));
                *slot.lock().unwrap() = Some(lp);
            })
        };
        let l2 = {
            let (s, slot) = (s.clone(), slot.clone());
            t2.listen(move |_: &i32| {
                if let Some(lp) = slot.lock().unwrap().take() {
                    lp.loop_(&s);
                }
            })
        };
        t.send(1);
        println!("h40 {:?}", out.lock().unwrap());
        // expected: merge of s(21) and x(11) -> 21011
        assert_eq!(*out.lock().unwrap(), vec![21011]);
    });
}

#[test]
fn h50_build_after_send_in_explicit_transaction() {
    watchdog("h50", || {
        let ctx = SodiumCtx::new();
        let s: StreamSink<i32> = ctx.new_stream_sink();
        let o1 = log::<i32>();
        let o2 = log::<i32>();
        let o3 = log::<i32>();
        let o4 = log::<i32>();
        let ls = ctx.transaction(|| {
            s.send(1);
            let sw = Cell::switch_s(&ctx.new_cell(s.stream()));
            let swc = Cell::switch_c(&ctx.new_cell(s.stream().hold(0)));
            let r = ctx.new_router(&s.stream(), |x: &i32| vec![*x]);
            let acc = s.stream().accum(10, |a: &i32, b: &i32| a + b);
            vec![sw.listen(rec(&o1)), swc.listen(rec(&o2)), r.filter_matches(&1).listen(rec(&o3)), acc.listen(rec(&o4))]
        });
        println!("h50 {:?} {:?} {:?} {:?}", o1.lock().unwrap(), o2.lock().unwrap(), o3.lock().unwrap(), o4.lock().unwrap());
        assert_eq!(*o1.lock().unwrap(), vec![1]);
        assert_eq!(*o2.lock().unwrap(), vec![1]);
        assert_eq!(*o3.lock().unwrap(), vec![1]);
        assert_eq!(*o4.lock().unwrap(), vec![11]);
    });
}

// FINDING 1 (minimal): a router built by a handler / mapping function after its input fired
#[test]
fn f1_router_built_during_propagation_misses_event() {
    watchdog("f1", || {
        // reference: same construction at top level inside the transaction, after the send
        let reference = {
            let ctx = SodiumCtx::new();
            let out = log::<i32>();
            let inp: StreamSink<i32> = ctx.new_stream_sink();
            let l = ctx.transaction(|| {
                inp.send(1);
                let r = ctx.new_router(&inp.stream(), |a: &i32| vec![a % 2]);
                r.filter_matches(&1).listen(rec(&out))
            });
            inp.send(3);
            l.unlisten();
            let v = out.lock().unwrap().clone();
            v
        };
        // the same router built by a handler of that transaction
        let in_handler = {
            let ctx = SodiumCtx::new();
            let out = log::<i32>();
            let inp: StreamSink<i32> = ctx.new_stream_sink();
            let trig: StreamSink<()> = ctx.new_stream_sink();
            let keep: Arc<Mutex<Vec<Listener>>> = Arc::new(Mutex::new(Vec::new()));
            let l0 = {
                let (ctx, ins, out, keep) = (ctx.clone(), inp.stream(), out.clone(), keep.clone());
                trig.stream().listen(move |_: &()| {
                    let r = ctx.new_router(&ins, |a: &i32| vec![a % 2]);
                    keep.lock().unwrap().push(r.filter_matches(&1).listen(rec(&out)));
                })
            };
            ctx.transaction(|| {
                inp.send(1);
                trig.send(());
            });
            l0.unlisten();
            inp.send(3);
            for l in keep.lock().unwrap().iter() {
                l.unlisten();
            }
            let v = out.lock().unwrap().clone();
            v
        };
        println!("f1 reference {:?} in_handler {:?}", reference, in_handler);
        assert_eq!(reference, vec![1, 3]);
        assert_eq!(in_handler, vec![1, 3]);
    });
}
