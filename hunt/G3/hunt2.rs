#![allow(unused)]
use sodium_rust::*;
use std::sync::{Arc, Mutex};

type Log<T> = Arc<Mutex<Vec<T>>>;
fn log<T>() -> Log<T> {
    Arc::new(Mutex::new(Vec::new()))
}
fn rec<T: Clone + Send + 'static>(l: &Log<T>) -> impl FnMut(&T) + Send + Sync + 'static {
    let l = l.clone();
    move |a: &T| l.lock().unwrap().push(a.clone())
}

// Build primitive `which` on src (and aux cell c = src2.hold) inside a handler of trig,
// in a transaction in which src (and src2) already fired. Return what the output logged.
fn run(which: u32, in_handler: bool) -> Vec<i32> {
    let ctx = SodiumCtx::new();
    let out = log::<i32>();
    let src: StreamSink<i32> = ctx.new_stream_sink();
    let src2: StreamSink<i32> = ctx.new_stream_sink();
    let c = src2.stream().hold(100);
    let router = Arc::new(ctx.new_router(&src.stream(), |x: &i32| vec![x % 2]));
    let trig: StreamSink<()> = ctx.new_stream_sink();
    let keep: Arc<Mutex<Vec<Listener>>> = Arc::new(Mutex::new(Vec::new()));
    let build = {
        let ctx = ctx.clone();
        let s = src.stream();
        let s2 = src2.stream();
        let c = c.clone();
        let out = out.clone();
        let keep = keep.clone();
        let router = router.clone();
        move || {
            let o: Stream<i32> = match which {
                0 => s.map(|x: &i32| x + 1000),
                1 => s.filter(|x: &i32| *x > 0),
                2 => s.merge(&s2, |a: &i32, b: &i32| a * 1000 + b),
                3 => s.hold(0).updates(),
                4 => s.hold(7).value(), // expect [7?] then new... operational
                5 => s.snapshot(&c, |a: &i32, b: &i32| a * 1000 + b),
                6 => s.once(),
                7 => Operational::defer(&s),
                8 => s.map(|x: &i32| vec![*x, *x + 1]).split(),
                9 => s.accum(0, |a: &i32, st: &i32| a + st).updates(),
                10 => s.collect(0, |a: &i32, st: &i32| (a + st, st + 1)),
                11 => s.gate(&c.map(|x: &i32| *x > 0)),
                12 => Cell::switch_s(&ctx.new_cell(s.clone())),
                13 => Cell::switch_c(&ctx.new_cell(s.hold(0))).updates(),
                14 => ctx.new_router(&s, |x: &i32| vec![x % 2]).filter_matches(&1),
                15 => router.filter_matches(&1),
                16 => ctx.transaction(|| {
                    let l: StreamLoop<i32> = ctx.new_stream_loop();
                    let o = l.stream().map(|x: &i32| x + 1);
                    l.loop_(&s);
                    o
                }),
                17 => ctx.transaction(|| {
                    let l: CellLoop<i32> = ctx.new_cell_loop();
                    let o = s.snapshot(&l.cell(), |a: &i32, b: &i32| a + b);
                    l.loop_(&o.hold(50));
                    o
                }),
                18 => c.map(|x: &i32| x + 1).updates(), // c updated in this transaction too (src2 fired)
                19 => c.lift2(&s.hold(0), |a: &i32, b: &i32| a * 1000 + b).updates(),
                20 => c.value(),
                21 => Cell::switch_s(&s2.map({ let s = s.clone(); move |_: &i32| s.clone() }).hold(ctx.new_stream())), // switches to s at end of T: no event in T
                22 => s.or_else(&s2),
                23 => s2.snapshot1(&s.hold(5)),
                24 => s.map(|x: &i32| x + 1).map(|x: &i32| x + 1).filter(|_: &i32| true),
                25 => Operational::updates(&s.hold(1).lift2(&s2.hold(2), |a: &i32, b: &i32| a * 1000 + b)),
                26 => Operational::value(&s.hold(1).lift2(&s2.hold(2), |a: &i32, b: &i32| a * 1000 + b)),
                27 => Cell::switch_c(&s2.map({ let c2 = s.hold(3); move |_: &i32| c2.clone() }).hold(ctx.new_cell(9))).updates(),
                _ => panic!(),
            };
            keep.lock().unwrap().push(o.listen(rec(&out)));
        }
    };
    if in_handler {
        let mut build = Some(build);
        let l0 = trig.stream().listen(move |_: &()| {
            if let Some(b) = build.take() {
                b();
            }
        });
        ctx.transaction(|| {
            src.send(1);
            src2.send(2);
            trig.send(());
        });
        l0.unlisten();
    } else {
        build();
        ctx.transaction(|| {
            src.send(1);
            src2.send(2);
            trig.send(());
        });
    }
    let first = out.lock().unwrap().len();
    ctx.transaction(|| {
        src.send(3);
        src2.send(4);
    });
    let mut r = out.lock().unwrap().clone();
    r.insert(first, -1); // separator
    for l in keep.lock().unwrap().iter() {
        l.unlisten();
    }
    keep.lock().unwrap().clear();
    r
}

#[test]
fn table() {
    for which in 0..28 {
        let a = run(which, false);
        let b = run(which, true);
        println!("{:2} {} top={:?} handler={:?}", which, if a == b { "same" } else { "DIFF" }, a, b);
    }
}

fn growth<F: FnMut(usize)>(name: &str, ctx: &SodiumCtx, mut step: F) {
    let mut counts = vec![];
    for i in 0..300 {
        step(i);
        if i == 49 || i == 99 || i == 199 || i == 299 {
            counts.push(ctx.impl_.node_count());
        }
    }
    let grew = counts[3] > counts[1] + 5;
    println!("{:32} {:?} {}", name, counts, if grew { "GROWS" } else { "" });
}

#[test]
fn growth_patterns() {
    // P1 switch_s between two fixed streams
    {
        let ctx = SodiumCtx::new();
        let a: StreamSink<i32> = ctx.new_stream_sink();
        let b: StreamSink<i32> = ctx.new_stream_sink();
        let sel: StreamSink<Stream<i32>> = ctx.new_stream_sink();
        let sw = Cell::switch_s(&sel.stream().hold(a.stream()));
        let l = sw.listen(|_: &i32| {});
        let (sa, sb) = (a.stream(), b.stream());
        growth("P1 switch_s fixed", &ctx, |i| {
            sel.send(if i % 2 == 0 { sb.clone() } else { sa.clone() });
            a.send(1);
            b.send(2);
        });
    }
    // P2 switch_s to fresh streams built by a map function
    {
        let ctx = SodiumCtx::new();
        let a: StreamSink<i32> = ctx.new_stream_sink();
        let tick: StreamSink<i32> = ctx.new_stream_sink();
        let sa = a.stream();
        let fresh = tick.stream().map(move |k: &i32| { let k = *k; sa.map(move |x: &i32| x + k) });
        let sw = Cell::switch_s(&fresh.hold(a.stream()));
        let l = sw.listen(|_: &i32| {});
        growth("P2 switch_s fresh", &ctx, |i| {
            tick.send(i as i32);
            a.send(1);
        });
    }
    // P2c switch_c to fresh cells built by a map function
    {
        let ctx = SodiumCtx::new();
        let a: StreamSink<i32> = ctx.new_stream_sink();
        let tick: StreamSink<i32> = ctx.new_stream_sink();
        let sa = a.stream();
        let fresh = tick.stream().map(move |k: &i32| { let k = *k; sa.map(move |x: &i32| x + k).hold(0) });
        let sw = Cell::switch_c(&fresh.hold(ctx.new_cell(0)));
        let l = sw.listen(|_: &i32| {});
        growth("P2c switch_c fresh", &ctx, |i| {
            tick.send(i as i32);
            a.send(1);
        });
    }
    // P3 handler builds map+listen, unlistening the previous one
    {
        let ctx = SodiumCtx::new();
        let a: StreamSink<i32> = ctx.new_stream_sink();
        let tick: StreamSink<i32> = ctx.new_stream_sink();
        let sa = a.stream();
        let prev: Arc<Mutex<Option<Listener>>> = Arc::new(Mutex::new(None));
        let l = tick.stream().listen(move |_: &i32| {
            let nl = sa.map(|x: &i32| x + 1).listen(|_: &i32| {});
            if let Some(p) = prev.lock().unwrap().replace(nl) {
                p.unlisten();
            }
        });
        growth("P3 handler map+listen", &ctx, |i| {
            ctx.transaction(|| { a.send(1); tick.send(i as i32); });
        });
    }
    // P4 repeated filter_matches + drop
    {
        let ctx = SodiumCtx::new();
        let a: StreamSink<i32> = ctx.new_stream_sink();
        let r = ctx.new_router(&a.stream(), |x: &i32| vec![x % 5]);
        growth("P4 filter_matches/drop", &ctx, |i| {
            let s = r.filter_matches(&((i % 5) as i32));
            let l = s.listen(|_: &i32| {});
            a.send(i as i32);
            l.unlisten();
        });
    }
    // P4b filter_matches from handler, listener replaced
    {
        let ctx = SodiumCtx::new();
        let a: StreamSink<i32> = ctx.new_stream_sink();
        let r = Arc::new(ctx.new_router(&a.stream(), |x: &i32| vec![x % 5]));
        let prev: Arc<Mutex<Option<Listener>>> = Arc::new(Mutex::new(None));
        let t = a.stream().map(|x: &i32| *x);
        let r2 = r.clone();
        let l = t.listen(move |x: &i32| {
            let nl = r2.filter_matches(&(x % 5)).listen(|_: &i32| {});
            if let Some(p) = prev.lock().unwrap().replace(nl) {
                p.unlisten();
            }
        });
        growth("P4b filter_matches in handler", &ctx, |i| {
            a.send(i as i32);
        });
    }
    // P5 repeated once
    {
        let ctx = SodiumCtx::new();
        let a: StreamSink<i32> = ctx.new_stream_sink();
        growth("P5 once", &ctx, |i| {
            let l = a.stream().once().listen(|_: &i32| {});
            a.send(1);
            l.unlisten();
        });
    }
    // P5b once without unlisten but listener weak & dropped
    {
        let ctx = SodiumCtx::new();
        let a: StreamSink<i32> = ctx.new_stream_sink();
        growth("P5b once weak", &ctx, |i| {
            let l = a.stream().once().listen_weak(|_: &i32| {});
            a.send(1);
        });
    }
    // P6 repeated cell listen/unlisten
    {
        let ctx = SodiumCtx::new();
        let a: CellSink<i32> = ctx.new_cell_sink(0);
        let c = a.cell();
        growth("P6 cell listen", &ctx, |i| {
            let l = c.listen(|_: &i32| {});
            a.send(1);
            l.unlisten();
        });
    }
    // P7 repeated defer / split
    {
        let ctx = SodiumCtx::new();
        let a: StreamSink<i32> = ctx.new_stream_sink();
        growth("P7 defer/split", &ctx, |i| {
            let d = Operational::defer(&a.stream());
            let sp = a.stream().map(|x: &i32| vec![*x, *x]).split();
            let l = d.listen(|_: &i32| {});
            let l2 = sp.listen(|_: &i32| {});
            a.send(1);
            l.unlisten();
            l2.unlisten();
        });
    }
    // P8 accum/collect built and dropped
    {
        let ctx = SodiumCtx::new();
        let a: StreamSink<i32> = ctx.new_stream_sink();
        growth("P8 accum/collect", &ctx, |i| {
            let acc = a.stream().accum(0, |x: &i32, s: &i32| x + s);
            let col = a.stream().collect(0, |x: &i32, s: &i32| (x + s, s + 1));
            let l = acc.listen(|_: &i32| {});
            let l2 = col.listen(|_: &i32| {});
            a.send(1);
            l.unlisten();
            l2.unlisten();
        });
    }
    // P9 handler builds switch_s each time
    {
        let ctx = SodiumCtx::new();
        let a: StreamSink<i32> = ctx.new_stream_sink();
        let tick: StreamSink<i32> = ctx.new_stream_sink();
        let sa = a.stream();
        let ctx2 = ctx.clone();
        let prev: Arc<Mutex<Option<Listener>>> = Arc::new(Mutex::new(None));
        let l = tick.stream().listen(move |_: &i32| {
            let sw = Cell::switch_s(&ctx2.new_cell(sa.clone()));
            let swc = Cell::switch_c(&ctx2.new_cell(sw.hold(0)));
            let nl = swc.listen(|_: &i32| {});
            if let Some(p) = prev.lock().unwrap().replace(nl) {
                p.unlisten();
            }
        });
        growth("P9 handler builds switches", &ctx, |i| {
            ctx.transaction(|| { a.send(1); tick.send(i as i32); });
        });
    }
    // P10 lift/map cells rebuilt in handler
    {
        let ctx = SodiumCtx::new();
        let a: CellSink<i32> = ctx.new_cell_sink(0);
        let b: CellSink<i32> = ctx.new_cell_sink(0);
        let tick: StreamSink<i32> = ctx.new_stream_sink();
        let (ca, cb) = (a.cell(), b.cell());
        let prev: Arc<Mutex<Option<Listener>>> = Arc::new(Mutex::new(None));
        let l = tick.stream().listen(move |_: &i32| {
            let nl = ca.lift2(&cb, |x: &i32, y: &i32| x + y).map(|x: &i32| x + 1).listen(|_: &i32| {});
            if let Some(p) = prev.lock().unwrap().replace(nl) {
                p.unlisten();
            }
        });
        growth("P10 handler lift", &ctx, |i| {
            ctx.transaction(|| { a.send(1); tick.send(i as i32); b.send(2); });
        });
    }
}

#[test]
fn growth_patterns2() {
    // Q1: replacement contains a switch_s + hold (finding 2d shape)
    {
        let ctx = SodiumCtx::new();
        let t: StreamSink<i32> = ctx.new_stream_sink();
        let ts = t.stream();
        let c0 = ts.hold(0);
        let tm = ts.map(|x: &i32| *x);
        let sel = {
            let (ts, ctx) = (ts.clone(), ctx.clone());
            tm.map(move |_: &i32| Cell::switch_s(&ctx.new_cell(ts.map(|x: &i32| *x + 100))).hold(7))
        };
        let sw = Cell::switch_c(&sel.hold(c0.clone()));
        let l = sw.listen(|_: &i32| {});
        growth("Q1 repl with switch_s", &ctx, |i| t.send(i as i32));
    }
    // Q2: replacement contains a switch_c over a constant cell of fresh cell + lift + accum
    {
        let ctx = SodiumCtx::new();
        let t: StreamSink<i32> = ctx.new_stream_sink();
        let u: StreamSink<i32> = ctx.new_stream_sink();
        let ts = t.stream();
        let us = u.stream();
        let sel = {
            let (us, ctx) = (us.clone(), ctx.clone());
            ts.map(move |_: &i32| {
                let a = us.accum(0, |x: &i32, s: &i32| x + s);
                let b = us.hold(0).lift2(&a, |x: &i32, y: &i32| x + y);
                Cell::switch_c(&ctx.new_cell(b))
            })
        };
        let sw = Cell::switch_c(&sel.hold(ctx.new_cell(0)));
        let l = sw.listen(|_: &i32| {});
        growth("Q2 repl with switch_c/accum", &ctx, |i| { t.send(i as i32); u.send(1); });
    }
    // Q3: replacement contains a router and a route
    {
        let ctx = SodiumCtx::new();
        let t: StreamSink<i32> = ctx.new_stream_sink();
        let u: StreamSink<i32> = ctx.new_stream_sink();
        let ts = t.stream();
        let us = u.stream();
        let sel = {
            let (us, ctx) = (us.clone(), ctx.clone());
            ts.map(move |_: &i32| {
                let r = ctx.new_router(&us, |x: &i32| vec![x % 2]);
                r.filter_matches(&1).or_else(&r.filter_matches(&0))
            })
        };
        let sw = Cell::switch_s(&sel.hold(ctx.new_stream()));
        let l = sw.listen(|_: &i32| {});
        growth("Q3 repl with router", &ctx, |i| { t.send(i as i32); u.send(i as i32); });
    }
    // Q4: replacement built by a listener handler and sent through a sink in post
    {
        let ctx = SodiumCtx::new();
        let t: StreamSink<i32> = ctx.new_stream_sink();
        let u: StreamSink<i32> = ctx.new_stream_sink();
        let selsink: StreamSink<Cell<i32>> = ctx.new_stream_sink();
        let sw = Cell::switch_c(&selsink.stream().hold(ctx.new_cell(0)));
        let l = sw.listen(|_: &i32| {});
        let l2 = {
            let (us, ctx, selsink) = (u.stream(), ctx.clone(), selsink.clone());
            t.stream().listen(move |_: &i32| {
                let c = us.accum(0, |x: &i32, s: &i32| x + s).map(|x: &i32| x + 1);
                let selsink = selsink.clone();
                ctx.post(move || selsink.send(c.clone()));
            })
        };
        growth("Q4 handler builds, post sends", &ctx, |i| { t.send(i as i32); u.send(1); });
    }
    // Q5: CellLoop-based state machine rebuilt in a builder
    {
        let ctx = SodiumCtx::new();
        let t: StreamSink<i32> = ctx.new_stream_sink();
        let u: StreamSink<i32> = ctx.new_stream_sink();
        let ts = t.stream();
        let us = u.stream();
        let sel = {
            let (us, ctx) = (us.clone(), ctx.clone());
            ts.map(move |_: &i32| {
                ctx.transaction(|| {
                    let lp: CellLoop<i32> = ctx.new_cell_loop();
                    let out = us.snapshot(&lp.cell(), |x: &i32, y: &i32| x + y).hold(0);
                    lp.loop_(&out);
                    out
                })
            })
        };
        let sw = Cell::switch_c(&sel.hold(ctx.new_cell(0)));
        let l = sw.listen(|_: &i32| {});
        growth("Q5 repl with CellLoop", &ctx, |i| { t.send(i as i32); u.send(1); });
    }
}
