#![allow(unused)]
use sodium_rust::*;
use std::sync::atomic::{AtomicBool, Ordering};
use std::sync::{Arc, Mutex};
use std::time::Duration;

#[derive(Clone)]
struct Rng(u64);
impl Rng {
    fn next(&mut self) -> u64 {
        let mut x = self.0;
        x ^= x << 13;
        x ^= x >> 7;
        x ^= x << 17;
        self.0 = x;
        x
    }
    fn below(&mut self, n: usize) -> usize {
        (self.next() % (n as u64)) as usize
    }
}

#[derive(Clone)]
struct NS(String, Stream<i32>);
#[derive(Clone)]
struct NC(String, Cell<i32>);

struct Pool {
    streams: Vec<NS>,
    cells: Vec<NC>,
    sinks: Vec<(String, StreamSink<i32>)>,
    csinks: Vec<(String, CellSink<i32>)>,
    ssel: Vec<(String, StreamSink<Stream<i32>>, Vec<NS>)>,
    csel: Vec<(String, StreamSink<Cell<i32>>, Vec<NC>)>,
    routers: Vec<(String, Arc<Router<i32, i32>>)>,
    listeners: Vec<(String, Listener)>,
    g: Arc<G>,
    uid: i32,
    next_id: i32,
}

struct G {
    keep: bool,
    grave: Mutex<Vec<Box<dyn std::any::Any + Send>>>,
    log: Arc<Mutex<Vec<(i32, i32)>>>,
    script: Mutex<Vec<String>>,
    all_listeners: Mutex<Vec<Listener>>,
    base: Mutex<Option<(Stream<i32>, Cell<i32>)>>,
    trig: Mutex<Option<StreamSink<i32>>>,
    scripts: Mutex<Vec<Arc<Mutex<(u64, Box<dyn FnMut() + Send>)>>>>,
    txno: Mutex<u64>,
}

// mode B of the "built during propagation vs built before the sends" oracle
fn run_scripts(g: &Arc<G>) {
    if !PREBUILD.load(Ordering::SeqCst) { return; }
    let tx = *g.txno.lock().unwrap();
    let mut i = 0;
    loop {
        let sc = { let v = g.scripts.lock().unwrap(); if i >= v.len() { break; } v[i].clone() };
        i += 1;
        let mut sc = sc.lock().unwrap();
        if sc.0 == tx { continue; }
        sc.0 = tx;
        (sc.1)();
    }
}
fn begin_tx(g: &Arc<G>) {
    *g.txno.lock().unwrap() += 1;
    run_scripts(g);
    let t = g.trig.lock().unwrap().clone();
    if let Some(t) = t { t.send(0); }
}
fn end_tx(g: &Arc<G>) {
    run_scripts(g);
}

fn reg_listener(pool: &P, l: &Listener) {
    let g = pool.lock().unwrap().g.clone();
    g.all_listeners.lock().unwrap().push(Listener { impl_: l.impl_.clone() });
}

fn child_env(pool: &P, rng: &mut Rng) -> P {
    let mut p = pool.lock().unwrap();
    p.next_id += 1;
    let uid = p.uid.wrapping_mul(37).wrapping_add(p.next_id) % 100000;
    let mut e = Pool {
        streams: vec![], cells: vec![], sinks: vec![], csinks: vec![], ssel: vec![], csel: vec![], routers: vec![], listeners: vec![],
        g: p.g.clone(), uid, next_id: 0,
    };
    for _ in 0..3 { if let Some(x) = pick(&p.streams, rng) { e.streams.push(x); } }
    for _ in 0..2 { if let Some(x) = pick(&p.cells, rng) { e.cells.push(x); } }
    if let Some(x) = pick(&p.routers, rng) { e.routers.push(x); }
    Arc::new(Mutex::new(e))
}

type P = Arc<Mutex<Pool>>;
static VERB: AtomicBool = AtomicBool::new(false);
static NOGC: AtomicBool = AtomicBool::new(false);
static OBS: AtomicBool = AtomicBool::new(false);
static USE_TRIG: AtomicBool = AtomicBool::new(false);
static PREBUILD: AtomicBool = AtomicBool::new(false);

fn pick<T: Clone>(v: &Vec<T>, rng: &mut Rng) -> Option<T> {
    if v.is_empty() {
        None
    } else {
        Some(v[rng.below(v.len())].clone())
    }
}
fn take<T>(v: &mut Vec<T>, rng: &mut Rng, min: usize) -> Option<T> {
    if v.len() <= min {
        None
    } else {
        let i = rng.below(v.len());
        Some(v.remove(i))
    }
}
fn fresh(pool: &P, prefix: &str) -> String {
    let mut p = pool.lock().unwrap();
    p.next_id += 1;
    format!("{}{}_{}", prefix, p.uid, p.next_id)
}
fn say(pool: &P, depth: u32, msg: String) {
    let g = pool.lock().unwrap().g.clone();
    say_g(&g, depth, msg);
}
fn say_g(g: &Arc<G>, depth: u32, msg: String) {
    let line = format!("{}{}", "    ".repeat(depth as usize), msg);
    if VERB.load(Ordering::SeqCst) {
        println!("{}", line);
    }
    g.script.lock().unwrap().push(line);
}
fn hash_name(n: &str) -> u64 {
    let mut h: u64 = 1469598103934665603;
    for b in n.bytes() { h ^= b as u64; h = h.wrapping_mul(1099511628211); }
    h
}
fn observe_s(pool: &P, name: &str, s: &Stream<i32>) {
    if !OBS.load(Ordering::SeqCst) { return; }
    let h = hash_name(name);
    let g = pool.lock().unwrap().g.clone();
    let base = g.base.lock().unwrap().clone();
    let pin = match h % 4 {
        0 => return,
        1 => s.listen(|_: &i32| {}),
        2 => match base { Some((b, _)) => b.merge(s, |x: &i32, y: &i32| x + y).listen(|_: &i32| {}), None => return },
        _ => match base { Some((_, c)) => s.snapshot(&c, |x: &i32, y: &i32| x + y).hold(0).listen(|_: &i32| {}), None => return },
    };
    g.grave.lock().unwrap().push(Box::new(pin));
}
fn observe_c(pool: &P, name: &str, c: &Cell<i32>) {
    if !OBS.load(Ordering::SeqCst) { return; }
    let h = hash_name(name);
    let g = pool.lock().unwrap().g.clone();
    let base = g.base.lock().unwrap().clone();
    let pin = match h % 4 {
        0 => return,
        1 => c.listen(|_: &i32| {}),
        2 => match base { Some((_, b)) => c.lift2(&b, |x: &i32, y: &i32| x + y).listen(|_: &i32| {}), None => return },
        _ => match base { Some((b, _)) => b.merge(&c.updates(), |x: &i32, y: &i32| x + y).listen(|_: &i32| {}), None => return },
    };
    g.grave.lock().unwrap().push(Box::new(pin));
}
fn add_s(pool: &P, depth: u32, desc: String, s: Stream<i32>) {
    let name = fresh(pool, "s");
    observe_s(pool, &name, &s);
    say(pool, depth, format!("{} = {}", name, desc));
    pool.lock().unwrap().streams.push(NS(name, s));
}
fn add_c(pool: &P, depth: u32, desc: String, c: Cell<i32>) {
    let name = fresh(pool, "c");
    observe_c(pool, &name, &c);
    say(pool, depth, format!("{} = {}", name, desc));
    pool.lock().unwrap().cells.push(NC(name, c));
}
fn bury<T: Send + 'static>(pool: &P, x: T) {
    let g = pool.lock().unwrap().g.clone();
    if g.keep {
        g.grave.lock().unwrap().push(Box::new(x));
    } else {
        drop(x);
    }
}
fn bury_always<T: Send + 'static>(pool: &P, x: T) {
    let g = pool.lock().unwrap().g.clone();
    g.grave.lock().unwrap().push(Box::new(x));
}
fn mk_listener(pool: &P, depth: u32) -> (String, impl FnMut(&i32) + Send + Sync + 'static) {
    let name = fresh(pool, "L");
    let id: i32 = { let p = pool.lock().unwrap(); p.uid * 100 + p.next_id + 1 };
    let lg = pool.lock().unwrap().g.log.clone();
    (name, move |x: &i32| {
        lg.lock().unwrap().push((id, *x));
    })
}

fn do_op(ctx: &SodiumCtx, pool: &P, rng: &mut Rng, depth: u32, ops: &[u32]) {
    let op = ops[rng.below(ops.len())];
    let (s1, s2, c1, c2, r1) = {
        let p = pool.lock().unwrap();
        (
            pick(&p.streams, rng),
            pick(&p.streams, rng),
            pick(&p.cells, rng),
            pick(&p.cells, rng),
            pick(&p.routers, rng),
        )
    };
    match op {
        0 => {
            if let Some(s) = s1 {
                add_s(pool, depth, format!("{}.map(+1)", s.0), s.1.map(|x: &i32| x + 1));
            }
        }
        1 => {
            if let Some(s) = s1 {
                add_s(pool, depth, format!("{}.filter(%3!=0)", s.0), s.1.filter(|x: &i32| x % 3 != 0));
            }
        }
        2 => {
            if let (Some(a), Some(b)) = (s1, s2) {
                add_s(pool, depth, format!("{}.merge({}, +)", a.0, b.0), a.1.merge(&b.1, |x: &i32, y: &i32| x + y));
            }
        }
        3 => {
            if let Some(s) = s1 {
                add_c(pool, depth, format!("{}.hold(0)", s.0), s.1.hold(0));
            }
        }
        4 => {
            if let (Some(s), Some(c)) = (s1, c1) {
                add_s(pool, depth, format!("{}.snapshot({}, +)", s.0, c.0), s.1.snapshot(&c.1, |x: &i32, y: &i32| x + y));
            }
        }
        5 => {
            if let Some(c) = c1 {
                add_c(pool, depth, format!("{}.map(*2)", c.0), c.1.map(|x: &i32| (x * 2) % 1000));
            }
        }
        6 => {
            if let (Some(a), Some(b)) = (c1, c2) {
                add_c(pool, depth, format!("{}.lift2({}, +)", a.0, b.0), a.1.lift2(&b.1, |x: &i32, y: &i32| (x + y) % 1000));
            }
        }
        7 => {
            if let Some(c) = c1 {
                if rng.below(2) == 0 {
                    add_s(pool, depth, format!("{}.updates()", c.0), c.1.updates());
                } else {
                    add_s(pool, depth, format!("{}.value()", c.0), c.1.value());
                }
            }
        }
        8 => {
            if let Some(s) = s1 {
                add_s(pool, depth, format!("{}.once()", s.0), s.1.once());
            }
        }
        9 => {
            if let Some(s) = s1 {
                add_s(pool, depth, format!("defer({})", s.0), Operational::defer(&s.1));
            }
        }
        10 => {
            if let Some(s) = s1 {
                if rng.below(2) == 0 {
                    add_c(pool, depth, format!("{}.accum(0,+)", s.0), s.1.accum(0, |x: &i32, st: &i32| (x + st) % 1000));
                } else {
                    add_s(pool, depth, format!("{}.collect(0, (x+st, st+1))", s.0), s.1.collect(0, |x: &i32, st: &i32| (x + st, (st + 1) % 1000)));
                }
            }
        }
        11 => {
            if let Some(s) = s1 {
                let sel: StreamSink<Stream<i32>> = ctx.new_stream_sink();
                let csa = sel.stream().hold(s.1.clone());
                let n = Cell::switch_s(&csa);
                let selname = fresh(pool, "ssel");
                let cands = pool.lock().unwrap().streams.clone();
                add_s(pool, depth, format!("switch_s({}.hold({}))", selname, s.0), n);
                pool.lock().unwrap().ssel.push((selname, sel, cands));
            }
        }
        12 => {
            if let Some(c) = c1 {
                let sel: StreamSink<Cell<i32>> = ctx.new_stream_sink();
                let cca = sel.stream().hold(c.1.clone());
                let n = Cell::switch_c(&cca);
                let selname = fresh(pool, "csel");
                let cands = pool.lock().unwrap().cells.clone();
                add_c(pool, depth, format!("switch_c({}.hold({}))", selname, c.0), n);
                pool.lock().unwrap().csel.push((selname, sel, cands));
            }
        }
        13 => {
            if let Some(s) = s1 {
                let r = ctx.new_router(&s.1, |x: &i32| vec![x % 2, x % 3, x % 2]);
                let name = fresh(pool, "r");
                say(pool, depth, format!("{} = router({}, [x%2,x%3,x%2])", name, s.0));
                pool.lock().unwrap().routers.push((name, Arc::new(r)));
            }
        }
        14 => {
            if let Some(r) = r1 {
                let k = rng.below(3) as i32;
                add_s(pool, depth, format!("{}.filter_matches({})", r.0, k), r.1.filter_matches(&k));
            }
        }
        15 => {
            if let Some(s) = s1 {
                let (name, f) = mk_listener(pool, depth);
                say(pool, depth, format!("{} = {}.listen(log)", name, s.0));
                let l = s.1.listen(f);
                reg_listener(pool, &l);
                pool.lock().unwrap().listeners.push((name, l));
            }
        }
        16 => {
            if let Some(c) = c1 {
                let (name, f) = mk_listener(pool, depth);
                say(pool, depth, format!("{} = {}.listen(log)", name, c.0));
                let l = c.1.listen(f);
                reg_listener(pool, &l);
                pool.lock().unwrap().listeners.push((name, l));
            }
        }
        17 if depth == 0 => {
            let l = take(&mut pool.lock().unwrap().listeners, rng, 0);
            if let Some(l) = l {
                say(pool, depth, format!("{}.unlisten()", l.0));
                l.1.unlisten();
            }
        }
        18 => {
            let x = take(&mut pool.lock().unwrap().streams, rng, 1);
            if let Some(x) = x {
                say(pool, depth, format!("drop({})", x.0));
                bury(pool, x.1);
            }
        }
        19 => {
            let x = take(&mut pool.lock().unwrap().cells, rng, 1);
            if let Some(x) = x {
                say(pool, depth, format!("drop({})", x.0));
                bury(pool, x.1);
            }
        }
        20 => {
            let x = take(&mut pool.lock().unwrap().routers, rng, 0);
            if let Some(x) = x {
                say(pool, depth, format!("drop({})", x.0));
                bury(pool, x.1);
            }
        }
        21 => {
            if let (Some(s), Some(c)) = (s1, c1) {
                let g = c.1.map(|x: &i32| x % 2 == 0);
                add_s(pool, depth, format!("{}.gate({}.map(even))", s.0, c.0), s.1.gate(&g));
            }
        }
        22 => {
            if let Some(s) = s1 {
                let n = ctx.transaction(|| {
                    let l: StreamLoop<i32> = ctx.new_stream_loop();
                    let st = l.stream().hold(0);
                    let out = s.1.snapshot(&st, |x: &i32, y: &i32| (x + y) % 1000);
                    l.loop_(&out);
                    out
                });
                add_s(pool, depth, format!("loopaccum({})", s.0), n);
            }
        }
        23 => {
            if let Some(s) = s1 {
                let n = ctx.transaction(|| {
                    let l: CellLoop<i32> = ctx.new_cell_loop();
                    let out = s.1.snapshot(&l.cell(), |x: &i32, y: &i32| (x + y) % 1000).hold(0);
                    l.loop_(&out);
                    out
                });
                add_c(pool, depth, format!("cellloopaccum({})", s.0), n);
            }
        }
        24 => {
            if depth < 2 {
                if let Some(s) = s1 {
                    let t = s.1.map(|x: &i32| *x);
                    let pool2 = child_env(pool, rng);
                    let ctx2 = ctx.clone();
                    let mut rng2 = Rng(rng.next() | 1);
                    let ops2: Vec<u32> = ops.to_vec();
                    let n_ops = 1 + rng.below(3);
                    let mut budget = 4;
                    let name = fresh(pool, "H");
                    say(pool, depth, format!("{} = {}.map(id).listen(handler running {} ops, 4 times)", name, s.0, n_ops));
                    let name2 = name.clone();
                    let l = t.listen(move |_: &i32| {
                        if budget == 0 {
                            return;
                        }
                        budget -= 1;
                        say(&pool2, depth + 1, format!("[handler {} runs]", name2));
                        for _ in 0..n_ops {
                            do_op(&ctx2, &pool2, &mut rng2, depth + 1, &ops2);
                        }
                    });
                    reg_listener(pool, &l);
                    pool.lock().unwrap().listeners.push((name, l));
                }
            }
        }
        25 => {
            if depth < 2 {
                if let Some(s) = s1 {
                    let t = s.1.map(|x: &i32| *x);
                    let pool2 = child_env(pool, rng);
                    let ctx2 = ctx.clone();
                    let mut rng2 = Rng(rng.next() | 1);
                    let ops2: Vec<u32> = ops.to_vec();
                    let mut budget = 4;
                    let name = fresh(pool, "M");
                    let name2 = name.clone();
                    let n = t.map(move |x: &i32| {
                        if budget > 0 {
                            budget -= 1;
                            say(&pool2, depth + 1, format!("[mapfn {} runs]", name2));
                            do_op(&ctx2, &pool2, &mut rng2, depth + 1, &ops2);
                        }
                        *x
                    });
                    // pin: a side-effecting mapping function must stay alive in both modes
                    let pin = n.listen(|_: &i32| {});
                    { let g = pool.lock().unwrap().g.clone(); g.grave.lock().unwrap().push(Box::new(pin)); }
                    add_s(pool, depth, format!("{}.map(id).map(mapfn {} running 1 op, 4 times) [pinned]", s.0, name), n);
                }
            }
        }
        26 => {
            if depth >= 1 {
                let pool2 = pool.clone();
                let ctx2 = ctx.clone();
                let mut rng2 = Rng(rng.next() | 1);
                let ops2: Vec<u32> = ops.to_vec();
                let mut done = false;
                say(pool, depth, format!("post(1 op + send)"));
                ctx.post(move || {
                    if done {
                        return;
                    }
                    done = true;
                    say(&pool2, depth + 1, format!("[post runs]"));
                    let ops3: Vec<u32> = ops2.iter().cloned().filter(|o| *o != 27 && *o != 32).collect();
                    do_op(&ctx2, &pool2, &mut rng2, depth + 1, &ops3);
                });
            }
        }
        27 => {
            let (a, b) = {
                let p = pool.lock().unwrap();
                (pick(&p.ssel, rng), pick(&p.csel, rng))
            };
            if depth == 0 {
                say(pool, depth, format!("transaction {{"));
                let g = pool.lock().unwrap().g.clone();
                ctx.transaction(|| {
                    begin_tx(&g);
                    if let Some((name, a, cands)) = a {
                        if let Some(s) = pick(&cands, rng) {
                            say(pool, depth + 1, format!("{}.send({})", name, s.0));
                            a.send(s.1);
                        }
                    }
                    if let Some((name, b, cands)) = b {
                        if let Some(c) = pick(&cands, rng) {
                            say(pool, depth + 1, format!("{}.send({})", name, c.0));
                            b.send(c.1);
                        }
                    }
                    if rng.below(2) == 0 {
                        do_send_in(ctx, pool, rng, depth + 1);
                    }
                    end_tx(&g);
                });
                say(pool, depth, format!("}}"));
            }
        }
        28 => {
            if depth == 0 {
                say(pool, depth, format!("collect_cycles()"));
                if !NOGC.load(Ordering::SeqCst) { ctx.impl_.collect_cycles(); }
            }
        }
        29 => {
            let x = take(&mut pool.lock().unwrap().ssel, rng, 0);
            if let Some(x) = x {
                say(pool, depth, format!("drop({})", x.0));
                bury(pool, (x.1, x.2.into_iter().map(|n| n.1).collect::<Vec<_>>()));
            }
            let x = take(&mut pool.lock().unwrap().csel, rng, 0);
            if let Some(x) = x {
                say(pool, depth, format!("drop({})", x.0));
                bury(pool, (x.1, x.2.into_iter().map(|n| n.1).collect::<Vec<_>>()));
            }
        }
        30 => {
            if let Some(c) = c1 {
                let v = c.1.sample();
                say(pool, depth, format!("log({}.sample()) -> {}", c.0, v));
                let lg = pool.lock().unwrap().g.log.clone();
                lg.lock().unwrap().push((-1, v));
            }
        }
        31 => {
            say(pool, depth, format!("collect_cycles()"));
            if !NOGC.load(Ordering::SeqCst) { ctx.impl_.collect_cycles(); }
        }
        32 => {
            if depth == 0 {
                let n = 1 + rng.below(4);
                say(pool, depth, format!("transaction {{"));
                let g = pool.lock().unwrap().g.clone();
                ctx.transaction(|| {
                    begin_tx(&g);
                    for _ in 0..n {
                        if rng.below(3) == 0 {
                            do_send_in(ctx, pool, rng, depth + 1);
                        } else {
                            let ops2: Vec<u32> = ops.iter().cloned().filter(|o| *o != 32 && *o != 27 && *o != 28 && *o != 31).collect();
                            // same depth semantics as top level, but printed indented
                            do_op(ctx, pool, rng, depth, &ops2);
                        }
                    }
                    end_tx(&g);
                });
                say(pool, depth, format!("}}"));
            }
        }
        34 => {
            if let Some(s) = s1 {
                add_s(pool, depth, format!("{}.map([x,x+1]).split()", s.0), s.1.map(|x: &i32| vec![*x, *x + 1]).split());
            }
        }
        35 => {
            if let (Some(s), Some(a), Some(b)) = (s1, c1, c2) {
                add_s(pool, depth, format!("{}.snapshot3({}, {}, +)", s.0, a.0, b.0), s.1.snapshot3(&a.1, &b.1, |x: &i32, y: &i32, z: &i32| (x + y + z) % 1000));
                add_c(pool, depth, format!("{}.lift3({}, {}, +)", a.0, b.0, a.0), a.1.lift3(&b.1, &a.1, |x: &i32, y: &i32, z: &i32| (x + y + z) % 1000));
            }
        }
        36 => {
            if depth == 0 {
                let sk: StreamSink<i32> = ctx.new_stream_sink_with_coalescer(|a: &i32, b: &i32| a + b);
                let name = fresh(pool, "sink");
                add_s(pool, depth, format!("{}(coalesce +).stream()", name), sk.stream());
                pool.lock().unwrap().sinks.push((name, sk));
            }
        }
        50 => {
            if depth < 2 {
                let g = pool.lock().unwrap().g.clone();
                let trig = g.trig.lock().unwrap().clone();
                if let Some(trig) = trig {
                    let pool2 = child_env(pool, rng);
                    let ctx2 = ctx.clone();
                    let mut rng2 = Rng(rng.next() | 1);
                    let ops2: Vec<u32> = ops.iter().cloned().filter(|o| ![9, 26, 34, 24, 25, 40, 41, 27, 28, 32, 36, 13].contains(o)).collect();
                    let n_ops = 1 + rng.below(3);
                    let mut budget = 3;
                    let name = fresh(pool, "T");
                    say(pool, depth, format!("{} = script on every transaction ({} ops, 3 times)", name, n_ops));
                    let name2 = name.clone();
                    let mut script = move || {
                        if budget == 0 {
                            return;
                        }
                        budget -= 1;
                        say(&pool2, depth + 1, format!("[script {} runs]", name2));
                        for _ in 0..n_ops {
                            do_op(&ctx2, &pool2, &mut rng2, depth + 1, &ops2);
                        }
                    };
                    if PREBUILD.load(Ordering::SeqCst) {
                        g.scripts.lock().unwrap().push(Arc::new(Mutex::new((0, Box::new(script)))));
                    } else {
                        let l = trig.stream().map(|x: &i32| *x).listen(move |_: &i32| script());
                        reg_listener(pool, &l);
                        bury_always(pool, l);
                    }
                }
            }
        }
        40 | 41 => {
            if depth < 2 {
                if let (Some(s), Some(s0), Some(c0)) = (s1, s2, c1) {
                    let pool2 = child_env(pool, rng);
                    let ctx2 = ctx.clone();
                    let mut rng2 = Rng(rng.next() | 1);
                    let ops2: Vec<u32> = ops.iter().cloned().filter(|o| ![15, 16, 17, 24, 25, 26, 27, 28, 31, 32, 36, 30].contains(o)).collect();
                    let mut budget = 4;
                    let name = fresh(pool, "B");
                    let name2 = name.clone();
                    let t = s.1.map(|x: &i32| *x);
                    let is_s = op == 40;
                    let (fb_s, fb_c) = (s0.1.clone(), c0.1.clone());
                    let mut build = move || {
                        if budget > 0 {
                            budget -= 1;
                            say(&pool2, depth + 1, format!("[builder {} runs]", name2));
                            let n = 1 + rng2.below(2);
                            for _ in 0..n {
                                do_op(&ctx2, &pool2, &mut rng2, depth + 1, &ops2);
                            }
                        }
                        let p = pool2.lock().unwrap();
                        (p.streams.last().map(|x| x.clone()), p.cells.last().map(|x| x.clone()))
                    };
                    if is_s {
                        let pool3 = pool.lock().unwrap().g.clone();
                        let fb = fb_s.clone();
                        let sel = t.map(move |_: &i32| {
                            let (a, _) = build();
                            match a { Some(a) => { say_g(&pool3, depth + 1, format!("-> switch to {}", a.0)); a.1 } None => fb.clone() }
                        });
                        let n = Cell::switch_s(&sel.hold(s0.1.clone()));
                        let pin = n.listen(|_: &i32| {});
                        { let g = pool.lock().unwrap().g.clone(); g.grave.lock().unwrap().push(Box::new(pin)); }
                        add_s(pool, depth, format!("switch_s({}.map(id).map(builder {}).hold({})) [pinned]", s.0, name, s0.0), n);
                    } else {
                        let pool3 = pool.lock().unwrap().g.clone();
                        let fb = fb_c.clone();
                        let sel = t.map(move |_: &i32| {
                            let (_, a) = build();
                            match a { Some(a) => { say_g(&pool3, depth + 1, format!("-> switch to {}", a.0)); a.1 } None => fb.clone() }
                        });
                        let n = Cell::switch_c(&sel.hold(c0.1.clone()));
                        let pin = n.listen(|_: &i32| {});
                        { let g = pool.lock().unwrap().g.clone(); g.grave.lock().unwrap().push(Box::new(pin)); }
                        add_c(pool, depth, format!("switch_c({}.map(id).map(builder {}).hold({})) [pinned]", s.0, name, c0.0), n);
                    }
                }
            }
        }
        _ => {}
    }
}

fn do_send_in(ctx: &SodiumCtx, pool: &P, rng: &mut Rng, depth: u32) {
    let n = 1 + rng.below(2);
    for _ in 0..n {
        let (a, b) = {
            let p = pool.lock().unwrap();
            (pick(&p.sinks, rng), pick(&p.csinks, rng))
        };
        let v = rng.below(50) as i32;
        if rng.below(3) != 0 {
            if let Some(a) = a {
                say(pool, depth, format!("{}.send({})", a.0, v));
                a.1.send(v);
            }
        } else if let Some(b) = b {
            say(pool, depth, format!("{}.send({})", b.0, v));
            b.1.send(v);
        }
    }
}

fn do_send(ctx: &SodiumCtx, pool: &P, rng: &mut Rng, depth: u32) {
    say(pool, depth, format!("transaction {{"));
    let g = pool.lock().unwrap().g.clone();
    ctx.transaction(|| { begin_tx(&g); do_send_in(ctx, pool, rng, depth + 1); end_tx(&g); });
    say(pool, depth, format!("}}"));
}

fn run_prog(seed: u64, steps: &[usize], ops: &[u32], keep: bool) -> Result<(Vec<(i32, i32)>, Vec<String>), String> {
    let ctx = SodiumCtx::new();
    let pool: P = Arc::new(Mutex::new(Pool {
        streams: vec![],
        cells: vec![],
        sinks: vec![],
        csinks: vec![],
        ssel: vec![],
        csel: vec![],
        routers: vec![],
        listeners: vec![],
        g: Arc::new(G { keep, grave: Mutex::new(vec![]), log: Arc::new(Mutex::new(vec![])), script: Mutex::new(vec![]), all_listeners: Mutex::new(vec![]), base: Mutex::new(None), trig: Mutex::new(None), scripts: Mutex::new(vec![]), txno: Mutex::new(0) }),
        uid: 0,
        next_id: 0,
    }));
    let g = pool.lock().unwrap().g.clone();
    {
        for i in 0..2 {
            let s: StreamSink<i32> = ctx.new_stream_sink();
            let name = fresh(&pool, "sink");
            add_s(&pool, 0, format!("{}.stream()", name), s.stream());
            pool.lock().unwrap().sinks.push((name, s));
        }
        let c: CellSink<i32> = ctx.new_cell_sink(0);
        let name = fresh(&pool, "csink");
        {
            let g = pool.lock().unwrap().g.clone();
            let s0 = pool.lock().unwrap().streams[0].1.clone();
            *g.base.lock().unwrap() = Some((s0, c.cell()));
        }
        add_c(&pool, 0, format!("{}.cell()", name), c.cell());
        pool.lock().unwrap().csinks.push((name, c));
    }
    if USE_TRIG.load(Ordering::SeqCst) {
        let t: StreamSink<i32> = ctx.new_stream_sink();
        *g.trig.lock().unwrap() = Some(t);
    }
    for step in steps.iter().cloned() {
        let mut rng = Rng((seed.wrapping_mul(0x9E3779B97F4A7C15) ^ (step as u64 + 1).wrapping_mul(0xD1B54A32D192ED03)) | 1);
        rng.next();
        rng.next();
        say(&pool, 0, format!("// step {}", step));
        if rng.below(3) == 0 {
            do_send(&ctx, &pool, &mut rng, 0);
        } else {
            do_op(&ctx, &pool, &mut rng, 0, ops);
        }
        g.log.lock().unwrap().push((0, step as i32));
    }
    // tear down
    let ls = std::mem::take(&mut pool.lock().unwrap().listeners);
    for l in &ls {
        l.1.unlisten();
    }
    drop(ls);
    {
        let mut taken = {
            let mut p = pool.lock().unwrap();
            (
                std::mem::take(&mut p.streams),
                std::mem::take(&mut p.cells),
                std::mem::take(&mut p.sinks),
                std::mem::take(&mut p.csinks),
                std::mem::take(&mut p.ssel),
                std::mem::take(&mut p.csel),
                std::mem::take(&mut p.routers),
                std::mem::take(&mut p.listeners),
            )
        };
        for l in &taken.7 {
            l.1.unlisten();
        }
    }
    {
        let all = std::mem::take(&mut *g.all_listeners.lock().unwrap());
        for l in &all { l.unlisten(); }
    }
    // handler envs are owned by handler closures, which die with their listeners (unlistened above);
    // listeners created by handlers live in those envs: unlisten them through the graveyard of names
    *g.base.lock().unwrap() = None;
    *g.trig.lock().unwrap() = None;
    g.scripts.lock().unwrap().clear();
    let gr = std::mem::take(&mut *g.grave.lock().unwrap());
    for x in &gr {
        if let Some(l) = x.downcast_ref::<Listener>() {
            l.unlisten();
        }
    }
    drop(gr);
    ctx.impl_.collect_cycles();
    let n = ctx.impl_.node_count();
    if n != 0 {
        return Err(format!("leak: {} nodes", n));
    }
    let lg = g.log.lock().unwrap().clone();
    let mut out = vec![];
    let mut seg = vec![];
    for e in lg {
        if e.0 == 0 {
            seg.sort();
            out.append(&mut seg);
            out.push(e);
        } else {
            seg.push(e);
        }
    }
    let script = g.script.lock().unwrap().clone();
    Ok((out, script))
}

fn with_timeout<R: Send + 'static, F: FnOnce() -> R + Send + 'static>(f: F) -> Option<Result<R, String>> {
    let (tx, rx) = std::sync::mpsc::channel();
    std::thread::Builder::new()
        .stack_size(256 * 1024 * 1024)
        .spawn(move || {
            let r = std::panic::catch_unwind(std::panic::AssertUnwindSafe(f));
            let r = r.map_err(|e| {
                if let Some(s) = e.downcast_ref::<String>() {
                    s.clone()
                } else if let Some(s) = e.downcast_ref::<&str>() {
                    s.to_string()
                } else {
                    "panic".to_string()
                }
            });
            let _ = tx.send(r);
        })
        .unwrap();
    rx.recv_timeout(Duration::from_secs(20)).ok()
}

// outcome classes: "ok", "diff", "panic:..", "leak", "hang"
fn outcome(seed: u64, steps: &[usize], ops: &[u32]) -> String {
    let (st, op) = (steps.to_vec(), ops.to_vec());
    let a = with_timeout(move || run_prog(seed, &st, &op, false));
    let a = match a {
        None => return "hang".into(),
        Some(Err(e)) => return format!("panic: {}", e),
        Some(Ok(Err(e))) => return e,
        Some(Ok(Ok(a))) => a,
    };
    let (st, op) = (steps.to_vec(), ops.to_vec());
    let b = with_timeout(move || run_prog(seed, &st, &op, true));
    let b = match b {
        None => return "hang(keep)".into(),
        Some(Err(e)) => return format!("panic(keep): {}", e),
        Some(Ok(Err(e))) => return format!("(keep) {}", e),
        Some(Ok(Ok(b))) => b,
    };
    if a.0 != b.0 {
        "diff".into()
    } else {
        "ok".into()
    }
}

fn class(o: &str) -> String {
    o.split(':').next().unwrap().to_string()
}

fn shrink(seed: u64, nsteps: usize, ops: &[u32]) -> Vec<usize> {
    let mut steps: Vec<usize> = (0..nsteps).collect();
    let target = class(&outcome(seed, &steps, ops));
    assert!(target != "ok");
    loop {
        let mut progress = false;
        // chunks first
        let mut chunk = steps.len() / 2;
        while chunk >= 1 {
            let mut i = 0;
            while i + chunk <= steps.len() {
                let mut cand = steps.clone();
                cand.drain(i..i + chunk);
                if class(&outcome(seed, &cand, ops)) == target {
                    steps = cand;
                    progress = true;
                } else {
                    i += chunk;
                }
            }
            chunk /= 2;
        }
        if !progress {
            break;
        }
    }
    steps
}

fn default_ops() -> Vec<u32> {
    std::env::var("OPS").ok().map(|s| s.split(',').map(|x| x.parse().unwrap()).collect()).unwrap_or(vec![
        0, 1, 2, 3, 4, 5, 6, 7, 8, 9, 10, 11, 12, 13, 14, 14, 15, 15, 15, 16, 17, 18, 18, 19, 19, 20, 21, 22, 24, 24, 24, 25, 25, 26, 27, 27, 28, 29, 30, 31, 32, 32, 34, 35, 36,
    ])
}
fn env(name: &str, d: u64) -> u64 {
    std::env::var(name).ok().and_then(|s| s.parse().ok()).unwrap_or(d)
}

#[test]
#[ignore] // long: run with `-- --ignored --exact campaign --nocapture`
fn campaign() {
    std::panic::set_hook(Box::new(|_| {}));
    let ops = default_ops();
    let steps = env("STEPS", 80) as usize;
    let mut bad = vec![];
    for seed in env("FROM", 0)..env("TO", 1000) {
        let list: Vec<usize> = (0..steps).collect();
        let o = outcome(seed, &list, &ops);
        if o != "ok" {
            println!("seed {}: {}", seed, o);
            bad.push(seed);
            if o.starts_with("hang") {
                break;
            }
        }
    }
    println!("bad seeds: {:?}", bad);
}

#[test]
#[ignore] // long: run with `-- --ignored --exact shrink_one --nocapture`
fn shrink_one() {
    std::panic::set_hook(Box::new(|_| {}));
    let ops = default_ops();
    let seed = env("SEED", 0);
    let steps = env("STEPS", 80) as usize;
    let st = shrink(seed, steps, &ops);
    println!("shrunk steps: {:?}", st);
    VERB.store(true, Ordering::SeqCst);
    let a = run_prog(seed, &st, &ops, false);
    VERB.store(false, Ordering::SeqCst);
    let b = run_prog(seed, &st, &ops, true);
    match (&a, &b) {
        (Ok(a), Ok(b)) => {
            println!("=== script (drop mode)");
            for l in &a.1 {
                println!("{}", l);
            }
            println!("=== script (keep mode) differs: {}", a.1 != b.1);
            if a.1 != b.1 {
                for l in &b.1 {
                    println!("{}", l);
                }
            }
            println!("drop: {:?}", a.0);
            println!("keep: {:?}", b.0);
        }
        _ => {
            println!("drop: {:?}", a.map(|x| x.0));
            println!("keep: {:?}", b.map(|x| x.0));
        }
    }
}

#[test]
#[ignore] // long: run with `-- --ignored --exact campaign_dyn --nocapture`
fn campaign_dyn() {
    std::panic::set_hook(Box::new(|_| {}));
    let ops: Vec<u32> = std::env::var("OPS").ok().map(|s| s.split(',').map(|x| x.parse().unwrap()).collect()).unwrap_or(vec![
        0, 1, 2, 3, 4, 5, 6, 7, 8, 9, 10, 11, 12, 13, 14, 15, 15, 16, 17, 18, 19, 20, 21, 22, 24, 25, 26, 27, 28, 29, 30, 31, 32, 34, 35, 36, 40, 40, 40, 41, 41, 41,
    ]);
    let steps = env("STEPS", 60) as usize;
    let mut bad = vec![];
    for seed in env("FROM", 0)..env("TO", 500) {
        let list: Vec<usize> = (0..steps).collect();
        let o = outcome(seed, &list, &ops);
        if o != "ok" {
            println!("seed {}: {}", seed, o);
            bad.push(seed);
            if o.starts_with("hang") {
                break;
            }
        }
    }
    println!("bad seeds: {:?}", bad);
}

#[test]
#[ignore] // long: run with `-- --ignored --exact campaign_gc --nocapture`
fn campaign_gc() {
    std::panic::set_hook(Box::new(|_| {}));
    // explicit collections everywhere vs none: the listener logs must not change
    let ops: Vec<u32> = vec![0, 1, 2, 3, 4, 5, 6, 7, 8, 9, 10, 11, 12, 13, 14, 14, 15, 15, 15, 16, 17, 18, 18, 19, 19, 20, 21, 22, 23, 24, 24, 24, 25, 25, 26, 27, 27, 28, 29, 30, 31, 31, 31, 31, 32, 32, 34, 35, 36];
    let steps = env("STEPS", 80) as usize;
    let mut bad = vec![];
    for seed in env("FROM", 0)..env("TO", 1000) {
        let list: Vec<usize> = (0..steps).collect();
        NOGC.store(false, Ordering::SeqCst);
        let (l1, o1) = (list.clone(), ops.clone());
        let a = with_timeout(move || run_prog(seed, &l1, &o1, false));
        NOGC.store(true, Ordering::SeqCst);
        let (l1, o1) = (list.clone(), ops.clone());
        let b = with_timeout(move || run_prog(seed, &l1, &o1, false));
        let d = match (&a, &b) {
            (Some(Ok(Ok(a))), Some(Ok(Ok(b)))) => if a.0 != b.0 { Some("diff".to_string()) } else { None },
            _ => Some(format!("{:?} / {:?}", a.as_ref().map(|x| x.as_ref().map(|y| y.as_ref().map(|_| ()))), b.as_ref().map(|x| x.as_ref().map(|y| y.as_ref().map(|_| ()))))),
        };
        if let Some(d) = d {
            println!("seed {}: {}", seed, d);
            bad.push(seed);
        }
    }
    println!("bad seeds: {:?}", bad);
}

fn obs_campaign(ops: Vec<u32>) {
    std::panic::set_hook(Box::new(|_| {}));
    let steps = env("STEPS", 80) as usize;
    let mut bad = vec![];
    for seed in env("FROM", 0)..env("TO", 1000) {
        let list: Vec<usize> = (0..steps).collect();
        OBS.store(false, Ordering::SeqCst);
        let (l1, o1) = (list.clone(), ops.clone());
        let a = with_timeout(move || run_prog(seed, &l1, &o1, true));
        OBS.store(true, Ordering::SeqCst);
        let (l1, o1) = (list.clone(), ops.clone());
        let b = with_timeout(move || run_prog(seed, &l1, &o1, true));
        OBS.store(false, Ordering::SeqCst);
        let d = match (&a, &b) {
            (Some(Ok(Ok(a))), Some(Ok(Ok(b)))) => if a.0 != b.0 { Some("diff".to_string()) } else { None },
            _ => Some(format!("{:?} / {:?}", a.as_ref().map(|x| x.as_ref().map(|y| y.as_ref().map(|_| ()))), b.as_ref().map(|x| x.as_ref().map(|y| y.as_ref().map(|_| ()))))),
        };
        if let Some(d) = d {
            println!("seed {}: {}", seed, d);
            bad.push(seed);
        }
    }
    println!("bad seeds: {:?}", bad);
}

#[test]
#[ignore] // long: run with `-- --ignored --exact campaign_obs --nocapture`
fn campaign_obs() {
    obs_campaign(default_ops());
}

#[test]
#[ignore] // long: run with `-- --ignored --exact campaign_obs_nopost --nocapture`
fn campaign_obs_nopost() {
    obs_campaign(default_ops().into_iter().filter(|o| ![9, 26, 34].contains(o)).collect());
}

#[test]
#[ignore] // long: run with `-- --ignored --exact campaign_obs_dyn_nopost --nocapture`
fn campaign_obs_dyn_nopost() {
    obs_campaign(vec![0, 1, 2, 3, 4, 5, 6, 7, 8, 10, 11, 12, 13, 14, 15, 15, 16, 17, 18, 19, 20, 21, 22, 23, 24, 25, 27, 28, 29, 30, 31, 32, 35, 36, 40, 40, 40, 41, 41, 41]);
}

#[test]
#[ignore] // long: run with `-- --ignored --exact campaign_obs_dyn --nocapture`
fn campaign_obs_dyn() {
    obs_campaign(vec![0, 1, 2, 3, 4, 5, 6, 7, 8, 9, 10, 11, 12, 13, 14, 15, 15, 16, 17, 18, 19, 20, 21, 22, 24, 25, 26, 27, 28, 29, 30, 31, 32, 34, 35, 36, 40, 40, 40, 41, 41, 41]);
}

#[test]
#[ignore] // long: run with `-- --ignored --exact obs_one --nocapture`
fn obs_one() {
    std::panic::set_hook(Box::new(|_| {}));
    let ops = default_ops();
    let seed = env("SEED", 0);
    let steps = env("STEPS", 80) as usize;
    // shrink on the observer differential
    let differs = |st: &[usize]| -> bool {
        OBS.store(false, Ordering::SeqCst);
        let (l1, o1) = (st.to_vec(), ops.clone());
        let a = with_timeout(move || run_prog(seed, &l1, &o1, true));
        OBS.store(true, Ordering::SeqCst);
        let (l1, o1) = (st.to_vec(), ops.clone());
        let b = with_timeout(move || run_prog(seed, &l1, &o1, true));
        OBS.store(false, Ordering::SeqCst);
        match (&a, &b) { (Some(Ok(Ok(a))), Some(Ok(Ok(b)))) => a.0 != b.0, _ => false }
    };
    let mut st: Vec<usize> = (0..steps).collect();
    assert!(differs(&st));
    loop {
        let mut progress = false;
        let mut chunk = st.len() / 2;
        while chunk >= 1 {
            let mut i = 0;
            while i + chunk <= st.len() {
                let mut cand = st.clone();
                cand.drain(i..i + chunk);
                if differs(&cand) { st = cand; progress = true; } else { i += chunk; }
            }
            chunk /= 2;
        }
        if !progress { break; }
    }
    println!("shrunk steps: {:?}", st);
    OBS.store(false, Ordering::SeqCst);
    let a = run_prog(seed, &st, &ops, true).unwrap();
    OBS.store(true, Ordering::SeqCst);
    let b = run_prog(seed, &st, &ops, true).unwrap();
    for l in &a.1 { println!("{}", l); }
    println!("plain:    {:?}", a.0);
    println!("observed: {:?}", b.0);
}

#[test]
#[ignore] // long: run with `-- --ignored --exact campaign_prebuild --nocapture`
fn campaign_prebuild() {
    std::panic::set_hook(Box::new(|_| {}));
    USE_TRIG.store(true, Ordering::SeqCst);
    let ops: Vec<u32> = std::env::var("OPS").ok().map(|s| s.split(',').map(|x| x.parse().unwrap()).collect()).unwrap_or(vec![
        0, 1, 2, 3, 4, 5, 6, 7, 8, 10, 11, 12, 13, 14, 14, 15, 15, 15, 16, 16, 17, 18, 19, 20, 21, 22, 23, 27, 27, 29, 30, 31, 32, 35, 50, 50, 50, 50, 50,
    ]);
    let steps = env("STEPS", 60) as usize;
    let mut bad = vec![];
    for seed in env("FROM", 0)..env("TO", 1000) {
        let list: Vec<usize> = (0..steps).collect();
        PREBUILD.store(false, Ordering::SeqCst);
        let (l1, o1) = (list.clone(), ops.clone());
        let a = with_timeout(move || run_prog(seed, &l1, &o1, true));
        PREBUILD.store(true, Ordering::SeqCst);
        let (l1, o1) = (list.clone(), ops.clone());
        let b = with_timeout(move || run_prog(seed, &l1, &o1, true));
        PREBUILD.store(false, Ordering::SeqCst);
        let d = match (&a, &b) {
            (Some(Ok(Ok(a))), Some(Ok(Ok(b)))) => if a.0 != b.0 { Some("diff".to_string()) } else { None },
            _ => Some(format!("{:?} / {:?}", a.as_ref().map(|x| x.as_ref().map(|y| y.as_ref().map(|_| ()))), b.as_ref().map(|x| x.as_ref().map(|y| y.as_ref().map(|_| ()))))),
        };
        if let Some(d) = d {
            println!("seed {}: {}", seed, d);
            bad.push(seed);
        }
    }
    println!("bad seeds: {:?}", bad);
}

#[test]
#[ignore] // long: run with `-- --ignored --exact prebuild_one --nocapture`
fn prebuild_one() {
    std::panic::set_hook(Box::new(|_| {}));
    USE_TRIG.store(true, Ordering::SeqCst);
    let ops: Vec<u32> = std::env::var("OPS").ok().map(|s| s.split(',').map(|x| x.parse().unwrap()).collect()).unwrap_or(vec![
        0, 1, 2, 3, 4, 5, 6, 7, 8, 10, 11, 12, 13, 14, 14, 15, 15, 15, 16, 16, 17, 18, 19, 20, 21, 22, 23, 27, 27, 29, 30, 31, 32, 35, 50, 50, 50, 50, 50,
    ]);
    let seed = env("SEED", 0);
    let steps = env("STEPS", 60) as usize;
    let differs = |st: &[usize]| -> bool {
        PREBUILD.store(false, Ordering::SeqCst);
        let (l1, o1) = (st.to_vec(), ops.clone());
        let a = with_timeout(move || run_prog(seed, &l1, &o1, true));
        PREBUILD.store(true, Ordering::SeqCst);
        let (l1, o1) = (st.to_vec(), ops.clone());
        let b = with_timeout(move || run_prog(seed, &l1, &o1, true));
        PREBUILD.store(false, Ordering::SeqCst);
        match (&a, &b) { (Some(Ok(Ok(a))), Some(Ok(Ok(b)))) => a.0 != b.0, _ => false }
    };
    let mut st: Vec<usize> = (0..steps).collect();
    assert!(differs(&st));
    loop {
        let mut progress = false;
        let mut chunk = st.len() / 2;
        while chunk >= 1 {
            let mut i = 0;
            while i + chunk <= st.len() {
                let mut cand = st.clone();
                cand.drain(i..i + chunk);
                if differs(&cand) { st = cand; progress = true; } else { i += chunk; }
            }
            chunk /= 2;
        }
        if !progress { break; }
    }
    println!("shrunk steps: {:?}", st);
    PREBUILD.store(false, Ordering::SeqCst);
    let a = run_prog(seed, &st, &ops, true).unwrap();
    PREBUILD.store(true, Ordering::SeqCst);
    let b = run_prog(seed, &st, &ops, true).unwrap();
    println!("=== script (during propagation)");
    for l in &a.1 { println!("{}", l); }
    println!("=== script (prebuilt) differs: {}", a.1 != b.1);
    if a.1 != b.1 { for l in &b.1 { println!("{}", l); } }
    println!("handler:  {:?}", a.0);
    println!("prebuilt: {:?}", b.0);
}
