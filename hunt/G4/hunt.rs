#![allow(dead_code, unused_variables, unused_imports)]
use sodium_rust::{
    lambda1, Cell, CellLoop, CellSink, Listener, Operational, Router, SodiumCtx, Stream,
    StreamLoop, StreamSink,
};
use std::sync::mpsc;
use std::sync::{Arc, Mutex};
use std::time::Duration;

fn watchdog<F: FnOnce() + Send + 'static>(name: &str, secs: u64, f: F) {
    let (tx, rx) = mpsc::channel();
    let h = std::thread::Builder::new()
        .stack_size(16 * 1024 * 1024)
        .spawn(move || {
            f();
            let _ = tx.send(());
        })
        .unwrap();
    match rx.recv_timeout(Duration::from_secs(secs)) {
        Ok(()) => {
            h.join().unwrap();
        }
        Err(mpsc::RecvTimeoutError::Disconnected) => {
            // panicked
            if let Err(e) = h.join() {
                std::panic::resume_unwind(e);
            }
        }
        Err(mpsc::RecvTimeoutError::Timeout) => {
            panic!("HANG in {}", name);
        }
    }
}

type Log<T> = Arc<Mutex<Vec<T>>>;
fn log<T>() -> Log<T> {
    Arc::new(Mutex::new(Vec::new()))
}
fn push<T: Clone + Send + 'static>(l: &Log<T>) -> impl FnMut(&T) + Send + Sync + 'static {
    let l = l.clone();
    move |a: &T| l.lock().unwrap().push(a.clone())
}
fn get<T: Clone>(l: &Log<T>) -> Vec<T> {
    l.lock().unwrap().clone()
}

// H1: switch_s built by a handler in a transaction in which the selector cell has already been updated
#[test]
fn h01_late_switch_s_selector_updated_same_txn() {
    watchdog("h01", 10, || {
        let ctx = SodiumCtx::new();
        let a: StreamSink<i32> = ctx.new_stream_sink();
        let s1: StreamSink<i32> = ctx.new_stream_sink();
        let s2: StreamSink<i32> = ctx.new_stream_sink();
        let s1s = s1.stream();
        let s2s = s2.stream();
        let csa: Cell<Stream<i32>> = {
            let s2s = s2s.clone();
            a.stream().map(move |_: &i32| s2s.clone()).hold(s1s.clone())
        };
        let out = log::<i32>();
        let keep: Arc<Mutex<Vec<Listener>>> = Arc::new(Mutex::new(Vec::new()));
        let l = {
            let csa = csa.clone();
            let out = out.clone();
            let keep = keep.clone();
            a.stream().listen(move |_: &i32| {
                let sw = Cell::switch_s(&csa);
                keep.lock().unwrap().push(sw.listen(push(&out)));
            })
        };
        a.send(0);
        l.unlisten();
        s1.send(1);
        s2.send(2);
        assert_eq!(get(&out), vec![2]);
    });
}

// H2: switch_c built by a handler in a transaction in which the selector cell has already been updated
#[test]
fn h02_late_switch_c_selector_updated_same_txn() {
    watchdog("h02", 10, || {
        let ctx = SodiumCtx::new();
        let a: StreamSink<i32> = ctx.new_stream_sink();
        let c1: CellSink<i32> = ctx.new_cell_sink(10);
        let c2: CellSink<i32> = ctx.new_cell_sink(20);
        let c1c = c1.cell();
        let c2c = c2.cell();
        let cca: Cell<Cell<i32>> = {
            let c2c = c2c.clone();
            a.stream().map(move |_: &i32| c2c.clone()).hold(c1c.clone())
        };
        let out = log::<i32>();
        let keep: Arc<Mutex<Vec<Listener>>> = Arc::new(Mutex::new(Vec::new()));
        let l = {
            let cca = cca.clone();
            let out = out.clone();
            let keep = keep.clone();
            a.stream().listen(move |_: &i32| {
                let sw = Cell::switch_c(&cca);
                keep.lock().unwrap().push(sw.listen(push(&out)));
            })
        };
        a.send(0);
        l.unlisten();
        c1.send(11);
        c2.send(21);
        assert_eq!(get(&out), vec![20, 21]);
    });
}

// H3: switch_c where the new inner cell depends on the updates of the cell of cells
#[test]
fn h03_switch_c_new_inner_depends_on_selector_updates() {
    watchdog("h03", 10, || {
        let ctx = SodiumCtx::new();
        let cca: CellSink<Cell<i32>> = ctx.new_cell_sink(ctx.new_cell(1));
        let sw = Cell::switch_c(&cca.cell());
        let d = Operational::updates(&cca.cell())
            .map(|_: &Cell<i32>| 7)
            .hold(0);
        let out = log::<i32>();
        let l = sw.listen(push(&out));
        cca.send(d.clone());
        assert_eq!(get(&out), vec![1, 7]);
        l.unlisten();
    });
}

// H12: a StreamLoop created by one handler and closed by a later handler of the same transaction
#[test]
fn h12_loop_closed_by_later_handler() {
    watchdog("h12", 10, || {
        let ctx = SodiumCtx::new();
        let a: StreamSink<i32> = ctx.new_stream_sink();
        let a1 = a.stream().map(|x: &i32| x + 1);
        let a2 = a1.map(|x: &i32| x + 1);
        let a3 = a2.map(|x: &i32| x + 1);
        let out = log::<i32>();
        let shared: Arc<Mutex<Option<StreamLoop<i32>>>> = Arc::new(Mutex::new(None));
        let keep: Arc<Mutex<Vec<Listener>>> = Arc::new(Mutex::new(Vec::new()));
        let l1 = {
            let ctx = ctx.clone();
            let shared = shared.clone();
            let keep = keep.clone();
            let out = out.clone();
            let a_s = a.stream();
            a.stream().listen(move |_: &i32| {
                let sl: StreamLoop<i32> = ctx.new_stream_loop();
                let m = sl.stream().merge(&a_s, |l: &i32, r: &i32| l * 100 + r);
                keep.lock().unwrap().push(m.listen(push(&out)));
                *shared.lock().unwrap() = Some(sl);
            })
        };
        let l2 = {
            let shared = shared.clone();
            let a3c = a3.clone();
            a3.map(|x: &i32| *x).listen(move |_: &i32| {
                if let Some(sl) = shared.lock().unwrap().take() {
                    sl.loop_(&a3c);
                }
            })
        };
        a.send(1);
        // loop stream == a3 (4), a == 1: merge -> 401
        assert_eq!(get(&out), vec![401]);
    });
}

// H13: switch_c whose candidate cell is built on the fly by the mapping function and contains a switch_s;
// a dependent D of the switch output and of the source pulls the switch into the same round (DFS)
fn h13_body(with_d: bool) -> Vec<i32> {
    let ctx = SodiumCtx::new();
    let src: StreamSink<i32> = ctx.new_stream_sink();
    let t = src.stream().map(|x: &i32| x * 10);
    let czz: Cell<Stream<i32>> = ctx.new_cell(t.clone());
    let cca: Cell<Cell<i32>> = {
        let czz = czz.clone();
        src.stream()
            .map(move |_: &i32| Cell::switch_s(&czz).hold(0))
            .hold(ctx.new_cell(-1))
    };
    let sw = Cell::switch_c(&cca);
    let out = log::<i32>();
    let d_out = log::<i32>();
    let mut keep = Vec::new();
    if with_d {
        let d = Operational::updates(&sw).or_else(&src.stream());
        keep.push(d.listen(push(&d_out)));
    }
    keep.push(sw.listen(push(&out)));
    src.send(5);
    let mut r = get(&out);
    r.push(sw.sample());
    src.send(6);
    r.push(sw.sample());
    r
}

#[test]
fn h13_switch_c_candidate_with_switch_s_built_by_map_fn() {
    watchdog("h13", 10, || {
        let a = h13_body(false);
        println!("without D: {:?}", a);
        let b = h13_body(true);
        println!("with D: {:?}", b);
        assert_eq!(a, b);
    });
}

// H14: same with an inner switch_c whose selector also fires in the transaction
fn h14_body(with_d: bool) -> Vec<i32> {
    let ctx = SodiumCtx::new();
    let src: StreamSink<i32> = ctx.new_stream_sink();
    let inner_a: Cell<i32> = src.stream().map(|x: &i32| x * 10).hold(1);
    let inner_b: Cell<i32> = src.stream().map(|x: &i32| x * 100).hold(2);
    let zz: Cell<Cell<i32>> = {
        let inner_b = inner_b.clone();
        src.stream().map(move |_: &i32| inner_b.clone()).hold(inner_a.clone())
    };
    let cca: Cell<Cell<i32>> = {
        let zz = zz.clone();
        src.stream()
            .map(move |_: &i32| Cell::switch_c(&zz))
            .hold(ctx.new_cell(-1))
    };
    let sw = Cell::switch_c(&cca);
    let out = log::<i32>();
    let d_out = log::<i32>();
    let mut keep = Vec::new();
    if with_d {
        let d = Operational::updates(&sw).or_else(&src.stream());
        keep.push(d.listen(push(&d_out)));
    }
    keep.push(sw.listen(push(&out)));
    src.send(5);
    let mut r = get(&out);
    r.push(sw.sample());
    r
}

#[test]
fn h14_switch_c_candidate_with_switch_c_built_by_map_fn() {
    watchdog("h14", 10, || {
        let a = h14_body(false);
        println!("without D: {:?}", a);
        let b = h14_body(true);
        println!("with D: {:?}", b);
        assert_eq!(a, b);
    });
}

// ---------- batch 2 ----------
fn keepers() -> Arc<Mutex<Vec<Listener>>> {
    Arc::new(Mutex::new(Vec::new()))
}

// H20: cell listener registered by a handler: cell updated earlier / later in the same transaction / not at all
#[test]
fn h20_cell_listen_in_handler() {
    watchdog("h20", 10, || {
        let ctx = SodiumCtx::new();
        let a: StreamSink<i32> = ctx.new_stream_sink();
        let early: Cell<i32> = a.stream().hold(0); // updated in round 2
        let late: Cell<i32> = a
            .stream()
            .map(|x: &i32| x + 1)
            .map(|x: &i32| x + 1)
            .map(|x: &i32| x + 1)
            .map(|x: &i32| x + 1)
            .hold(0); // updated in round 6
        let other: CellSink<i32> = ctx.new_cell_sink(77);
        let o1 = log::<i32>();
        let o2 = log::<i32>();
        let o3 = log::<i32>();
        let keep = keepers();
        let l = {
            let (early, late, other) = (early.clone(), late.clone(), other.cell());
            let (o1, o2, o3, keep) = (o1.clone(), o2.clone(), o3.clone(), keep.clone());
            a.stream().map(|x: &i32| *x).map(|x: &i32| *x).listen(move |_: &i32| {
                let mut k = keep.lock().unwrap();
                k.push(early.listen(push(&o1)));
                k.push(late.listen(push(&o2)));
                k.push(other.listen(push(&o3)));
            })
        };
        a.send(10);
        l.unlisten();
        a.send(20);
        assert_eq!(get(&o1), vec![10, 20]);
        assert_eq!(get(&o2), vec![14, 24]);
        assert_eq!(get(&o3), vec![77]);
    });
}

// H21: defer / split built by a handler on a stream that already fired
#[test]
fn h21_defer_split_in_handler() {
    watchdog("h21", 10, || {
        let ctx = SodiumCtx::new();
        let a: StreamSink<i32> = ctx.new_stream_sink();
        let b = a.stream().map(|x: &i32| vec![*x, *x + 1]);
        let o1 = log::<i32>();
        let o2 = log::<i32>();
        let keep = keepers();
        let l = {
            let (a_s, b) = (a.stream(), b.clone());
            let (o1, o2, keep) = (o1.clone(), o2.clone(), keep.clone());
            b.map(|x: &Vec<i32>| x.len()).listen(move |_: &usize| {
                let mut k = keep.lock().unwrap();
                k.push(Operational::defer(&a_s).listen(push(&o1)));
                k.push(b.split().listen(push(&o2)));
            })
        };
        a.send(10);
        l.unlisten();
        a.send(20);
        assert_eq!(get(&o1), vec![10, 20]);
        assert_eq!(get(&o2), vec![10, 11, 20, 21]);
    });
}

// H22: accum / collect / once / gate / snapshot built by a handler on a stream that already fired
#[test]
fn h22_stateful_in_handler() {
    watchdog("h22", 10, || {
        let ctx = SodiumCtx::new();
        let a: StreamSink<i32> = ctx.new_stream_sink();
        let held = a.stream().hold(0);
        let o1 = log::<i32>();
        let o2 = log::<i32>();
        let o3 = log::<i32>();
        let o4 = log::<i32>();
        let keep = keepers();
        let l = {
            let (a_s, held) = (a.stream(), held.clone());
            let (o1, o2, o3, o4, keep) = (o1.clone(), o2.clone(), o3.clone(), o4.clone(), keep.clone());
            a.stream().map(|x: &i32| *x).listen(move |_: &i32| {
                let mut k = keep.lock().unwrap();
                k.push(a_s.accum(0, |x: &i32, s: &i32| x + s).listen(push(&o1)));
                k.push(a_s.collect(0, |x: &i32, s: &i32| (x + s, x + s)).listen(push(&o2)));
                k.push(a_s.once().listen(push(&o3)));
                k.push(a_s.snapshot(&held, |x: &i32, h: &i32| x * 1000 + h).listen(push(&o4)));
            })
        };
        a.send(1);
        l.unlisten();
        a.send(2);
        a.send(3);
        assert_eq!(get(&o1), vec![1, 3, 6]);
        assert_eq!(get(&o2), vec![1, 3, 6]);
        assert_eq!(get(&o3), vec![1]);
        assert_eq!(get(&o4), vec![1000, 2001, 3002]);
    });
}

// H23: lift built by a handler between the updates of its two inputs
#[test]
fn h23_lift_in_handler_between_inputs() {
    watchdog("h23", 10, || {
        let ctx = SodiumCtx::new();
        let a: StreamSink<i32> = ctx.new_stream_sink();
        let early: Cell<i32> = a.stream().hold(0);
        let late: Cell<i32> = a
            .stream()
            .map(|x: &i32| x + 1)
            .map(|x: &i32| x + 1)
            .map(|x: &i32| x + 1)
            .map(|x: &i32| x + 1)
            .hold(0);
        let o1 = log::<(i32, i32)>();
        let keep = keepers();
        let calls = log::<(i32, i32)>();
        let l = {
            let (early, late) = (early.clone(), late.clone());
            let (o1, keep, calls) = (o1.clone(), keep.clone(), calls.clone());
            a.stream().map(|x: &i32| *x).map(|x: &i32| *x).listen(move |_: &i32| {
                let calls = calls.clone();
                let c = early.lift2(&late, move |x: &i32, y: &i32| {
                    calls.lock().unwrap().push((*x, *y));
                    (*x, *y)
                });
                keep.lock().unwrap().push(c.listen(push(&o1)));
            })
        };
        a.send(10);
        l.unlisten();
        a.send(20);
        println!("calls {:?}", get(&calls));
        assert_eq!(get(&o1), vec![(10, 14), (20, 24)]);
    });
}

// H24: unlisten from own handler, from another handler, weak/strong; listener registered and unlistened in the same handler
#[test]
fn h24_unlisten_variants() {
    watchdog("h24", 10, || {
        let ctx = SodiumCtx::new();
        let a: StreamSink<i32> = ctx.new_stream_sink();
        let o1 = log::<i32>();
        let me: Arc<Mutex<Option<Listener>>> = Arc::new(Mutex::new(None));
        let l = {
            let me = me.clone();
            let o1 = o1.clone();
            a.stream().listen(move |x: &i32| {
                o1.lock().unwrap().push(*x);
                if let Some(l) = me.lock().unwrap().take() {
                    l.unlisten();
                }
            })
        };
        *me.lock().unwrap() = Some(l);
        a.send(1);
        a.send(2);
        assert_eq!(get(&o1), vec![1]);
        // registered and unlistened in one handler on a stream that already fired
        let o2 = log::<i32>();
        let b = a.stream().map(|x: &i32| *x);
        let l2 = {
            let a_s = a.stream();
            let o2 = o2.clone();
            b.listen(move |_: &i32| {
                let l = a_s.listen(push(&o2));
                l.unlisten();
            })
        };
        a.send(3);
        assert_eq!(get(&o2), Vec::<i32>::new());
        l2.unlisten();
        // cell listener unlistened inside an open transaction after a send
        let c = a.stream().hold(0);
        let o3 = log::<i32>();
        let l3 = c.listen(push(&o3));
        ctx.transaction(|| {
            a.send(4);
            l3.unlisten();
        });
        assert_eq!(get(&o3), vec![0]);
    });
}

// H25: strong listener survives dropping everything + collections (switch_c, switch_s, router, loop)
fn h25_graph(ctx: &SodiumCtx, a: &StreamSink<i32>) -> Stream<i32> {
    let c1 = a.stream().map(|x: &i32| x + 1).hold(0);
    let c2 = a.stream().map(|x: &i32| x + 2).hold(0);
    let sel: Cell<Cell<i32>> = {
        let (c1b, c2b) = (c1.clone(), c2.clone());
        a.stream()
            .map(move |x: &i32| if x % 2 == 0 { c1b.clone() } else { c2b.clone() })
            .hold(c1.clone())
    };
    let sw = Cell::switch_c(&sel);
    let r: Router<i32, i32> = ctx.new_router(&Operational::updates(&sw), |x: &i32| vec![x % 3]);
    let r0 = r.filter_matches(&0);
    let r1 = r.filter_matches(&1);
    let r2 = r.filter_matches(&2);
    let ss: Cell<Stream<i32>> = {
        let (r0b, r1b, r2b) = (r0.clone(), r1.clone(), r2.clone());
        a.stream()
            .map(move |x: &i32| match x % 3 {
                0 => r0b.clone(),
                1 => r1b.clone(),
                _ => r2b.clone(),
            })
            .hold(r0.or_else(&r1).or_else(&r2))
    };
    let sws = Cell::switch_s(&ss);
    ctx.transaction(|| {
        let sl: StreamLoop<i32> = ctx.new_stream_loop();
        let h = sl.stream().hold(0);
        let s2 = sws.snapshot(&h, |x: &i32, y: &i32| x + y);
        sl.loop_(&s2);
        s2
    })
}

#[test]
fn h25_strong_listener_survives() {
    watchdog("h25", 10, || {
        let ctx = SodiumCtx::new();
        let a: StreamSink<i32> = ctx.new_stream_sink();
        let o = log::<i32>();
        {
            let acc = h25_graph(&ctx, &a);
            let _ = acc.listen(push(&o));
        }
        let n0 = ctx.impl_.node_count();
        for i in 0..20 {
            a.send(i);
            ctx.impl_.collect_cycles();
        }
        println!("{:?} nodes {} -> {}", get(&o), n0, ctx.impl_.node_count());
        let ctx2 = SodiumCtx::new();
        let a2: StreamSink<i32> = ctx2.new_stream_sink();
        let o2 = log::<i32>();
        let acc = h25_graph(&ctx2, &a2);
        let l = acc.listen(push(&o2));
        for i in 0..20 {
            a2.send(i);
        }
        assert_eq!(get(&o), get(&o2));
        assert!(get(&o).len() > 3);
    });
}


// ---------- batch 3: leaks of things built (and dropped) by handlers ----------
fn leak_check<F: Fn(&SodiumCtx, &Stream<i32>, &Cell<i32>) + Send + Sync + 'static>(name: &str, build: F) {
    let ctx = SodiumCtx::new();
    let a: StreamSink<i32> = ctx.new_stream_sink();
    let b = a.stream().map(|x: &i32| x + 1);
    let c = a.stream().hold(0);
    let l = {
        let ctx = ctx.clone();
        let b = b.clone();
        let c = c.clone();
        a.stream().map(|x: &i32| *x).map(|x: &i32| *x).listen(move |_: &i32| build(&ctx, &b, &c))
    };
    a.send(0);
    ctx.impl_.collect_cycles();
    let n1 = ctx.impl_.node_count();
    for i in 1..30 {
        a.send(i);
    }
    ctx.impl_.collect_cycles();
    let n2 = ctx.impl_.node_count();
    println!("leak_check {}: {} -> {}", name, n1, n2);
    assert_eq!(n1, n2, "leak in {}", name);
}

#[test]
fn h30_leaks_built_in_handler() {
    watchdog("h30", 30, || {
        leak_check("map+listen_weak", |_, b, _| {
            let _l = b.map(|x: &i32| *x).listen_weak(|_: &i32| {});
        });
        leak_check("listen+unlisten", |_, b, _| {
            b.map(|x: &i32| *x).listen(|_: &i32| {}).unlisten();
        });
        leak_check("cell listen+unlisten", |_, _, c| {
            c.listen(|_: &i32| {}).unlisten();
        });
        leak_check("cell listen_weak", |_, _, c| {
            let _ = c.listen_weak(|_: &i32| {});
        });
        leak_check("accum", |_, b, _| {
            let _ = b.accum(0, |x: &i32, s: &i32| x + s);
        });
        leak_check("collect", |_, b, _| {
            let _ = b.collect(0, |x: &i32, s: &i32| (x + s, x + s));
        });
        leak_check("once", |_, b, _| {
            let _ = b.once();
        });
        leak_check("once listened", |_, b, _| {
            b.once().listen(|_: &i32| {}).unlisten();
        });
        leak_check("defer", |_, b, _| {
            let _ = Operational::defer(b);
        });
        leak_check("split", |_, b, _| {
            let _ = b.map(|x: &i32| vec![*x]).split();
        });
        leak_check("lift", |_, b, c| {
            let _ = c.lift2(&b.hold(0), |x: &i32, y: &i32| x + y);
        });
        leak_check("value", |_, _, c| {
            let _ = Operational::value(c);
        });
        leak_check("switch_s", |ctx, b, _| {
            let cs = b.map(|_: &i32| 0).hold(0);
            let b2 = b.clone();
            let _ = Cell::switch_s(&cs.map(move |_: &i32| b2.clone()));
        });
        leak_check("switch_c", |ctx, b, c| {
            let cs = b.map(|_: &i32| 0).hold(0);
            let c2 = c.clone();
            let _ = Cell::switch_c(&cs.map(move |_: &i32| c2.clone()));
        });
        leak_check("switch_c listened", |ctx, b, c| {
            let cs = b.map(|_: &i32| 0).hold(0);
            let c2 = c.clone();
            Cell::switch_c(&cs.map(move |_: &i32| c2.clone())).listen(|_: &i32| {}).unlisten();
        });
        leak_check("router", |ctx, b, _| {
            let r: Router<i32, i32> = ctx.new_router(b, |x: &i32| vec![x % 2]);
            let _ = r.filter_matches(&0);
            let _ = r.filter_matches(&1).listen_weak(|_: &i32| {});
        });
        leak_check("cell loop", |ctx, b, _| {
            ctx.transaction(|| {
                let cl: CellLoop<i32> = ctx.new_cell_loop();
                let s = b.snapshot(&cl.cell(), |x: &i32, y: &i32| x + y);
                cl.loop_(&s.hold(0));
            });
        });
        leak_check("gate/filter/snapshot", |ctx, b, c| {
            let _ = b.gate(&c.map(|x: &i32| x % 2 == 0)).filter(|x: &i32| *x > 0).snapshot1(c);
        });
    });
}

// H31: collections run from inside handlers do not change the outputs
fn h31_body(collect_in_handler: bool) -> Vec<i32> {
    let ctx = SodiumCtx::new();
    let a: StreamSink<i32> = ctx.new_stream_sink();
    let o = log::<i32>();
    let keep = keepers();
    let stash: Arc<Mutex<Vec<Cell<i32>>>> = Arc::new(Mutex::new(Vec::new()));
    let l = {
        let ctx = ctx.clone();
        let a_s = a.stream();
        let (o, keep, stash) = (o.clone(), keep.clone(), stash.clone());
        a.stream().map(|x: &i32| *x).listen(move |x: &i32| {
            // garbage cycle with pending work
            let acc = a_s.accum(0, |x: &i32, s: &i32| x + s);
            if *x % 2 == 0 {
                keep.lock().unwrap().push(acc.listen(push(&o)));
            } else {
                stash.lock().unwrap().clear();
            }
            let acc2 = a_s.map(|x: &i32| x * 2).accum(100, |x: &i32, s: &i32| x + s);
            stash.lock().unwrap().push(acc2.clone());
            drop(acc);
            drop(acc2);
            if collect_in_handler {
                ctx.impl_.collect_cycles();
            }
        })
    };
    let l2 = {
        let ctx = ctx.clone();
        a.stream().map(|x: &i32| *x).map(|x: &i32| *x).map(|x: &i32| *x).listen(move |_: &i32| {
            if collect_in_handler {
                ctx.impl_.collect_cycles();
            }
        })
    };
    for i in 0..8 {
        a.send(i);
    }
    let mut r = get(&o);
    for c in stash.lock().unwrap().iter() {
        r.push(c.sample());
    }
    r
}

#[test]
fn h31_collect_in_handler() {
    watchdog("h31", 20, || {
        let x = h31_body(false);
        let y = h31_body(true);
        println!("{:?}", x);
        assert_eq!(x, y);
    });
}

// ---------- batch 4 ----------
// H32: a cell listener's handler listens to the same cell again
#[test]
fn h32_cell_listen_inside_cell_listener() {
    watchdog("h32", 10, || {
        let ctx = SodiumCtx::new();
        let cs: CellSink<i32> = ctx.new_cell_sink(1);
        let c = cs.cell();
        let o = log::<i32>();
        let keep = keepers();
        let l = {
            let (c, o, keep) = (c.clone(), o.clone(), keep.clone());
            cs.cell().listen(move |x: &i32| {
                if *x == 2 {
                    keep.lock().unwrap().push(c.listen(push(&o)));
                }
            })
        };
        cs.send(2);
        cs.send(3);
        assert_eq!(get(&o), vec![2, 3]);
    });
}

// H33: a router created by a handler on a stream that already fired
#[test]
fn h33_router_created_in_handler() {
    watchdog("h33", 10, || {
        let ctx = SodiumCtx::new();
        let a: StreamSink<i32> = ctx.new_stream_sink();
        let o_route = log::<i32>();
        let o_filter = log::<i32>();
        let keep = keepers();
        let routers: Arc<Mutex<Vec<Router<i32, i32>>>> = Arc::new(Mutex::new(Vec::new()));
        let l = {
            let (ctx, a_s) = (ctx.clone(), a.stream());
            let (o_route, o_filter, keep, routers) = (o_route.clone(), o_filter.clone(), keep.clone(), routers.clone());
            a.stream().map(|x: &i32| *x).listen(move |_: &i32| {
                let r: Router<i32, i32> = ctx.new_router(&a_s, |x: &i32| vec![x % 2]);
                let mut k = keep.lock().unwrap();
                k.push(r.filter_matches(&1).listen(push(&o_route)));
                k.push(a_s.filter(|x: &i32| x % 2 == 1).listen(push(&o_filter)));
                routers.lock().unwrap().push(r);
            })
        };
        a.send(1);
        l.unlisten();
        a.send(3);
        println!("route {:?} filter {:?}", get(&o_route), get(&o_filter));
        assert_eq!(get(&o_route), get(&o_filter));
    });
}

// H34: CellLoop built by a handler
#[test]
fn h34_cell_loop_in_handler() {
    watchdog("h34", 10, || {
        let ctx = SodiumCtx::new();
        let a: StreamSink<i32> = ctx.new_stream_sink();
        let o = log::<i32>();
        let keep = keepers();
        let l = {
            let (ctx, a_s) = (ctx.clone(), a.stream());
            let (o, keep) = (o.clone(), keep.clone());
            a.stream().map(|x: &i32| *x).listen(move |_: &i32| {
                let total = ctx.transaction(|| {
                    let cl: CellLoop<i32> = ctx.new_cell_loop();
                    let upd = a_s.snapshot(&cl.cell(), |x: &i32, s: &i32| x + s);
                    let total = upd.hold(100);
                    cl.loop_(&total);
                    total
                });
                keep.lock().unwrap().push(total.listen(push(&o)));
            })
        };
        a.send(1);
        l.unlisten();
        a.send(2);
        a.send(3);
        assert_eq!(get(&o), vec![101, 103, 106]);
    });
}

// H35: router table keeps the keys of route streams that were dropped
struct CountedKey(i32, Arc<std::sync::atomic::AtomicIsize>);
impl Clone for CountedKey {
    fn clone(&self) -> CountedKey {
        CountedKey::new(self.0, &self.1)
    }
}
impl CountedKey {
    fn new(k: i32, n: &Arc<std::sync::atomic::AtomicIsize>) -> CountedKey {
        n.fetch_add(1, std::sync::atomic::Ordering::SeqCst);
        CountedKey(k, n.clone())
    }
}
impl Drop for CountedKey {
    fn drop(&mut self) {
        self.1.fetch_sub(1, std::sync::atomic::Ordering::SeqCst);
    }
}
impl PartialEq for CountedKey {
    fn eq(&self, o: &CountedKey) -> bool {
        self.0 == o.0
    }
}
impl Eq for CountedKey {}
impl std::hash::Hash for CountedKey {
    fn hash<H: std::hash::Hasher>(&self, h: &mut H) {
        self.0.hash(h)
    }
}
#[test]
fn h35_router_table_growth() {
    watchdog("h35", 10, || {
        let ctx = SodiumCtx::new();
        let a: StreamSink<i32> = ctx.new_stream_sink();
        let n = Arc::new(std::sync::atomic::AtomicIsize::new(0));
        let r: Router<i32, CountedKey> = {
            let n = n.clone();
            ctx.new_router(&a.stream(), move |x: &i32| vec![CountedKey::new(-1, &n)])
        };
        for i in 0..1000 {
            let k = CountedKey::new(i, &n);
            let s = r.filter_matches(&k);
            let l = s.listen(|_: &i32| {});
            l.unlisten();
            drop(s);
            drop(k);
        }
        ctx.impl_.collect_cycles();
        a.send(1);
        ctx.impl_.collect_cycles();
        let live = n.load(std::sync::atomic::Ordering::SeqCst);
        println!("live keys after dropping 1000 routes: {} nodes {}", live, ctx.impl_.node_count());
        assert!(live < 10);
    });
}

// ---------- F1 minimal forms ----------
// switch_c switches to a cell built on the fly that contains a switch_s, in a transaction in which the
// current inner cell is updated too (no extra dependent needed)
fn f1_lost(initial_updates_too: bool) -> Vec<i32> {
    let ctx = SodiumCtx::new();
    let src: StreamSink<i32> = ctx.new_stream_sink();
    let t = src.stream().map(|x: &i32| x * 10);
    let czz: Cell<Stream<i32>> = ctx.new_cell(t.clone());
    let inner0: Cell<i32> = if initial_updates_too {
        src.stream().hold(-1)
    } else {
        ctx.new_cell(-1)
    };
    let cca: Cell<Cell<i32>> = src
        .stream()
        .map(move |_: &i32| Cell::switch_s(&czz).hold(0))
        .hold(inner0);
    let sw = Cell::switch_c(&cca);
    let out = log::<i32>();
    let l = sw.listen(push(&out));
    src.send(5);
    let mut r = get(&out);
    r.push(sw.sample());
    l.unlisten();
    r
}

#[test]
fn f1a_switch_c_to_fresh_cell_containing_switch_s() {
    watchdog("f1a", 10, || {
        let a = f1_lost(false);
        let b = f1_lost(true);
        println!("initial inner constant: {:?}; initial inner updated in the same transaction: {:?}", a, b);
        assert_eq!(a, vec![-1, 50, 50]);
        assert_eq!(b, vec![-1, 50, 50]);
    });
}

#[test]
fn f1b_switch_c_to_fresh_switch_c_panics() {
    watchdog("f1b", 10, || {
        let ctx = SodiumCtx::new();
        let src: StreamSink<i32> = ctx.new_stream_sink();
        let a: Cell<i32> = src.stream().map(|x: &i32| x * 10).hold(1);
        let b: Cell<i32> = src.stream().map(|x: &i32| x * 100).hold(2);
        // zz switches from a to b on every event of src
        let zz: Cell<Cell<i32>> = {
            let b = b.clone();
            src.stream().map(move |_: &i32| b.clone()).hold(a.clone())
        };
        let inner0: Cell<i32> = src.stream().hold(-1);
        let cca: Cell<Cell<i32>> = src
            .stream()
            .map(move |_: &i32| Cell::switch_c(&zz))
            .hold(inner0);
        let sw = Cell::switch_c(&cca);
        let out = log::<i32>();
        let l = sw.listen(push(&out));
        src.send(5);
        assert_eq!(get(&out), vec![-1, 500]);
        assert_eq!(sw.sample(), 500);
        l.unlisten();
    });
}

// ---------- batch 5: deferred transactions, post, lazies, coalescer, Transaction ----------
#[test]
fn h50_defer_split_order_and_state() {
    watchdog("h50", 10, || {
        let ctx = SodiumCtx::new();
        let a: StreamSink<Vec<i32>> = ctx.new_stream_sink();
        let items = a.stream().split();
        let total = items.accum(0, |x: &i32, s: &i32| x + s);
        let o = log::<(i32, i32)>();
        let l = items.snapshot(&total, |x: &i32, t: &i32| (*x, *t)).listen(push(&o));
        a.send(vec![1, 2, 3]);
        a.send(vec![]);
        a.send(vec![10]);
        assert_eq!(get(&o), vec![(1, 0), (2, 1), (3, 3), (10, 6)]);
        assert_eq!(total.sample(), 16);
        l.unlisten();
    });
}

#[test]
fn h51_post_from_handler_sees_new_values_and_can_send() {
    watchdog("h51", 10, || {
        let ctx = SodiumCtx::new();
        let a: StreamSink<i32> = ctx.new_stream_sink();
        let b: StreamSink<i32> = ctx.new_stream_sink();
        let c = a.stream().hold(0);
        let cb = b.stream().hold(0);
        let o = log::<(i32, i32, i32)>();
        let l = {
            let (ctx2, c2, cb2, b2, o2) = (ctx.clone(), c.clone(), cb.clone(), b.clone(), o.clone());
            a.stream().listen(move |x: &i32| {
                let (c3, cb3, b3, o3) = (c2.clone(), cb2.clone(), b2.clone(), o2.clone());
                let x = *x;
                let old = c2.sample();
                ctx2.post(move || {
                    o3.lock().unwrap().push((old, c3.sample(), cb3.sample()));
                    b3.send(x * 2);
                });
            })
        };
        a.send(1);
        a.send(2);
        assert_eq!(get(&o), vec![(0, 1, 0), (1, 2, 2)]);
        assert_eq!(cb.sample(), 4);
        l.unlisten();
    });
}

#[test]
fn h52_coalescer_and_transaction_object() {
    watchdog("h52", 10, || {
        let ctx = SodiumCtx::new();
        let a: StreamSink<i32> = ctx.new_stream_sink_with_coalescer(|x: &i32, y: &i32| x + y);
        let o = log::<i32>();
        let l = a.stream().listen(push(&o));
        let t = ctx.new_transaction();
        a.send(1);
        a.send(2);
        let o2 = log::<i32>();
        let l2 = a.stream().map(|x: &i32| x * 10).listen(push(&o2));
        a.send(4);
        t.close();
        t.close();
        drop(t);
        a.send(5);
        assert_eq!(get(&o), vec![7, 5]);
        assert_eq!(get(&o2), vec![70, 50]);
        l.unlisten();
        l2.unlisten();
    });
}

#[test]
fn h53_lazy_apis_in_handler() {
    watchdog("h53", 10, || {
        let ctx = SodiumCtx::new();
        let a: StreamSink<i32> = ctx.new_stream_sink();
        let c = a.stream().hold(7);
        let never: Stream<i32> = ctx.new_stream();
        let stash: Arc<Mutex<Vec<Cell<i32>>>> = Arc::new(Mutex::new(Vec::new()));
        let l = {
            let (c2, never2, stash2, a_s) = (c.clone(), never.clone(), stash.clone(), a.stream());
            a.stream().map(|x: &i32| *x).listen(move |_: &i32| {
                let lz = c2.sample_lazy();
                let mut st = stash2.lock().unwrap();
                st.push(never2.hold_lazy(lz.clone())); // the value of c in this transaction: the old one
                st.push(a_s.map(|x: &i32| x + 100).hold_lazy(lz.clone())); // updated by this transaction
                st.push(a_s.accum_lazy(lz, |x: &i32, s: &i32| x + s));
            })
        };
        a.send(1);
        l.unlisten();
        let v: Vec<i32> = stash.lock().unwrap().iter().map(|c| c.sample()).collect();
        assert_eq!(v, vec![7, 101, 8]);
        a.send(2);
        let v: Vec<i32> = stash.lock().unwrap().iter().map(|c| c.sample()).collect();
        assert_eq!(v, vec![7, 102, 10]);
    });
}

#[test]
fn h54_once_through_switch_and_defer() {
    watchdog("h54", 10, || {
        let ctx = SodiumCtx::new();
        let a: StreamSink<i32> = ctx.new_stream_sink();
        let d = Operational::defer(&a.stream());
        let first_d = d.once();
        let o = log::<i32>();
        let l = first_d.listen(push(&o));
        // once of a stream that re-fires in a deferred transaction spawned by its own first firing
        let both = a.stream().or_else(&d);
        let o2 = log::<i32>();
        let l2 = both.once().listen(push(&o2));
        a.send(1);
        a.send(2);
        assert_eq!(get(&o), vec![1]);
        assert_eq!(get(&o2), vec![1]);
        l.unlisten();
        l2.unlisten();
    });
}

#[test]
fn h55_listen_weak_kept_and_value_in_transaction() {
    watchdog("h55", 10, || {
        let ctx = SodiumCtx::new();
        let cs: CellSink<i32> = ctx.new_cell_sink(1);
        let o = log::<i32>();
        let l = ctx.transaction(|| {
            cs.send(2);
            let v = Operational::value(&cs.cell());
            let l = v.map(|x: &i32| x * 10).listen_weak(push(&o));
            cs.send(3);
            l
        });
        ctx.impl_.collect_cycles();
        cs.send(4);
        assert_eq!(get(&o), vec![30, 40]);
        drop(l);
    });
}

// H33b: whether a router created by a handler dispatches the current event depends on an unrelated observer
fn h33b_body(with_observer: bool) -> Vec<i32> {
    let ctx = SodiumCtx::new();
    let a: StreamSink<i32> = ctx.new_stream_sink();
    let o_route = log::<i32>();
    let keep = keepers();
    let routers: Arc<Mutex<Vec<Router<i32, i32>>>> = Arc::new(Mutex::new(Vec::new()));
    let l = {
        let (ctx, a_s) = (ctx.clone(), a.stream());
        let (o_route, keep, routers) = (o_route.clone(), keep.clone(), routers.clone());
        a.stream().map(|x: &i32| *x).listen(move |_: &i32| {
            let r: Router<i32, i32> = ctx.new_router(&a_s, |x: &i32| vec![x % 2]);
            let route = r.filter_matches(&1);
            let mut k = keep.lock().unwrap();
            k.push(route.listen(push(&o_route)));
            if with_observer {
                // an independent definition: merges the route with the (already fired) source
                k.push(a_s.or_else(&route).listen(|_: &i32| {}));
            }
            routers.lock().unwrap().push(r);
        })
    };
    a.send(1);
    l.unlisten();
    a.send(3);
    get(&o_route)
}

#[test]
fn h33b_router_created_in_handler_depends_on_observer() {
    watchdog("h33b", 10, || {
        let x = h33b_body(false);
        let y = h33b_body(true);
        println!("without observer {:?}, with observer {:?}", x, y);
        assert_eq!(x, y);
    });
}

// H60: switch_c switching to a cell built on the fly that holds the switch's own updates (delayed self reference)
#[test]
fn h60_switch_c_to_hold_of_own_updates() {
    watchdog("h60", 10, || {
        let ctx = SodiumCtx::new();
        let src: StreamSink<i32> = ctx.new_stream_sink();
        let sw_ref: Arc<Mutex<Option<Cell<i32>>>> = Arc::new(Mutex::new(None));
        let cca: Cell<Cell<i32>> = {
            let sw_ref = sw_ref.clone();
            src.stream()
                .map(move |x: &i32| {
                    let sw = sw_ref.lock().unwrap().clone().unwrap();
                    Operational::updates(&sw).hold(*x)
                })
                .hold(ctx.new_cell(-1))
        };
        let sw = Cell::switch_c(&cca);
        *sw_ref.lock().unwrap() = Some(sw.clone());
        let out = log::<i32>();
        let l = sw.listen(push(&out));
        src.send(5);
        src.send(6);
        println!("{:?}", get(&out));
        assert_eq!(get(&out), vec![-1, 5, 6]);
        l.unlisten();
        *sw_ref.lock().unwrap() = None;
    });
}

// H61: same delayed self reference, written with a CellLoop (the shape of the known leak)
#[test]
fn h61_switch_c_to_hold_of_own_updates_cellloop() {
    watchdog("h61", 10, || {
        let ctx = SodiumCtx::new();
        let src: StreamSink<i32> = ctx.new_stream_sink();
        let out = log::<i32>();
        let (sw, l) = ctx.transaction(|| {
            let cl: CellLoop<i32> = ctx.new_cell_loop();
            let y = Operational::updates(&cl.cell()).hold(7);
            let cca: Cell<Cell<i32>> = src.stream().map(move |_: &i32| y.clone()).hold(ctx.new_cell(-1));
            let sw = Cell::switch_c(&cca);
            cl.loop_(&sw);
            let l = sw.listen(push(&out));
            (sw, l)
        });
        src.send(5);
        src.send(6);
        println!("{:?}", get(&out));
        assert_eq!(get(&out), vec![-1, 7, 7]);
        l.unlisten();
    });
}
