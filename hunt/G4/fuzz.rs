#![allow(dead_code, unused_variables, unused_imports)]
// Differential fuzzer: a random program is run twice, once plain and once with "independent"
// perturbations (extra observers / extra derived nodes / collections / clones). Outputs must agree.
use sodium_rust::{
    Cell, CellSink, Listener, Operational, Router, SodiumCtx, Stream, StreamSink,
};
use std::sync::mpsc;
use std::sync::{Arc, Mutex};
use std::time::Duration;

#[derive(Clone)]
struct Rng(u64);
impl Rng {
    fn new(seed: u64) -> Rng {
        Rng(seed.wrapping_mul(0x9E3779B97F4A7C15) ^ 0xD1B54A32D192ED03)
    }
    fn next(&mut self) -> u64 {
        let mut x = self.0;
        x ^= x >> 12;
        x ^= x << 25;
        x ^= x >> 27;
        self.0 = x;
        x.wrapping_mul(0x2545F4914F6CDD1D) >> 16
    }
    fn below(&mut self, n: usize) -> usize {
        (self.next() % (n as u64)) as usize
    }
    fn chance(&mut self, pct: u64) -> bool {
        self.next() % 100 < pct
    }
}

fn norm(x: i64) -> i32 {
    x.rem_euclid(1000) as i32
}

#[derive(Clone)]
struct Pools {
    ss: Vec<Stream<i32>>,
    cs: Vec<Cell<i32>>,
}

#[derive(Clone, Copy)]
struct Cfg {
    perturb: bool,
    observers: bool,   // extra listeners on random nodes
    dnodes: bool,      // extra merge nodes + listeners
    gc: bool,          // extra collections
    allow_switch_in_builder: bool,
    allow_router: bool,
    allow_once: bool,
    allow_value: bool,
}

struct Env {
    ctx: SodiumCtx,
    cfg: Cfg,
    keep: Arc<Mutex<Vec<Listener>>>,
    routers: Arc<Mutex<Vec<Router<i32, i32>>>>,
    sink_count: Arc<Mutex<u64>>,
    pcount: Arc<Mutex<usize>>,
    only: Arc<Option<std::collections::HashSet<usize>>>,
    in_cell_builder: bool,
}
impl Clone for Env {
    fn clone(&self) -> Env {
        Env {
            ctx: self.ctx.clone(),
            cfg: self.cfg,
            keep: self.keep.clone(),
            routers: self.routers.clone(),
            sink_count: self.sink_count.clone(),
            pcount: self.pcount.clone(),
            only: self.only.clone(),
            in_cell_builder: self.in_cell_builder,
        }
    }
}

// perturbation that must not influence anything else
fn p_enabled(env: &Env, what: &str) -> bool {
    let mut n = env.pcount.lock().unwrap();
    let id = *n;
    *n += 1;
    let ok = match &*env.only {
        Some(set) => set.contains(&id),
        None => true,
    };
    if ok && std::env::var("FUZZ_TRACE").is_ok() {
        println!("      perturbation #{}: {}", id, what);
    }
    ok
}

fn perturb(env: &Env, prng: &mut Rng, pools: &Pools) {
    if !env.cfg.perturb {
        return;
    }
    let sink_count = env.sink_count.clone();
    if env.cfg.observers && prng.chance(50) && !pools.ss.is_empty() {
        let i = prng.below(pools.ss.len());
        if p_enabled(env, &format!("listen s{}", i)) {
            let s = &pools.ss[i];
            let sc = sink_count.clone();
            let l = s.listen(move |x: &i32| {
                *sc.lock().unwrap() += *x as u64;
            });
            env.keep.lock().unwrap().push(l);
        }
    }
    if env.cfg.observers && prng.chance(30) && !pools.cs.is_empty() {
        let i = prng.below(pools.cs.len());
        if p_enabled(env, &format!("listen updates c{}", i)) {
            let c = &pools.cs[i];
            let sc = sink_count.clone();
            let l = Operational::updates(c).listen(move |x: &i32| {
                *sc.lock().unwrap() += *x as u64;
            });
            env.keep.lock().unwrap().push(l);
        }
    }
    if env.cfg.dnodes && prng.chance(50) && pools.ss.len() >= 2 {
        let i = prng.below(pools.ss.len());
        let j = prng.below(pools.ss.len());
        if p_enabled(env, &format!("listen merge s{} s{}", i, j)) {
            let a = &pools.ss[i];
            let b = &pools.ss[j];
            let d = a.merge(b, |x: &i32, y: &i32| norm(*x as i64 + *y as i64));
            let sc = sink_count.clone();
            let l = d.listen(move |x: &i32| {
                *sc.lock().unwrap() += *x as u64;
            });
            env.keep.lock().unwrap().push(l);
        }
    }
    if env.cfg.dnodes && prng.chance(40) && !pools.cs.is_empty() && !pools.ss.is_empty() {
        let i = prng.below(pools.cs.len());
        let j = prng.below(pools.ss.len());
        if p_enabled(env, &format!("listen updates c{} or_else s{}", i, j)) {
            let c = &pools.cs[i];
            let b = &pools.ss[j];
            let d = Operational::updates(c).or_else(b);
            let sc = sink_count.clone();
            let l = d.listen(move |x: &i32| {
                *sc.lock().unwrap() += *x as u64;
            });
            env.keep.lock().unwrap().push(l);
        }
    }
}

// add one node to the pools; `dynamic` = may create switches over on-the-fly builders
fn build_step(env: &Env, rng: &mut Rng, prng: &mut Rng, pools: &mut Pools, level: u32) {
    let ctx = &env.ctx;
    let ns = pools.ss.len();
    let nc = pools.cs.len();
    let tr = std::env::var("FUZZ_TRACE").is_ok();
    let pick_s = move |rng: &mut Rng, pools: &Pools| {
        let i = rng.below(pools.ss.len());
        if tr {
            println!("{}  pick s{}", "    ".repeat(level as usize), i);
        }
        pools.ss[i].clone()
    };
    let pick_c = move |rng: &mut Rng, pools: &Pools| {
        let i = rng.below(pools.cs.len());
        if tr {
            println!("{}  pick c{}", "    ".repeat(level as usize), i);
        }
        pools.cs[i].clone()
    };
    let op = rng.below(20);
    let k = (rng.below(9) + 1) as i64;
    let c0 = rng.below(100) as i64;
    if std::env::var("FUZZ_TRACE").is_ok() {
        println!("{}build_step level {} op {} k {} c0 {} ns {} nc {}", "    ".repeat(level as usize), level, op, k, c0, ns, nc);
    }
    match op {
        0 | 1 => {
            let s = pick_s(rng, pools);
            pools.ss.push(s.map(move |x: &i32| norm(*x as i64 * k + c0)));
        }
        2 => {
            let s = pick_s(rng, pools);
            let m = (rng.below(3) + 2) as i32;
            pools.ss.push(s.filter(move |x: &i32| x % m != 0));
        }
        3 => {
            let a = pick_s(rng, pools);
            let b = pick_s(rng, pools);
            pools.ss.push(a.merge(&b, move |x: &i32, y: &i32| norm(*x as i64 * 7 + *y as i64 + c0)));
        }
        4 => {
            let a = pick_s(rng, pools);
            let b = pick_s(rng, pools);
            pools.ss.push(a.or_else(&b));
        }
        5 | 6 => {
            let s = pick_s(rng, pools);
            pools.cs.push(s.hold(c0 as i32));
        }
        7 => {
            if nc == 0 {
                return;
            }
            let s = pick_s(rng, pools);
            let c = pick_c(rng, pools);
            pools.ss.push(s.snapshot(&c, move |x: &i32, y: &i32| norm(*x as i64 * 3 + *y as i64 * k)));
        }
        8 => {
            if nc == 0 {
                return;
            }
            let a = pick_c(rng, pools);
            let b = pick_c(rng, pools);
            pools.cs.push(a.lift2(&b, move |x: &i32, y: &i32| norm(*x as i64 * 5 + *y as i64 + c0)));
        }
        9 => {
            if nc == 0 {
                return;
            }
            let a = pick_c(rng, pools);
            pools.cs.push(a.map(move |x: &i32| norm(*x as i64 * k + c0)));
        }
        10 => {
            if nc == 0 {
                return;
            }
            let s = pick_s(rng, pools);
            let c = pick_c(rng, pools);
            pools.ss.push(s.gate(&c.map(|x: &i32| x % 2 == 0)));
        }
        11 => {
            if nc == 0 {
                return;
            }
            let c = pick_c(rng, pools);
            if level > 0 && env.cfg.allow_value && rng.chance(50) {
                pools.ss.push(Operational::value(&c));
            } else {
                pools.ss.push(Operational::updates(&c));
            }
        }
        12 => {
            let s = pick_s(rng, pools);
            pools.cs.push(s.accum(c0 as i32, move |x: &i32, st: &i32| norm(*x as i64 + *st as i64 * k)));
        }
        13 => {
            if !env.cfg.allow_once {
                return;
            }
            let s = pick_s(rng, pools);
            pools.ss.push(s.once());
        }
        14 | 15 => {
            // switch_c over cells built on the fly
            if level > 0 && !env.cfg.allow_switch_in_builder {
                return;
            }
            if level > 1 || (env.in_cell_builder && std::env::var("SWITCH_IN_CELL_BUILDER").is_err()) {
                return;
            }
            let trig = pick_s(rng, pools).map(|x: &i32| *x); // private stream: the builder runs under its lock
            let captured = pools.clone();
            let mut env2 = env.clone();
            env2.in_cell_builder = true;
            let seed = rng.next();
            let pseed = prng.next();
            let steps = rng.below(4) + 1;
            let init = if nc > 0 && rng.chance(50) { pick_c(rng, pools) } else { ctx.new_cell(c0 as i32) };
            let cca: Cell<Cell<i32>> = trig
                .map(move |x: &i32| {
                    let mut rng = Rng::new(seed ^ (*x as u64));
                    let mut prng = Rng::new(pseed ^ (*x as u64));
                    let mut p = captured.clone();
                    for _ in 0..steps {
                        build_step(&env2, &mut rng, &mut prng, &mut p, level + 1);
                        perturb(&env2, &mut prng, &p);
                    }
                    if p.cs.is_empty() {
                        env2.ctx.new_cell(*x)
                    } else {
                        let idx = if rng.chance(70) { p.cs.len() - 1 } else { rng.below(p.cs.len()) };
                        if std::env::var("FUZZ_TRACE").is_ok() {
                            println!("    cell-builder(seed {}) x={} returns c{}", seed % 1000, x, idx);
                        }
                        p.cs[idx].clone()
                    }
                })
                .hold(init);
            pools.cs.push(Cell::switch_c(&cca));
        }
        16 | 17 => {
            if level > 0 && !env.cfg.allow_switch_in_builder {
                return;
            }
            if level > 1 || (env.in_cell_builder && std::env::var("SWITCH_IN_CELL_BUILDER").is_err()) {
                return;
            }
            let trig = pick_s(rng, pools).map(|x: &i32| *x);
            let captured = pools.clone();
            let env2 = env.clone();
            let seed = rng.next();
            let pseed = prng.next();
            let steps = rng.below(4) + 1;
            let init = pick_s(rng, pools);
            let css: Cell<Stream<i32>> = trig
                .map(move |x: &i32| {
                    let mut rng = Rng::new(seed ^ (*x as u64));
                    let mut prng = Rng::new(pseed ^ (*x as u64));
                    let mut p = captured.clone();
                    for _ in 0..steps {
                        build_step(&env2, &mut rng, &mut prng, &mut p, level + 1);
                        perturb(&env2, &mut prng, &p);
                    }
                    let idx = if rng.chance(70) { p.ss.len() - 1 } else { rng.below(p.ss.len()) };
                    if std::env::var("FUZZ_TRACE").is_ok() {
                        println!("    stream-builder(seed {}) x={} returns s{}", seed % 1000, x, idx);
                    }
                    p.ss[idx].clone()
                })
                .hold(init);
            pools.ss.push(Cell::switch_s(&css));
        }
        18 => {
            if !env.cfg.allow_router || (level > 0 && std::env::var("ROUTER_IN_BUILDER").is_err()) {
                return;
            }
            let s = pick_s(rng, pools);
            let m = (rng.below(3) + 2) as i32;
            let r: Router<i32, i32> = ctx.new_router(&s, move |x: &i32| vec![x % m, (x / 2) % m]);
            let key = rng.below(m as usize) as i32;
            pools.ss.push(r.filter_matches(&key));
            if rng.chance(50) {
                let key = rng.below(m as usize) as i32;
                pools.ss.push(r.filter_matches(&key));
            }
            env.routers.lock().unwrap().push(r);
        }
        _ => {
            // static switch among existing cells
            if nc < 2 {
                return;
            }
            if level > 0 && (!env.cfg.allow_switch_in_builder || std::env::var("SWITCH_IN_CELL_BUILDER").is_err()) {
                return;
            }
            let s = pick_s(rng, pools);
            let cells = pools.cs.clone();
            let init = pick_c(rng, pools);
            let cca = s.map(move |x: &i32| cells[(*x as usize) % cells.len()].clone()).hold(init);
            pools.cs.push(Cell::switch_c(&cca));
        }
    }
}

fn run_program(seed: u64, cfg: Cfg, n_steps: usize, n_txn: usize) -> Vec<String> {
    let ctx = SodiumCtx::new();
    let env = Env {
        ctx: ctx.clone(),
        cfg,
        keep: Arc::new(Mutex::new(Vec::new())),
        routers: Arc::new(Mutex::new(Vec::new())),
        sink_count: Arc::new(Mutex::new(0)),
        pcount: Arc::new(Mutex::new(0)),
        only: Arc::new(std::env::var("FUZZ_ONLY").ok().map(|v| {
            v.split(',').filter(|x| !x.is_empty()).map(|x| x.parse().unwrap()).collect()
        })),
        in_cell_builder: false,
    };
    let mut rng = Rng::new(seed);
    let mut prng = Rng::new(seed ^ 0xABCDEF);
    let sinks: Vec<StreamSink<i32>> = (0..3).map(|_| ctx.new_stream_sink()).collect();
    let mut pools = Pools {
        ss: sinks.iter().map(|s| s.stream()).collect(),
        cs: Vec::new(),
    };
    for _ in 0..n_steps {
        build_step(&env, &mut rng, &mut prng, &mut pools, 0);
        perturb(&env, &mut prng, &pools);
    }
    let out: Arc<Mutex<Vec<String>>> = Arc::new(Mutex::new(Vec::new()));
    let mut ls = Vec::new();
    for (i, s) in pools.ss.iter().enumerate() {
        let out = out.clone();
        ls.push(s.listen(move |x: &i32| out.lock().unwrap().push(format!("s{}={}", i, x))));
    }
    for (i, c) in pools.cs.iter().enumerate() {
        let out = out.clone();
        ls.push(c.listen(move |x: &i32| out.lock().unwrap().push(format!("c{}={}", i, x))));
    }
    if cfg.perturb && std::env::var("NO_DROP").is_err() {
        // drop every handle that is not needed any more: the strong listeners must keep everything going
        pools.ss.clear();
        env.routers.lock().unwrap().clear();
        if seed % 2 == 0 {
            ctx.impl_.collect_cycles();
        }
    }
    for t in 0..n_txn {
        out.lock().unwrap().push(format!("-- txn {}", t));
        if std::env::var("FUZZ_TRACE").is_ok() {
            println!("-- txn {}", t);
        }
        ctx.transaction(|| {
            let mut any = false;
            for (i, s) in sinks.iter().enumerate() {
                if rng.chance(50) || (!any && i == sinks.len() - 1) {
                    let v = rng.below(10) as i32;
                    if std::env::var("FUZZ_TRACE").is_ok() {
                        println!("   send sink{} {}", i, v);
                    }
                    s.send(v);
                    any = true;
                }
            }
        });
        if cfg.perturb && cfg.gc && prng.chance(50) {
            ctx.impl_.collect_cycles();
        }
        let mut line = String::from("samples:");
        for c in pools.cs.iter() {
            line.push_str(&format!(" {}", c.sample()));
        }
        out.lock().unwrap().push(line);
    }
    // leak check: let go of everything
    for l in ls.iter() {
        l.unlisten();
    }
    for l in env.keep.lock().unwrap().iter() {
        l.unlisten();
    }
    ls.clear();
    env.keep.lock().unwrap().clear();
    env.routers.lock().unwrap().clear();
    pools.ss.clear();
    pools.cs.clear();
    drop(sinks);
    ctx.impl_.collect_cycles();
    ctx.impl_.collect_cycles();
    let leaked = ctx.impl_.node_count();
    if leaked != 0 {
        LEAKS.lock().unwrap().push((seed, cfg.perturb, leaked));
    }
    // the order of listener callbacks inside one transaction is not specified: sort within a transaction
    let raw = out.lock().unwrap().clone();
    let mut res = Vec::new();
    let mut cur: Vec<String> = Vec::new();
    for l in raw {
        if l.starts_with("--") || l.starts_with("samples") {
            cur.sort();
            res.append(&mut cur);
            res.push(l);
        } else {
            cur.push(l);
        }
    }
    res
}

fn run_guarded(seed: u64, cfg: Cfg, n_steps: usize, n_txn: usize) -> Result<Vec<String>, String> {
    let (tx, rx) = mpsc::channel();
    let h = std::thread::Builder::new()
        .stack_size(64 * 1024 * 1024)
        .spawn(move || {
            let r = std::panic::catch_unwind(|| run_program(seed, cfg, n_steps, n_txn));
            let _ = tx.send(r.map_err(|e| {
                if let Some(s) = e.downcast_ref::<String>() {
                    s.clone()
                } else if let Some(s) = e.downcast_ref::<&str>() {
                    s.to_string()
                } else {
                    "panic".to_string()
                }
            }));
        })
        .unwrap();
    match rx.recv_timeout(Duration::from_secs(20)) {
        Ok(r) => {
            let _ = h.join();
            r.map_err(|e| format!("PANIC at {}: {}", LAST_PANIC_LOC.lock().unwrap(), e))
        }
        Err(_) => Err("HANG".to_string()),
    }
}

static LEAKS: Mutex<Vec<(u64, bool, usize)>> = Mutex::new(Vec::new());
static LAST_PANIC_LOC: Mutex<String> = Mutex::new(String::new());

fn campaign(name: &str, base: Cfg, pert: Cfg, seeds: std::ops::Range<u64>, n_steps: usize, n_txn: usize) -> usize {
    std::panic::set_hook(Box::new(|info| {
        if let Some(l) = info.location() {
            *LAST_PANIC_LOC.lock().unwrap() = format!("{}:{}", l.file(), l.line());
        }
    }));
    let mut bad = 0;
    for seed in seeds {
        let a = run_guarded(seed, base, n_steps, n_txn);
        let b = run_guarded(seed, pert, n_steps, n_txn);
        match (&a, &b) {
            (Ok(x), Ok(y)) => {
                if x != y {
                    bad += 1;
                    let i = x.iter().zip(y.iter()).position(|(p, q)| p != q).unwrap_or(0);
                    println!(
                        "[{}] seed {} DIFF at line {}: base {:?} pert {:?}",
                        name,
                        seed,
                        i,
                        x.get(i),
                        y.get(i)
                    );
                }
            }
            _ => {
                bad += 1;
                println!(
                    "[{}] seed {} base {:?} pert {:?}",
                    name,
                    seed,
                    a.as_ref().map(|_| "ok").map_err(|e| e.clone()),
                    b.as_ref().map(|_| "ok").map_err(|e| e.clone())
                );
            }
        }
    }
    println!("[{}] bad: {}", name, bad);
    let leaks = LEAKS.lock().unwrap();
    println!("[{}] leaks: {:?}", name, &leaks[..leaks.len().min(20)]);
    bad + leaks.len()
}

const BASE: Cfg = Cfg {
    perturb: false,
    observers: false,
    dnodes: false,
    gc: false,
    allow_switch_in_builder: false,
    allow_router: true,
    allow_once: true,
    allow_value: true,
};

#[test]
fn fuzz_no_nested_switch() {
    let base = BASE;
    let pert = Cfg { perturb: true, observers: true, dnodes: true, gc: true, ..BASE };
    let n: u64 = std::env::var("FUZZ_N").ok().and_then(|s| s.parse().ok()).unwrap_or(300);
    let bad = campaign("no_nested_switch", base, pert, 0..n, 14, 8);
    assert_eq!(bad, 0);
}

#[test]
fn fuzz_nested_switch() {
    let base = Cfg { allow_switch_in_builder: true, ..BASE };
    let pert = Cfg { perturb: true, observers: true, dnodes: true, gc: true, allow_switch_in_builder: true, ..BASE };
    let n: u64 = std::env::var("FUZZ_N").ok().and_then(|s| s.parse().ok()).unwrap_or(300);
    let steps: usize = std::env::var("FUZZ_STEPS").ok().and_then(|s| s.parse().ok()).unwrap_or(14);
    let bad = campaign("nested_switch", base, pert, 0..n, steps, 8);
    assert_eq!(bad, 0);
}

#[test]
fn fuzz_one() {
    let seed: u64 = std::env::var("FUZZ_SEED").ok().and_then(|s| s.parse().ok()).unwrap_or(0);
    let nested = std::env::var("FUZZ_NESTED").is_ok();
    let base = Cfg { allow_switch_in_builder: nested, ..BASE };
    let pert = Cfg { perturb: true, observers: std::env::var("NO_OBS").is_err(), dnodes: std::env::var("NO_DN").is_err(), gc: std::env::var("NO_GC").is_err(), allow_switch_in_builder: nested, ..BASE };
    println!("==== base");
    let steps: usize = std::env::var("FUZZ_STEPS").ok().and_then(|s| s.parse().ok()).unwrap_or(14);
    let a = run_program(seed, base, steps, 8);
    println!("==== pert");
    let b = run_program(seed, pert, steps, 8);
    for i in 0..a.len().max(b.len()) {
        let x = a.get(i).cloned().unwrap_or_default();
        let y = b.get(i).cloned().unwrap_or_default();
        println!("{} {:40} {:40}", if x == y { " " } else { "*" }, x, y);
    }
    println!("RESULT {}", if a == b { "SAME" } else { "DIFF" });
}

// ---------- second oracle: a graph built at top level before the first transaction behaves like the
// same graph built by handler(s) during the first transaction (for everything but `value`) ----------
fn run_program2(seed: u64, cfg: Cfg, n_steps: usize, n_txn: usize, depth1: usize, depth2: usize) -> Vec<String> {
    let ctx = SodiumCtx::new();
    let env = Env {
        ctx: ctx.clone(),
        cfg,
        keep: Arc::new(Mutex::new(Vec::new())),
        routers: Arc::new(Mutex::new(Vec::new())),
        sink_count: Arc::new(Mutex::new(0)),
        pcount: Arc::new(Mutex::new(0)),
        only: Arc::new(None),
        in_cell_builder: false,
    };
    let sinks: Vec<StreamSink<i32>> = (0..3).map(|_| ctx.new_stream_sink()).collect();
    let pools0 = Pools {
        ss: sinks.iter().map(|s| s.stream()).collect(),
        cs: Vec::new(),
    };
    let out: Arc<Mutex<Vec<String>>> = Arc::new(Mutex::new(Vec::new()));
    let shared: Arc<Mutex<Option<(Pools, Rng, Rng, usize)>>> =
        Arc::new(Mutex::new(Some((pools0, Rng::new(seed), Rng::new(seed ^ 0xABCDEF), 0))));
    let final_pools: Arc<Mutex<Option<Pools>>> = Arc::new(Mutex::new(None));
    // builds steps [from, to) and, when done, registers the output listeners
    let stage = {
        let env = env.clone();
        let out = out.clone();
        let shared = shared.clone();
        let final_pools = final_pools.clone();
        move |upto: usize| {
            let mut g = shared.lock().unwrap();
            let (mut pools, mut rng, mut prng, mut done) = g.take().unwrap();
            while done < upto {
                build_step(&env, &mut rng, &mut prng, &mut pools, 0);
                done += 1;
            }
            if done == n_steps {
                for (i, s) in pools.ss.iter().enumerate() {
                    let out = out.clone();
                    env.keep.lock().unwrap().push(s.listen(move |x: &i32| out.lock().unwrap().push(format!("s{}={}", i, x))));
                }
                for (i, c) in pools.cs.iter().enumerate() {
                    let out = out.clone();
                    env.keep.lock().unwrap().push(
                        Operational::updates(c).listen(move |x: &i32| out.lock().unwrap().push(format!("c{}={}", i, x))),
                    );
                }
                *final_pools.lock().unwrap() = Some(pools.clone());
            }
            *g = Some((pools, rng, prng, done));
        }
    };
    let stage = Arc::new(Mutex::new(stage));
    let half = n_steps / 2;
    let mut trig_listeners = Vec::new();
    if depth1 == 0 {
        (stage.lock().unwrap())(n_steps);
    } else {
        let any = sinks[0].stream().or_else(&sinks[1].stream()).or_else(&sinks[2].stream());
        let mut t1 = any.map(|x: &i32| *x);
        for _ in 1..depth1 {
            t1 = t1.map(|x: &i32| *x);
        }
        let mut t2 = any.map(|x: &i32| *x);
        for _ in 1..depth2 {
            t2 = t2.map(|x: &i32| *x);
        }
        let first1 = Arc::new(Mutex::new(true));
        let first2 = Arc::new(Mutex::new(true));
        {
            let stage = stage.clone();
            trig_listeners.push(t1.listen(move |_: &i32| {
                let mut f = first1.lock().unwrap();
                if *f {
                    *f = false;
                    (stage.lock().unwrap())(half);
                }
            }));
        }
        {
            let stage = stage.clone();
            trig_listeners.push(t2.listen(move |_: &i32| {
                let mut f = first2.lock().unwrap();
                if *f {
                    *f = false;
                    (stage.lock().unwrap())(n_steps);
                }
            }));
        }
    }
    let mut srng = Rng::new(seed ^ 0x5151);
    for t in 0..n_txn {
        out.lock().unwrap().push(format!("-- txn {}", t));
        ctx.transaction(|| {
            let mut any = false;
            for (i, s) in sinks.iter().enumerate() {
                if srng.chance(50) || (!any && i == sinks.len() - 1) {
                    s.send(srng.below(10) as i32);
                    any = true;
                }
            }
        });
        let mut line = String::from("samples:");
        for c in final_pools.lock().unwrap().as_ref().unwrap().cs.iter() {
            line.push_str(&format!(" {}", c.sample()));
        }
        out.lock().unwrap().push(line);
    }
    let raw = out.lock().unwrap().clone();
    let mut res = Vec::new();
    let mut cur: Vec<String> = Vec::new();
    for l in raw {
        if l.starts_with("--") || l.starts_with("samples") {
            cur.sort();
            res.append(&mut cur);
            res.push(l);
        } else {
            cur.push(l);
        }
    }
    res
}

fn run_guarded2(seed: u64, cfg: Cfg, n_steps: usize, n_txn: usize, d1: usize, d2: usize) -> Result<Vec<String>, String> {
    let (tx, rx) = mpsc::channel();
    let h = std::thread::Builder::new()
        .stack_size(64 * 1024 * 1024)
        .spawn(move || {
            let r = std::panic::catch_unwind(|| run_program2(seed, cfg, n_steps, n_txn, d1, d2));
            let _ = tx.send(r.map_err(|e| {
                if let Some(s) = e.downcast_ref::<String>() {
                    s.clone()
                } else if let Some(s) = e.downcast_ref::<&str>() {
                    s.to_string()
                } else {
                    "panic".to_string()
                }
            }));
        })
        .unwrap();
    match rx.recv_timeout(Duration::from_secs(20)) {
        Ok(r) => {
            let _ = h.join();
            r.map_err(|e| format!("PANIC at {}: {}", LAST_PANIC_LOC.lock().unwrap(), e))
        }
        Err(_) => Err("HANG".to_string()),
    }
}

#[test]
fn fuzz_handler_built() {
    std::panic::set_hook(Box::new(|info| {
        if let Some(l) = info.location() {
            *LAST_PANIC_LOC.lock().unwrap() = format!("{}:{}", l.file(), l.line());
        }
    }));
    let cfg = Cfg { allow_value: false, allow_router: std::env::var("WITH_ROUTER").is_ok(), allow_switch_in_builder: true, ..BASE };
    let n: u64 = std::env::var("FUZZ_N").ok().and_then(|s| s.parse().ok()).unwrap_or(300);
    let mut bad = 0;
    for seed in 0..n {
        let a = run_guarded2(seed, cfg, 12, 6, 0, 0);
        let d1 = 1 + (seed % 4) as usize;
        let d2 = d1 + ((seed / 4) % 4) as usize;
        let b = run_guarded2(seed, cfg, 12, 6, d1, d2);
        match (&a, &b) {
            (Ok(x), Ok(y)) => {
                if x != y {
                    bad += 1;
                    let i = x.iter().zip(y.iter()).position(|(p, q)| p != q).unwrap_or(0);
                    println!("[handler_built] seed {} d1 {} d2 {} DIFF at line {}: top {:?} handler {:?}", seed, d1, d2, i, x.get(i), y.get(i));
                }
            }
            _ => {
                bad += 1;
                println!(
                    "[handler_built] seed {} d1 {} d2 {} top {:?} handler {:?}",
                    seed, d1, d2,
                    a.as_ref().map(|_| "ok").map_err(|e| e.clone()),
                    b.as_ref().map(|_| "ok").map_err(|e| e.clone())
                );
            }
        }
    }
    println!("[handler_built] bad: {}", bad);
    assert_eq!(bad, 0);
}

#[test]
fn fuzz_handler_one() {
    let seed: u64 = std::env::var("FUZZ_SEED").ok().and_then(|s| s.parse().ok()).unwrap_or(0);
    let d1: usize = std::env::var("D1").ok().and_then(|s| s.parse().ok()).unwrap_or(1);
    let d2: usize = std::env::var("D2").ok().and_then(|s| s.parse().ok()).unwrap_or(1);
    let cfg = Cfg { allow_value: false, allow_router: std::env::var("WITH_ROUTER").is_ok(), allow_switch_in_builder: true, ..BASE };
    println!("==== top");
    let a = run_program2(seed, cfg, 12, 6, 0, 0);
    println!("==== handler");
    let b = run_program2(seed, cfg, 12, 6, d1, d2);
    for i in 0..a.len().max(b.len()) {
        let x = a.get(i).cloned().unwrap_or_default();
        let y = b.get(i).cloned().unwrap_or_default();
        println!("{} {:40} {:40}", if x == y { " " } else { "*" }, x, y);
    }
}
