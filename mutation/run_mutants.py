#!/usr/bin/env python3
"""Mutation campaign: for every mutant: apply to /repo, run the 49 tests (a mutant the tests kill is not interesting),
run the quick checks, restore. Results -> /verif/mutation/RESULTS.json. /repo must not be used by anything else meanwhile."""
import json, os, subprocess, sys, time
sys.path.insert(0, "/verif/mutation")
from mutants import MUTANTS
ALL = os.environ.get("CHECKS", "").split() or [f"C{i:02d}" for i in range(1, 21)]
ENV = dict(os.environ, CARGO_NET_OFFLINE="true")
only = sys.argv[1:] 
res = json.load(open("/verif/mutation/RESULTS.json")) if os.path.exists("/verif/mutation/RESULTS.json") else {}
def sh(cmd, cwd=None, timeout=1800):
    try:
        p = subprocess.run(cmd, shell=True, cwd=cwd, capture_output=True, text=True, timeout=timeout, env=ENV)
        return p.returncode, p.stdout + p.stderr
    except subprocess.TimeoutExpired:
        return 124, "timeout"
for (mid, f, old, new, desc) in MUTANTS:
    if only and mid not in only: continue
    if mid in res and not only: continue
    sh("git checkout -- .", cwd="/repo")
    src = open("/repo/" + f).read()
    for o, n in zip(old.split("|||"), new.split("|||")):
        assert src.count(o) == 1, (mid, o[:40])
        src = src.replace(o, n)
    open("/repo/" + f, "w").write(src)
    t0 = time.time()
    rc, out = sh("cargo test --offline 2>&1 | grep -E '^test result|^error' | head -2", cwd="/repo", timeout=600)
    entry = {"file": f, "description": desc}
    if "error" in out and "test result" not in out:
        entry["tests"] = "does not compile"
    elif "49 passed; 0 failed" in out:
        entry["tests"] = "49 pass"
        caught, missed = [], []
        for p in ALL:
            rc, o = sh(f"./check {p}", cwd="/verif", timeout=1500)
            v = [l for l in o.split("\n") if l.startswith("VIOLATION")]
            if v: caught.append(p + ("" if any("no-failing-input-found" not in l for l in v) else "(no-input)"))
            elif "Traceback" in o or rc not in (0, 1): caught.append(p + "(check error)")
        entry["caught_by"] = caught
    else:
        entry["tests"] = "killed by the test suite: " + out.strip()[:120]
    entry["wall_s"] = round(time.time() - t0)
    if os.environ.get("CHECKS") and mid in res and "caught_by" in res[mid] and "caught_by" in entry:
        # partial re-run: merge with the earlier full run
        old = [c for c in res[mid]["caught_by"] if c.split("(")[0] not in ALL]
        entry["caught_by"] = sorted(set(old + entry["caught_by"]))
        entry["rerun_checks"] = ALL
    res[mid] = entry
    sh("git checkout -- .", cwd="/repo")
    json.dump(res, open("/verif/mutation/RESULTS.json", "w"), indent=1)
    print(mid, entry.get("tests"), entry.get("caught_by"), flush=True)
sh("git checkout -- .", cwd="/repo")
