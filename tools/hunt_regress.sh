#!/bin/bash
# Runs the hunters' integration tests (hunt/H*/…rs, written against the *unrepaired* tree by six independent agents, session 4)
# against /repo's current HEAD in a scratch worktree outside /repo and /verif, and prints per file: passed / failed test names.
# Expected on the repaired tree: only the tests of the listed known findings and of the out-of-scope observations fail
# (hunt/EXPECTED_FAILURES.txt).  Not part of the registered checks (it needs a scratch worktree); removes what it creates.
set -u
W=$(mktemp -d /var/tmp/huntXXXX)
git -C /repo worktree add --detach "$W/r" HEAD >/dev/null 2>&1 || exit 2
mkdir -p "$W/r/tests"
for h in /verif/hunt/[HG]*; do
  for f in "$h"/*.rs; do
    n=$(basename "$h")_$(basename "$f" .rs)
    cp "$f" "$W/r/tests/$n.rs"
  done
done
cd "$W/r"
for t in tests/*.rs; do
  n=$(basename $t .rs)
  case "$n" in *abort*|*mem*|*fuzz*|*hunt2*) continue;; esac      # process-aborting / allocator-counting tests are run by hand
  out=$(CARGO_NET_OFFLINE=true timeout 1200 cargo test --offline --test $n -- --test-threads=1 2>&1)
  echo "== $n: $(echo "$out" | grep -E '^test result' | head -1)"
  echo "$out" | grep -E '^test .* FAILED' | sed 's/^/   /'
done
cd /; git -C /repo worktree remove --force "$W/r"; rm -rf "$W"
