#!/usr/bin/env python3
"""Applies every seeded change under /verif/seeded to /repo in turn, runs the quick check of the property it
targets (and optionally others), restores /repo, and prints / records the verdicts."""
import os
REPO = os.environ.get("VERIF_REPO") or "/repo"
import json, os, subprocess, sys
ROOT = "/verif/seeded"
res = {}
only = sys.argv[1:]          # optional: prefixes of the seeds to re-run (the others keep their recorded verdict)
if only and os.path.exists(os.path.join(ROOT, "REGRESSION.json")):
    res = json.load(open(os.path.join(ROOT, "REGRESSION.json")))
for d in sorted(os.listdir(ROOT)):
    pd = os.path.join(ROOT, d, "patch.diff")
    if not os.path.exists(pd): continue
    if only and not any(d.startswith(o) for o in only): continue
    prop = d.split("-")[0]
    mp0 = os.path.join(ROOT, d, "meta.json")
    if os.path.exists(mp0) and json.load(open(mp0)).get("obsolete_after"):
        res[d] = "OBSOLETE (" + json.load(open(mp0))["obsolete_after"] + ")"; print(f"{d:45s} {prop}: {res[d]}", flush=True); continue
    subprocess.run(["git", "-C", REPO, "checkout", "--", "."], check=True)
    r = subprocess.run(["git", "-C", REPO, "apply", pd])
    if r.returncode != 0: res[d] = "patch does not apply"; continue
    out = subprocess.run(["./check", prop], cwd="/verif", capture_output=True, text=True).stdout
    subprocess.run(["git", "-C", REPO, "checkout", "--", "."], check=True)
    v = [l for l in out.split("\n") if l.startswith("VIOLATION")]
    found = [l for l in v if "no-failing-input-found" not in l]
    verdict = "CAUGHT with failing input" if found else ("CAUGHT (no-failing-input-found)" if v else "MISSED")
    res[d] = verdict
    print(f"{d:45s} {prop}: {verdict}", flush=True)
    mp = os.path.join(ROOT, d, "meta.json")
    if os.path.exists(mp):
        m = json.load(open(mp)); m["regression_verdict_quick"] = verdict; json.dump(m, open(mp, "w"), indent=1)
subprocess.run(["git", "-C", REPO, "checkout", "--", "."], check=True)
json.dump(res, open(os.path.join(ROOT, "REGRESSION.json"), "w"), indent=1)
