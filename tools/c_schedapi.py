"""L-sched-api: the order in which the real scheduler runs the update closures on the node graphs of API programs
against M_sched run on the graph M_struct builds (driver schedapi).  Which nodes fire is taken from the real run (`chg=`);
the model predicts the update order (`upd=`)."""
import random, time
from common import *
import apigen, c_api, c_struct

W = dict
PROFILE = dict(n_defs=(5, 16), n_txn=(3, 10), n_listen=(1, 4), drops=0.4, gcs=0.2, weak=0.2, unlisten=0.2, sends_per_txn=(1, 4), nest=0.7,
               no_once=True, no_const=True, samples=0.1, intxn_defs=0.0, obs=0.0, updlogs=True,
               weights=W(const=0, once=0, switchs=0, switchc=0, switchdyn=0, defer=0, split=0, router=0, sloop=1.5, cloop=1.5,
                         holdlazy=0.5, accum=2, collect=1.5, lift2=3, liftn=1, snapshotn=0.7, gate=1.5, value=1, updates=1.5, merge=5, map=4))


def gen(tier, seed):
    rng = random.Random(seed * 15485863 + 3)
    n = 500 if tier == "quick" else 15000
    import apienum
    return [apigen.generate(rng, apigen.profile(**PROFILE)) for _ in range(n)] + \
        list(apienum.programs(3 if tier == "thorough" else 2, kinds=apienum.SCHED_KINDS, mode="sched"))


def run(scripts, timeout=3000):
    text = "".join("\n".join(s) + "\n---\n" for s in scripts)
    rc, hout, herr = common_run([HBIN, "api"], text)
    hl = hout.split("\n")
    # second pass: give the model the firing oracle of each transaction
    lines_in = text.split("\n")
    fed = []
    for l, h in zip(lines_in, hl):
        if l.strip() == "updlog" and " chg=" in h:
            fed.append("updlog chg=" + h.split(" chg=", 1)[1].split(" ")[0])
        else:
            fed.append(l)
    rc2, mout, merr = common_run([DRIVER, "schedapi"], "\n".join(fed))
    if rc2 != 0: raise RuntimeError("model driver failed: " + merr[-2000:])
    ml = mout.split("\n")
    out, pos = [], 0
    for s in scripts:
        n = len(s)
        out.append((hl[pos:pos + n], ml[pos:pos + n]))
        pos += n + 1
    return out


def common_run(cmd, text):
    import common
    return common.run(cmd, stdin=text.encode(), timeout=3000)


def first_diff(script, hl, ml):
    for j, (l, h, m) in enumerate(zip(script, hl, ml)):
        if l == "updlog" and h != "SKIPPED":
            hu = h.split(" chg=")[0] if h.startswith("upd=") else h
            if hu != m: return j
    return None


def differs(script):
    if not c_api.loops_wellformed(script) or not c_struct.balanced(script): return False
    (hl, ml), = run([script])
    return first_diff(script, hl, ml) is not None


def check(tier, seed):
    scripts = gen(tier, seed)
    runs = run(scripts)
    bad, txns, updates, longest = [], 0, 0, 0
    for k, (hl, ml) in enumerate(runs):
        j = first_diff(scripts[k], hl, ml)
        if j is not None: bad.append((k, j))
        for l, h in zip(scripts[k], hl):
            if l == "updlog" and h.startswith("upd="):
                txns += 1
                u = [x for x in h[4:].split(" chg=")[0].split(",") if x]
                updates += len(u); longest = max(longest, len(u))
    viols = []
    import os
    os.environ["API_SCRIPT_TIMEOUT_MS"] = "2000"
    for (k, j) in bad[:2]:
        s = c_api.shrink(scripts[k], differs)
        (hl, ml), = run([s])
        jj = first_diff(s, hl, ml)
        h = hl[jj] if jj is not None else "?"; m = ml[jj] if jj is not None else "?"
        what = f"the real scheduler's update order on an API program's node graph differs from M_sched on M_struct's graph: implementation `{h}`, model `{m}`"
        viols.append({"what": what, "found_input": False, "signature": None,
                      "replay_text": "correspondence L-sched-api (Model/Sched.lean on the graph of Model/Struct.lean vs update_node on the real node graph) no longer checks; "
                                     "the scheduler theorems of Props/C03.lean are not shown to apply to API-built graphs\n# " + what + "\n" + "\n".join(s) + "\n"})
    os.environ.pop("API_SCRIPT_TIMEOUT_MS", None)
    info = {"level": "L-sched-api (update order on API-built node graphs)", "scripts": len(scripts), "transactions_compared": txns,
            "update_closures_compared": updates, "longest_update_sequence": longest, "disagreements": len(bad),
            "sample": " ; ".join(scripts[0][:40])}
    return info, viols


def replay(path):
    ops = [l.strip() for l in open(path) if l.strip() and not l.startswith("#") and not l.startswith("correspondence")]
    (hl, ml), = run([ops])
    for o, h, m in zip(ops, hl, ml):
        if o == "updlog": print(f"{o:20s} impl:  {h}\n{'':20s} model: {m}")
    return 1 if first_diff(ops, hl, ml) is not None else 0
