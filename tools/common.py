"""Shared machinery of ./check: builds, audit of the Lean theorems, process helpers,
known findings, evidence files."""
import fcntl, json, os, re, subprocess, sys, time, hashlib

VERIF = os.path.dirname(os.path.dirname(os.path.abspath(__file__)))
LEAN = os.path.join(VERIF, "lean")
HARNESS = os.path.join(VERIF, "harness")
WORK = os.path.join(VERIF, "work")
EVID = os.path.join(VERIF, "evidence")
CORPUS = os.path.join(VERIF, "corpus")
REPO = os.environ.get("VERIF_REPO") or "/repo"        # (override: parallel seed regression on scratch copies only)
DRIVER = os.environ.get("VERIF_DRIVER") or os.path.join(LEAN, ".lake", "build", "bin", "driver")   # (override: development only)
HBIN = os.environ.get("VERIF_HBIN") or os.path.join(HARNESS, "target", "debug", "harness")
ALLOWED_AXIOMS = {"propext", "Classical.choice", "Quot.sound"}
FORBIDDEN = re.compile(r"\b(sorry|admit|native_decide|bv_decide|implemented_by|unsafe)\b|^\s*axiom\s|maxHeartbeats\s+0")

ENV = dict(os.environ, CARGO_NET_OFFLINE="true", RUST_BACKTRACE="0")


def log(*a):
    print(*a, file=sys.stderr, flush=True)


class Lock:
    def __init__(self, name):
        os.makedirs(WORK, exist_ok=True)
        self.path = os.path.join(WORK, name + ".lock")

    def __enter__(self):
        self.f = open(self.path, "w")
        fcntl.flock(self.f, fcntl.LOCK_EX)

    def __exit__(self, *a):
        fcntl.flock(self.f, fcntl.LOCK_UN)
        self.f.close()


def _limit_mem(gb):
    def f():
        import resource
        resource.setrlimit(resource.RLIMIT_AS, (gb << 30, gb << 30))
    return f


def run(cmd, cwd=None, stdin=None, timeout=None, env=None, mem_gb=None):
    p = subprocess.run(cmd, cwd=cwd, input=stdin, stdout=subprocess.PIPE, stderr=subprocess.PIPE,
                       timeout=timeout, env=env or ENV, preexec_fn=_limit_mem(mem_gb) if mem_gb else None)
    return p.returncode, p.stdout.decode(errors="replace"), p.stderr.decode(errors="replace")


def build_lean(targets):
    """lake build of the given module targets plus the driver; returns (ok, message)."""
    with Lock("lake"):
        rc, out, err = run(["lake", "build", "driver"] + targets, cwd=LEAN, timeout=3000)
    if rc != 0:
        return False, (out + err)[-4000:]
    return True, ""


def build_harness():
    """Rebuild the harness against /repo's current working tree (path dependency, hooks on)."""
    with Lock("cargo"):
        rc, out, err = run(["cargo", "build", "--offline"], cwd=HARNESS, timeout=3000)
    if rc != 0:
        return False, (out + err)[-6000:]
    return True, ""


def strip_comments(src):
    # remove /- -/ block comments (nested) and -- line comments
    out, i, depth = [], 0, 0
    while i < len(src):
        if src.startswith("/-", i):
            depth += 1; i += 2; continue
        if depth and src.startswith("-/", i):
            depth -= 1; i += 2; continue
        if depth:
            if src[i] == "\n": out.append("\n")
            i += 1; continue
        if src.startswith("--", i):
            while i < len(src) and src[i] != "\n": i += 1
            continue
        out.append(src[i]); i += 1
    return "".join(out)


def forbidden_scan():
    """grep the Lean sources (comments stripped) for constructs outside the trusted base"""
    hits = []
    for root, _, files in os.walk(LEAN):
        if ".lake" in root: continue
        for f in files:
            if not f.endswith(".lean"): continue
            p = os.path.join(root, f)
            for n, line in enumerate(strip_comments(open(p).read()).split("\n"), 1):
                line = re.sub(r'"(?:[^"\\]|\\.)*"', '""', line)      # string literals are data, not code
                if FORBIDDEN.search(line):
                    hits.append(f"{os.path.relpath(p, LEAN)}:{n}: {line.strip()}")
    return hits


def audit(prop_id, module, theorems):
    """#print axioms on every property theorem. Returns dict name -> (ok, axioms|error)."""
    os.makedirs(WORK, exist_ok=True)
    mods = module if isinstance(module, list) else [module]
    src = "".join(f"import {m}\n" for m in mods) + "".join(f"#print axioms {t}\n" for t in theorems)
    path = os.path.join(WORK, f"audit_{prop_id}.lean")
    open(path, "w").write(src)
    rc, out, err = run(["lake", "env", "lean", path], cwd=LEAN, timeout=1200)
    text = out + err
    res = {}
    for t in theorems:
        short = t
        m = re.search(r"'" + re.escape(short) + r"' depends on axioms: \[([^\]]*)\]", text, re.S)
        if m:
            ax = [a.strip() for a in m.group(1).replace("\n", " ").split(",") if a.strip()]
            bad = [a for a in ax if a not in ALLOWED_AXIOMS]
            res[t] = (not bad, ax)
        elif re.search(r"'" + re.escape(short) + r"' does not depend on any axioms", text):
            res[t] = (True, [])
        else:
            res[t] = (False, ["<not found / does not check> " + text[-300:].replace("\n", " ")])
    return res


def file_hash(paths):
    h = hashlib.sha256()
    for p in paths:
        try:
            h.update(open(p, "rb").read())
        except OSError:
            pass
    return h.hexdigest()[:16]


def repo_src_hash():
    paths = []
    for root, _, files in os.walk(os.path.join(REPO, "src")):
        for f in sorted(files):
            paths.append(os.path.join(root, f))
    return file_hash(sorted(paths))


def load_known():
    p = os.path.join(VERIF, "known-findings.json")
    if os.path.exists(p):
        return json.load(open(p))
    return {"findings": [], "fixed": []}


def write_evidence(prop_id, tier, seed, coverage, assumptions, wall_s, violations):
    os.makedirs(EVID, exist_ok=True)
    ev = {"property_id": prop_id, "tier": tier, "seed": seed, "level": "proof", "coverage": coverage,
          "assumptions": assumptions, "wall_s": round(wall_s, 2), "violations": violations}
    tmp = os.path.join(EVID, prop_id + ".json.tmp")
    json.dump(ev, open(tmp, "w"), indent=1)
    os.replace(tmp, os.path.join(EVID, prop_id + ".json"))


def write_replay(prop_id, name, content):
    d = os.path.join(WORK, "replay")
    os.makedirs(d, exist_ok=True)
    p = os.path.join(d, f"{prop_id}-{name}")
    open(p, "w").write(content)
    return p


def run_pair(mode, script_text, harness_env=None, timeout=1200, driver_mode=None, mem_gb=None):
    """Feed the same script to the real library (harness) and the model (driver).
    Returns (harness_lines, model_lines, harness_rc)."""
    env = dict(ENV)
    if harness_env: env.update(harness_env)
    data = script_text.encode()
    try:
        rc, hout, herr = run([HBIN, mode], stdin=data, timeout=timeout, env=env, mem_gb=mem_gb)
    except subprocess.TimeoutExpired:
        rc, hout, herr = 124, "", "timeout"
    rc2, mout, merr = run([DRIVER, driver_mode or mode], stdin=data, timeout=timeout)
    if rc2 != 0:
        raise RuntimeError("model driver failed: " + merr[-2000:])
    return hout.split("\n"), mout.split("\n"), rc, herr


def split_scripts(lines_in, lines_h, lines_m):
    """group per script (separator line '---'); yields (script_lines, h_lines, m_lines)"""
    out, cs, ch, cm = [], [], [], []
    for i, l in enumerate(lines_in):
        h = lines_h[i] if i < len(lines_h) else "<missing>"
        m = lines_m[i] if i < len(lines_m) else "<missing>"
        if l.strip() == "---":
            out.append((cs, ch, cm)); cs, ch, cm = [], [], []
        else:
            cs.append(l); ch.append(h); cm.append(m)
    if cs: out.append((cs, ch, cm))
    return out
