"""L-lazy: the real `Lazy` (src/impl_/lazy.rs; counting thunks that force the lazies they captured)
against the heap model Model/LazyHeap.lean, plus an implementation-only predicate (C17, first
sentence): every thunk runs at most once and every force of one memo cell returns one value."""
import random, re
from common import *


def gen_script(rng, malformed=False):
    lines, handles, live = [], 0, []
    for _ in range(rng.randint(3, 30)):
        r = rng.random()
        if not live or r < 0.12:
            kind = "v" if rng.random() < 0.3 else "c"      # Lazy::of_value / Lazy::new
            lines.append(f"new {kind} {rng.randint(-9, 9)}"); live.append(handles); handles += 1
        elif r < 0.30:
            lines.append(f"new app {rng.randint(0, 3)} {rng.choice(live)}"); live.append(handles); handles += 1
        elif r < 0.42:
            lines.append(f"new app2 {rng.randint(0, 2)} {rng.choice(live)} {rng.choice(live)}"); live.append(handles); handles += 1
        elif r < 0.55:
            lines.append(f"clone {rng.choice(live)}"); live.append(handles); handles += 1
        elif r < 0.90:
            lines.append(f"force {rng.choice(live)}")
        elif len(live) > 1:
            h = rng.choice(live); live.remove(h); lines.append(f"drop {h}")
        if malformed and rng.random() < 0.1:
            lines.append(rng.choice([f"force {handles + 3}", "drop 99", "new app 1 77", "clone x", f"new app2 0 0 {handles + 5}", "new c z", "new v", "new v 1x"]))
    for h in live: lines.append(f"force {h}")       # every surviving handle is forced at the end
    return lines


def enum_scripts(depth):
    """every op sequence of `depth` lines over: one constant, one unary and one binary function, clone, force, drop
    with every choice of live operands; each followed by a force of every surviving handle, twice over"""
    out = []
    def rec(lines, live, nh):
        if len(lines) == depth:
            tail = [f"force {h}" for h in live]
            out.append(lines + tail + tail); return
        rec(lines + ["new c 2"], live + [nh], nh + 1)
        rec(lines + ["new v 3"], live + [nh], nh + 1)
        for h in live:
            rec(lines + [f"new app 1 {h}"], live + [nh], nh + 1)
            rec(lines + [f"clone {h}"], live + [nh], nh + 1)
            rec(lines + [f"force {h}"], live, nh)
            if len(live) > 1: rec(lines + [f"drop {h}"], [x for x in live if x != h], nh)
            for g in live:
                rec(lines + [f"new app2 1 {h} {g}"], live + [nh], nh + 1)
    rec([], [], 0)
    return out


def compare(scripts):
    text = "".join("\n".join(s) + "\n---\n" for s in scripts)
    hl, ml, rc, herr = run_pair("lazy", text)
    bad, pos = [], 0
    for k, s in enumerate(scripts):
        for j in range(len(s)):
            h = hl[pos + j] if pos + j < len(hl) else "<missing>"; m = ml[pos + j] if pos + j < len(ml) else "<missing>"
            if h != m: bad.append((k, j, h, m)); break
        pos += len(s) + 1
    return bad, hl


def impl_predicate(scripts, hl):
    """implementation only: per memo cell, runs <= 1 at every observation, and every force of a handle of
    that cell returns the same value (handle -> cell is reconstructed from the script alone)."""
    pos = 0
    for k, s in enumerate(scripts):
        cell_of, seen, ncells, preset = {}, {}, 0, set()
        nh = 0
        for j, l in enumerate(s):
            o = hl[pos + j] if pos + j < len(hl) else ""
            ws = l.split()
            if o.startswith("h="):
                if ws[0] == "new":
                    cell_of[nh] = ncells
                    if ws[1] == "v": preset.add(ncells)
                    ncells += 1
                else: cell_of[nh] = cell_of.get(int(ws[1]))
                nh += 1
            m = re.match(r"v=(-?\d+) runs=([\d,]*)$", o)
            if m:
                runs = [int(x) for x in m.group(2).split(",") if x]
                c = cell_of.get(int(ws[1]))
                if any(x > 1 for x in runs):
                    return k, j, f"a thunk ran more than once: `{o}`"
                if c is not None and c < len(runs) and runs[c] != (0 if c in preset else 1):
                    return k, j, f"the forced cell's thunk did not run exactly once (never, for of_value): `{o}` (cell {c})"
                if c in seen and seen[c] != m.group(1):
                    return k, j, f"two forces of one memo cell returned {seen[c]} and {m.group(1)}"
                seen[c] = m.group(1)
        pos += len(s) + 1
    return None


def minimise(cur):
    changed = True
    while changed:
        changed = False
        for i in range(len(cur) - 1, -1, -1):
            cand = cur[:i] + cur[i + 1:]
            if cand and compare([cand])[0]:
                cur = cand; changed = True
    return cur


def check(tier, seed):
    rng = random.Random(seed * 131 + 17)
    n = 1500 if tier == "quick" else 60000
    scripts = [gen_script(rng) for _ in range(n)] + [gen_script(rng, malformed=True) for _ in range(n // 10)]
    nrand = len(scripts)
    small = enum_scripts(4 if tier == "quick" else 5)
    scripts += small
    bad, hl = compare(scripts)
    ops = {}
    for s in scripts:
        for l in s:
            key = " ".join(l.split()[:2]) if l.startswith("new") else l.split()[0]
            ops[key] = ops.get(key, 0) + 1
    nbad = sum(1 for l in hl if l == "bad-op")
    info = {"level": "L-lazy (real Lazy with counting thunks that force the lazies they captured vs Model/LazyHeap.lean: value and per-cell run counters after every force; malformed stream: both sides must refuse the same lines)",
            "scripts": len(scripts), "random_scripts": nrand, "exhaustive_small_scope_scripts": len(small),
            "small_scope": f"every sequence of {4 if tier == 'quick' else 5} operations (constant / unary / binary thunk over every choice of live handles, clone, force, drop), then every surviving handle forced twice",
            "disagreements": len(bad), "op_distribution": ops, "refused_lines": nbad, "sample": " ; ".join(scripts[0])}
    hit = impl_predicate(scripts, hl)
    info["impl_thunk_rerun_or_unstable_value"] = 1 if hit else 0
    if hit:
        k, j, what = hit
        cur = scripts[k][: j + 1]
        return info, {"what": "on the real Lazy " + what, "found_input": True, "signature": " ; ".join(cur),
                      "replay_text": "# L-lazy script on the real Lazy: " + what + "\n" + "\n".join(cur) + "\n"}
    if bad:
        k, j, h, m = bad[0]
        cur = minimise(list(scripts[k][: j + 1]))
        return info, {"what": f"Model/LazyHeap.lean and the real Lazy disagree ({len(bad)} scripts): impl `{h}` model `{m}`", "found_input": False, "signature": None,
                      "replay_text": "correspondence L-lazy (Model/LazyHeap.lean vs src/impl_/lazy.rs) no longer checks; the LazyHeap theorems (runs_le_one, force_returns_den, clones_agree ...) no longer apply to the code\n"
                                     f"# first disagreement: impl `{h}` model `{m}`\n" + "\n".join(cur) + "\n"}
    return info, None


def replay(path):
    lines = [l for l in open(path).read().split("\n") if l.strip() and not l.startswith("#") and not l.startswith("correspondence")]
    bad, hl = compare([lines])
    hit = impl_predicate([lines], hl)
    for l, o in zip(lines, hl): print(f"{l:24s} -> {o}")
    if hit: print("REPRODUCED: " + hit[2]); return 1
    if bad: print(f"REPRODUCED: impl `{bad[0][2]}` model `{bad[0][3]}`"); return 1
    print("not reproduced"); return 0
