"""C09 metamorphic check (implementation only, no oracle): a program and a variant that differs only in
the order of independent definitions / listener registrations, in extra clones and drops of unused handles and
in explicit collections must deliver the same event sequence to every listener and the same samples."""
import random, re
from common import *
import apigen, c_api


def units(lines):
    """split a script into units: a begin…end block is one unit"""
    out, i = [], 0
    while i < len(lines):
        if lines[i] == "begin":
            d, j = 1, i + 1
            while j < len(lines) and d:
                if lines[j] == "begin": d += 1
                elif lines[j] == "end": d -= 1
                j += 1
            out.append(lines[i:j]); i = j
        else:
            out.append([lines[i]]); i += 1
    return out


DEFS = {"ssink", "ssinkc", "csink", "const", "never", "map", "mapto", "filter", "filteropt", "merge", "orelse", "snapshot", "snapshot1", "snapshotn", "snaplazy", "snapmapc", "gate",
        "hold", "holdlazy", "once", "updates", "value", "mapc", "lift2", "lift2d", "liftn", "accum", "collect", "defer", "split", "switchs", "switchc", "switchlate", "switchlatec", "latelisten", "router", "route",
        "mklazy", "sloop", "cloop", "sloopclose", "cloopclose", "lazy", "accumlazy", "collectlazy"}


def unit_kind(u):
    ws = [l.split()[0] for l in u]
    if all(w in DEFS or w in ("begin", "end") for w in ws): return "def"
    if len(u) == 1 and ws[0] in ("listen",): return "listen"
    return "other"


def defined_and_used(u):
    defined, used = set(), set()
    for l in u:
        w = l.split()
        if w[0] in ("begin", "end"): continue
        if w[0] in ("sloopclose", "cloopclose"): used.update(w[1:]); continue
        defined.add(w[1])
        used.update(x for x in w[2:] if not re.fullmatch(r"-?\d+", x))
    return defined, used - defined


def variant(rng, lines):
    us = units(lines)
    # leading run of definition units, then the run of listen units
    k = 0
    while k < len(us) and unit_kind(us[k]) == "def": k += 1
    defs = us[:k]
    m = k
    while m < len(us) and unit_kind(us[m]) == "listen": m += 1
    lis, rest = us[k:m], us[m:]
    # random topological order of the definition units (value/once/defer are creation-time sensitive only inside
    # sending transactions, and these units are all outside)
    info = [defined_and_used(u) for u in defs]
    done, order, remaining = set(), [], list(range(len(defs)))
    while remaining:
        ready = [i for i in remaining if info[i][1] <= done or not (info[i][1] - done) & set().union(*[info[j][0] for j in remaining])]
        i = rng.choice(ready) if ready else remaining[0]
        order.append(i); remaining.remove(i); done |= info[i][0]
    new = [l for i in order for l in defs[i]]
    rng.shuffle(lis)
    new += [l for u in lis for l in u]
    # extra clones / drops of unused handles and collections between the remaining units
    names = [n for d, _ in info for n in d if n[0] in "sc"]
    k2 = 0
    # a handle that is no longer needed may be dropped later as well: postpone some drops to the end
    late = []
    kept = []
    for u in rest:
        if len(u) == 1 and u[0].startswith("drop ") and rng.random() < 0.5: late.append(u)
        else: kept.append(u)
    rest = kept + late
    for u in rest:
        if len(u) == 1 and rng.random() < 0.3 and names:
            x = rng.choice(names); k2 += 1
            new += [f"clone y{k2} {x}", f"drop y{k2}"]
        if len(u) == 1 and rng.random() < 0.2: new.append("gc")
        new += u
    return new


def per_listener(script, out):
    seqs, samples = {}, []
    for l, o in zip(script, out):
        if " | cb " in o:
            for item in o.split(" | cb ", 1)[1].split():
                n, v = item.split("=")
                seqs.setdefault(n, []).append(v)
        if l.startswith("sample ") or l.startswith("force "): samples.append(o.split(" | ")[0])
        if o.startswith("PANIC"): samples.append(o.split(" | ")[0][:20])
        if o.startswith("HANG") and "HANG" not in samples: samples.append("HANG")      # a hang is one outcome, not one per line
    return seqs, samples


def check(tier, seed):
    rng = random.Random(seed * 97 + 9)
    n = 1200 if tier == "quick" else 15000
    prof = apigen.profile(n_defs=(5, 12), n_listen=(2, 5), samples=0.4, max_defer=1, unlisten=0.0, obs=0.0,
                          rerequest=0.3, weights=dict(defer=1.5, switchs=1.5, switchc=0.7, switchlate=1.5, switchlatec=1.5, latelisten=1.5, lift2=2, accum=1.5, hold=3, merge=5, once=1, sloop=0.5, cloop=0.5, router=0.5))
    # one or two sinks feeding selectors and candidate cells at different depths: every send switches and updates
    # the old and the new inner cell at once
    fan = apigen.profile(n_defs=(8, 16), n_listen=(2, 4), samples=0.5, unlisten=0.0, obs=0.0, n_txn=(4, 10),
                         weights=dict(ssink=0.6, ssinkc=0, csink=0.3, const=0, never=0, map=7, filter=1.5, hold=6, switchc=4, switchs=1.5, switchlate=2.5, switchlatec=3, mapc=1.5, merge=1,
                                      snapshot=1, lift2=0.7, accum=0.3, collect=0, once=0, gate=0.3, value=0.5, updates=1, orelse=0.5, snapshotn=0, liftn=0))
    base = [apigen.generate(rng, fan if k % 3 == 2 else prof) for k in range(n)]
    var = [variant(rng, b) for b in base]
    ra, _, _ = c_api.api_run(base)
    rb, _, _ = c_api.api_run(var)
    bad = []
    for k in range(n):
        a = per_listener(base[k], ra[k][0]); b = per_listener(var[k], rb[k][0])
        if a != b: bad.append(k)
    return base, var, ra, rb, bad
