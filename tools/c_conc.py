"""C20: forced schedules on one shared context. The model M_conc (Model/Conc.lean) must predict the real
outcome of every enumerated schedule (two real threads, baton passing at the library's schedule points);
every schedule is then classified against the property itself on the implementation's outcome."""
import random, re
from common import *

SCENARIOS = {
    "distinct-sinks": ("conc 2", ["0:1", "1:2"]),
    "same-sink": ("conc 1", ["0:1", "0:2"]),
    "two-then-one": ("conc 2", ["0:1,0:3", "1:2"]),
    "same-sink-one-then-two": ("conc 1", ["0:1", "0:2,0:3"]),
}


def schedules(tier, rng):
    out = []
    A = range(0, 21) if tier == "thorough" else range(0, 21, 1)
    C = range(0, 22, 3) if tier == "thorough" else (0, 3, 20)
    for a in A:
        for b in range(0, 21):
            for c in C:
                out.append([0] * a + [1] * b + [0] * c)
    for _ in range(300 if tier == "quick" else 5000):
        out.append([rng.randrange(2) for _ in range(rng.randint(5, 45))])
    return out


def classify(scn, sends, line):
    """the property on the implementation's outcome: every send delivered exactly once, no panic, context idle"""
    m = re.match(r"delivered=(\S*) depth=(\d+) cn=(\d+) pp=(\d+) po=(\d+) firing=(\d+)(.*)", line)
    if not m: return "unparsed:" + line[:40]
    deliv = [x for x in m.group(1).split(",") if x]
    want = sorted(s for p in sends for s in p.split(",") if s)
    got = sorted(deliv)
    tags = []
    if "PANIC" in m.group(7): tags.append("panic")
    if "HUNG" in m.group(7): tags.append("hung")
    if got != want:
        lost = [w for w in want if w not in got]
        extra = list(got)
        for w in want:
            if w in extra: extra.remove(w)
        if lost: tags.append("lost")
        if extra: tags.append("duplicate")
    if int(m.group(2)) or int(m.group(3)) or int(m.group(4)) or int(m.group(5)) or int(m.group(6)):
        tags.append("residue")
    return "+".join(tags) if tags else "ok"


def check(tier, seed):
    rng = random.Random(seed * 17 + 20)
    scheds = schedules(tier, rng)
    lines, meta = [], []
    for scn, (head, sends) in SCENARIOS.items():
        for sc in scheds:
            lines.append(f"{head} | " + " | ".join(sends) + " | " + ",".join(map(str, sc))); meta.append((scn, sends, sc))
    text = "\n".join(lines) + "\n"
    hl, ml, rc, herr = run_pair("conc", text, timeout=3000)
    disagree = [(k, hl[k], ml[k]) for k in range(len(lines)) if (hl[k] if k < len(hl) else "") != (ml[k] if k < len(ml) else "")]
    classes = {}
    for k, (scn, sends, sc) in enumerate(meta):
        c = classify(scn, sends, hl[k] if k < len(hl) else "")
        if c != "ok":
            key = f"{scn}:{c}"
            if key not in classes or len(sc) < len(classes[key][1]): classes[key] = (k, sc)
    viols = []
    for key, (k, sc) in sorted(classes.items()):
        viols.append({"what": f"shared context, scenario/outcome `{key}`: {hl[k]}", "found_input": True, "signature": key,
                      "replay_text": f"# C20 violated on real threads under a forced schedule; class {key}\n# outcome: {hl[k]}\n{lines[k]}\n"})
    # a schedule on which the implementation violates the property although the model of the unchanged library
    # predicts a clean outcome is a NEW failing schedule, whatever class it falls into
    newbad = [(k, h, m) for (k, h, m) in disagree if classify(meta[k][0], meta[k][1], h) != "ok" and classify(meta[k][0], meta[k][1], m) == "ok"]
    if newbad:
        k, h, m = min(newbad, key=lambda x: len(meta[x[0]][2]))
        viols.append({"what": f"{len(newbad)} schedules on which the library now violates C20 although M_conc (the unchanged library) delivers everything: `{h}`", "found_input": True,
                      "signature": "schedule:" + lines[k],
                      "replay_text": f"# C20 violated on real threads under a forced schedule on which the unchanged library is correct\n# implementation: {h}\n# model       : {m}\n{lines[k]}\n"})
    if disagree:
        k, h, m = disagree[0]
        viols.append({"what": f"M_conc does not predict the real outcome of {len(disagree)} schedules: impl `{h}` model `{m}`", "found_input": False, "signature": None,
                      "replay_text": "correspondence (Model/Conc.lean vs real threads under forced schedules) no longer checks; the witnesses of Props/C20.lean no longer describe the code\n"
                                     f"# impl `{h}`\n# model `{m}`\n{lines[k]}\n"})
    # unforced real threads: thread B only clones and drops handles while thread A sends (the collector's marks are plain
    # cells shared under `unsafe impl Sync`); the OS scheduler decides, so the outcome may differ from run to run
    races = []
    for _ in range(3 if tier == "quick" else 10):
        try:
            rc2, out2, err2 = run([HBIN, "gcrace", "2000"], stdin=b"", timeout=120)
        except Exception as e:
            rc2, out2, err2 = 124, "", "timeout"
        line = next((l for l in out2.splitlines() if l.startswith("gcrace=")), f"gcrace=died rc={rc2} {err2.strip()[-160:]}")
        races.append(line)
    badrace = [l for l in races if not l.startswith("gcrace=ok")]
    if badrace:
        viols.append({"what": f"handles cloned and dropped on a second thread while the first sends ({len(badrace)} of {len(races)} runs): {badrace[0]}", "found_input": True,
                      "signature": "gc-race:clone-drop-vs-collect",
                      "replay_text": "# harness gcrace 2000: thread B clones and drops handles of a 100-stage chain (no transaction, no send) while thread A sends 2000 events;\n"
                                     "# not a forced schedule: repeat if the race does not show\n# outcome: " + badrace[0] + "\ngcrace 2000\n"})
    # every handle type must be Send + Sync
    try:
        rc3, out3, err3 = run([HBIN, "api"], stdin=b"sendsync\n", timeout=60)
    except Exception as e:
        rc3, out3, err3 = 124, "", "timeout"
    ss_line = out3.strip().splitlines()[0] if out3.strip() else f"no answer (rc={rc3})"
    if ss_line != "sendsync=ok":
        viols.append({"what": f"not every handle type is Send + Sync: {ss_line}", "found_input": True, "signature": "sendsync:" + ss_line,
                      "replay_text": "# harness api, op `sendsync`: " + ss_line + "\nsendsync\n"})
    bad = sum(1 for k, (scn, sends, sc) in enumerate(meta) if classify(scn, sends, hl[k] if k < len(hl) else "") != "ok")
    cov = {"evaluations": len(lines), "distinct_nontrivial": len({tuple(sc) for sc in scheds if 0 in sc and 1 in sc}),
           "rule": "schedules = every (a,b,c) block schedule `0^a 1^b 0^c` (then lowest unfinished thread) plus random schedules, for three scenarios (two threads on distinct sinks / on the same sink / two sends vs one); each forced on real threads with a baton at the library's schedule points and predicted by M_conc; non-trivial = both threads appear in the schedule",
           "samples": [lines[0], lines[len(lines) // 2]],
           "correspondence": {"level": "forced schedules (harness conc) vs M_conc", "schedules": len(lines), "model_vs_impl_disagreements": len(disagree),
                              "schedules_violating_C20_on_impl": bad, "violation_classes": sorted(classes.keys())},
           "unforced_thread_runs": races, "send_sync": ss_line}
    return {"coverage": cov, "violations": viols, "summary": f"schedules={len(lines)} model_disagreements={len(disagree)} violating={bad} classes={sorted(classes.keys())}"}


def replay(path):
    raw = [l.strip() for l in open(path) if l.strip() and not l.startswith("#")]
    if any(l.startswith("gcrace") for l in raw):
        rc, out, err = run([HBIN, "gcrace"] + raw[0].split()[1:], stdin=b"", timeout=120)
        print(out.strip() or f"died rc={rc} {err.strip()[-200:]}")
        return 0 if out.strip().startswith("gcrace=ok") else 1
    if raw == ["sendsync"]:
        rc, out, err = run([HBIN, "api"], stdin=b"sendsync\n", timeout=60)
        print(out.strip()); return 0 if out.strip() == "sendsync=ok" else 1
    ls = [l.strip() for l in open(path) if l.strip().startswith("conc")]
    text = "\n".join(ls) + "\n"
    hl, ml, rc, herr = run_pair("conc", text)
    badf = False
    for l, h, m in zip(ls, hl, ml):
        print(l); print("  impl :", h); print("  model:", m)
        if h != m or "lost" in classify("", [p.strip() for p in l.split("|")[1:-1]], h): badf = True
    return 1 if badf else 0
