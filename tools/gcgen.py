"""Generators of raw collector scripts (L-gc)."""
import random


def random_history(rng, max_obj=6, max_ops=40, malformed=False):
    """mostly-valid history biased towards building cycles, dropping them and collecting"""
    n = 0
    handles = []
    ops = []
    nops = rng.randint(4, max_ops)
    for _ in range(nops):
        r = rng.random()
        if n == 0 or (r < 0.12 and n < max_obj):
            ops.append("new"); handles.append(1); n += 1; continue
        a = rng.randrange(n); b = rng.randrange(n)
        if r < 0.40:
            ops.append(f"edge {a} {b}")
        elif r < 0.58:
            live = [i for i in range(n) if handles[i] > 0]
            if live and rng.random() < 0.9: a = rng.choice(live)
            ops.append(f"dec {a}")
            if handles[a] > 0: handles[a] -= 1
        elif r < 0.66:
            ops.append(f"inc {a}")
            if handles[a] > 0: handles[a] += 1
        elif r < 0.78:
            ops.append("collect")
        elif r < 0.86:
            ops.append(f"unedge {a} {b}")
        elif r < 0.90:
            ops.append(f"updrop {a}")
        elif r < 0.95:
            ops.append(f"deref {a} {b}")
        elif malformed:
            ops.append(rng.choice([f"tedge {a} {b}", f"oedge {a} {b}"]))
        else:
            ops.append(f"edge {a} {a}" if rng.random() < 0.5 else f"edge {a} {b}")
    ops.append("collect")
    return ops


def is_nontrivial(ops):
    """a history is non-trivial if it creates an edge, drops a handle and collects afterwards"""
    e = any(o.startswith("edge") for o in ops)
    d = [i for i, o in enumerate(ops) if o.startswith("dec")]
    c = [i for i, o in enumerate(ops) if o == "collect"]
    return bool(e and d and c and c[-1] > d[0])


# ---------- graph families for C16 (cost) ----------
def family(kind, k, roots_choice, rng=None):
    """returns ops (brief mode) building the family with k units, then dropping handles so that the
    chosen objects become buffered candidate roots, then one `collect`.
    kinds: ladder (k diamonds stacked), fan (one hub, k leaves), chain (k nodes), ring (cycle of k),
    ladder_cyc (ladder closed into a cycle), fan_in (k parents of one child), shared (random DAG
    with heavy sharing).
    roots_choice: 'all' (drop every handle: everything garbage), 'top' (drop only the top: garbage
    hangs off one root), 'keep_bottom' (drop all but the bottom-most: nothing cyclic is garbage but
    everything is traversed), 'keep_top' (drop all but the top: everything stays reachable)."""
    ops = ["brief"]
    edges = []
    n = 0
    if kind in ("ladder", "ladder_cyc"):
        # level i: nodes top_i ; diamond: t_i -> l_i, t_i -> r_i, l_i -> t_{i+1}, r_i -> t_{i+1}
        n = 3 * k + 1
        t = lambda i: 3 * i
        for i in range(k):
            edges += [(t(i), t(i) + 1), (t(i), t(i) + 2), (t(i) + 1, t(i + 1)), (t(i) + 2, t(i + 1))]
        if kind == "ladder_cyc":
            edges.append((t(k), t(0)))
        top, bottom = 0, t(k)
    elif kind == "fan":
        n = k + 1
        edges = [(0, i) for i in range(1, k + 1)]
        top, bottom = 0, k
    elif kind == "fan_in":
        n = k + 1
        edges = [(i, 0) for i in range(1, k + 1)]
        top, bottom = 1, 0
    elif kind == "chain":
        n = k + 1
        edges = [(i, i + 1) for i in range(k)]
        top, bottom = 0, k
    elif kind == "ring":
        n = k + 1
        edges = [(i, (i + 1) % n) for i in range(n)]
        top, bottom = 0, k
    elif kind == "hub":
        # a hub (object 0) with k children, referenced by every member of a ring of k objects: when the ring is garbage and
        # the hub is held, the hub is reached once per ring member — its children must still be traced only O(1) times
        n = 2 * k + 1
        edges = [(0, i) for i in range(1, k + 1)]
        ring = list(range(k + 1, 2 * k + 1))
        for j, r in enumerate(ring):
            edges.append((r, ring[(j + 1) % k])); edges.append((r, 0))
        top, bottom = k + 1, 0
    elif kind == "shared":
        n = k + 1
        for i in range(n):
            for _ in range(3):
                j = rng.randrange(i + 1, n) if i + 1 < n else None
                if j is not None: edges.append((i, j))
        if rng.random() < 0.5: edges.append((n - 1, 0))
        top, bottom = 0, n - 1
    else:
        raise ValueError(kind)
    ops += ["new"] * n
    ops += [f"edge {a} {b}" for a, b in edges]
    if roots_choice == "all":
        drop = list(range(n))
    elif roots_choice == "top":
        # keep a handle on nothing but drop only top first, others afterwards in reverse: every object buffered
        drop = [top] + [i for i in range(n - 1, -1, -1) if i != top]
    elif roots_choice == "only_top":
        # a single candidate root above the whole shared structure, everything below still held
        drop = [top]
    elif roots_choice == "keep_bottom":
        drop = [i for i in range(n) if i != bottom]
    elif roots_choice == "keep_top":
        drop = [i for i in range(n) if i != top]
    else:
        raise ValueError(roots_choice)
    ops += [f"dec {i}" for i in drop]
    ops.append("collect")
    ops.append("collect")
    return ops, n, len(edges)
