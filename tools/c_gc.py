"""C08 / C16: collector-level checks (model M_gc, correspondence level L-gc)."""
import subprocess, os, random, re, time
from common import *
import gcgen

C08_THEOREMS = ['SodiumVerif.Gc.collect_sound', 'SodiumVerif.Gc.collect_frees_only_garbage', 'SodiumVerif.Gc.collect_counts_exact', 'SodiumVerif.Gc.onePass_sound', 'SodiumVerif.Gc.collect_dtor_once', 'SodiumVerif.GcScript.script_sound', 'SodiumVerif.GcScript.reachable_runOps', 'SodiumVerif.GcScript.dtor_once', 'SodiumVerif.Gc.gcinv_init', 'SodiumVerif.Gc.gcinv_newNode', 'SodiumVerif.Gc.gcinv_incRef', 'SodiumVerif.Gc.gcinv_decRef_handle', 'SodiumVerif.Gc.gcinv_addEdge', 'SodiumVerif.Gc.gcinv_delEdge', 'SodiumVerif.Gc.gcinv_upgradeDrop', 'SodiumVerif.Gc.ext_decRef_self', 'SodiumVerif.Gc.ext_addEdge', 'SodiumVerif.Gc.ext_delEdge', 'SodiumVerif.Gc.decRef_freed', 'SodiumVerif.Gc.incRef_count', 'SodiumVerif.Gc.collect_exact', 'SodiumVerif.Gc.collect_complete_total', 'SodiumVerif.Gc.collect_sound_total', 'SodiumVerif.GcScript.no_garbage_after_collect', 'SodiumVerif.GcScript.drop_all_collect_frees_all']
C16_THEOREMS = ['SodiumVerif.Gc.reset1_trace_calls_le', 'SodiumVerif.Gc.reset1_cost_le', 'SodiumVerif.Gc.reset2_cost_le', 'SodiumVerif.Gc.markGray_cost_le', 'SodiumVerif.Gc.scan_cost_le', 'SodiumVerif.Gc.scanBlack_cost_le', 'SodiumVerif.Gc.collectWhite_cost_le', 'SodiumVerif.Gc.displayGraph_cost_le', 'SodiumVerif.Gc.markRoots_trace_calls_le', 'SodiumVerif.Gc.scanRoots_trace_calls_le', "SodiumVerif.Gc.collectRoots_trace_calls_le'", 'SodiumVerif.Gc.free_no_trace', 'SodiumVerif.Gc.onePass_trace_calls_le', 'SodiumVerif.Gc.onePass_edge_calls_le', 'SodiumVerif.Gc.reset1_fuel', 'SodiumVerif.Gc.reset2_fuel', 'SodiumVerif.Gc.markGray_fuel', 'SodiumVerif.Gc.scan_fuel', 'SodiumVerif.Gc.collectWhite_fuel', 'SodiumVerif.Gc.markRoots_fuel', 'SodiumVerif.Gc.scanRoots_fuel', 'SodiumVerif.Gc.collectRoots_fuel', 'SodiumVerif.Gc.onePass_fuel', 'SodiumVerif.Gc.onePass_progress', 'SodiumVerif.Gc.collectCycles_terminates', 'SodiumVerif.Gc.collectCycles_trace_calls_le', 'SodiumVerif.Gc.collectCycles_edge_calls_le', 'SodiumVerif.Gc.second_pass_idle', 'SodiumVerif.Gc.two_passes_suffice', 'SodiumVerif.Gc.collect_passes_le_two', 'SodiumVerif.Gc.collect_frees_what_first_pass_frees', 'SodiumVerif.Gc.collect_cost_linear', 'SodiumVerif.Gc.collect_cost_linear_on', 'SodiumVerif.Gc.next_candidates_in']


def strip_truth(lines):
    out, fails = [], []
    for i, l in enumerate(lines):
        if "\tTRUTH-FAIL" in l:
            o, f = l.split("\tTRUTH-FAIL", 1)
            out.append(o); fails.append((i, f.strip()))
        else:
            out.append(l)
    return out, fails


def gc_compare(scripts, truth=True, counters=True, timeout=1200, mem_gb=None):
    """scripts: list of list-of-ops. Returns dict with disagreements and truth failures (per script index)."""
    text = "".join("\n".join(s) + "\n---\n" for s in scripts)
    hl, ml, rc, herr = run_pair("gc", text, harness_env={"GC_TRUTH": "1"} if truth else None, timeout=timeout, mem_gb=mem_gb)
    hl, fails = strip_truth(hl)
    if not counters:
        # the trace()/callback counters are the subject of C16 only
        hl = [re.sub(r" C:\d+/\d+", "", l) for l in hl]; ml = [re.sub(r" C:\d+/\d+", "", l) for l in ml]
    lines_in = text.split("\n")
    groups = split_scripts(lines_in[:-1] if lines_in[-1] == "" else lines_in, hl, ml)
    # map line index -> script index
    res = {"disagree": [], "truth": [], "harness_rc": rc, "harness_err": herr[-500:], "lines": len(lines_in)}
    starts, pos = [], 0
    for k, s in enumerate(scripts):
        starts.append(pos); pos += len(s) + 1
    import bisect
    for (i, f) in fails:
        k = bisect.bisect_right(starts, i) - 1
        res["truth"].append((k, i - starts[k], f))
    for k, (cs, ch, cm) in enumerate(groups):
        if ch != cm:
            j = next(j for j in range(len(cs)) if ch[j] != cm[j])
            res["disagree"].append((k, j, ch[j], cm[j]))
    if rc != 0 and not res["disagree"]:
        res["disagree"].append((-1, 0, f"harness exit {rc}: {herr[-300:]}", ""))
    return res


def shrink(script, still_fails):
    """greedy line deletion"""
    cur = list(script)
    changed = True
    while changed:
        changed = False
        for i in range(len(cur) - 1, -1, -1):
            cand = cur[:i] + cur[i + 1:]
            if cand and still_fails(cand):
                cur = cand; changed = True
    return cur


def corpus_scripts(sub):
    d = os.path.join(CORPUS, sub)
    out = []
    if os.path.isdir(d):
        for f in sorted(os.listdir(d)):
            ops = [l.strip() for l in open(os.path.join(d, f)) if l.strip() and not l.startswith("#")]
            out.append((f, ops))
    return out


def check_c08(tier, seed):
    rng = random.Random(seed)
    t0 = time.time()
    cov = {}
    violations = []  # (replay_path, suffix)
    corp = corpus_scripts("gc")
    scripts = [ops for _, ops in corp]
    nrand = 4000 if tier == "quick" else 200000
    for i in range(nrand):
        scripts.append(gcgen.random_history(rng, max_obj=rng.choice([2, 3, 4, 6]), max_ops=rng.choice([12, 25, 40]),
                                            malformed=(i % 10 == 9)))
    res = gc_compare(scripts, counters=False)
    distinct = len({tuple(s) for s in scripts if gcgen.is_nontrivial(s)})
    cov.update(evaluations=len(scripts), distinct_nontrivial=distinct,
               rule="random collector histories over <=6 synthetic objects (10% with contract-violating tedge/oedge lines) + corpus; "
                    "non-trivial = creates an edge, drops a handle and collects afterwards; distinct by op list",
               samples=[" ; ".join(scripts[len(corp)]), " ; ".join(scripts[-1])],
               correspondence={"level": "L-gc", "scripts": len(scripts), "lines": res["lines"],
                               "model_vs_impl_disagreements": len(res["disagree"]),
                               "impl_vs_ground_truth_failures": len(res["truth"])})
    exhaustive = None
    if tier == "thorough" or os.environ.get("VERIF_GC_ENUM"):
        exhaustive = []
        for (nobj, ln) in ([(3, 7), (2, 8), (3, 8)] if tier == "thorough" else [(2, 6)]):
            sp, op, mp = (os.path.join(WORK, f"enum{nobj}_{ln}.{e}") for e in ("gc", "h", "m"))
            rc, out, err = run([HBIN, "gc-enum", str(nobj), str(ln), sp, op], timeout=3000)
            st = json.loads(out.strip().replace("None", "null")) if rc == 0 else {"error": err[-300:]}
            with open(sp, "rb") as fi, open(mp, "wb") as fo:
                rc2 = subprocess.run([DRIVER, "gc"], stdin=fi, stdout=fo, timeout=3000).returncode
            strip = lambda t: re.sub(r" C:\d+/\d+", "", t)
            # line-by-line comparison (the files are gigabytes)
            same, j = (rc2 == 0), 0
            first = None
            if same:
                with open(op) as fh, open(mp) as fm:
                    for j, (a, b) in enumerate(zip(fh, fm)):
                        if a != b and strip(a) != strip(b):
                            same = False; first = (j, a.rstrip("\n"), b.rstrip("\n")); break
            st.update(nobj=nobj, length=ln, model_equal=same)
            exhaustive.append(st)
            if not same:
                j, h1, m1 = first if first else (0, "<model driver failed>", "")
                sl = []
                with open(sp) as fs:
                    for k, l in enumerate(fs):
                        l = l.rstrip("\n")
                        if k > j: break
                        sl = [] if l == "---" else sl + [l]
                scripts.append(sl)
                res["disagree"].append((len(scripts) - 1, len(sl) - 1, h1, m1))
            if st.get("truth_failures"):
                res["truth"].append((-2, 0, st.get("first_failure")))
            for p in (sp, op, mp):
                if os.path.exists(p): os.remove(p)
        cov["exhaustive_enumeration"] = exhaustive
        cov["exhaustive"] = True
    return cov, res, scripts, time.time() - t0


def check_c16(tier, seed):
    """yields, size tier by size tier (smallest first), (scripts, meta, compare-result): the caller stops at the
    first tier that violates the bound, so that a super-linear collector is never run on a big graph"""
    rng = random.Random(seed)
    sizes = [1, 2, 3, 4, 6, 8, 16, 32, 64] if tier == "quick" else [1, 2, 3, 4, 6, 8, 16, 32, 64, 128, 256, 512, 1024]
    kinds = ["ladder", "ladder_cyc", "fan", "fan_in", "chain", "ring", "hub", "shared"]
    choices = ["all", "top", "only_top", "keep_bottom", "keep_top"]
    for k in sizes:
        scripts, meta = [], []
        for kind in kinds:
            for ch in choices:
                ops, n, e = gcgen.family(kind, k, ch, rng)
                scripts.append(ops); meta.append((kind, ch, k, n, e))
        res = gc_compare(scripts, truth=False, timeout=120 if k <= 64 else 900, mem_gb=6)
        yield scripts, meta, res
