#!/usr/bin/env python3
"""Regenerates lean/SodiumVerif/Gen/Facts.lean from /repo/src on every run: a shallow, lexical
inventory (comments, tests and verif_hooks items stripped) of the few structural facts the Lean
models take as parameters: global state, unsafe impls, the phase order of end_of_transaction and
the queue on which each primitive pushes its closures."""
import os, re, sys

REPO_ROOT = os.environ.get("VERIF_REPO") or "/repo"
REPO_SRC = REPO_ROOT + "/src"
OUT = os.path.join(os.path.dirname(os.path.dirname(os.path.abspath(__file__))), "lean", "SodiumVerif", "Gen", "Facts.lean")


def strip(src):
    src = re.sub(r"/\*.*?\*/", "", src, flags=re.S)
    src = re.sub(r"//[^\n]*", "", src)
    # drop items guarded by cfg(feature = "verif_hooks") or cfg(test): attribute + following item/statement/block
    out, i = [], 0
    pat = re.compile(r'#\[cfg\((?:feature\s*=\s*"verif_hooks"|test)\)\]')
    while True:
        m = pat.search(src, i)
        if not m:
            out.append(src[i:]); break
        out.append(src[i:m.start()])
        j = m.end()
        # skip to end of the guarded item: up to the matching '}' of the first '{' or the first ';' at depth 0
        depth = 0; k = j
        while k < len(src):
            c = src[k]
            if c == "{": depth += 1
            elif c == "}":
                depth -= 1
                if depth == 0: k += 1; break
                if depth < 0: break
            elif c == ";" and depth == 0: k += 1; break
            elif c == "," and depth == 0 and "\n" in src[j:k] : k += 1; break
            k += 1
        i = k
    return "".join(out)


def body_of(src, header_regex):
    m = re.search(header_regex, src)
    if not m: return None
    i = src.index("{", m.end() - 1) if src[m.end() - 1] != "{" else m.end() - 1
    depth = 0
    for k in range(i, len(src)):
        if src[k] == "{": depth += 1
        elif src[k] == "}":
            depth -= 1
            if depth == 0: return src[i:k + 1]
    return None


def first_order(body, names):
    pos = []
    for n in names:
        m = re.search(n[1], body)
        if m: pos.append((m.start(), n[0]))
    return [n for _, n in sorted(pos)]


def queue_in(body, after=None):
    """which of pre_eot / pre_post / post the body pushes on (first occurrence after marker)"""
    if body is None: return "?"
    if after:
        m = re.search(after, body)
        if m: body = body[m.end():]
    m = re.search(r"\.(pre_eot|pre_post|post)\s*\(", body)
    return m.group(1) if m else "none"


def main():
    files = {}
    for root, _, fs in os.walk(REPO_SRC):
        for f in sorted(fs):
            if f.endswith(".rs"):
                p = os.path.join(root, f); rel = os.path.relpath(p, REPO_ROOT)
                if rel.startswith("src/tests") or rel == "src/verif.rs": continue
                files[rel] = strip(open(p).read())
    statics, unsafes = [], []
    for rel, src in sorted(files.items()):
        for m in re.finditer(r"^\s*(?:pub\s+)?static\s+(?:mut\s+)?\w+|thread_local!|lazy_static!|OnceLock\s*<|OnceCell\s*<|static\s+ref\b", src, re.M):
            statics.append(f"{rel}: {m.group(0).strip()}")
        for m in re.finditer(r"unsafe\s+impl\s*(?:<[^>]*>)?\s*(\w+)\s+for\s+(\w+)", src):
            unsafes.append(f"{rel}: unsafe impl {m.group(1)} for {m.group(2)}")
    ctx = files.get("src/impl_/sodium_ctx.rs", "")
    eot = body_of(ctx, r"pub fn end_of_transaction\s*\(&self\)\s*\{") or ""
    # (the pre_eot queue is drained by a helper since R12: it counts as the pre_eot phase if it really takes that queue)
    pre_eot_fn = body_of(ctx, r"fn run_pre_eot\s*\(&self\)\s*\{") or ""
    pre_eot_pat = r"data\.pre_eot" + (r"|self\.run_pre_eot\s*\(" if re.search(r"data\.pre_eot", pre_eot_fn) else "")
    phases = first_order(eot, [("pre_eot", pre_eot_pat), ("changed_nodes", r"data\.changed_nodes"), ("pre_post", r"data\.pre_post"),
                               ("post", r"data\.post\b"), ("collect_cycles", r"collect_cycles\s*\(")])
    upd = body_of(ctx, r"pub fn update_node\s*\(&self, node: &Node\)\s*\{") or ""
    dependents = "queue" if re.search(r"add_dependents_to_changed_nodes\s*\(", upd) and not re.search(r"_self\.update_node\(dependent", upd) else "dfs"
    leave = body_of(ctx, r"pub fn leave_transaction\s*\(&self\)\s*\{") or ""
    outermost_only = bool(re.search(r"transaction_depth\s*-=\s*1", leave) and re.search(r"transaction_depth\s*==\s*0", leave) and re.search(r"if\s+is_end_of_transaction\s*\{\s*self\.end_of_transaction\(\)", leave))
    cell = files.get("src/impl_/cell.rs", "")
    stream = files.get("src/impl_/stream.rs", "")
    cnew = body_of(cell, r"pub fn _new\s*\(sodium_ctx: &SodiumCtx, stream: Stream<A>, value: Lazy<A>\)[^{]*\{")
    hold_q = queue_in(cnew, after=r"if is_first\s*\{")
    once = body_of(stream, r"pub fn once\s*\(&self\)[^{]*\{")
    once_q = queue_in(once, after=r"_send\(firing\.clone\(\)\)")
    send = body_of(stream, r"pub fn _send\s*\(&self, a: A\)\s*\{")
    send_q = queue_in(send, after=r"if is_first\s*\{")
    defer = body_of(stream, r"pub fn defer\s*\(&self\)[^{]*\{")
    defer_q = queue_in(defer, after=r"listen_weak")
    split = body_of(stream, r"pub fn split\s*\(&self\)[^{]*\{")
    split_q = queue_in(split, after=r"listen_weak")
    snew = body_of(stream, r"pub fn _new<MkNode[^{]*\{")
    catch = "pre_eot" if snew and re.search(r"\.pre_eot\s*\(", snew) else ("changed_nodes" if snew and re.search(r"changed_nodes\.push", snew) else "none")
    pub = files.get("src/sodium_ctx.rs", "")
    ppost = body_of(pub, r"pub fn post<[^{]*\{") or ""
    post_txn = bool(re.search(r"transaction\s*\(", ppost))
    txo = files.get("src/impl_/transaction.rs", "")
    close = body_of(txo, r"pub fn close\s*\(&self\)\s*\{") or ""
    # the closed flag guards leave_transaction: either `if !done.get() { …; done.set(true) }` (a Cell) or the atomic
    # test-and-set `if !done.swap(true, …) { … }`
    close_once = bool((re.search(r"if\s*!self\.done\.get\(\)", close) and re.search(r"self\.done\.set\(true\)", close))
                      or re.search(r"if\s*!self\.done\.swap\(\s*true\s*,[^)]*\)\s*\{\s*self\.sodium_ctx\.leave_transaction\(\)", close))

    def L(xs): return "[" + ", ".join('"%s"' % x.replace('"', "'") for x in xs) + "]"
    def B(b): return "true" if b else "false"
    text = f"""/-
  GENERATED by tools/scan_source.py from /repo/src on every run of ./check — do not edit.
  A lexical inventory of structural facts of the current source; the Lean models take these as
  parameters and `Props/*` contain the `rfl`/`decide` obligations that compare them.
-/
namespace SodiumVerif
namespace Facts

/-- process-global mutable state in the library (C19): `static`, `thread_local!`, once-cells -/
def statics : List String := {L(statics)}
/-- `unsafe impl` inventory (C20 trusted base) -/
def unsafeImpls : List String := {L(unsafes)}
/-- order in which `end_of_transaction` first touches its queues -/
def eotPhases : List String := {L(phases)}
/-- `leave_transaction` decrements the depth and runs `end_of_transaction` only when it reaches 0 -/
def outermostLeaveOnly : Bool := {B(outermost_only)}
/-- scoped `Transaction::close` is guarded by its `done` flag -/
def scopedCloseOnce : Bool := {B(close_once)}
/-- what `update_node` does with the dependents of a changed node -/
def updateNodeDependents : String := "{dependents}"
/-- how `Stream::_new` catches up with dependencies that already fired -/
def streamNewCatchUp : String := "{catch}"
/-- queue on which a hold schedules the commit of its new value -/
def holdCommitQueue : String := "{hold_q}"
/-- queue on which `once` schedules its detach -/
def onceDetachQueue : String := "{once_q}"
/-- queue on which `_send` schedules the clearing of the firing slot -/
def sendClearQueue : String := "{send_q}"
/-- queue on which `defer` / `split` schedule the re-emission -/
def deferQueue : String := "{defer_q}"
def splitQueue : String := "{split_q}"
/-- the public `SodiumCtx::post` opens a transaction around the push -/
def publicPostOpensTransaction : Bool := {B(post_txn)}

end Facts
end SodiumVerif
"""
    old = open(OUT).read() if os.path.exists(OUT) else None
    if old != text:
        os.makedirs(os.path.dirname(OUT), exist_ok=True)
        open(OUT, "w").write(text)
    if "--print" in sys.argv: print(text)


if __name__ == "__main__":
    main()
