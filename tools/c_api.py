"""API-level checks: the real library (harness api) against the specification S (driver spec)."""
import os, random, time, re
from common import *
import apigen


def api_run(scripts, timeout=3000):
    """returns per-script (impl_lines, spec_lines)"""
    text = "".join("\n".join(s) + "\n---\n" for s in scripts)
    hl, ml, rc, herr = run_pair("api", text, timeout=timeout, driver_mode="spec")
    out, pos = [], 0
    for s in scripts:
        n = len(s)
        out.append((hl[pos:pos + n], ml[pos:pos + n]))
        pos += n + 1
    return out, rc, herr


def ignorable(h, m):
    return h.startswith("nodes=") and m.startswith("nodes=")


def first_diff(hl, ml):
    for j, (h, m) in enumerate(zip(hl, ml)):
        if h != m and not ignorable(h, m): return j
    if len(hl) != len(ml): return min(len(hl), len(ml))
    return None


def compare(scripts):
    runs, rc, herr = api_run(scripts)
    bad = []
    for k, (hl, ml) in enumerate(runs):
        j = first_diff(hl, ml)
        if j is not None:
            bad.append((k, j, hl[j] if j < len(hl) else "<missing>", ml[j] if j < len(ml) else "<missing>"))
    return runs, bad, rc, herr


def shrink(script, pred, max_trials=400):
    cur = list(script); trials = 0
    changed = True
    while changed and trials < max_trials:
        changed = False
        i = len(cur) - 1
        while i >= 0 and trials < max_trials:
            cand = cur[:i] + cur[i + 1:]
            trials += 1
            if cand and pred(cand):
                cur = cand; changed = True
            i -= 1
    return cur


def differs(script):
    runs, bad, rc, herr = compare([script])
    return bool(bad)


def corpus(sub="api"):
    d = os.path.join(CORPUS, sub); out = []
    if os.path.isdir(d):
        for f in sorted(os.listdir(d)):
            out.append((f, [l.strip() for l in open(os.path.join(d, f)) if l.strip() and not l.startswith("#")]))
    return out


def stats(scripts):
    ops = {}
    multi = 0; txns = 0
    for s in scripts:
        depth = 0; sends = set()
        for l in s:
            w = l.split()
            ops[w[0]] = ops.get(w[0], 0) + 1
            if w[0] in ("begin", "topen"): depth += 1
            if w[0] == "send": sends.add(w[1])
            if w[0] in ("end", "tclose", "tdrop") and depth > 0:
                depth -= 1
                if depth == 0:
                    txns += 1
                    if len(sends) >= 2: multi += 1
                    sends = set()
            if depth == 0 and w[0] == "send": txns += 1; sends = set()
    return {"ops": dict(sorted(ops.items(), key=lambda kv: -kv[1])), "sending_transactions": txns, "with_2plus_simultaneous_sinks": multi}


def replay(path):
    ops = [l.strip() for l in open(path) if l.strip() and not l.startswith("#") and not l.startswith("correspondence")]
    runs, bad, rc, herr = compare([ops])
    hl, ml = runs[0]
    for o, h, m in zip(ops, hl, ml):
        flag = "" if (h == m or ignorable(h, m)) else "   <-- differs from S"
        print(f"{o:34s} impl: {h}\n{'':34s} spec: {m}{flag}")
    return 1 if bad else 0
