"""API-level checks: the real library (harness api) against the specification S (driver spec)."""
import os, random, time, re
from common import *
import apigen


def api_run(scripts, timeout=3000):
    """returns per-script (impl_lines, spec_lines)"""
    text = "".join("\n".join(s) + "\n---\n" for s in scripts)
    hl, ml, rc, herr = run_pair("api", text, timeout=timeout, driver_mode="spec")
    out, pos = [], 0
    for s in scripts:
        n = len(s)
        out.append((hl[pos:pos + n], ml[pos:pos + n]))
        pos += n + 1
    return out, rc, herr


def ignorable(h, m):
    # `SKIPPED`: the harness stops running scripts after ten hangs (the hang itself is what gets reported)
    return (h.startswith("nodes=") and m.startswith("nodes=")) or h == "SKIPPED"


def first_diff(hl, ml):
    for j, (h, m) in enumerate(zip(hl, ml)):
        if h != m and not ignorable(h, m): return j
    if len(hl) != len(ml): return min(len(hl), len(ml))
    return None


def compare(scripts):
    runs, rc, herr = api_run(scripts)
    bad = []
    for k, (hl, ml) in enumerate(runs):
        j = first_diff(hl, ml)
        if j is not None:
            bad.append((k, j, hl[j] if j < len(hl) else "<missing>", ml[j] if j < len(ml) else "<missing>"))
    return runs, bad, rc, herr


def shrink(script, pred, max_trials=400):
    cur = list(script); trials = 0
    changed = True
    while changed and trials < max_trials:
        changed = False
        i = len(cur) - 1
        while i >= 0 and trials < max_trials:
            cand = cur[:i] + cur[i + 1:]
            trials += 1
            if cand and pred(cand):
                cur = cand; changed = True
            i -= 1
    return cur


def loops_wellformed(script):
    """every loop is created inside a transaction and closed before that transaction ends
    (the Sodium rule; the generator obeys it, the shrinker must not break it)"""
    dep = line_depths(script)
    open_loops = {}
    for j, l in enumerate(script):
        w = l.split()
        d_before = dep[j - 1] if j else 0
        if w[0] in ("sloop", "cloop") and len(w) == 2:
            if d_before == 0: return False
            open_loops[w[1]] = True
        if w[0] in ("sloopclose", "cloopclose") and len(w) == 3:
            open_loops[w[1]] = False
        if dep[j] == 0 and any(open_loops.values()): return False
    return not any(open_loops.values())


def differs(script):
    if not loops_wellformed(script): return False
    runs, bad, rc, herr = compare([script])
    return bool(bad)


def corpus(sub="api", pid=None):
    """corpus scripts; the first comment line names the properties a replay belongs to, e.g. `# D2 (C12/C09): …`"""
    d = os.path.join(CORPUS, sub); out = []
    if os.path.isdir(d):
        for f in sorted(os.listdir(d)):
            raw = open(os.path.join(d, f)).read().split("\n")
            props = set(re.findall(r"C\d\d", raw[0])) if raw and raw[0].startswith("#") else set()
            if pid is not None and props and pid not in props: continue
            out.append((f, [l.strip() for l in raw if l.strip() and not l.startswith("#")]))
    return out


def stats(scripts):
    ops = {}
    multi = 0; txns = 0
    for s in scripts:
        depth = 0; sends = set()
        for l in s:
            w = l.split()
            ops[w[0]] = ops.get(w[0], 0) + 1
            if w[0] in ("begin", "topen"): depth += 1
            if w[0] == "send": sends.add(w[1])
            if w[0] in ("end", "tclose", "tdrop") and depth > 0:
                depth -= 1
                if depth == 0:
                    txns += 1
                    if len(sends) >= 2: multi += 1
                    sends = set()
            if depth == 0 and w[0] == "send": txns += 1; sends = set()
    return {"ops": dict(sorted(ops.items(), key=lambda kv: -kv[1])), "sending_transactions": txns, "with_2plus_simultaneous_sinks": multi}


def replay(path):
    ops = [l.strip() for l in open(path) if l.strip() and not l.startswith("#") and not l.startswith("correspondence")]
    runs, bad, rc, herr = compare([ops])
    hl, ml = runs[0]
    for o, h, m in zip(ops, hl, ml):
        flag = "" if (h == m or ignorable(h, m)) else "   <-- differs from S"
        print(f"{o:34s} impl: {h}\n{'':34s} spec: {m}{flag}")
    # predicates judged on the implementation alone (S may agree with it: the known finding D27)
    msg = defer_order(ops, hl)
    if msg: print("implementation-only predicate:", msg)
    return 1 if (bad or msg) else 0


# ---------------------------------------------------------------------------------------------
# property profiles (generator settings biased towards each property's quantifier)
W = dict
PROFILES = {
    "C01": [("nesting", dict(intxn_defs=0.5, scoped=0.5, deep_nest=0.5, nest=0.8, unlisten=0.3, unlisten_in_txn=0.3, n_listen=(2, 5), obs=0.2)),
            ("carry-over", dict(n_defs=(4, 10), n_listen=(2, 5), max_defer=3, posts=0.2, nest=0.6, routehandler=0.7,
                                weights=W(defer=5, split=2, map=5, merge=6, orelse=2, snapshot=2, hold=2, gate=1, router=1.5))),
            ("late-listeners", dict(intxn_defs=0.8, nest=0.9, n_listen=(0, 2))),
            # a switch over freshly built streams constructed in the same transaction as the sends it must see
            ("dynamic-in-txn", dict(intxn_defs=0.9, nest=0.95, n_listen=(0, 2), n_defs=(3, 8), sends_per_txn=(1, 3),
                                    weights=W(switchdyn=5, switchlate=4, switchlatec=4, latelisten=3, handlerlisten=3, latehold=1.5, lateloop=1.5, switchnest=2,
                                              csink=4, ssink=3, map=3, hold=2, merge=2)))],
    "C02": [("streams", dict(n_defs=(4, 14), samples=0.1, self_merge=True,
                             weights=W(map=5, mapto=1, filter=3, filteropt=1, merge=6, orelse=2, snapshot=3, snapshot1=1, snapshotn=1.5, gate=2, once=2,
                                       hold=1.5, mapc=0.5, lift2=0.5, liftn=0, accum=0.5, collect=0.3, value=0.3, updates=1, ancestormerge=0.6))),
            ("streams-intxn", dict(n_defs=(3, 10), intxn_defs=0.5, self_merge=True, weights=W(once=3, merge=6, gate=2, switchlatec=1.5, switchlatecs=1.5, switchlate=1, latelisten=2.5, handlerlisten=2))),
            # events re-emitted by defer/split/post in transactions of their own, meeting streams derived from the same source
            ("streams-deferred", dict(n_defs=(5, 12), n_listen=(2, 5), max_defer=2, posts=0.2, nest=0.6, self_merge=True,
                                      weights=W(defer=5, split=2, map=5, filter=2, merge=7, orelse=3, snapshot=2, hold=1.5, gate=1, once=1)))],
    "C03": [("diamonds", dict(n_defs=(6, 16), sends_per_txn=(2, 4), samples=0.3, wfchecks=0.5, intxn_defs=0.3, n_listen=(2, 5),
                              weights=W(lift2=6, liftn=2, merge=6, snapshot=3, mapc=3, map=3, csink=4, ssink=4, hold=2, switchs=1, switchc=1, sloop=0.7, cloop=0.7, deepdiamond=0.25, ancestormerge=0.6))),
            # a deferred transaction right behind the one that spawned it: nothing of the first may be seen by the second
            ("diamonds-deferred", dict(n_defs=(6, 14), sends_per_txn=(1, 3), samples=0.3, n_listen=(2, 5), max_defer=2, posts=0.2,
                                       weights=W(defer=4, split=1.5, lift2=4, merge=7, orelse=2, snapshot=3, mapc=2, map=4, csink=3, ssink=4, hold=2)))],
    "C04": [("cells", dict(samples=0.9, n_txn=(5, 20), intxn_defs=0.4, hold_fired_in_txn=0.6, lazies=0.2, n_listen=(0, 2),
                           weights=W(hold=4, holdlazy=1.5, accum=3, collect=3, accumlazy=1.5, collectlazy=1, snaplazy=1.5, snapshot=4, csink=3, gate=1.5, mapc=1, lift2=1))),
            ("cells-deferred", dict(samples=0.6, n_txn=(4, 12), posts=0.4, max_defer=2, n_listen=(1, 3), sends_per_txn=(1, 3),
                                    weights=W(defer=4, split=2, hold=4, accum=3, collect=2, snapshot=5, snapshot1=1, csink=3, gate=1.5, map=2))),
            # cells built by a listener handler while the transaction propagates, on streams that fire in it
            ("cells-in-flight", dict(samples=0.5, n_txn=(4, 12), intxn_defs=0.4, sends_per_txn=(1, 3), n_listen=(0, 2),
                                     weights=W(latehold=6, hold=3, map=5, ssink=4, csink=2, merge=3, snapshot=2))),
    ],
    "C05": [("switch-dynamic", dict(n_defs=(4, 10), sends_per_txn=(1, 4), samples=0.3, wfchecks=0.2, intxn_defs=0.3, unused_base=0.6,
                                    weights=W(switchdyn=6, switchlate=4, switchlatec=5, switchlatecs=5, switchnest=4, lateswitch=3, lateswitchc=3, switchs=2, csink=5, ssink=4, hold=2, map=2, merge=2, snapshot=1))),
            ("switch-defer", dict(n_defs=(5, 11), sends_per_txn=(1, 4), max_defer=2, samples=0.3, wfchecks=0.3,
                                  weights=W(switchs=6, switchc=2, defer=5, split=1, csink=4, ssink=3, map=2, hold=2, merge=2))),
            ("switch", dict(n_defs=(5, 12), samples=0.5, intxn_defs=0.2, sends_per_txn=(1, 4),
                            weights=W(switchs=4, switchc=4, csink=4, hold=3, ssink=4, lift2=1, accum=1)))],
    "C10": [("listeners", dict(n_listen=(2, 6), unlisten=0.5, unlisten_in_txn=0.5, nest=0.8, intxn_defs=0.6, drops=0.3, gcs=0.3, weak=0.15,
                               unlisten_new_in_txn=0.4, listen_fired_in_txn=0.5, listenkills=0.5, weights=W(value=2, hold=3, csink=3, handlerlisten=3, laterouter=1.5))),
            ("listeners-handles-dropped", dict(n_listen=(3, 6), n_txn=(6, 14), unlisten=0.5, drop_listeners=0.6, drops=0.6, gcs=0.6, weights=W(value=1, hold=2, csink=2, map=3, merge=2)))],
    "C11": [("loops", dict(n_defs=(3, 9), samples=0.4, nested_cloops=0.5, early_loop_handle=0.4, sends_around_loop=0.35, weights=W(sloop=2.5, cloop=2.5, hold=3, snapshot=4, accum=1, merge=4, gate=1, lift2=2, mapc=2, lateloop=2))),
            ("loops-misuse", dict(n_defs=(3, 8), malformed=True, weights=W(sloop=2, cloop=2, hold=3, snapshot=3)))],
    "C12": [("defer-chains", dict(posts=0.3, samples=0.4, obs=0.4, max_defer=3, weights=W(defer=6, split=3, hold=3, csink=3, snapshot=4, snapshot1=2, once=1))),
            ("deferred", dict(posts=0.4, postsends=0.3, samples=0.4, sends_per_txn=(1, 4), weights=W(defer=4, split=3, hold=3, csink=3, snapshot=4, snapshot1=2, once=1.5, accum=1)))],
    "C13": [("lifts", dict(samples=0.9, n_defs=(5, 14), intxn_defs=0.3, sends_per_txn=(1, 4), lazies=0.2,
                           weights=W(mapc=5, lift2=6, liftn=3, csink=4, hold=3, ssink=2, updates=2, value=1, switchc=0.7, cloop=0.7, snapmapc=3, snaplazy=1)))],
    "C14": [("brackets-deferred", dict(scoped=0.6, deep_nest=0.5, nest=0.9, obs=0.7, max_defer=3, posts=0.3, weights=W(defer=5, split=3, hold=2, csink=2))),
            ("brackets", dict(scoped=0.7, deep_nest=0.7, nest=0.95, obs=0.6, intxn_defs=0.3, n_txn=(4, 10), malformed=False)),
            # "no stream still holds an event": a router must not keep what it dispatched beyond the transaction
            ("brackets-router", dict(scoped=0.4, nest=0.8, obs=0.4, n_txn=(5, 12), n_defs=(3, 8), routehandler=0.9, routelate=0.3, max_defer=1,
                                     weights=W(router=5, ssink=4, map=3, merge=2, hold=1))),
            # transactions opened by constructors that run inside the pre_eot phase of the outermost close (lazy thunks building FRP)
            ("brackets-dynamic", dict(intxn_defs=0.9, nest=0.95, scoped=0.3, obs=0.5, n_listen=(0, 2), n_defs=(3, 8), sends_per_txn=(1, 3),
                                      weights=W(switchdyn=5, switchlate=4, switchlatec=4, latelisten=2, latehold=2, switchnest=3, csink=4, ssink=3, map=3, hold=2, merge=2)))],
    "C15": [("sinks", dict(coalesce_sends=True, sends_per_txn=(1, 5), deep_nest=0.4, scoped=0.3, nest=0.8, samples=0.5, weights=W(ssinkc=6, csink=4, ssink=2, hold=3))),
            ("sinks-posted", dict(coalesce_sends=True, sends_per_txn=(1, 4), nest=0.9, samples=0.4, postsends=0.7, posts=0.2, max_defer=1,
                                  weights=W(ssinkc=7, csink=3, ssink=2, hold=3, merge=2, defer=1)))],
    "C17": [("lazies", dict(lazies=0.9, samples=0.3, n_txn=(4, 14), weights=W(mapc=4, lift2=3, liftn=1, holdlazy=3, hold=3, csink=4, accum=2, accumlazy=2, collectlazy=1, cloop=1, snaplazy=3, snapshot=2)))],
    "C18": [("router", dict(n_defs=(4, 10), drops=0.3, gcs=0.3, drop_routers=0.3, rerequest=0.3, routelate=0.5, routehandler=0.6, max_defer=2,
                            weights=W(router=5, route=4, laterouter=3, ssink=4, map=3, merge=3, hold=1, accum=1.5, collect=1)))],
    "C06": [("drops", dict(drops=0.8, gcs=0.5, memchecks=0.5, n_defs=(5, 14), n_txn=(4, 12),
                           weights=W(sloop=1.5, cloop=1.5, accum=2, collect=2, switchs=1.5, switchc=1, router=1, defer=1, lift2=2, lift2d=1.5, snapshotn=1, hold=3, snapshot=3))),
            # handles dropped by a listener handler, while the node they keep is queued for update
            ("drops-in-flight", dict(drops=0.4, gcs=0.4, memchecks=0.3, n_defs=(4, 10), n_txn=(3, 10), sends_per_txn=(1, 3),
                                     weights=W(leafdrop=6, map=4, merge=3, hold=2, ssink=4, csink=1, snapshot=1)))],
    "C07": [("periodic-switching", dict(n_defs=(4, 9), n_txn=(0, 2), n_listen=(1, 3), periodic=12, samples=0.0, obs=0.0, unlisten=0.0,
                                        weights=W(switchdyn=6, switchs=3, switchc=2, csink=5, ssink=4, hold=2, map=2, accum=1, router=1))),
            ("abandon-once-loops", dict(leakcheck=True, n_defs=(3, 8), n_txn=(1, 5), unlisten=0.2, no_switchc_in_loop=True,
                                        weights=W(sloop=5, cloop=2, once=5, snapshot=5, hold=4, accum=1.5, merge=2, map=1, ssink=3, csink=1))),
            ("abandon", dict(leakcheck=True, drops=0.4, gcs=0.3, memchecks=0.3, n_txn=(0, 6), unlisten=0.3, no_switchc_in_loop=True,
                             weights=W(sloop=1.5, cloop=1.5, accum=2, collect=2, switchs=1.5, switchc=1, router=1, defer=1, split=0.5, lift2=2, lift2d=1.5, hold=3, snapshot=3, mapc=2)))],
    "C09": [("switch-defer", dict(n_defs=(5, 11), sends_per_txn=(1, 4), max_defer=2, samples=0.3,
                                  weights=W(switchs=6, switchc=2, defer=5, split=1, csink=4, ssink=3, map=2, hold=2, merge=2, once=1))),
            ("reorder", dict(n_defs=(4, 12), samples=0.4, weights=W(defer=0.7, lift2=2, accum=1, switchs=0.5))),
            # graphs that grow while events flow: streams, cells and listeners built inside handlers
            ("built-in-flight", dict(n_defs=(4, 10), samples=0.5, sends_per_txn=(1, 3), n_listen=(1, 3),
                                     weights=W(switchlatec=6, switchlatecs=4, laterouter=2, switchlate=3, latelisten=4, handlerlisten=3, latehold=3, lateloop=2, leafdrop=2, switchnest=2, snapmapc=2,
                                               map=5, hold=2, csink=2, ssink=4, merge=2)))],
}


# lazies taken from CellLoops that are not closed yet (needs Def.holdz in S)
C11_LAZY = ("loops-lazy", dict(n_defs=(3, 9), samples=0.5, lazies=0.5, lazy_of_loops=True, n_txn=(3, 8),
                               weights=W(sloop=1, cloop=5, holdlazy=6, hold=3, snapshot=3, csink=3, mapc=2, lift2=1, merge=1)))
if os.path.exists(os.path.join(LEAN, "SodiumVerif", "Props", "C11c.lean")):
    PROFILES["C11"].insert(1, C11_LAZY)


def gen_scripts(pid, tier, seed, nquick=3000, nthorough=40000):
    rng = random.Random(seed * 7919 + int(pid[1:]))
    n = nquick if tier == "quick" else nthorough
    profs = PROFILES[pid]
    out, tags = [], []
    for k in range(n):
        name, kw = profs[k % len(profs)]
        kw = dict(kw)
        if k % 10 == 9 and not kw.get("leakcheck"): kw["malformed"] = True
        prof = apigen.profile(**kw)
        sc = apigen.generate(rng, prof)
        if not loops_wellformed(sc):
            # a malformed line broke the Sodium loop rule (loop closed in its defining transaction): out of scope of S
            kw["malformed"] = False
            sc = apigen.generate(rng, apigen.profile(**kw))
        out.append(sc); tags.append(name)
    return out, tags


def line_depths(script):
    """transaction depth after each line (well-bracketed scripts), following the script's own brackets"""
    d, out, open_t = 0, [], {}
    for l in script:
        w = l.split()
        if w[0] == "begin": d += 1
        elif w[0] == "end" and d > 0: d -= 1
        elif w[0] == "topen" and len(w) == 2 and w[1] not in open_t: open_t[w[1]] = True; d += 1
        elif w[0] in ("tclose", "tdrop") and len(w) == 2 and open_t.get(w[1]):
            open_t[w[1]] = False; d -= 1
        out.append(d)
    return out


def impl_predicates(pid, script, hl):
    """implementation-only failing-input predicates (no oracle). returns message or None"""
    for j, h in enumerate(hl):
        if h.startswith("HANG"): return f"line {j}: the library hangs"
        if h.startswith("PANIC") and not (h.endswith("looped-twice") or h.endswith("sample-before-loop")):
            return f"line {j}: the library panics: {h}"
    for j, h in enumerate(hl):
        if h.startswith("mem=BAD"): return f"line {j}: collector contract violated on the real graph: {h}"
        if h.startswith("wf=BAD"): return f"line {j}: the real node graph violates the scheduler theorem's hypotheses: {h}"
    if pid in ("C07",):
        counts = [int(h[6:]) for h in hl if h.startswith("nodes=") and h[6:].isdigit()]
        run_up = 0
        for a, b in zip(counts, counts[1:]):
            run_up = run_up + 1 if b > a else 0
            if run_up >= 6: return f"the number of live nodes grows with every repetition of the same transaction pattern: {counts}"
        for j, h in enumerate(hl):
            if h.startswith("leak=") and h != "leak=0": return f"line {j}: {h} nodes alive after everything was dropped and collected"
    if pid in ("C14", "C01"):
        for j, h in enumerate(hl):
            if h.startswith("idle ") and h != "idle cn=0 pp=0 po=0 ac=0 firing=0": return f"line {j}: context not quiescent at idle: {h}"
    if pid == "C01":
        dep = line_depths(script)
        for j, h in enumerate(hl):
            if " | cb " in h and dep[j] > 0: return f"line {j}: a listener ran while a transaction was still open: {h}"
    if pid in ("C17",):
        for j, h in enumerate(hl):
            if " runs=" in h and not h.endswith("runs=ok"): return f"line {j}: a lazy thunk ran more than once: {h}"
    if pid == "C12":
        msg = defer_order(script, hl)
        if msg: return msg
    return None


def defer_order(script, hl):
    """C12 'events of one source kept in order', judged on the implementation alone: for every `defer d s` with one listener on
    `s` and one on `d`, both registered before anything was sent and never unlistened, the values `d` delivers are the values
    `s` fired, in the same order"""
    first_send = next((j for j, l in enumerate(script) if l.split()[0] in ("send", "begin", "topen", "postsend")), len(script))
    lis = {}
    for j, l in enumerate(script):
        w = l.split()
        if w[0] == "listen" and len(w) == 3 and j < first_send: lis.setdefault(w[2], []).append(w[1])
    gone = {l.split()[1] for l in script if l.split()[0] in ("unlisten", "drop", "listenkill") and len(l.split()) >= 2}
    gone |= {l.split()[3] for l in script if l.split()[0] == "listenkill" and len(l.split()) == 4}
    seqs = {}
    for h in hl:
        i = h.find(" | cb ")
        if i < 0: continue
        for tok in h[i + 6:].split():
            if "=" in tok:
                n, v = tok.split("=", 1); seqs.setdefault(n, []).append(v)
    for j, l in enumerate(script):
        w = l.split()
        if w[0] == "defer" and len(w) == 3 and j < first_send:
            for ls in lis.get(w[2], []):
                for ld in lis.get(w[1], []):
                    if ls in gone or ld in gone: continue
                    a, b = seqs.get(ls, []), seqs.get(ld, [])
                    if a != b and sorted(a) == sorted(b):
                        return (f"[class defer-order-nested] `{l}`: the source fired {a} (listener {ls}), the deferred stream delivered {b} "
                                f"(listener {ld}): events of one source are not kept in order")
    return None


SMALL_SCOPE_DEEP = ("C02", "C04", "C05", "C13")     # thorough tier: every 3-definition program; others every 2-definition program


def small_scope(pid, tier):
    import apienum
    k = 3 if (tier == "thorough" and pid in SMALL_SCOPE_DEEP) else 2
    return k, list(apienum.programs(k, sample=True))


def run_api_prop(pid, tier, seed, extra_corpus=()):
    t0 = time.time()
    corp = [(f, s) for f, s in corpus("api", pid)]
    scripts = [s for _, s in corp]
    gen, tags = gen_scripts(pid, tier, seed)
    ssk, ss = small_scope(pid, tier)
    gen = gen + ss
    scripts += gen
    runs, bad, rc, herr = compare(scripts)
    viols = []
    # 1. implementation-only predicates (first hit, minimised)
    hits = []
    for k, (hl, ml) in enumerate(runs):
        msg = impl_predicates(pid, scripts[k], hl)
        if msg: hits.append((k, msg))
    # every corpus hit (they may be known findings) plus the first two generated ones
    # (a mechanism-class predicate only speaks for programs on which the library agrees with S; the others are reported below)
    differing = {k for (k, _, _, _) in bad}
    hits = [h for h in hits if not (h[1].startswith("[class ") and h[0] in differing)]
    hits = [h for h in hits if h[0] < len(corp)] + [h for h in hits if h[0] >= len(corp)][:2]
    hit = hits[0] if hits else None
    os.environ["API_SCRIPT_TIMEOUT_MS"] = "2000"
    seen_sigs = set()
    unreproduced = []
    def add(kind, k, msg, pred):
        if k < len(corp):
            s = scripts[k]; sig = "corpus/api/" + corp[k][0]       # a corpus replay is reported as it is
        else:
            if "hangs" in msg:
                # every trial on a hanging library costs its whole timeout: short timeout, few trials, first hang only
                if any("hangs" in v["what"] for v in viols): return
                os.environ["API_SCRIPT_TIMEOUT_MS"] = "700"
                s = shrink(scripts[k], pred, max_trials=120)
                os.environ["API_SCRIPT_TIMEOUT_MS"] = "2000"
            else:
                s = shrink(scripts[k], pred)
            sig = " ; ".join(s)
        if msg.startswith("[class "):
            sig = "class:" + msg[7:msg.index("]")]          # a finding identified by its mechanism (see known-findings.json)
        if sig in seen_sigs: return
        seen_sigs.add(sig)
        # every reported input is run once more on its own, in a fresh process and with a long hang budget: the library
        # is deterministic on one thread, so a defect shows again; what does not (a script starved past its time budget
        # on a loaded machine) is counted, not reported
        os.environ["API_SCRIPT_TIMEOUT_MS"] = "30000"
        r, b, _, _ = compare([s])
        os.environ["API_SCRIPT_TIMEOUT_MS"] = "2000"
        again = (impl_predicates(pid, s, r[0][0]) is not None) if kind.startswith("implementation-only") else bool(b)
        if not again:
            unreproduced.append(sig); return
        detail = ""
        if b: detail = f"\n# at `{s[b[0][1]]}`: implementation `{b[0][2]}`, specification S `{b[0][3]}`"
        viols.append({"what": msg, "found_input": True, "signature": sig,
                      "replay_text": f"# {kind}: {msg}{detail}\n" + "\n".join(s) + "\n"})
    for (k, msg) in hits:
        add("implementation-only predicate", k, msg, lambda c: loops_wellformed(c) and impl_predicates(pid, c, compare([c])[0][0][0]) is not None)
    # 2. implementation vs S (at most 3 distinct minimised disagreements)
    ngen = 0
    for (k, j, h, m) in bad:
        if h == "HANG" and k >= len(corp): continue      # a hang is reported (once) by the predicate above; shrinking one costs minutes
        if k >= len(corp):
            if ngen >= 3: break       # corpus mismatches (possibly known findings) never use up the quota
            ngen += 1
        add("implementation differs from the specification S", k, f"`{scripts[k][j] if j < len(scripts[k]) else '?'}`: implementation `{h}`, S `{m}`", differs)
    os.environ.pop("API_SCRIPT_TIMEOUT_MS", None)
    st = stats(gen)
    nontriv = len({tuple(s) for s in gen if any(l.startswith("send") for l in s) and any(l.startswith("listen") for l in s)})
    cov = {"not_reproduced_on_rerun": len(unreproduced), "evaluations": len(scripts), "distinct_nontrivial": nontriv,
           "exhaustive_small_scope": {"programs": len(ss), "definitions_per_program": ssk,
                                      "rule": "EVERY program of that many definitions over 20 primitives and every choice of operands among the names defined so far, on a base of a stream sink, "
                                              "a cell sink and a coalescing sink, a listener on everything (one registered late), six transactions (single, simultaneous, repeated sends), cells sampled after each"},
           "rule": f"API scripts: corpus ({len(corp)}) + exhaustive small-scope programs ({len(ss)}) + type-directed random programs under profile(s) {[p[0] for p in PROFILES[pid]]} (every 10th with malformed lines); "
                   "each executed on the real library (harness api) and on the Lean specification S (driver spec), outputs compared line by line; non-trivial = has a listener and a send; distinct by script text",
           "samples": [" ; ".join(gen[0]), " ; ".join(gen[-1])],
           "correspondence": {"level": "L-api (implementation vs S)", "scripts": len(scripts), "disagreements": len(bad),
                              "impl_only_predicate_hits": len(hits)},
           "input_distribution": st}
    return {"coverage": cov, "violations": viols, "summary": f"L-api scripts={len(scripts)} disagreements={len(bad)}"}
