"""C03: scheduler-level checks (model M_sched, correspondence level L-node)."""
import itertools, os, random, time
from common import *

VARIANT = "queue"     # which scheduler variant of the model corresponds to the code in /repo
C03_THEOREMS = ['SodiumVerif.Sched.dfs_glitch_witness', 'SodiumVerif.Sched.queue_no_glitch_on_d1', 'SodiumVerif.Sched.drain_final', 'SodiumVerif.Sched.sched_glitch_free', 'SodiumVerif.Sched.sched_terminates', 'SodiumVerif.Sched.sched_runs_once', 'SodiumVerif.Sched.sched_runs_iff', 'SodiumVerif.Sched.sched_result_unique', 'SodiumVerif.Sched.transaction_glitch_free', 'SodiumVerif.Sched.transaction_runs_iff', 'SodiumVerif.Sched.transaction_result_unique', 'SodiumVerif.Bridge.sched_refines_spec', 'SodiumVerif.Bridge.sched_computes_fireTable']


def random_dag_script(rng, max_nodes=12):
    n = rng.randint(2, max_nodes)
    lines = [f"variant {VARIANT}"]
    deps = []
    for i in range(n):
        k = 0 if i == 0 else rng.choice([0, 1, 1, 2, 2, 3])
        ds = [rng.randrange(i) for _ in range(k)] if i else []
        ds = list(dict.fromkeys(ds))
        deps.append(ds)
        lines.append("node " + " ".join(map(str, ds)))
    # late attachments (registration order differs from creation order)
    for _ in range(rng.randint(0, 3)):
        a = rng.randrange(1, n); b = rng.randrange(a)
        if b not in deps[a]:
            deps[a].append(b); lines.append(f"adddep {a} {b}")
    sources = [i for i in range(n) if not deps[i]]
    for _ in range(rng.randint(1, 4)):
        k = rng.randint(1, min(3, len(sources)))
        fs = rng.sample(sources, k)
        lines.append("txn " + " ".join(map(str, fs)))
    return lines


def exhaustive_scripts(n, perm_limit, rng):
    """all DAGs on n topologically numbered nodes x registration orders of the edges x non-empty subsets and orders of fired sources"""
    pairs = [(a, b) for a in range(n) for b in range(a + 1, n)]
    for mask in range(1 << len(pairs)):
        edges = [p for k, p in enumerate(pairs) if mask >> k & 1]
        sources = [i for i in range(n) if not any(e[1] == i for e in edges)]
        perms = list(itertools.permutations(edges)) if len(edges) <= 5 else None
        if perms is None or len(perms) > perm_limit:
            perms = []
            for _ in range(perm_limit):
                e = edges[:]; rng.shuffle(e); perms.append(tuple(e))
        for ep in perms:
            lines = [f"variant {VARIANT}"] + ["node"] * n + [f"adddep {b} {a}" for (a, b) in ep]
            for r in range(1, len(sources) + 1):
                for sub in itertools.combinations(sources, r):
                    for fp in (itertools.permutations(sub) if r <= 3 else [sub]):
                        lines.append("txn " + " ".join(map(str, fp)))
            yield lines


def strip_truth(lines):
    out, fails = [], []
    for i, l in enumerate(lines):
        if "\tTRUTH-FAIL" in l:
            o, f = l.split("\tTRUTH-FAIL", 1); out.append(o); fails.append((i, f.strip()))
        else:
            out.append(l)
    return out, fails


def node_compare(scripts):
    import bisect
    text = "".join("\n".join(s) + "\n---\n" for s in scripts)
    hl, ml, rc, herr = run_pair("node", text, harness_env={"NODE_TRUTH": "1"}, timeout=3000)
    hl, fails = strip_truth(hl)
    starts, pos = [], 0
    for s in scripts:
        starts.append(pos); pos += len(s) + 1
    res = {"disagree": [], "truth": [], "lines": pos, "txns": sum(1 for s in scripts for l in s if l.startswith("txn"))}
    for (i, f) in fails:
        k = bisect.bisect_right(starts, i) - 1
        res["truth"].append((k, i - starts[k], f))
    for k, s in enumerate(scripts):
        a = starts[k]
        for j in range(len(s)):
            h = hl[a + j] if a + j < len(hl) else "<missing>"
            m = ml[a + j] if a + j < len(ml) else "<missing>"
            if h != m:
                res["disagree"].append((k, j, h, m)); break
    if rc != 0 and not res["disagree"]:
        res["disagree"].append((-1, 0, f"harness exit {rc}: {herr[-300:]}", ""))
    return res


def minimise(script, pred):
    """keep the header/graph lines, drop transactions and graph lines greedily while pred holds"""
    cur = list(script)
    changed = True
    while changed:
        changed = False
        for i in range(len(cur) - 1, 0, -1):
            if cur[i].startswith("node"): continue   # ids are positional
            cand = cur[:i] + cur[i + 1:]
            if pred(cand):
                cur = cand; changed = True
    return cur


def check_c03(tier, seed):
    rng = random.Random(seed)
    scripts = []
    d = os.path.join(CORPUS, "node")
    ncorpus = 0
    if os.path.isdir(d):
        for f in sorted(os.listdir(d)):
            ls = [l.strip() for l in open(os.path.join(d, f)) if l.strip() and not l.startswith("#")]
            scripts.append([f"variant {VARIANT}"] + [l for l in ls if not l.startswith("variant")]); ncorpus += 1
    nrand = 2000 if tier == "quick" else 60000
    for _ in range(nrand):
        scripts.append(random_dag_script(rng, 12 if tier == "quick" else 16))
    nex = 0
    exh = []
    for n, lim in ([(3, 720), (4, 24)] if tier == "quick" else [(3, 720), (4, 720), (5, 60)]):
        c = 0
        for s in exhaustive_scripts(n, lim, rng):
            scripts.append(s); c += 1
        exh.append({"nodes": n, "graph_x_registration_orders": c, "perm_limit": lim}); nex += c
    res = node_compare(scripts)
    multi = sum(1 for s in scripts for l in s if l.startswith("txn") and len(l.split()) > 2)
    cov = {"evaluations": res["txns"], "distinct_nontrivial": len({tuple(s) for s in scripts if any(l.startswith("txn") and len(l.split()) > 2 for l in s)}),
           "rule": "raw Node graphs driven through the real update_node/end_of_transaction: random DAGs (<=12/16 nodes, late add_dependency) and every DAG on <=4 (quick) / <=5 (thorough) nodes x registration orders x non-empty subsets and orders of fired sources; evaluations = transactions; non-trivial = graph scripts with a transaction firing >=2 sources; update order compared exactly with M_sched",
           "samples": [" ; ".join(scripts[ncorpus]), " ; ".join(scripts[-1][:12])],
           "exhaustive_enumeration": exh, "exhaustive": True,
           "correspondence": {"level": "L-node", "scripts": len(scripts), "transactions": res["txns"], "transactions_with_simultaneous_sources": multi,
                              "model_vs_impl_disagreements": len(res["disagree"]), "impl_vs_ground_truth_failures": len(res["truth"]), "model_variant": VARIANT}}
    return cov, res, scripts
