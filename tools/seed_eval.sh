#!/bin/bash
# usage: seed_eval.sh <worktree> <seed-id> <prop> [more props to run...]
# Confirms a seeded change (tests pass with it; demo fails with it and passes without), stores it under
# /verif/seeded/<seed-id>/, applies it to /repo, runs the given checks, and restores /repo.
set -u
WT=$1; ID=$2; shift 2
OUT=/verif/seeded/$ID; mkdir -p $OUT
export CARGO_NET_OFFLINE=true
cd $WT || exit 2
git diff -- src Cargo.toml > $OUT/patch.diff
DEMO=""; [ -f tests/demo.rs ] && DEMO=tests/demo.rs
[ -n "$DEMO" ] && cp $DEMO $OUT/demo.rs
git diff -- src/tests.rs > $OUT/demo_in_tests.diff 2>/dev/null; [ -s $OUT/demo_in_tests.diff ] || rm -f $OUT/demo_in_tests.diff
[ -f SEED_REPORT.md ] && cp SEED_REPORT.md $OUT/
LIB_WITH=$(cargo test --offline --lib 2>&1 | grep -E "^test result" | head -1)
DEMO_WITH=$(cargo test --offline --test demo 2>&1 | grep -E "^test result|error\[" | head -1)
HOOKS=$(cargo build --offline --features verif_hooks 2>&1 | grep -E "^error|Finished" | head -1)
# no `git stash`: the stash is shared by all worktrees of a repository
git apply -R $OUT/patch.diff
DEMO_WITHOUT=$(cargo test --offline --test demo 2>&1 | grep -E "^test result|error\[" | head -1)
git apply $OUT/patch.diff
echo "lib tests with change : $LIB_WITH"
echo "demo with change      : $DEMO_WITH"
echo "demo without change   : $DEMO_WITHOUT"
echo "build with hooks      : $HOOKS"
# run our checks against it
cd /repo && git apply $OUT/patch.diff || { echo "patch does not apply to /repo"; exit 3; }
RES=""
for P in "$@"; do
  cd /verif && R=$(./check $P 2>&1 | grep -E "^VIOLATION|^OK|^KNOWN|^#" | head -6 | tr '\n' '|')
  echo "check $P: $R"
  RES="$RES\n$P: $R"
done
cd /repo && git checkout -- . && git status --short | head -3
python3 - "$ID" "$LIB_WITH" "$DEMO_WITH" "$DEMO_WITHOUT" "$RES" "$@" <<'PY'
import json, sys
id_, lw, dw, dwo, res = sys.argv[1:6]; props = sys.argv[6:]
meta = {"id": id_, "breaks_property": props[0] if props else None, "lib_tests_with_change": lw, "demo_with_change": dw, "demo_without_change": dwo,
        "checks_run": props, "check_results": [l for l in res.split("\\n") if l], "needs_to_manifest": "see SEED_REPORT.md",
        "what_was_run": "tools/seed_eval.sh: cargo test --lib / --test demo with and without the change in the scratch worktree; git apply to /repo; ./check <props>; git checkout -- ."}
json.dump(meta, open(f"/verif/seeded/{id_}/meta.json", "w"), indent=1)
PY
