"""L-struct: the collector graph the real library builds for an API program against the graph the
Lean recipes of Model/Struct.lean build (driver struct).  Compared at every `graphdump` line (every
unfreed collector object in creation order: kind, count, reported edges) and at `leakcheck`; the
ok/skip answers of structural lines are compared too."""
import random, time
from common import *
import apigen, c_api

W = dict
STRUCT = dict(n_defs=(4, 14), n_txn=(1, 6), n_listen=(0, 3), drops=0.8, gcs=0.5, graphdumps=0.5, weak=0.3, unlisten=0.3,
              no_once=False, no_const=True, distinct_routes=True, drop_listeners=0.3, max_defer=2, samples=0.2, intxn_defs=0.2, obs=0.0,
              weights=W(const=0, once=1.5, switchs=0, switchc=0, switchdyn=0, sloop=1.5, cloop=1.5, router=1, defer=1, split=0.5,
                        holdlazy=0.5, accum=2, collect=1.5, accumlazy=0.7, collectlazy=0.5, lift2=2, lift2d=1.5, liftn=0.7, snapshotn=0.7, gate=1.5, value=1.5, updates=1.5))
# construction only (no events)
STATIC = dict(STRUCT, n_txn=(0, 0), no_once=False, weights=W(STRUCT["weights"], once=1.5, value=0))


# definitions at top level interleaved with drops and dumps (every constructor call ends with a collection of its own)
TOPLEVEL = dict(STRUCT, n_txn=(0, 2), toplevel_mix=True)
# switch_s: the inner dependency is rewired while events flow (the model is told the selector's value by S)
# switch_c: the cell of cells holds a handle inside its value, the result an initial thunk that owns it (forced at once here:
# `sample` follows the construction; no switch_c inside loop bodies, where it cannot be sampled yet)
SWITCH = dict(STRUCT, n_defs=(5, 14), n_txn=(2, 7), sample_after_switchc=True, no_switchc_in_loop=True,
              weights=W(STRUCT["weights"], switchs=4, switchc=4, accum=1, collect=0.5, accumlazy=0, collectlazy=0, lift2d=0))


def gen(tier, seed, pid):
    rng = random.Random(seed * 104729 + int(pid[1:]))
    n = 600 if tier == "quick" else 20000
    out = []
    for k in range(n):
        kw = dict(SWITCH if k % 5 == 4 else STATIC if k % 4 == 3 else TOPLEVEL if k % 4 == 1 else STRUCT)
        kw["leakcheck"] = (k % 3 == 0)
        out.append(apigen.generate(rng, apigen.profile(**kw)))
    import apienum
    out += list(apienum.programs(3 if tier == "thorough" else 2, kinds=apienum.STRUCT_KINDS + ["once", "switchs", "switchc"], mode="struct"))
    return out


def strip(h):
    i = h.find(" | cb ")
    return h if i < 0 else h[:i]


def struct_run(scripts, timeout=3000):
    text = "".join("\n".join(s) + "\n---\n" for s in scripts)
    hl, ml, rc, herr = run_pair("api", text, timeout=timeout, driver_mode="struct")
    out, pos = [], 0
    for s in scripts:
        n = len(s)
        out.append((hl[pos:pos + n], ml[pos:pos + n]))
        pos += n + 1
    return out


def first_diff(hl, ml):
    for j, (h, m) in enumerate(zip(hl, ml)):
        if m == "-" or h == "SKIPPED": continue
        if strip(h) != m: return j
    if len(hl) != len(ml): return min(len(hl), len(ml))
    return None


def balanced(script):
    d = 0
    for l in script:
        if l == "begin": d += 1
        elif l == "end":
            d -= 1
            if d < 0: return False
    return d == 0


def differs(script):
    if not c_api.loops_wellformed(script) or not balanced(script): return False
    (hl, ml), = struct_run([script])
    return first_diff(hl, ml) is not None


def check(pid, tier, seed):
    t0 = time.time()
    corp = [s for _, s in c_api.corpus("struct")]
    scripts = corp + gen(tier, seed, pid)
    runs = struct_run(scripts)
    bad = []
    dumps = objs = 0
    kinds = {}
    for k, (hl, ml) in enumerate(runs):
        j = first_diff(hl, ml)
        if j is not None: bad.append((k, j))
        for m in ml:
            if m.startswith("graph"):
                dumps += 1
                for part in m.split()[1:]:
                    objs += 1; kd = part.split(":")[0] + ":" + part.split(":")[1] if part.count(":") > 2 else part.rsplit(":", 1)[0]
                    kinds[kd] = kinds.get(kd, 0) + 1
    viols = []
    import os
    os.environ["API_SCRIPT_TIMEOUT_MS"] = "2000"
    for (k, j) in bad[:2]:
        s = c_api.shrink(scripts[k], differs)
        (hl, ml), = struct_run([s])
        jj = first_diff(hl, ml)
        if jj is None: continue        # not reproduced when run on its own (a script starved of time on a loaded machine): not reported
        at = s[jj] if jj is not None and jj < len(s) else "?"
        h = strip(hl[jj]) if jj is not None and jj < len(hl) else "<missing>"
        m = ml[jj] if jj is not None and jj < len(ml) else "<missing>"
        leak = h.startswith("leak=") and h != "leak=0"
        freed = "freed" in h or h.startswith("PANIC") or h.startswith("mem=BAD")
        what = (f"`{at}`: the real collector graph differs from the graph of the verified recipes (Model/Struct.lean): implementation `{h}`, model `{m}`")
        # a leak or a freed-but-referenced object on the real library is a failing input of the property itself
        found = leak if pid == "C07" else freed if pid == "C06" else False
        text = (f"# L-struct: {what}\n" if found else
                "correspondence L-struct (Model/Struct.lean recipes vs the collector graph built by src/impl_/*.rs) no longer checks; "
                "theorems struct_sound / struct_no_leak of Props/StructMem.lean no longer apply to the code\n# " + what + "\n")
        viols.append({"what": what, "found_input": found, "signature": " ; ".join(s) if found else None, "replay_text": text + "\n".join(s) + "\n"})
    os.environ.pop("API_SCRIPT_TIMEOUT_MS", None)
    info = {"level": "L-struct (real collector graph vs verified recipes)", "scripts": len(scripts), "graph_dumps_compared": dumps,
            "objects_compared": objs, "disagreements": len(bad), "object_kinds": dict(sorted(kinds.items(), key=lambda kv: -kv[1])),
            "ops": c_api.stats(scripts[len(corp):])["ops"], "sample": " ; ".join(scripts[len(corp)][:40])}
    return info, viols


def replay(path):
    ops = [l.strip() for l in open(path) if l.strip() and not l.startswith("#") and not l.startswith("correspondence")]
    (hl, ml), = struct_run([ops])
    bad = first_diff(hl, ml) is not None
    for o, h, m in zip(ops, hl, ml):
        flag = "" if (m == "-" or strip(h) == m) else "   <-- differs"
        print(f"{o:34s} impl:  {h}\n{'':34s} model: {m}{flag}")
    return 1 if bad else 0
