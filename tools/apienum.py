"""Small-scope exhaustive API programs: EVERY program of k definitions over a fixed alphabet of primitives and every
choice of operands among the names defined so far, on top of a fixed base (one stream sink, one cell sink, one
coalescing sink), with a listener on everything and a fixed battery of transactions that exercises single events,
simultaneous events of all sinks, repeated sends to one sink and a late listener.  Complements the random generator:
no program of that size is skipped."""
import itertools

BASE = ["ssink s1", "csink c1 3", "ssinkc s2 1"]
BASE_S, BASE_C = ["s1", "s2"], ["c1"]

# kind -> (result type, operand types)   S = stream, C = cell
KINDS = {
    "map": ("S", "S"), "filter": ("S", "S"), "once": ("S", "S"), "filteropt": ("S", "S"),
    "merge": ("S", "SS"), "orelse": ("S", "SS"), "snapshot": ("S", "SC"), "snapshot1": ("S", "SC"), "gate": ("S", "SC"),
    "hold": ("C", "S"), "updates": ("S", "C"), "value": ("S", "C"), "mapc": ("C", "C"), "lift2": ("C", "CC"),
    "accum": ("C", "S"), "collect": ("S", "S"), "defer": ("S", "S"), "split": ("S", "S"),
    "switchs": ("S", "CSS"), "switchc": ("C", "CCC"),
}
TEMPLATE = {
    "map": "map {x} {0} 1", "filter": "filter {x} {0} 1", "once": "once {x} {0}", "filteropt": "filteropt {x} {0} 2",
    "merge": "merge {x} {0} {1} 1", "orelse": "orelse {x} {0} {1}", "snapshot": "snapshot {x} {0} {1} 1", "snapshot1": "snapshot1 {x} {0} {1}",
    "gate": "gate {x} {0} {1}", "hold": "hold {x} {0} 7", "updates": "updates {x} {0}", "value": "value {x} {0}", "mapc": "mapc {x} {0} 2",
    "lift2": "lift2 {x} {0} {1} 1", "accum": "accum {x} {0} 1 2", "collect": "collect {x} {0} 1 1", "defer": "defer {x} {0}", "split": "split {x} {0} 2",
    "switchs": "switchs {x} {0} {1} {2}", "switchc": "switchc {x} {0} {1} {2}",
}
TXNS = [["send s1 1"], ["send c1 2"], ["begin", "send s1 3", "send c1 4", "send s2 5", "send s2 6", "end"], ["send s2 1"],
        ["begin", "send c1 5", "send s1 4", "end"], ["send s1 2"]]


STRUCT_KINDS = [k for k in KINDS if k not in ("once", "switchs", "switchc")]           # what M_struct models
SCHED_KINDS = [k for k in STRUCT_KINDS if k not in ("defer", "split")]                  # one transaction per send bracket


def programs(k, kinds=None, sample=False, max_defer=1, mode=None):
    """yields scripts; `sample=True` adds `sample` lines for every cell after every transaction"""
    kinds = kinds or list(KINDS)

    def rec(defs, streams, cells, ndefer):
        if len(defs) == k:
            yield defs, streams, cells
            return
        i = len(defs)
        for kd in kinds:
            if kd in ("defer", "split") and ndefer >= max_defer: continue
            rt, ots = KINDS[kd]
            pools = [streams if t == "S" else cells for t in ots]
            for ops in itertools.product(*pools):
                if kd in ("merge", "orelse", "lift2") and ops[0] > ops[1]: continue          # symmetric shapes once (self-merge kept)
                if kd in ("switchs", "switchc") and ops[1] >= ops[2]: continue                # two distinct candidates, one order
                if kd == "switchs" and False: continue
                x = ("t" if rt == "S" else "d") + str(i)
                line = TEMPLATE[kd].format(*ops, x=x)
                yield from rec(defs + [line], streams + ([x] if rt == "S" else []), cells + ([x] if rt == "C" else []),
                               ndefer + (1 if kd in ("defer", "split") else 0))

    for defs, streams, cells in rec([], list(BASE_S), list(BASE_C), 0):
        new = [n for n in streams + cells if n not in BASE_S + BASE_C]
        script = BASE + defs
        for j, n in enumerate(new): script.append(f"listen l{j} {n}")
        if mode == "struct": script.append("graphdump")
        for t, txn in enumerate(TXNS):
            if t == 3 and new: script.append(f"listen late {new[-1]}")     # a listener registered after some history
            if mode == "sched": script.append("updclear")
            script += txn
            if mode == "sched": script.append("updlog")
            if sample:
                for c in cells: script.append(f"sample {c}")
            if mode == "struct" and t in (2, 5): script.append("graphdump")
        if mode == "struct":
            # drop the definitions newest first, looking at the graph without and with a collection in between
            for n in reversed(new):
                script += [f"drop {n}", "graphdump"]
            script += ["gc", "graphdump", "leakcheck"]
        yield script


def count(k, kinds=None):
    return sum(1 for _ in programs(k, kinds))


if __name__ == "__main__":
    import sys
    k = int(sys.argv[1]) if len(sys.argv) > 1 else 2
    n = 0
    for s in programs(k):
        n += 1
        if n <= 2: print(" ; ".join(s))
    print(n)
