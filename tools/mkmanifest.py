#!/usr/bin/env python3
"""Regenerates /verif/MANIFEST.json from the registry in props.py (so it is always valid and current)."""
import json, os, sys
sys.path.insert(0, os.path.dirname(os.path.abspath(__file__)))
import props
from common import VERIF

ALL = [f"C{i:02d}" for i in range(1, 21)]
checks = []
for pid in ALL:
    if pid not in props.PROPS: continue
    s = props.PROPS[pid]
    checks.append({
        "property_id": pid,
        "quick_cmd": f"./check {pid} --tier quick",
        "thorough_cmd": f"./check {pid} --tier thorough",
        "evidence_file": f"/verif/evidence/{pid}.json",
        "replay_cmd_template": f"./check {pid} --replay {{path}}",
        "engine": "lean4-proof+correspondence",
        "level_claimed": {"category": "proof", "text": s["level_text"], "design_ref": s.get("design_ref", "DESIGN.md section 6")},
        "level_note": s["level_note"],
        "technique": s["technique"],
    })
na = [{"property_id": pid, "reason": props.NOT_CLAIMED.get(pid, "check not built yet in this round; see DESIGN.md section 6 for the plan")}
      for pid in ALL if pid not in props.PROPS]
m = {
    "version": 1,
    "setup_cmd": "cd /verif/lean && lake build && cd /verif/harness && cargo build --offline",
    "hooks": {"guard": "cargo feature verif_hooks (off by default)",
              "enable": "the harness crate depends on /repo by path with features=[\"verif_hooks\"]; cargo build --offline in /verif/harness",
              "baseline_off_cmd": "cd /repo && cargo test --workspace --no-fail-fast --offline",
              "source_commits": props.HOOK_COMMITS, "add_only": True},
    "engines": [{"name": "lean4-proof+correspondence", "path": "/verif/check",
                 "serves_properties": [c["property_id"] for c in checks],
                 "kind_free_text": "Lean 4 theorems about hand-written executable models (lake project /verif/lean), audited with #print axioms on every run; models tied to /repo by a differential correspondence harness (/verif/harness, Rust, in-process, hooks on) driven through a line protocol; failing-input search on the implementation when a proof obligation or the correspondence breaks"}],
    "checks": checks,
    "notes": "See DESIGN.md. Known findings and fixed defects: known-findings.json. Seeded changes used to test the checks: seeded/.",
    "not_applicable": na,
}
json.dump(m, open(os.path.join(VERIF, "MANIFEST.json"), "w"), indent=1)
print("MANIFEST.json:", len(checks), "checks,", len(na), "not claimed")
