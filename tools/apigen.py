"""Type-directed generator of API scripts (see PROTOCOL.md).  One PRNG drives everything.

A profile is a dict of weights / switches; every property has its own profile that biases the
generator towards the property's quantifier.  Programs are mostly valid; a separate malformed
stream (unknown ids, double loop close, sample before loop, repeated unlisten/tclose) is mixed in
by `malformed=True`."""
import random

DEFAULT = dict(
    n_defs=(3, 12), n_listen=(1, 4), n_txn=(3, 10), sends_per_txn=(1, 3),
    intxn_defs=0.0,        # probability that a sending transaction also defines/listens inside
    nest=0.3,              # probability that a sending transaction uses begin/end (else bare sends)
    scoped=0.0,            # probability of topen/tclose brackets instead of begin/end
    deep_nest=0.0,         # extra nesting levels
    samples=0.25, lazies=0.0, drops=0.0, gcs=0.0, posts=0.0, unlisten=0.1, obs=0.1,
    weights=dict(ssink=3, ssinkc=1, csink=2, const=0.3, never=0.2, map=4, mapto=0.5, filter=2, filteropt=0.5,
                 merge=4, orelse=1.5, snapshot=3, snapshot1=0.7, snapshotn=0.5, gate=1, hold=2.5, once=1, updates=1,
                 value=1, mapc=1.5, lift2=2, liftn=0.5, accum=1.5, collect=1, defer=0, split=0, switchs=0, switchc=0,
                 sloop=0, cloop=0, router=0, holdlazy=0, switchdyn=0, accumlazy=0, collectlazy=0, route=0, switchlate=0, switchlatec=0, snaplazy=0, snapmapc=0, latelisten=0, deepdiamond=0, lift2d=0, handlerlisten=0, latehold=0, lateloop=0, switchnest=0, leafdrop=0, lateswitch=0, lateswitchc=0, ancestormerge=0, laterouter=0, switchlatecs=0),
    max_defer=1, leakcheck=False, malformed=False, values=(-5, 15), coalesce_sends=False,
)


def profile(**kw):
    p = {k: (dict(v) if isinstance(v, dict) else v) for k, v in DEFAULT.items()}
    w = kw.pop("weights", None)
    p.update(kw)
    if w: p["weights"].update(w)
    return p


class Gen:
    def __init__(self, rng, prof):
        self.r, self.p = rng, prof
        self.lines = []
        self.streams, self.cells = [], []          # names usable as stream / cell operands
        self.ssinks, self.csinks = [], []
        self.taint = {}                             # name -> set of open loops its firing depends on
        self.open_sloops, self.open_cloops = [], []
        self.routers, self.listeners, self.lazies = [], [], []
        self.ndefer = 0
        self.last_defer = None
        self.body = None                            # names defined inside the loop body being generated
        self.k = 0
        self.dropped = set()
        self.coal = set()
        self.kinds = {}
        self.clone_of = {}
        self.ident = {}                             # stream name -> identity of the underlying stream (updates() aliases)
        self.ustream = {}                           # cell name -> identity of its update stream
        self.swc = set()                            # cells whose value derives from a switch_c result

    def fresh(self, pfx):
        self.k += 1
        return f"{pfx}{self.k}"

    def S(self, allow_tainted=True):
        c = [s for s in self.streams if s not in self.dropped]
        if self.body is not None and self.r.random() < 0.6:
            # inside a loop body prefer what was defined in the body, so that the cycle really goes through the loop
            b = [x for x in c if x in self.body]
            if b: return self.r.choice(b)
        return self.r.choice(c) if c else None

    def C(self):
        c = [s for s in self.cells if s not in self.dropped]
        if self.body is not None and self.r.random() < 0.6:
            b = [x for x in c if x in self.body]
            if b: return self.r.choice(b)
        return self.r.choice(c) if c else None

    def t(self, *ns):
        out = set()
        for n in ns: out |= self.taint.get(n, set())
        return out

    def add_stream(self, n, taint=()):
        self.streams.append(n); self.taint[n] = set(taint)

    def add_cell(self, n, taint=()):
        self.cells.append(n); self.taint[n] = set(taint)

    def small(self): return self.r.randint(0, 6)
    def op(self): return self.r.randint(0, 2)

    def gen_def(self):
        """emit one definition line; returns False if nothing applicable was chosen"""
        w = self.p["weights"]
        kinds = [k for k, v in w.items() if v > 0]
        kind = self.r.choices(kinds, [w[k] for k in kinds])[0]
        r = self.r
        s, s2, c, c2 = self.S(), self.S(), self.C(), self.C()
        L = self.lines
        if kind == "ssink": n = self.fresh("s"); L.append(f"ssink {n}"); self.add_stream(n); self.ssinks.append(n)
        elif kind == "ssinkc": n = self.fresh("s"); L.append(f"ssinkc {n} {self.op()}"); self.add_stream(n); self.ssinks.append(n); self.coal.add(n)
        elif kind == "csink": n = self.fresh("c"); L.append(f"csink {n} {self.small()}"); self.add_cell(n); self.csinks.append(n)
        elif kind == "const": n = self.fresh("c"); L.append(f"const {n} {self.small()}"); self.add_cell(n)
        elif kind == "never": n = self.fresh("s"); L.append(f"never {n}"); self.add_stream(n)
        elif kind in ("map", "mapto", "filter", "filteropt") and s:
            n = self.fresh("s"); L.append(f"{kind} {n} {s} {self.small()}"); self.add_stream(n, self.t(s))
        elif kind == "merge" and s and s2 and (s != s2 or self.p.get("self_merge")):
            n = self.fresh("s"); L.append(f"merge {n} {s} {s2} {self.op()}"); self.add_stream(n, self.t(s, s2))
        elif kind == "orelse" and s and s2 and (s != s2 or self.p.get("self_merge")):
            n = self.fresh("s"); L.append(f"orelse {n} {s} {s2}"); self.add_stream(n, self.t(s, s2))
        elif kind == "snapshot" and s and c:
            n = self.fresh("s"); L.append(f"snapshot {n} {s} {c} {self.op()}"); self.add_stream(n, self.t(s))
        elif kind == "snapshot1" and s and c:
            n = self.fresh("s"); L.append(f"snapshot1 {n} {s} {c}"); self.add_stream(n, self.t(s))
        elif kind == "snapshotn" and s and c:
            cs = [self.C() for _ in range(r.randint(2, 5))]
            n = self.fresh("s"); L.append(f"snapshotn {n} {s} {' '.join(cs)}"); self.add_stream(n, self.t(s))
        elif kind == "snapmapc" and s and c and c not in self.swc and not self.t(c) and self.ident.get(s, s) != self.ustream.get(c, "u:" + c):
            # (not on the cell's own update stream: building on a stream inside a closure of that stream is known finding D16)
            n = self.fresh("s"); L.append(f"snapmapc {n} {s} {c} {self.small()}"); self.add_stream(n, self.t(s))
        elif kind == "snaplazy" and s and c and c not in self.swc:
            n = self.fresh("s"); L.append(f"snaplazy {n} {s} {c}"); self.add_stream(n, self.t(s))
        elif kind == "gate" and s and c:
            n = self.fresh("s"); L.append(f"gate {n} {s} {c}"); self.add_stream(n, self.t(s))
        elif kind == "hold" and s:
            n = self.fresh("c"); L.append(f"hold {n} {s} {self.small()}"); self.add_cell(n, self.t(s)); self.ustream[n] = self.ident.get(s, s)
        elif kind == "holdlazy" and s:
            c0 = self.C()
            zt = set()
            if c0 and c0 not in self.swc and (not self.t(c0) or self.p.get("lazy_of_loops")) and self.r.random() < 0.5:
                z = self.fresh("z"); L.append(f"lazy {z} {c0}")      # the new cell starts with a Lazy shared with c0
                zt = self.t(c0)                                       # (possibly the Lazy of a CellLoop that is not closed yet)
            else:
                z = self.fresh("z"); L.append(f"mklazy {z} {self.small()}")
            n = self.fresh("c"); L.append(f"holdlazy {n} {s} {z}"); self.add_cell(n, self.t(s) | zt); self.lazies.append(z); self.ustream[n] = self.ident.get(s, s)
        elif kind == "once" and s:
            n = self.fresh("s"); L.append(f"once {n} {s}"); self.add_stream(n, self.t(s))
        elif kind == "updates" and c:
            n = self.fresh("s"); L.append(f"updates {n} {c}"); self.add_stream(n, self.t(c)); self.ident[n] = self.ustream.get(c, "u:" + c)
        elif kind == "value" and c:
            n = self.fresh("s"); L.append(f"value {n} {c}"); self.add_stream(n, self.t(c))
        elif kind == "mapc" and c:
            n = self.fresh("c"); L.append(f"mapc {n} {c} {self.small()}"); self.add_cell(n, self.t(c))
            if c in self.swc: self.swc.add(n)
        elif kind == "lift2" and c and c2:
            n = self.fresh("c"); L.append(f"lift2 {n} {c} {c2} {self.op()}"); self.add_cell(n, self.t(c, c2))
            if c in self.swc or c2 in self.swc: self.swc.add(n)
        elif kind == "lift2d" and c and c2:
            c3 = self.C()
            n = self.fresh("c"); L.append(f"lift2d {n} {c} {c2} {c3} {self.op()}"); self.add_cell(n, self.t(c, c2))
            # (no Lazy is taken from this cell or cells computed from it: its unforced initial thunk owns the function and through
            #  it the captured cell — a Lazy is allowed to keep alive what it needs, but M_struct does not model Lazies as owners)
            self.swc.add(n)
        elif kind == "liftn" and c:
            cs = [self.C() for _ in range(r.randint(3, 6))]
            n = self.fresh("c"); L.append(f"liftn {n} {' '.join(cs)}"); self.add_cell(n, self.t(*cs))
            if any(x in self.swc for x in cs): self.swc.add(n)
        elif kind in ("accumlazy", "collectlazy") and s:
            # the fold starts from a Lazy: a constant thunk or the Lazy of another (readable) cell
            c0 = self.C()
            if c0 and c0 not in self.swc and not self.t(c0) and self.r.random() < 0.6:
                z = self.fresh("z"); L.append(f"lazy {z} {c0}")
            else:
                z = self.fresh("z"); L.append(f"mklazy {z} {self.small()}")
            self.lazies.append(z)
            if kind == "accumlazy":
                n = self.fresh("c"); L.append(f"accumlazy {n} {s} {z} {self.op()}"); self.add_cell(n, self.t(s))
            else:
                n = self.fresh("s"); L.append(f"collectlazy {n} {s} {z} {self.op()}"); self.add_stream(n, self.t(s))
        elif kind == "route" and self.routers:
            # a further request on an existing router: a new key, the same key again, or a key whose stream was dropped
            rn, src = self.r.choice(self.routers)
            if rn in self.dropped: return False
            key = self.r.randint(0, 2)
            n = self.fresh("s"); L.append(f"route {n} {rn} {key}"); self.add_stream(n, self.t(src)); self.ident[n] = f"route:{rn}:{key}"
        elif kind == "accum" and s:
            n = self.fresh("c"); L.append(f"accum {n} {s} {self.small()} {self.op()}"); self.add_cell(n, self.t(s))
        elif kind == "collect" and s:
            n = self.fresh("s"); L.append(f"collect {n} {s} {self.small()} {self.op()}"); self.add_stream(n, self.t(s))
        elif kind in ("defer", "split") and s and self.ndefer < self.p["max_defer"] and not self.t(s):
            if self.ndefer > 0:
                # a further deferring primitive only as a chain on the previous one (one event in flight at a time:
                # the relative order of deferred events of *different* primitives is unspecified, C09)
                s = self.last_defer
                if s in self.dropped: return False
            n = self.fresh("s")
            self.last_defer = n
            L.append(f"defer {n} {s}" if kind == "defer" else f"split {n} {s} {r.randint(0, 4)}")
            self.add_stream(n, self.t(s)); self.ndefer += 1
        elif kind == "switchs" and c and s:
            cs = [self.S() for _ in range(r.randint(2, 4))]
            # the selector counts for the loop rule too: a switch whose selector depends on its own output makes
            # the node graph cyclic (known finding D15)
            n = self.fresh("s"); L.append(f"switchs {n} {c} {' '.join(cs)}"); self.add_stream(n, self.t(c, *cs))
        elif kind == "switchdyn" and c and s and self.r.random() < self.p.get("unused_base", 0.0) and not self.t(c) and self.ssinks + self.csinks:
            # the base is a mapped stream nothing else depends on yet: the first candidate is attached to it while events flow
            src = self.r.choice([x for x in self.streams if x not in self.dropped and not self.t(x) and self.ident.get(x, x) != self.ustream.get(c, "u:" + c)] or [None])
            if src is None: return False
            b = self.fresh("s"); L.append(f"map {b} {src} {self.small()}"); self.add_stream(b, set())
            n = self.fresh("s"); L.append(f"switchdyn {n} {c} {b} {self.op()}"); self.add_stream(n, set())
        elif kind == "switchdyn" and c and s and not self.t(c) and not self.t(s) and self.ident.get(s, s) != self.ustream.get(c, "u:" + c):
            # (the base must not be the selector's own update stream: known finding D16)
            n = self.fresh("s"); L.append(f"switchdyn {n} {c} {s} {self.op()}"); self.add_stream(n, self.t(s))
        elif kind == "switchlate" and s and s2 and not self.t(s) and not self.t(s2):
            # streams built on demand: every event of s builds a fresh stream on a base (often a map nothing else uses yet)
            base = s2
            # (the base must not be the selector stream itself: building on a stream inside a closure of that stream is D16;
            #  a map of it is fine, and is the interesting case: both fire in the same transaction)
            if self.r.random() < 0.6 or self.ident.get(s, s) == self.ident.get(s2, s2):
                base = self.fresh("s"); L.append(f"map {base} {s2} {self.small()}"); self.add_stream(base, set())
            n = self.fresh("s"); L.append(f"switchlate {n} {s} {base} {self.op()}"); self.add_stream(n, set())
        elif kind == "deepdiamond" and s and not self.t(s):
            # a diamond whose sides differ by more than any plausible recursion bound: s and a chain of 66..130 maps of s
            cur = s
            for _ in range(self.r.randint(66, 130)):
                nx = self.fresh("s"); L.append(f"map {nx} {cur} {self.r.randint(0, 2)}"); self.add_stream(nx, set()); cur = nx
            n = self.fresh("s")
            L.append(f"merge {n} {s} {cur} {self.op()}" if self.r.random() < 0.5 else f"merge {n} {cur} {s} {self.op()}")
            self.add_stream(n, set())
            l = self.fresh("l"); L.append(f"listen {l} {n}"); self.listeners.append(l)
        elif kind == "ancestormerge" and s and not self.t(s):
            # a two-input node whose right input A is an ancestor of its left input B, itself merged with the source two
            # rounds upstream of A: the node is reached through its dependent's dependency walk while A and B are unvisited
            cur = s
            for _ in range(self.r.randint(2, 3)):
                nx = self.fresh("s"); L.append(f"map {nx} {cur} {self.r.randint(0, 2)}"); self.add_stream(nx, set()); cur = nx
            A = cur
            B = self.fresh("s"); L.append(self.r.choice([f"map {B} {A} {self.small()}", f"filter {B} {A} {self.small()}"])); self.add_stream(B, set())
            N = self.fresh("s"); L.append(f"merge {N} {B} {A} {self.op()}" if self.r.random() < 0.7 else f"merge {N} {A} {B} {self.op()}"); self.add_stream(N, set())
            top = self.fresh("s"); L.append(f"merge {top} {s} {N} {self.op()}" if self.r.random() < 0.5 else f"merge {top} {N} {s} {self.op()}"); self.add_stream(top, set())
            for x in (N, top):
                l = self.fresh("l"); L.append(f"listen {l} {x}"); self.listeners.append(l)
        elif kind == "latelisten" and s and s2 and not self.t(s) and not self.t(s2):
            # FRP (a two-input node, a map, a listener) built inside a listener handler on the first event of s
            base = s2
            if self.r.random() < 0.5 or self.ident.get(s, s) == self.ident.get(s2, s2):
                base = self.fresh("s"); L.append(f"map {base} {s2} {self.small()}"); self.add_stream(base, set())
            L.append(f"latelisten {self.fresh('l')} {s} {base} {self.op()}")
        elif kind in ("handlerlisten", "latehold", "lateloop") and s and s2 and not self.t(s) and not self.t(s2):
            # a listener / a cell / a loop attached to a stream from inside the handler of another stream's first event; half
            # of the time that handler is downstream of the stream built upon, which has then been visited when it runs
            trig = s
            if self.r.random() < 0.5:
                trig = self.fresh("s"); L.append(f"map {trig} {s2} {self.small()}"); self.add_stream(trig, set())
            l = self.fresh("l")
            L.append(f"handlerlisten {l} {trig} {s2}" if kind == "handlerlisten" else
                     f"latehold {l} {trig} {s2} {self.val()}" if kind == "latehold" else f"lateloop {l} {trig} {s2} {self.small()}")
        elif kind in ("lateswitch", "lateswitchc") and s and s2 and not self.t(s) and not self.t(s2) and (kind == "lateswitch" or (c and not self.t(c) and c not in self.swc)):
            # a switch built by a handler; half of the time the handler is downstream of what the switch follows
            tgt = s2 if kind == "lateswitch" else c
            trig = s
            if self.r.random() < 0.5:
                if kind == "lateswitch":
                    trig = self.fresh("s"); L.append(f"map {trig} {s2} {self.small()}"); self.add_stream(trig, set())
                else:
                    u = self.fresh("s"); L.append(f"updates {u} {c}"); self.add_stream(u, set()); self.ident[u] = self.ustream.get(c, "u:" + c)
                    trig = self.fresh("s"); L.append(f"map {trig} {u} {self.small()}"); self.add_stream(trig, set())
            L.append(f"{kind} {self.fresh('l')} {trig} {tgt}")
        elif kind == "leafdrop" and s and s2 and not self.t(s) and not self.t(s2):
            # the handler that drops the leaf is up- or downstream of the leaf's source, or unrelated
            trig = s
            if self.r.random() < 0.4:
                trig = self.fresh("s"); L.append(f"map {trig} {s2} {self.small()}"); self.add_stream(trig, set())
            L.append(f"leafdrop {self.fresh('l')} {trig} {s2} {self.r.randint(0, 5)}")
        elif kind == "switchnest" and c and c2 and s and c != c2 and not self.t(c) and not self.t(c2) \
                and self.ustream.get(c, "u:" + c) != self.ustream.get(c2, "u:" + c2):
            # a switch built by a mapping function (forced while the outer switch's own construction finishes)
            cs = [self.S() for _ in range(r.randint(2, 3))]
            if any(self.t(x) for x in cs): return False
            n = self.fresh("s"); L.append(f"switchnest {n} {c} {c2} {' '.join(cs)}"); self.add_stream(n, set())
        elif kind == "laterouter" and s and s2 and not self.t(s) and not self.t(s2):
            # a router built by a handler; half of the time the handler is downstream of the router's input
            trig = s
            if self.r.random() < 0.5:
                trig = self.fresh("s"); L.append(f"map {trig} {s2} {self.small()}"); self.add_stream(trig, set())
            L.append(f"laterouter {self.fresh('l')} {trig} {s2} {r.randint(0, 2)} {r.randint(0, 2)}")
        elif kind == "switchlatecs" and s and s2 and not self.t(s) and not self.t(s2):
            base = s2
            if self.r.random() < 0.6 or self.ident.get(s, s) == self.ident.get(s2, s2):
                base = self.fresh("s"); L.append(f"map {base} {s2} {self.small()}"); self.add_stream(base, set())
            n = self.fresh("c"); L.append(f"switchlatecs {n} {s} {base} {self.op()}"); self.add_cell(n, set()); self.swc.add(n)
        elif kind == "switchlatec" and s and s2 and not self.t(s) and not self.t(s2):
            # cells built on demand (each on a fresh hold of the base) and switched to inside the transaction that built them
            base = s2
            if self.r.random() < 0.6 or self.ident.get(s, s) == self.ident.get(s2, s2):
                base = self.fresh("s"); L.append(f"map {base} {s2} {self.small()}"); self.add_stream(base, set())
            n = self.fresh("c"); L.append(f"switchlatec {n} {s} {base} {self.op()}"); self.add_cell(n, set()); self.swc.add(n)
        elif kind == "switchc" and c:
            cs = [self.C() for _ in range(r.randint(2, 4))]
            n = self.fresh("c"); L.append(f"switchc {n} {c} {' '.join(cs)}"); self.add_cell(n, self.t(c, *cs)); self.swc.add(n)
            if self.p.get("sample_after_switchc"): L.append(f"sample {n}")      # (L-struct: the result's initial thunk is forced at once)
        elif kind == "router" and s:
            rn = self.fresh("r"); L.append(f"router {rn} {s} {r.randint(0, 2)}"); self.routers.append((rn, s))
            keys = [r.randint(0, 2) for _ in range(r.randint(1, 3))]
            if self.p.get("distinct_routes"): keys = list(dict.fromkeys(keys))
            for key in keys:
                n = self.fresh("s"); L.append(f"route {n} {rn} {key}"); self.add_stream(n, self.t(s))
                self.ident[n] = f"route:{rn}:{key}"      # the same key of one router is the same stream object
                if r.random() < self.p.get("rerequest", 0.0):
                    # the only handle is dropped at once (a stale table entry stays behind) and the key is requested again
                    L.append(f"drop {n}"); self.dropped.add(n)
                    if r.random() < 0.3: L.append("gc")
                    n2 = self.fresh("s"); L.append(f"route {n2} {rn} {key}"); self.add_stream(n2, self.t(s)); self.ident[n2] = f"route:{rn}:{key}"      # (if another handle of that key is still alive it is the very same stream)
                elif r.random() < self.p.get("routelate", 0.0):
                    # the only handle is dropped and the key is requested again later, from inside a handler of another route
                    L.append(f"drop {n}"); self.dropped.add(n)
                    L.append(f"routelate {self.fresh('l')} {rn} {r.randint(0, 2)} {key}")
            if r.random() < self.p.get("routelate", 0.0):
                L.append(f"routelate {self.fresh('l')} {rn} {r.randint(0, 2)} {r.randint(0, 2)}")
            if r.random() < self.p.get("routehandler", 0.0):
                # a route requested by the handler of some other stream: one that fires with the router's input, one that was
                # deferred from it (built before the router: its handler runs in a later transaction), one of the routes
                # merged with something else (the router is visited although its input is silent), or any stream at all
                how = r.random()
                cands = [x for x in self.streams if x not in self.dropped and not self.t(x)]
                trig = r.choice(cands) if cands else s
                pre = []
                if how < 0.3:
                    trig = self.fresh("s"); pre = [f"defer {trig} {s}"]; self.add_stream(trig, set()); self.ndefer += 1
                elif how < 0.65:
                    # … merged with a sink of its own: when only that sink fires, the router is visited (as a dependency of the
                    # route) although its input is silent
                    other = self.fresh("s"); L.append(f"ssink {other}"); self.add_stream(other); self.ssinks.append(other)
                    rt = self.fresh("s"); trig = self.fresh("s")
                    L.append(f"route {rt} {rn} {r.randint(0, 2)}"); self.add_stream(rt, self.t(s))
                    L.append(f"orelse {trig} {rt} {other}"); self.add_stream(trig, set())
                if pre:
                    # the deferring primitive has to exist before the router does: put it right before the `router` line
                    i = max(j for j, l in enumerate(L) if l.startswith(f"router {rn} "))
                    L[i:i] = pre
                L.append(f"routehandler {self.fresh('l')} {trig} {rn} {r.randint(0, 2)}")
        elif kind in ("sloop", "cloop"):
            return self.gen_loop(kind)
        else:
            return False
        return True

    def gen_loop(self, kind):
        """a loop, a few definitions that use it, and its close, in one transaction"""
        L = self.lines
        if self.open_sloops or self.open_cloops: return False
        L.append("begin")
        if kind == "sloop":
            n = self.fresh("L"); L.append(f"sloop {n}"); self.add_stream(n, {n}); self.open_sloops.append(n)
        else:
            n = self.fresh("K"); L.append(f"cloop {n}"); self.add_cell(n, {n}); self.open_cloops.append(n)
        if kind == "sloop" and self.r.random() < self.p.get("state_loops", 0.5) and self.S():
            return self.gen_state_loop(n)
        if kind == "cloop" and self.r.random() < self.p.get("nested_cloops", 0.3):
            # two cell loops, the outer one closed onto the inner one before the inner one is closed
            m = self.fresh("K"); L.append(f"cloop {m}"); self.add_cell(m, {m})
            u = self.fresh("c"); L.append(f"mapc {u} {n} {self.small()}"); self.add_cell(u, {n})
            src = [c for c in self.cells if c not in self.dropped and not self.t(c)]
            L.append(f"cloopclose {n} {m}")
            if src:
                t = self.r.choice(src)
            elif self.p.get("no_const"):
                t = self.fresh("c"); L.append(f"csink {t} {self.small()}"); self.add_cell(t); self.csinks.append(t)
            else:
                t = self.fresh("c"); L.append(f"const {t} {self.small()}"); self.add_cell(t)
            L.append(f"cloopclose {m} {t}")
            self.open_cloops.remove(n); self.retaint(n, set()); self.retaint(m, set())
            L.append("end")
            return True
        early = None
        if self.r.random() < self.p.get("early_loop_handle", 0.0):
            # `loop.stream()` / `loop.cell()` taken before `loop_`; consumers are attached to it only afterwards
            early = self.fresh("s" if kind == "sloop" else "c"); L.append(f"clone {early} {n}")
        w = self.p["weights"]; saved = (w["sloop"], w["cloop"], w["switchc"]); w["sloop"] = w["cloop"] = 0
        if self.p.get("no_switchc_in_loop"): w["switchc"] = 0
        made = 0
        before = set(self.streams + self.cells)
        self.body = {n}
        for _ in range(30):
            if made >= self.r.randint(2, 5): break
            if self.gen_def():
                made += 1
                self.body |= set(self.streams + self.cells) - before
        w["sloop"], w["cloop"], w["switchc"] = saved
        pos_variation = self.r.random()
        if kind == "sloop":
            cands = [s for s in self.streams if n not in self.taint[s] and s not in self.dropped]
            inbody = [s for s in cands if s in self.body]
            if inbody and self.r.random() < 0.8: cands = inbody
            self.open_sloops.remove(n)
            around = [x for x in self.ssinks if x in cands]
            if around and self.r.random() < self.p.get("sends_around_loop", 0.0):
                # the loop is closed onto a sink that is sent to before and after `loop_`, inside the defining transaction
                t = self.r.choice(around)
                L.append(f"send {t} {self.val()}"); L.append(f"sloopclose {n} {t}"); L.append(f"send {t} {self.val()}")
                self.retaint(n, self.taint[t])
            elif cands:
                t = self.r.choice(cands); L.append(f"sloopclose {n} {t}")
                self.retaint(n, self.taint[t])
            else:
                self.retaint(n, set())
        else:
            cands = [c for c in self.cells if n not in self.taint[c] and c not in self.dropped]
            inbody = [c for c in cands if c in self.body]
            if inbody and self.r.random() < 0.8: cands = inbody
            self.open_cloops.remove(n)
            around = [x for x in self.csinks if x in cands]
            if around and self.r.random() < self.p.get("sends_around_loop", 0.0):
                t = self.r.choice(around)
                L.append(f"send {t} {self.val()}"); L.append(f"cloopclose {n} {t}"); L.append(f"send {t} {self.val()}")
                self.retaint(n, self.taint[t])
            elif cands:
                t = self.r.choice(cands); L.append(f"cloopclose {n} {t}")
                self.retaint(n, self.taint[t])
            else:
                # an unlooped CellLoop must never be sampled: close it on a fresh constant
                t = self.fresh("c")
                if self.p.get("no_const"): L.append(f"csink {t} {self.small()}"); self.csinks.append(t)
                else: L.append(f"const {t} {self.small()}")
                self.add_cell(t); L.append(f"cloopclose {n} {t}")
                self.retaint(n, set())
        if early:
            # the early handle is an ordinary stream/cell from now on (same taint as the loop)
            if kind == "sloop": self.add_stream(early, self.taint.get(n, set()))
            else: self.add_cell(early, self.taint.get(n, set()))
            if self.r.random() < 0.6:
                # attach a consumer right away, still inside the defining transaction but after `loop_`
                if kind == "sloop":
                    m = self.fresh("s"); L.append(f"map {m} {early} {self.small()}"); self.add_stream(m, self.taint.get(early, set()))
                else:
                    m = self.fresh("c"); L.append(f"mapc {m} {early} {self.small()}"); self.add_cell(m, self.taint.get(early, set()))
        L.append("end")
        self.body = None
        return True

    def gen_state_loop(self, n):
        """the canonical use of a StreamLoop: state = hold(loop); next = f(source snapshot state) through a chain of
        wrappers; loop_(next). Every wrapper primitive sits on a real reference cycle."""
        r, L = self.r, self.lines
        src = r.choice([s for s in self.streams if s not in self.dropped and s != n and not self.t(s)] or [None])
        if src is None:
            L.append(f"sloopclose {n} {n}x"); L.append("end"); self.open_sloops.remove(n); self.retaint(n, set()); return True
        st = self.fresh("c"); L.append(f"hold {st} {n} {self.small()}"); self.add_cell(st, {n})
        cur = self.fresh("s"); L.append(f"snapshot {cur} {src} {st} {self.op()}"); self.add_stream(cur, self.t(src))
        for _ in range(r.randint(0, 3)):
            k = r.choice([x for x in ["map", "filter", "once", "gate", "orelse", "merge", "snapshot", "mapto"] if not (x == "once" and self.p.get("no_once"))])
            nx = self.fresh("s")
            if k in ("map", "filter", "mapto"): L.append(f"{k} {nx} {cur} {self.small()}")
            elif k == "once": L.append(f"once {nx} {cur}")
            elif k == "gate": L.append(f"gate {nx} {cur} {st}")
            elif k == "snapshot": L.append(f"snapshot {nx} {cur} {st} {self.op()}")
            else:
                other = r.choice([s for s in self.streams if s not in self.dropped and not self.t(s) and s != cur] or [src])
                L.append(f"orelse {nx} {cur} {other}" if k == "orelse" else f"merge {nx} {cur} {other} {self.op()}")
            self.add_stream(nx, set()); cur = nx
        L.append(f"sloopclose {n} {cur}")
        self.open_sloops.remove(n); self.retaint(n, set())
        if r.random() < 0.5:
            extra = self.fresh("c"); L.append(f"mapc {extra} {st} {self.small()}"); self.add_cell(extra, set())
        L.append("end")
        return True

    def retaint(self, loop, new):
        for k, v in self.taint.items():
            if loop in v:
                v.discard(loop); v |= set(new)

    def val(self):
        a, b = self.p["values"]; return self.r.randint(a, b)

    def gen_listenkill(self):
        """a listener whose handler unlistens another listener that is visited later in the same transaction (it listens one map
        further downstream): the victim must stay silent from that very transaction on"""
        c = [s for s in self.streams if s not in self.dropped and not self.t(s)]
        if not c: return
        x = self.r.choice(c)
        y = self.fresh("s"); self.lines.append(f"map {y} {x} {self.small()}"); self.add_stream(y, set())
        # (a weak listener that is unlistened through its handle must fall silent just the same)
        lv = self.fresh("l"); self.lines.append(f"{'listenweak' if self.r.random() < 0.4 else 'listen'} {lv} {y}"); self.listeners.append(lv)
        lk = self.fresh("l"); self.lines.append(f"listenkill {lk} {x} {lv}"); self.listeners.append(lk)

    def gen_listen(self):
        x = self.r.choice([n for n in self.streams + self.cells if n not in self.dropped] or [None])
        if x is None: return
        l = self.fresh("l")
        self.lines.append(f"{'listenweak' if self.r.random() < self.p.get('weak', 0.0) else 'listen'} {l} {x}")
        self.listeners.append(l)

    def gen_txn(self):
        r, p, L = self.r, self.p, self.lines
        sinks = [s for s in self.ssinks + self.csinks if s not in self.dropped]
        if not sinks: return
        body = []
        nsend = r.randint(*p["sends_per_txn"])
        for _ in range(nsend):
            s = r.choice(sinks)
            body.append(f"send {s} {self.val()}")
            if p["coalesce_sends"] and s in self.coal and r.random() < 0.6:
                for _ in range(r.randint(1, 3)): body.append(f"send {s} {self.val()}")
        intxn = r.random() < p["intxn_defs"]
        extra_pre = []
        if r.random() < p["samples"] and self.cells:
            body.insert(r.randrange(len(body) + 1), f"sample {self.C()}")
        if r.random() < p["lazies"] and self.cells:
            c = self.C()
            # lazies of switch_c results (and of cells computed from them) are outside C17's list: see DESIGN.md
            if c not in self.swc and not (c in self.clone_of and self.clone_of[c] in self.swc):
                z = self.fresh("z"); body.insert(r.randrange(len(body) + 1), f"lazy {z} {c}"); self.lazies.append(z)
        if r.random() < p["posts"] and self.cells:
            body.insert(r.randrange(len(body) + 1), f"post {self.fresh('p')} {self.C()}")
        if r.random() < p.get("postsends", 0.0):
            # sends made by posted closures (transactions of their own after this one), queued before or after the sends
            for _ in range(r.randint(1, 2)):
                body.insert(r.randrange(len(body) + 1), f"postsend {self.fresh('p')} {r.choice(sinks)} {self.val()}")
        if r.random() < p.get("unlisten_in_txn", 0.0) and self.listeners:
            # unlisten while the transaction is open, before or after the sends
            body.insert(r.randrange(len(body) + 1), f"unlisten {r.choice(self.listeners)}")
        if len(body) == 1 and body[0].startswith("send") and r.random() > p["nest"] and not intxn:
            L.append(body[0])
        else:
            scoped = r.random() < p["scoped"]
            depth = 1 + (r.randint(0, 3) if r.random() < p["deep_nest"] else 0)
            # open
            opens, closes = [], []
            for d in range(depth):
                if scoped and r.random() < 0.7:
                    t = self.fresh("t"); opens.append(f"topen {t}")
                    how = r.random()
                    closes.insert(0, [f"tclose {t}"] if how < 0.4 else [f"tdrop {t}"] if how < 0.7 else [f"tclose {t}", f"tdrop {t}"] if how < 0.85 else [f"tclose {t}", f"tclose {t}"])
                else:
                    opens.append("begin"); closes.insert(0, ["end"])
            L.extend(opens)
            mark = len(L)
            L.extend(body)
            if intxn:
                # definitions and listener registrations inside the sending transaction, at random positions
                pos = r.randint(mark, len(L))
                tail = L[pos:]; del L[pos:]
                for _ in range(r.randint(1, 2)):
                    for _ in range(10):
                        if self.gen_def(): break
                    if r.random() < 0.7:
                        x = self.streams[-1] if self.streams and r.random() < 0.5 else None
                        if x and x not in self.dropped:
                            l = self.fresh("l"); L.append(f"listen {l} {x}"); self.listeners.append(l)
                        else:
                            self.gen_listen()
                        if p.get("unlisten_new_in_txn") and self.listeners and r.random() < p["unlisten_new_in_txn"]:
                            # registered and unlistened again before the transaction closes
                            L.append(f"unlisten {self.listeners[-1]}")
                L.extend(tail)
                if p.get("hold_fired_in_txn") and r.random() < p["hold_fired_in_txn"]:
                    # a cell built on a stream that was already sent to in this transaction, and read before it closes
                    sent = [l.split()[1] for l in body if l.startswith("send ") and l.split()[1] in self.ssinks]
                    if sent:
                        x = r.choice(sent); c = self.fresh("c")
                        L.append(f"hold {c} {x} {self.small()}" if r.random() < 0.7 else f"accum {c} {x} {self.small()} {self.op()}")
                        self.add_cell(c, set())
                        how = r.random()
                        if how < 0.5: L.append(f"sample {c}")
                        elif how < 0.8:
                            n = self.fresh("s"); L.append(f"snapshot {n} {x} {c} {self.op()}"); self.add_stream(n, set())
                            l = self.fresh("l"); L.append(f"listen {l} {n}"); self.listeners.append(l)
                        else:
                            z = self.fresh("z"); L.append(f"lazy {z} {c}"); self.lazies.append(z)
                if p.get("listen_fired_in_txn") and r.random() < p["listen_fired_in_txn"]:
                    # a listener on a stream that was already sent to in this transaction, perhaps unlistened again at once
                    sent = [l.split()[1] for l in body if l.startswith("send ")]
                    if sent:
                        x = r.choice(sent); l = self.fresh("l"); L.append(f"listen {l} {x}"); self.listeners.append(l)
                        if r.random() < 0.5: L.append(f"unlisten {l}")
            if r.random() < 0.1 and p["obs"] > 0: L.append("obs")
            # scoped closes may be non-LIFO
            flat = closes
            if scoped and r.random() < 0.3 and all(c != ["end"] for c in closes): r.shuffle(flat)
            for c in flat: L.extend(c)
        if r.random() < p["obs"]: L.append("obs")

    def gen_between(self):
        r, p, L = self.r, self.p, self.lines
        if r.random() < p["samples"] and self.cells: L.append(f"sample {self.C()}")
        if r.random() < p["unlisten"] and self.listeners: L.append(f"unlisten {r.choice(self.listeners)}")
        if r.random() < p["lazies"] and self.lazies:
            z = r.choice(self.lazies)
            if r.random() < 0.3:
                y = self.fresh("z"); L.append(f"clonelazy {y} {z}"); self.lazies.append(y)
            for _ in range(r.randint(1, 3)): L.append(f"force {r.choice(self.lazies)}")
        if r.random() < p["drops"]:
            keep = set(self.ssinks + self.csinks)
            cands = [n for n in self.streams + self.cells if n not in self.dropped and n not in keep]
            if cands:
                x = r.choice(cands); L.append(f"drop {x}"); self.dropped.add(x)
        if r.random() < p["drops"] * 0.3:
            cands = [n for n in self.streams + self.cells if n not in self.dropped]
            if cands:
                x = r.choice(cands); y = self.fresh("s" if x in self.streams else "c"); L.append(f"clone {y} {x}")
                (self.streams if x in self.streams else self.cells).append(y); self.taint[y] = set(self.taint.get(x, ()))
                if x in self.swc: self.swc.add(y)
                if x in self.ident: self.ident[y] = self.ident[x]
                elif x in self.streams: self.ident[y] = x
                if x in self.ustream: self.ustream[y] = self.ustream[x]
                elif x in self.cells: self.ustream[y] = "u:" + x
        if r.random() < p.get("drop_listeners", 0.0) and self.listeners:
            l = r.choice(self.listeners)
            if l not in self.dropped: L.append(f"drop {l}"); self.dropped.add(l)
        if r.random() < p.get("drop_routers", 0.0) and self.routers:
            rn = r.choice(self.routers)[0]
            if rn not in self.dropped: L.append(f"drop {rn}"); self.dropped.add(rn)
        if r.random() < p["gcs"]: L.append("gc")
        if r.random() < p.get("graphdumps", 0.0): L.append("graphdump")
        if r.random() < p.get("memchecks", 0.0): L.append("memcheck")
        if r.random() < p.get("wfchecks", 0.0): L.append("wfcheck")
        if r.random() < p["posts"] * 0.3 and self.cells: L.append(f"post {self.fresh('p')} {self.C()}")

    def malformed(self):
        r, L = self.r, self.lines
        closes = [i for i, l in enumerate(L) if l.startswith("sloopclose") or l.startswith("cloopclose")]
        if closes and r.random() < 0.5:
            i = r.choice(closes)
            if r.random() < 0.5 or L[i].startswith("sloopclose"):
                L.insert(i + 1, L[i])                       # loop closed twice
            else:
                L.insert(i, f"sample {L[i].split()[1]}")   # CellLoop sampled before it is looped
            return
        for _ in range(r.randint(1, 3)):
            k = r.randrange(8)
            pos = r.randrange(len(L) + 1)
            x = r.choice(self.streams + self.cells + ["nope", "l999"]) if (self.streams or self.cells) else "nope"
            line = [f"map {self.fresh('s')} nope 1", f"send {x} 3", f"sample {x}", f"unlisten {x}", "end", f"hold {x} {x} 1",
                    f"tclose {x}", f"frobnicate {x}"][k]
            L.insert(pos, line)

    def program(self):
        r, p = self.r, self.p
        nd = r.randint(*p["n_defs"])
        made = 0
        for _ in range(nd * 6):
            if made >= nd: break
            if self.gen_def():
                made += 1
                if p.get("toplevel_mix") and r.random() < 0.5: self.gen_between()
        if not (self.ssinks or self.csinks):
            n = self.fresh("s"); self.lines.insert(0, f"ssink {n}"); self.add_stream(n); self.ssinks.append(n)
        for _ in range(r.randint(*p["n_listen"])): self.gen_listen()
        if r.random() < p.get("listenkills", 0.0): self.gen_listenkill()
        for _ in range(r.randint(*p["n_txn"])):
            if p.get("updlogs"):
                # L-sched-api: the scheduler's update log of exactly this transaction
                self.lines.append("updclear"); self.gen_txn(); self.lines.append("updlog")
            else:
                self.gen_txn()
            self.gen_between()
        if p.get("periodic"):
            # the same transaction pattern repeated; node count recorded at the same phase of every period
            sinks = [x for x in self.ssinks + self.csinks if x not in self.dropped]
            if sinks:
                pattern = []
                # cell sinks are what selectors hang off: (almost) every period switches every selector
                for cs in [x for x in self.csinks if x not in self.dropped]:
                    if r.random() < 0.85: pattern.append(f"send {cs} {self.val()}")
                for _ in range(r.randint(0, 2)):
                    pattern.append(f"send {r.choice(sinks)} {self.val()}")
                if not pattern: pattern.append(f"send {r.choice(sinks)} {self.val()}")
                for period in range(p["periodic"]):
                    for k, l in enumerate(pattern):
                        w = l.split(); self.lines.append(f"{w[0]} {w[1]} {int(w[2]) + period % 3}")
                    self.lines.append("nodes")
        if p["malformed"]: self.malformed()
        if p.get("graphdumps"): self.lines += ["gc", "graphdump"]
        if p["leakcheck"]: self.lines += ["leakcheck"]
        return self.lines


def generate(rng, prof):
    return Gen(rng, prof).program()
