"""Registry: property id -> Lean modules/theorems, run function, replay function."""
from common import *
import c_gc
import c_sched
import c_api
import c_txn
import c_iso
import c_conc
import c_meta
import c_struct
import c_schedapi
import c_lazy
import thms

TRUSTED = [
    "Lean 4.33.0 kernel; axioms allowed in any property theorem: propext, Classical.choice, Quot.sound (checked by #print axioms on every run)",
    "the hand-written Lean models under /verif/lean/SodiumVerif/Model (what is proved is about them)",
    "the correspondence harness /verif/harness (Rust, in-process against /repo with feature verif_hooks) and the generators/orchestrator under /verif/tools",
    "rustc/cargo, parking_lot, std Arc/Weak semantics; user closures are pure total functions",
]
ASSUME = [
    "model and implementation are tied by differential execution on generated and corpus scripts: behaviour reached by no script can differ unnoticed",
    "single-threaded execution unless stated (C19/C20)",
]


def gc_replay(path):
    ops = [l.strip() for l in open(path) if l.strip() and not l.startswith("#") and not l.startswith("correspondence")]
    if ops and ops[0].startswith("gc-deep"):
        rc, out, err = run([HBIN] + ops[0].split(), stdin=b"", timeout=300, mem_gb=6)
        print(out.strip(), err.strip()[-300:], f"rc={rc}")
        return 0 if "deep=ok" in out else 1
    text = "\n".join(ops) + "\n"
    hl, ml, rc, herr = run_pair("gc", text, harness_env={"GC_TRUTH": "1"})
    bad = False
    for o, h, m in zip(ops, hl, ml):
        flag = "" if h.split("\t")[0] == m else "   <-- model differs"
        if "TRUTH-FAIL" in h or flag: bad = True
        print(f"{o:14s} impl: {h}\n{'':14s} model: {m}{flag}")
    return 1 if bad else 0


def run_c08(tier, seed):
    cov, res, scripts, wall = c_gc.check_c08(tier, seed)
    viols = []
    def run_one(s):
        r = c_gc.gc_compare([s], counters=False); return r
    if res["truth"]:
        k, j, f = res["truth"][0]
        s = scripts[k][: j + 1] if k >= 0 else []
        if s:
            s = c_gc.shrink(s, lambda c: bool(run_one(c)["truth"]))
        viols.append({"what": f"collector contradicts C08 on the real library: {f}", "found_input": True,
                      "replay_text": "# implementation vs reachability ground truth: " + str(f) + "\n" + "\n".join(s) + "\n",
                      "signature": " ; ".join(s)})
    elif res["disagree"]:
        k, j, h, m = res["disagree"][0]
        s = scripts[k][: j + 1] if k >= 0 else []
        if s:
            s = c_gc.shrink(s, lambda c: bool(run_one(c)["disagree"]))
        viols.append({"what": f"model M_gc and gc_node.rs disagree ({len(res['disagree'])} scripts); no contract-respecting history violating C08 found on the implementation",
                      "found_input": False,
                      "replay_text": "correspondence L-gc (Model/Gc.lean vs src/impl_/gc_node.rs) no longer checks; theorems of Props/C08.lean no longer apply to the code\n"
                                     f"# first disagreement: impl `{h}` model `{m}`\n" + "\n".join(s) + "\n",
                      "signature": None})
    c = cov["correspondence"]
    return {"coverage": cov, "violations": viols,
            "summary": f"L-gc scripts={c['scripts']} disagreements={c['model_vs_impl_disagreements']} truth_failures={c['impl_vs_ground_truth_failures']}"}


def run_c16(tier, seed):
    import re
    viols, table, bad, per, disagree_total, nscripts = [], [], [], {}, 0, 0
    all_scripts, all_meta = [], []
    first_disagree = None
    for scripts, meta, res in c_gc.check_c16(tier, seed):
        base = len(all_scripts); all_scripts += scripts; all_meta += meta; nscripts += len(scripts)
        # implementation-only predicate on this size tier: linear bound on the real counters (memory- and time-capped run)
        text = "".join("\n".join(s) + "\n---\n" for s in scripts)
        try:
            rc, hout, herr = run([HBIN, "gc"], stdin=text.encode(), timeout=120 if meta[0][2] <= 64 else 900, mem_gb=6)
        except Exception as e:
            rc, hout, herr = 124, "", "timeout"
        groups = hout.split("---\n")
        for k, (kind, ch, kk, n, e) in enumerate(meta):
            lines = groups[k].strip().split("\n") if k < len(groups) else []
            cl = [l for l in lines if l.startswith("n=")]
            if not cl:
                bad.append((base + k, f"no result within the time/memory budget (rc={rc}): " + (lines[-1] if lines and lines[-1] else herr[-200:])))
                continue
            m = re.search(r"freed=(\d+) R:(\d+) T:(\d+) C:(\d+)/(\d+)", cl[0])
            freed, tc, ec = int(m.group(1)), int(m.group(4)), int(m.group(5))
            table.append({"family": kind, "roots": ch, "k": kk, "objects": n, "edges": e, "trace_calls": tc, "edge_callbacks": ec, "freed": freed})
            if tc > 30 * (2 * n) + 30 or ec > 30 * e + 30:
                bad.append((base + k, f"cost not linear: {tc} trace calls / {ec} callbacks for {n} objects, {e} edges"))
            per.setdefault((kind, ch), []).append((kk, (tc + ec) / float(n + e + 1)))
        if res["disagree"] and first_disagree is None:
            k, j, h, m = res["disagree"][0]
            first_disagree = (base + k if k >= 0 else -1, j, h, m)
        disagree_total += len(res["disagree"])
        if bad: break          # never run a collector that is already super-linear on larger graphs
    scripts, meta = all_scripts, all_meta
    for key, pts in per.items():
        pts.sort()
        for (k1, c1), (k2, c2) in zip(pts, pts[1:]):
            if key[0] != 'shared' and k1 >= 16 and k2 == 2 * k1 and c2 > 1.25 * c1:
                bad.append((next(i for i, mm in enumerate(meta) if (mm[0], mm[1], mm[2]) == (key[0], key[1], k2)),
                            f"cost per object+edge grows with the size: {key} k={k1}: {c1:.2f} -> k={k2}: {c2:.2f}"))
    if bad:
        k, why = bad[0]
        viols.append({"what": "collection cost/termination violated on the real collector: " + why, "found_input": True,
                      "replay_text": f"# {why}\n# family {meta[k][:3]}\n" + "\n".join(scripts[k]) + "\n", "signature": f"{meta[k][0]}/{meta[k][1]}"})
    elif first_disagree:
        k, j, h, m = first_disagree
        viols.append({"what": f"model M_gc and gc_node.rs disagree on trace-call counters ({disagree_total} family scripts); measured cost still within the linear bound",
                      "found_input": False,
                      "replay_text": "correspondence L-gc with exact trace/edge counters (Model/Gc.lean vs src/impl_/gc_node.rs) no longer checks; cost theorems of Props/C16.lean no longer apply to the code\n"
                                     f"# family {meta[k][:3] if k >= 0 else '?'}; first disagreement at line {j}: impl `{h}` model `{m}`\n" + ("\n".join(scripts[k]) if k >= 0 else "") + "\n",
                      "signature": None})
    # the collector's walks recurse along dependency paths: a long chain on a stack of ordinary size (8 MiB; the harness
    # itself runs on 1 GiB) — a separate process, because a stack overflow aborts it
    deep = {}
    for (n, mb) in ((100000, 8), (100000, 1024)):
        try:
            rc, hout, herr = run([HBIN, "gc-deep", str(n), str(mb)], stdin=b"", timeout=300, mem_gb=6)
        except Exception as e:
            rc, hout, herr = 124, "", "timeout"
        deep[f"chain of {n} objects on a {mb} MiB stack"] = "collected" if "deep=ok" in hout else f"process died (rc={rc}): {herr.strip().splitlines()[-1] if herr.strip() else ''}"
        if "deep=ok" not in hout:
            viols.append({"what": f"the collection of an abandoned cyclic chain of {n} objects on a {mb} MiB stack does not terminate normally: the recursive marking overflows the stack (rc={rc})",
                          "found_input": True, "signature": f"class:collector-recursion-stack-{mb}MiB",
                          "replay_text": f"# harness gc-deep {n} {mb}: builds a chain of {n} collector objects closed into a cycle, drops every handle, collects on a thread with a {mb} MiB stack\n"
                                         f"# outcome: rc={rc} {herr.strip()[-300:]}\ngc-deep {n} {mb}\n"})
    big = max(table, key=lambda r: r["objects"]) if table else {}
    cov = {"deep_chains": deep, "evaluations": nscripts, "distinct_nontrivial": len({(m[0], m[1], m[2]) for m in meta if m[2] >= 2}),
           "rule": "graph families (ladder of diamonds, cyclic ladder, fan-out, fan-in, chain, ring, random shared DAG) x candidate-root choices (all dropped / top first / keep bottom / keep top) x sizes, smallest sizes first (the run stops at the first size that violates the bound; every harness run is capped at 6 GB and 2-15 min); non-trivial = size >= 2; each built on the real GcCtx and on the model, trace()/callback counters compared exactly after each collection",
           "samples": [table[0], big] if table else [],
           "correspondence": {"level": "L-gc (brief observations: counters exact)", "scripts": nscripts, "model_vs_impl_disagreements": disagree_total},
           "cost_table_excerpt": [r for r in table if r["family"] in ("ladder", "shared") and r["roots"] == "all"][-6:],
           "max_objects": big.get("objects"), "bound_checked": "trace_calls <= 60*objects+30, callbacks <= 30*edges+30, (calls+callbacks)/(objects+edges) grows by <= 25% per doubling (deterministic families, k >= 16)"}
    return {"coverage": cov, "violations": viols, "summary": f"families={nscripts} max_objects={big.get('objects')} disagreements={disagree_total}"}

def node_replay(path):
    head = open(path).readline()
    if "L-sched-api" in head: return c_schedapi.replay(path)
    if "L-struct" in head: return c_struct.replay(path)
    if not head.startswith("correspondence L-node") and not head.startswith("# implementation vs the glitch") and ("S `" in open(path).read() or "specification S" in head):
        return c_api.replay(path)
    ops = [l.strip() for l in open(path) if l.strip() and not l.startswith("#") and not l.startswith("correspondence")]
    text = "\n".join(ops) + "\n"
    hl, ml, rc, herr = run_pair("node", text, harness_env={"NODE_TRUTH": "1"})
    bad = False
    for o, h, m in zip(ops, hl, ml):
        flag = "" if h.split("\t")[0] == m else "   <-- model differs"
        if "TRUTH-FAIL" in h or flag: bad = True
        print(f"{o:14s} impl: {h}\n{'':14s} model: {m}{flag}")
    return 1 if bad else 0


def run_c03(tier, seed):
    cov, res, scripts = c_sched.check_c03(tier, seed)
    viols = []
    if res["truth"]:
        k, j, f = res["truth"][0]
        s = scripts[k][: j + 1]
        s = c_sched.minimise(s, lambda c: bool(c_sched.node_compare([c])["truth"]))
        viols.append({"what": f"glitch on the real scheduler: {f} ({len(res['truth'])} failing transactions)", "found_input": True,
                      "replay_text": "# implementation vs glitch-freedom ground truth: " + f + "\n" + "\n".join(s) + "\n",
                      "signature": " ; ".join(l for l in s if not l.startswith("variant"))})
    elif res["disagree"]:
        k, j, h, m = res["disagree"][0]
        s = scripts[k][: j + 1] if k >= 0 else []
        if s: s = c_sched.minimise(s, lambda c: bool(c_sched.node_compare([c])["disagree"]))
        viols.append({"what": f"model M_sched and update_node disagree on update order ({len(res['disagree'])} scripts); no glitch found on the implementation",
                      "found_input": False,
                      "replay_text": "correspondence L-node (Model/Sched.lean vs src/impl_/sodium_ctx.rs update_node/end_of_transaction) no longer checks; theorem sched_glitch_free of Props/C03.lean no longer applies to the code\n"
                                     f"# first disagreement: impl `{h}` model `{m}`\n" + "\n".join(s) + "\n", "signature": None})
    c = cov["correspondence"]
    sa_info, sa_viols = c_schedapi.check(tier, seed)
    cov["correspondence_sched_api"] = sa_info
    viols += sa_viols
    api = c_api.run_api_prop("C03", tier, seed)
    cov["correspondence_api"] = api["coverage"]["correspondence"]
    cov["api_input_distribution"] = api["coverage"]["input_distribution"]
    viols += api["violations"]
    return {"coverage": cov, "violations": viols, "summary": f"L-node scripts={c['scripts']} txns={c['transactions']} disagreements={c['model_vs_impl_disagreements']} truth_failures={c['impl_vs_ground_truth_failures']} L-sched-api txns={sa_info['transactions_compared']} updates={sa_info['update_closures_compared']} disagreements={sa_info['disagreements']} " + api["summary"]}


def make_api_run(pid, with_txn=False, extra=None):
    def run(tier, seed):
        out = c_api.run_api_prop(pid, tier, seed)
        if with_txn:
            info, viol = c_txn.check(tier, seed)
            out["coverage"]["correspondence_txn"] = info
            if viol: out["violations"].append(viol)
            out["summary"] += f" L-txn scripts={info['scripts']} disagreements={info['disagreements']}"
        if extra:
            extra(tier, seed, out)
        return out
    return run


def api_replay(path):
    head = open(path).readline()
    if "L-lazy" in head: return c_lazy.replay(path)
    return c_struct.replay(path) if "L-struct" in head else c_api.replay(path)


def struct_extra(pid):
    def f(tier, seed, out):
        info, viols = c_struct.check(pid, tier, seed)
        out["coverage"]["correspondence_struct"] = info
        out["violations"] += viols
        out["summary"] += f" L-struct scripts={info['scripts']} dumps={info['graph_dumps_compared']} disagreements={info['disagreements']}"
    return f


def lazy_extra(tier, seed, out):
    info, viol = c_lazy.check(tier, seed)
    out["coverage"]["correspondence_lazy"] = info
    if viol: out["violations"].append(viol)
    out["summary"] += f" L-lazy scripts={info['scripts']} disagreements={info['disagreements']}"


def meta_c09(tier, seed, out):
    base, var, ra, rb, bad = c_meta.check(tier, seed)
    out["coverage"]["metamorphic"] = {"programs": len(base), "variants_differing": len(bad),
        "rule": "each program also run in a variant with independent definitions and listener registrations reordered, clones/drops of unused handles and explicit collections inserted; per-listener sequences and samples must be equal (implementation only, no oracle)",
        "sample_variant": " ; ".join(var[0][:20])}
    out["summary"] += f" metamorphic programs={len(base)} differing={len(bad)}"
    if bad:
        k = bad[0]
        a = c_meta.per_listener(base[k], ra[k][0]); b = c_meta.per_listener(var[k], rb[k][0])
        out["violations"].append({"what": f"outputs depend on construction order / handle lifetime / collection timing ({len(bad)} programs): {a} vs {b}", "found_input": True, "signature": None,
            "replay_text": "# two programs differing only in construction order, clones/drops of unused handles and gc lines deliver different outputs\n# program A\n" + "\n".join(base[k]) + "\n# program B (variant)\n" + "\n".join("#B " + l for l in var[k]) + "\n"})


API_TEXT = {
 "C01": ("transaction atomicity: M_txn theorems (nothing runs while a transaction is open; one end_of_transaction per outermost close) + S defines one delivery per listener per transaction", "nesting / late-listener profiles; callbacks are attributed to the script line at which they ran"),
 "C02": ("the firing equations of S (one per primitive) and the theorem that S's table solves them; T-sched (C03) shows the scheduler computes the unique solution of such equations", "stream compositions with simultaneous sinks, in-transaction construction, self-merges"),
 "C04": ("cell step/hold/accum fold theorems on S", "reads at every position relative to sends, long histories"),
 "C05": ("switch equations of S", "switching among candidate sets with coinciding events"),
 "C10": ("listener lifecycle lemmas on the script semantics of S", "registration/unlisten at every position, drops and collections"),
 "C11": ("loop transparency lemmas on S", "loops closed inside their defining transaction, misuse panics"),
 "C12": ("M_txn phase-order theorems + facts regenerated from the source (queue of hold commit / once detach / defer)", "defer/split/post with cells, both construction orders"),
 "C13": ("lift/map invariants on S", "towers of map/lift over sinks, holds, loops and switches"),
 "C14": ("M_txn bracket/quiescence theorems (quiescent_after_close for every set of closures the propagation pushes, set-up closures that queue more set-up work included)", "deep nesting of closure and scoped transactions, idle observables, FRP built by handlers and mapping functions while the transaction closes"),
 "C15": ("send fold theorem on S.addSend", "coalescing sinks with several sends per transaction over nested transactions"),
 "C17": ("Lazy memo-cell theorems (one cell: thunk_at_most_once; a heap of memo cells whose thunks force other lazies, with clones and drops: runs_le_one, force_returns_den, clones_agree, force_idempotent on Model/LazyHeap, tied to the real Lazy by level L-lazy) + S lazy snapshot semantics", "lazies taken and forced at varying delays"),
 "C18": ("router = filter equation of S", "routers with duplicate keys, routes requested at any time"),
 "C06": ("collector soundness theorems on M_gc, lifted to the collector graph of every API program by M_struct (run_reachable, struct_sound: recipes of every primitive as client operations of M_gc, compared with the real collector graph at every graphdump, level L-struct) + contract check of the real gc graph", "drops/clones/collections interleaved with transactions; every 2-/3-definition program dropped newest-first"),
 "C07": ("collector completeness/termination theorems on M_gc, lifted to the collector graph of every API program by M_struct (struct_gc_complete, leakcheck_frees_all: after unlistening and dropping everything a collection frees every object, provided no Rust value owns a handle the collector cannot see; d6_witness: thirteen nodes survive when one does; level L-struct ties the recipes, including the rewiring of switch_s/switch_c and the detachment of once driven by the values S computes, to the real graph) + leak check", "abandon programs at any point, drop everything, collect"),
 "C09": ("order-independence: unique solution of S's equations and of the scheduler's fixed point", "metamorphic reorderings"),
}

HOOK_COMMITS = ["fdc44d7", "54e378f"]
NOT_CLAIMED = {}

PROPS = {
    "C08": {"modules": ["SodiumVerif.Props.C08", "SodiumVerif.Props.C07", "SodiumVerif.Props.C06"], "audit_import": ["SodiumVerif.Props.C08", "SodiumVerif.Props.C07", "SodiumVerif.Props.C06"], "theorems": c_gc.C08_THEOREMS,
            "run": run_c08, "replay": gc_replay,
            "technique": "Lean 4 theorems on the collector model M_gc + exact-state differential correspondence with gc_node.rs (random and exhaustive histories)",
            "level_text": "Theorems about M_gc (a line-by-line executable model of gc_node.rs) for every object graph and history; the model is tied to the code by comparing the full hidden collector state after every operation of random (quick) and exhaustively enumerated (thorough) histories, and the implementation is separately checked against a reachability ground truth to find concrete failing histories.",
            "level_note": "Trusted: Lean kernel (+propext, Classical.choice, Quot.sound), the hand-written model, the harness with synthetic objects (destructor releases its out-edges), hook accessors. Bounded only in the tie: <=6 objects/<=40 ops random, <=3 objects length 7 and 8, <=2 objects length 8 exhaustive.",
            "design_ref": "DESIGN.md section 6, C08"},
    "C16": {"modules": ["SodiumVerif.Props.C16", "SodiumVerif.Props.C16b"], "audit_import": ["SodiumVerif.Props.C16", "SodiumVerif.Props.C16b"], "theorems": c_gc.C16_THEOREMS,
            "run": run_c16, "replay": gc_replay,
            "technique": "Lean 4 cost/termination theorems on M_gc with trace-call counters + exact counter correspondence with the hooked collector on graph families",
            "level_text": "Termination (fuel never exhausted) and a linear bound on trace() calls per pass are theorems about M_gc for every graph; the model's counters must equal the real collector's hook counters exactly on ladders of diamonds, fans, chains, rings and random shared graphs at doubling sizes, and the implementation's own counters are checked against the linear bound and a doubling-ratio test. Stack depth is outside the theorems: a separate process collects an abandoned chain of 100 000 objects on an 8 MiB stack (known finding D29: the recursive walks overflow it) and on the harness's 1 GiB stack (must terminate).",
            "level_note": "Cost is counted in trace() invocations and tracer callbacks, never wall-clock. Trusted as for C08; the hook counters in GcNode::trace.",
            "design_ref": "DESIGN.md section 6, C16"},
    "C03": {"modules": ["SodiumVerif.Props.C03", "SodiumVerif.Props.Refine"], "audit_import": ["SodiumVerif.Props.C03", "SodiumVerif.Props.Refine"], "theorems": c_sched.C03_THEOREMS,
            "run": run_c03, "replay": node_replay,
            "technique": "Lean 4 theorem on the scheduler model M_sched (every DAG, every registration order) + exact update-order correspondence with update_node on raw Node graphs",
            "level_text": "Glitch freedom is a theorem about M_sched for every finite DAG, registration order and set of fired sources; the model's update order must equal the real update_node's on random DAGs and on every DAG with <=4 (quick) / <=5 (thorough) nodes x registration orders x fired subsets, and the implementation is separately checked against a direct glitch predicate to find concrete failing graphs. Level L-sched-api runs the same model on the node graphs the public API builds (M_struct's recipes give every node's dependencies) and compares the order of all update closures of every sending transaction with the hook log of the real update_node (the set of firing nodes is taken from the real run).",
            "level_note": "Trusted as for C08; raw Node graphs use a recording update closure (fires iff a dependency fired). API-level lifts/merges are covered under C02/C13.",
            "design_ref": "DESIGN.md section 6, C03"},
}

PROPS["C19"] = {
    "modules": ["SodiumVerif.Props.C19"], "audit_import": ["SodiumVerif.Props.C19"],
    "theorems": ["SodiumVerif.Iso.no_process_state", "SodiumVerif.Iso.ctx_frame"],
    "run": c_iso.check, "replay": c_iso.replay,
    "technique": "Lean 4: inventory of global state regenerated from the source (must be empty, by rfl) + frame theorem for products of state machines; two-context differential runs (alone / interleaved / two threads)",
    "level_text": "no_process_state is a theorem about Gen/Facts.lean, which is regenerated from /repo/src on every run (no static, thread_local!, lazy_static!, once-cell items); ctx_frame: for every interleaving of operations on two contexts each context's state and outputs are what its own operations produce alone. Tie: pairs of random programs are run alone, interleaved on one thread (also inside the other's open transaction) and on two OS threads; per-context outputs and node counts must be identical.",
    "level_note": "The scanner is lexical (trusted only for what it is). Thread schedules are sampled, not enumerated: a data race inside shared infrastructure outside the library (the global `log` logger, the allocator) is outside the model. With the hooks feature on, the hook module has thread-local counters and one static (the schedule hook): excluded from the scan and unused in these runs.",
    "design_ref": "DESIGN.md section 6, C19",
}

PROPS["C20"] = {
    "modules": ["SodiumVerif.Props.C20", "SodiumVerif.Props.C20b"], "audit_import": ["SodiumVerif.Props.C20", "SodiumVerif.Props.C20b"],
    "theorems": ["SodiumVerif.Conc.send_alone", "SodiumVerif.Conc.program_alone", "SodiumVerif.Conc.serial_delivers_all", "SodiumVerif.Conc.exclusive_delivers_all",
                 "SodiumVerif.Conc.exclusive_exactly_once", "SodiumVerif.Conc.serial_both_delivered", "SodiumVerif.Conc.lost_send_witness", "SodiumVerif.Conc.merged_txn_witness",
                 "SodiumVerif.Conc.same_sink_overwrite_witness", "SodiumVerif.Conc.unsafe_inventory"],
    "run": c_conc.check, "replay": c_conc.replay,
    "technique": "Lean 4 model of threads at schedule-point granularity (M_conc) with machine-checked counterexample executions; every enumerated schedule forced on real threads through the library's schedule hooks and compared with the model; outcomes classified against the property (partial: the property is false, known finding D7)",
    "level_text": "PARTIAL. Positive part: serial_delivers_all / exclusive_delivers_all — if the threads' sends do not overlap (any order of whole sends, any number of threads and sends) every send is delivered exactly once and the context ends idle. Negative part: the property is false of the model and of the code: lost_send_witness, merged_txn_witness and same_sink_overwrite_witness are complete executions of M_conc (checked by kernel evaluation), and the harness replays each enumerated schedule on two real threads with baton passing at the library's schedule points; the model must predict every outcome, and every outcome is classified (lost / duplicate / residue / panic / hung). The lost-send classes are known findings (D7: no transaction lock); any other class, or a model/implementation disagreement, is reported. Outside the model: real unforced threads in which one thread only clones and drops handles while the other sends (known finding D33: the collector's colour marks are raced; reported when it shows), and a compile-time-decided, run-time-reported check that every handle type is Send + Sync.",
    "level_note": "Schedules are at schedule-point granularity: finer interleavings, torn or reordered accesses (GcNodeData.color is a plain Cell under unsafe impl Sync, Relaxed counters), and lock fairness are outside the model; absence of a bad schedule here would prove nothing about the runtime. decide +kernel is used for the witness theorems (kernel evaluation, no extra axioms).",
    "design_ref": "DESIGN.md section 6, C20",
}

for _pid in ["C01", "C02", "C04", "C05", "C10", "C11", "C12", "C13", "C14", "C15", "C17", "C18", "C06", "C07", "C09"]:
    _t = thms.THEOREMS.get(_pid, [])
    if not _t: continue
    PROPS[_pid] = {
        "modules": thms.MODULES[_pid], "audit_import": thms.MODULES[_pid], "theorems": _t,
        "run": make_api_run(_pid, with_txn=_pid in ("C01", "C12", "C14"), extra=meta_c09 if _pid == "C09" else lazy_extra if _pid == "C17" else struct_extra(_pid) if _pid in ("C06", "C07") else None), "replay": api_replay,
        "technique": "Lean 4 theorems on " + API_TEXT[_pid][0] + "; differential correspondence of the real library with the Lean specification S on generated programs",
        "level_text": "Theorems: " + API_TEXT[_pid][0] + ". Tie: every generated script (" + API_TEXT[_pid][1] + ") is executed on the real library in-process and on the executable Lean specification S, outputs compared line by line (callbacks with the line at which they ran, samples, forced lazies, panics, idle observables); any disagreement is minimised and reported with the script as replay.",
        "level_note": "Trusted: Lean kernel (+propext, Classical.choice, Quot.sound), the hand-written S and models, harness and generators. The theorems are about S / the mechanism models; that the code refines S is checked by differential execution, not proved. 64-bit wrapping integers; single-threaded.",
        "design_ref": "DESIGN.md section 6, " + _pid,
    }

