"""Registry: property id -> Lean modules/theorems, run function, replay function."""
from common import *
import c_gc

TRUSTED = [
    "Lean 4.33.0 kernel; axioms allowed in any property theorem: propext, Classical.choice, Quot.sound (checked by #print axioms on every run)",
    "the hand-written Lean models under /verif/lean/SodiumVerif/Model (what is proved is about them)",
    "the correspondence harness /verif/harness (Rust, in-process against /repo with feature verif_hooks) and the generators/orchestrator under /verif/tools",
    "rustc/cargo, parking_lot, std Arc/Weak semantics; user closures are pure total functions",
]
ASSUME = [
    "model and implementation are tied by differential execution on generated and corpus scripts: behaviour reached by no script can differ unnoticed",
    "single-threaded execution unless stated (C19/C20)",
]


def gc_replay(path):
    ops = [l.strip() for l in open(path) if l.strip() and not l.startswith("#") and not l.startswith("correspondence")]
    text = "\n".join(ops) + "\n"
    hl, ml, rc, herr = run_pair("gc", text, harness_env={"GC_TRUTH": "1"})
    bad = False
    for o, h, m in zip(ops, hl, ml):
        flag = "" if h.split("\t")[0] == m else "   <-- model differs"
        if "TRUTH-FAIL" in h or flag: bad = True
        print(f"{o:14s} impl: {h}\n{'':14s} model: {m}{flag}")
    return 1 if bad else 0


def run_c08(tier, seed):
    cov, res, scripts, wall = c_gc.check_c08(tier, seed)
    viols = []
    def run_one(s):
        r = c_gc.gc_compare([s]); return r
    if res["truth"]:
        k, j, f = res["truth"][0]
        s = scripts[k][: j + 1] if k >= 0 else []
        if s:
            s = c_gc.shrink(s, lambda c: bool(run_one(c)["truth"]))
        viols.append({"what": f"collector contradicts C08 on the real library: {f}", "found_input": True,
                      "replay_text": "# implementation vs reachability ground truth: " + str(f) + "\n" + "\n".join(s) + "\n",
                      "signature": " ; ".join(s)})
    elif res["disagree"]:
        k, j, h, m = res["disagree"][0]
        s = scripts[k][: j + 1] if k >= 0 else []
        if s:
            s = c_gc.shrink(s, lambda c: bool(run_one(c)["disagree"]))
        viols.append({"what": f"model M_gc and gc_node.rs disagree ({len(res['disagree'])} scripts); no contract-respecting history violating C08 found on the implementation",
                      "found_input": False,
                      "replay_text": "correspondence L-gc (Model/Gc.lean vs src/impl_/gc_node.rs) no longer checks; theorems of Props/C08.lean no longer apply to the code\n"
                                     f"# first disagreement: impl `{h}` model `{m}`\n" + "\n".join(s) + "\n",
                      "signature": None})
    c = cov["correspondence"]
    return {"coverage": cov, "violations": viols,
            "summary": f"L-gc scripts={c['scripts']} disagreements={c['model_vs_impl_disagreements']} truth_failures={c['impl_vs_ground_truth_failures']}"}


HOOK_COMMITS = ["fdc44d7"]
NOT_CLAIMED = {}

PROPS = {
    "C08": {"modules": ["SodiumVerif.Props.C08"], "audit_import": "SodiumVerif.Props.C08", "theorems": c_gc.C08_THEOREMS,
            "run": run_c08, "replay": gc_replay,
            "technique": "Lean 4 theorems on the collector model M_gc + exact-state differential correspondence with gc_node.rs (random and exhaustive histories)",
            "level_text": "Theorems about M_gc (a line-by-line executable model of gc_node.rs) for every object graph and history; the model is tied to the code by comparing the full hidden collector state after every operation of random (quick) and exhaustively enumerated (thorough) histories, and the implementation is separately checked against a reachability ground truth to find concrete failing histories.",
            "level_note": "Trusted: Lean kernel (+propext, Classical.choice, Quot.sound), the hand-written model, the harness with synthetic objects (destructor releases its out-edges), hook accessors. Bounded only in the tie: <=6 objects/<=40 ops random, <=3 objects length 7 and <=2 objects length 9 exhaustive.",
            "design_ref": "DESIGN.md section 6, C08"},
}
