"""L-txn: the real SodiumCtx transaction bookkeeping against M_txn (Model/Txn.lean)."""
import random
from common import *


def gen_script(rng):
    n = rng.randint(2, 8)
    lines, posts = [], []
    for i in range(1, n + 1):
        q = rng.choice("eppoo")
        body = []
        if q == "o" and i > 1:
            body = [rng.randrange(1, i) for _ in range(rng.randint(0, 3))]
        lines.append(f"def {i} {q} " + " ".join(map(str, body)))
    depth = 0
    scoped = []
    for _ in range(rng.randint(4, 25)):
        r = rng.random()
        if r < 0.25: lines.append("enter"); depth += 1
        elif r < 0.45 and depth > 0: lines.append("leave"); depth -= 1     # depth counts closure-style enters only
        elif r < 0.8: lines.append(f"push {rng.randint(1, n)}")
        elif r < 0.9: t = f"t{len(scoped)}"; scoped.append(t); lines.append(f"topen {t}")
        elif scoped: lines.append(f"tclose {rng.choice(scoped)}")
    for t in scoped: lines.append(f"tclose {t}")
    for _ in range(depth): lines.append("leave")
    lines.append("leave")      # one unmatched leave: must be refused (skip) on both sides
    return lines


def compare(scripts):
    text = "".join("\n".join(s) + "\n---\n" for s in scripts)
    hl, ml, rc, herr = run_pair("txn", text)
    bad, pos = [], 0
    for k, s in enumerate(scripts):
        for j in range(len(s)):
            h = hl[pos + j] if pos + j < len(hl) else "<missing>"; m = ml[pos + j] if pos + j < len(ml) else "<missing>"
            if h != m: bad.append((k, j, h, m)); break
        pos += len(s) + 1
    return bad


def run(tier, seed):
    rng = random.Random(seed * 31 + 5)
    scripts = [gen_script(rng) for _ in range(1500 if tier == "quick" else 15000)]
    bad = compare(scripts)
    info = {"level": "L-txn (real SodiumCtx enter/leave/pre_eot/pre_post/post with recording closures vs M_txn: depth, queue lengths, allow counter and execution log after every line)",
            "scripts": len(scripts), "disagreements": len(bad), "sample": " ; ".join(scripts[0])}
    viol = None
    if bad:
        k, j, h, m = bad[0]
        s = scripts[k][: j + 1]
        # minimise
        cur = list(s); changed = True
        while changed:
            changed = False
            for i in range(len(cur) - 1, -1, -1):
                cand = cur[:i] + cur[i + 1:]
                if cand and compare([cand]):
                    cur = cand; changed = True
        viol = {"what": f"M_txn and SodiumCtx transaction bookkeeping disagree ({len(bad)} scripts): impl `{h}` model `{m}`", "found_input": False, "signature": None,
                "replay_text": "correspondence L-txn (Model/Txn.lean vs src/impl_/sodium_ctx.rs enter/leave/end_of_transaction) no longer checks; the M_txn theorems no longer apply to the code\n"
                               f"# first disagreement: impl `{h}` model `{m}`\n" + "\n".join(cur) + "\n"}
    return info, viol
