"""L-txn: the real SodiumCtx transaction bookkeeping against M_txn (Model/Txn.lean)."""
import random
from common import *


def gen_script(rng):
    n = rng.randint(2, 8)
    lines, posts = [], []
    for i in range(1, n + 1):
        q = rng.choice("eppoo")
        body = []
        if q == "o" and i > 1:
            body = [rng.randrange(1, i) for _ in range(rng.randint(0, 3))]
        elif q == "e" and i > 1 and rng.random() < 0.5:
            # a set-up closure that queues further work while the transaction closes (a switch built by a mapping function)
            body = [rng.randrange(1, i) for _ in range(rng.randint(1, 2))]
        lines.append(f"def {i} {q} " + " ".join(map(str, body)))
    depth = 0
    scoped = []
    for _ in range(rng.randint(4, 25)):
        r = rng.random()
        if r < 0.25: lines.append("enter"); depth += 1
        elif r < 0.45 and depth > 0: lines.append("leave"); depth -= 1     # depth counts closure-style enters only
        elif r < 0.7: lines.append(f"push {rng.randint(1, n)}")
        elif r < 0.8:
            # closures pushed by the propagation of the closing transaction (what a handler or a mapping function builds)
            lines.append("upd " + " ".join(str(rng.randint(1, n)) for _ in range(rng.randint(1, 3))))
        elif r < 0.9: t = f"t{len(scoped)}"; scoped.append(t); lines.append(f"topen {t}")
        elif scoped: lines.append(f"tclose {rng.choice(scoped)}")
    for t in scoped: lines.append(f"tclose {t}")
    for _ in range(depth): lines.append("leave")
    lines.append("leave")      # one unmatched leave: must be refused (skip) on both sides
    return lines


def compare(scripts):
    text = "".join("\n".join(s) + "\n---\n" for s in scripts)
    hl, ml, rc, herr = run_pair("txn", text)
    bad, pos = [], 0
    for k, s in enumerate(scripts):
        for j in range(len(s)):
            h = hl[pos + j] if pos + j < len(hl) else "<missing>"; m = ml[pos + j] if pos + j < len(ml) else "<missing>"
            if h != m: bad.append((k, j, h, m)); break
        pos += len(s) + 1
    return bad


def check(tier, seed):
    rng = random.Random(seed * 31 + 5)
    scripts = [gen_script(rng) for _ in range(1500 if tier == "quick" else 100000)]
    bad = compare(scripts)
    info = {"level": "L-txn (real SodiumCtx enter/leave/pre_eot/pre_post/post with recording closures vs M_txn: depth, queue lengths, allow counter and execution log after every line)",
            "scripts": len(scripts), "disagreements": len(bad), "sample": " ; ".join(scripts[0])}
    viol = None
    # implementation-only predicate (C14): at depth 0 nothing may be left queued and the collect counter is 0
    import re as _re
    text = "".join("\n".join(sc) + "\n---\n" for sc in scripts)
    rc, hout, herr = run([HBIN, "txn"], stdin=text.encode(), timeout=600)
    hl = hout.split("\n"); pos = 0; hit = None
    for k, sc in enumerate(scripts):
        prev_d = 0
        for j, l in enumerate(sc):
            o = hl[pos + j] if pos + j < len(hl) else ""
            md = _re.match(r"d=(\d+) ", o)
            m = _re.match(r"d=0 e=(\d+) p=(\d+) o=(\d+) a=(\d+)", o)
            # only a line that really performed the outermost close (depth 1 -> 0) is judged
            if m and prev_d == 1 and (l == "leave" or l.startswith("tclose")):
                if int(m.group(2)) or int(m.group(3)) or int(m.group(4)):
                    hit = (k, j, o); break
            if md: prev_d = int(md.group(1))
        if hit: break
        pos += len(sc) + 1
    info["impl_not_quiescent_after_close"] = 1 if hit else 0
    if hit:
        k, j, o = hit
        cur = scripts[k][: j + 1]
        viol = {"what": f"the context is not quiescent after the outermost close on the real SodiumCtx: `{o}` (work left queued / counter not reset)", "found_input": True, "signature": " ; ".join(cur),
                "replay_text": f"# L-txn script on the real SodiumCtx: after the last line the context reports `{o}` although no transaction is open\n" + "\n".join(cur) + "\n"}
        return info, viol
    if bad:
        k, j, h, m = bad[0]
        s = scripts[k][: j + 1]
        # minimise
        cur = list(s); changed = True
        while changed:
            changed = False
            for i in range(len(cur) - 1, -1, -1):
                cand = cur[:i] + cur[i + 1:]
                if cand and compare([cand]):
                    cur = cand; changed = True
        viol = {"what": f"M_txn and SodiumCtx transaction bookkeeping disagree ({len(bad)} scripts): impl `{h}` model `{m}`", "found_input": False, "signature": None,
                "replay_text": "correspondence L-txn (Model/Txn.lean vs src/impl_/sodium_ctx.rs enter/leave/end_of_transaction) no longer checks; the M_txn theorems no longer apply to the code\n"
                               f"# first disagreement: impl `{h}` model `{m}`\n" + "\n".join(cur) + "\n"}
    return info, viol
