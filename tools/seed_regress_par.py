#!/usr/bin/env python3
"""Parallel seed regression: N workers, each with its own scratch copy of /verif (tools, lean build, harness) and its own git
worktree of /repo (outside /repo and /verif, removed afterwards).  Every seeded change is applied in one worker's worktree,
the quick check of its property is run there (VERIF_REPO points the tools and the harness's path dependency at the worktree),
and the verdicts are merged into seeded/REGRESSION.json and the seeds' meta.json.  Usage: seed_regress_par.py [N] [prefix…]"""
import json, os, subprocess, sys, shutil, threading
N = int(sys.argv[1]) if len(sys.argv) > 1 and sys.argv[1].isdigit() else 6
only = [a for a in sys.argv[1:] if not a.isdigit()]
ROOT = "/verif/seeded"
BASE = "/var/tmp/seedpar"
seeds = []
res = {}
if only and os.path.exists(os.path.join(ROOT, "REGRESSION.json")): res = json.load(open(os.path.join(ROOT, "REGRESSION.json")))
for d in sorted(os.listdir(ROOT)):
    pd = os.path.join(ROOT, d, "patch.diff")
    if not os.path.exists(pd): continue
    if only and not any(d.startswith(o) for o in only): continue
    mp = os.path.join(ROOT, d, "meta.json")
    if os.path.exists(mp) and json.load(open(mp)).get("obsolete_after"):
        res[d] = "OBSOLETE (" + json.load(open(mp))["obsolete_after"] + ")"; print(f"{d:45s} {res[d]}", flush=True); continue
    seeds.append(d)
shutil.rmtree(BASE, ignore_errors=True); os.makedirs(BASE)
lock = threading.Lock()

def worker(k):
    w = os.path.join(BASE, str(k)); repo = os.path.join(w, "repo"); ver = os.path.join(w, "verif")
    os.makedirs(w)
    subprocess.run(["git", "-C", "/repo", "worktree", "add", "--detach", repo, "HEAD"], capture_output=True, check=True)
    subprocess.run(["rsync", "-a", "--exclude", ".git", "--exclude", "seeded", "--exclude", "hunt", "--exclude", "work", "/verif/", ver + "/"], check=True)
    ct = os.path.join(ver, "harness", "Cargo.toml")
    txt = open(ct).read().replace('path = "/repo"', f'path = "{repo}"')
    open(ct, "w").write(txt)
    env = dict(os.environ, VERIF_REPO=repo)
    for d in seeds[k::N]:
        prop = d.split("-")[0]
        subprocess.run(["git", "-C", repo, "checkout", "--", "."], check=True)
        r = subprocess.run(["git", "-C", repo, "apply", os.path.join(ROOT, d, "patch.diff")], capture_output=True)
        if r.returncode != 0:
            verdict = "patch does not apply"
        else:
            pr = subprocess.run(["./check", prop], cwd=ver, capture_output=True, text=True, env=env)
            out = pr.stdout
            v = [l for l in out.split("\n") if l.startswith("VIOLATION")]
            found = [l for l in v if "no-failing-input-found" not in l]
            verdict = "CAUGHT with failing input" if found else ("CAUGHT (no-failing-input-found)" if v else "MISSED")
        subprocess.run(["git", "-C", repo, "checkout", "--", "."], check=True)
        with lock:
            res[d] = verdict
            print(f"{d:45s} {prop}: {verdict}", flush=True)
    subprocess.run(["git", "-C", "/repo", "worktree", "remove", "--force", repo], capture_output=True)

ts = [threading.Thread(target=worker, args=(k,)) for k in range(N)]
for t in ts: t.start()
for t in ts: t.join()
shutil.rmtree(BASE, ignore_errors=True)
for d, verdict in res.items():
    mp = os.path.join(ROOT, d, "meta.json")
    if os.path.exists(mp) and not verdict.startswith("OBSOLETE"):
        m = json.load(open(mp)); m["regression_verdict_quick"] = verdict; json.dump(m, open(mp, "w"), indent=1)
json.dump(dict(sorted(res.items())), open(os.path.join(ROOT, "REGRESSION.json"), "w"), indent=1)
missed = [d for d, v in res.items() if v == "MISSED" or v.startswith("patch")]
print("done:", len(res), "seeds;", "missed/not applying:", missed)
