"""Property theorems audited per property (Lean names) and the modules that contain them."""
S = "SodiumVerif.Spec."
T = "SodiumVerif.Txn."
G = "SodiumVerif.Gc."
THEOREMS = {
    "C01": [T + n for n in ["no_run_while_open", "no_callback_before_outermost_close", "staysOpen_depth_pos", "outermost_leave_only",
                            "quiescent_after_close", "bracket_eq_transaction"]]
           + [S + n for n in ["unlisten_stops", "listen_stream"]],
    "C02": [S + n for n in ["fireOf_mono", "fireTable_solves", "fireTable_total", "fireTable_fix", "sink_fires", "sink_resolved", "never_fires", "map_fires", "mapto_fires",
                            "filter_fires", "merge_fires", "merge_both", "merge_left", "merge_right", "orelse_fires", "snapshot_fires", "snapshot_fires_val", "snapshot1_fires",
                            "gate_fires", "hold_fires", "updates_fires", "updates_hold_fires", "once_fires", "once_done_silent", "once_done_step",
                            "once_fires_at_most_once", "once_not_twice"]]
           + ["SodiumVerif.Sched.transaction_glitch_free", "SodiumVerif.Bridge.sched_refines_spec", "SodiumVerif.Bridge.sched_refines_spec_static",
              "SodiumVerif.Bridge.sched_computes_fireTable", "SodiumVerif.Bridge.sched_refines_spec_history"],
    "C04": [S + n for n in ["val_stepTxn_hold", "hold_updated", "hold_unchanged", "hold_initial", "val_stepTxn_csink", "accum_fires", "val_stepTxn_accum",
                            "accum_is_foldl", "accum_is_foldl_fresh", "collect_fires", "val_stepTxn_collect", "collect_state_is_foldl", "collect_output", "cell_next_value",
                            "accum_eq_loop_hold_snapshot", "accum_eq_loop_hold_snapshot_fresh"]],
    "C05": [S + n for n in ["switchs_fires", "switchs_ignores_selector_update", "switchc_fires_on_switch", "switchc_value", "lift_inv_switchc",
                            "when_fires", "when_silent", "when_passes", "when_fires_iff",
                            "switchs_history", "switchs_no_loss_no_dup", "switchs_silent_iff", "switchc_ignores_old", "switchc_silent_when_selected_silent"]],
    "C06": [G + "collect_sound_total", G + "client_never_loses_a_held_object", G + "GcInv.bounded", G + "collect_sound",
            "SodiumVerif.GcScript.script_sound", G + "collectCycles_terminates", G + "collect_frees_only_garbage",
            "SodiumVerif.Struct.run_reachable", "SodiumVerif.Struct.struct_sound", "SodiumVerif.Struct.struct_held_not_freed", "SodiumVerif.Struct.struct_counts_exact"],
    "C07": [G + n for n in ["collect_complete_total", "collect_exact", "drop_all_frees_all", "collect_leaves_no_candidate", "collect_complete", "bufinv_init",
                            "bufinv_newNode", "bufinv_incRef", "bufinv_decRef_handle", "bufinv_addEdge", "bufinv_delEdge", "bufinv_upgradeDrop", "bufinv_collectCycles",
                            "onePass_frees_garbage", "collectCycles_terminates", "onePass_progress", "collect_dtor_once"]]
           + ["SodiumVerif.GcScript." + n for n in ["script_complete", "handles_exact", "no_garbage_after_collect", "drop_all_collect_frees_all"]]
           + ["SodiumVerif.Struct." + n for n in ["run_reachable", "struct_gc_complete", "leakcheck_frees_all", "leakcheck_count_zero", "struct_oof", "d6_witness", "reach_rewireAll", "reach_detachAll"]],
    "C09": [S + "fireTable_unique", S + "fire_rename'", S + "fireOf_rename'", S + "val_rename'", S + "val_run_rename'", S + "fireTrace_rename'", S + "WellRanked.rename'",
            S + "solution_extends", S + "fireTable_least", S + "gc_transparent", "SodiumVerif.Sched.transaction_result_unique", "SodiumVerif.Sched.sched_result_unique",
            G + "collect_sound_total"],
    "C10": [S + n for n in ["quiet_stmt", "quiet_closeTxn", "quiet_runItems", "inactive_stays_inactive", "inactive_forever", "unlisten_never_called_again", "size_monotone", "keeps_stmt_harmless", "strong_listener_survives_drops_and_gc", "late_building_txn", "late_later_txn", "late_never_invents", "listenerOutputs_eq", "unlisten_stops", "unlisten_deactivates", "listen_stream", "listen_cell_initial", "listen_cell_later",
                            "strong_listener_survives_drop", "stmt_unlisten"]],
    "C11": [S + n for n in ["fire_substLoop", "fireTrace_substLoop", "val_run_substLoop", "stepTxn_substLoop", "fire_substCLoop", "fireTrace_substCLoop_wf",
                            "val_run_substCLoop_wf", "sloop_fires", "cloop_fires'", "sloop_unclosed_silent", "cloop_value", "double_loop_panics", "sample_before_loop_panics", "stmt_sloopclose", "stmt_sample",
                            "holdz_fires", "holdz_resolves", "holdz_updated", "holdz_sticky", "holdz_unresolved", "holdz_pending"]],
    "C12": [T + n for n in ["log_of_close_inert", "close_parts_contain_queues", "log_of_close", "log_of_close_flat", "prePost_before_post", "commit_before_deferred", "commit_precedes_deferred", "deferred_own_transaction",
                            "deferred_fifo", "post_immediate_when_idle", "phases_match", "hold_commit_queue", "once_detach_queue", "send_clear_queue", "defer_queue",
                            "public_post_opens_transaction"]]
           + [S + n for n in ["runOne_sp", "closeTxn_first_state", "closeTxn_queue", "depth_first", "posted_send_own_transaction", "posted_send_sends_irrel",
                              "runItems_samp_sp"]],
    "C13": [S + n for n in ["mapc_eq_hold_map_updates", "mapc_eq_hold_map_updates_fresh", "cell_next_value", "cell_has_value", "lift_inv_mapc", "lift_inv_lift2", "lift_inv_liftn", "lift_inv_switchc", "lift_inv_cloop",
                            "mapc_inv_step", "lift2_inv_step"]],
    "C14": [T + n for n in ["leave_inner", "quiescent_after_close", "nested_close_transparent", "close_idempotent", "close_done", "close_fresh", "nesting_balanced",
                            "bracket_eq_transaction", "empty_txn_silent", "scoped_close_once", "leave_closed", "runPre_closed"]],
    "C15": [S + n for n in ["addSend_get_other", "sendMany_get", "send_fold", "send_last", "sendAll_get", "send_fold_interleaved", "send_last_interleaved",
                            "sendAll_get_untouched", "sink_fires", "val_stepTxn_csink"]],
    "C17": ["SodiumVerif.LazyM.thunk_at_most_once", "SodiumVerif.LazyM.run_stable", S + "taken_value", S + "stmt_force"] +
           ["SodiumVerif.LazyHeap." + n for n in ["Inv_reach", "forceC_spec", "step_spec", "runs_le_one", "value_is_den", "force_returns_den", "force_time_independent",
                                                  "lookup_runOps", "clones_agree", "force_idempotent", "alloc_preserves_den", "den_stable", "of_value_never_runs", "runs_iff_forced"]],
    "C18": [S + n for n in ["route_fires", "route_eq_filter_twin", "contains_dup", "reach_resolved", "route_history", "route_silent_without_source",
                            "route_value_is_source_value", "route_delivers", "route_same_key_twins", "route_keys_both", "route_keys_independent"]],
}
MODULES = {
    "C01": ["SodiumVerif.Props.C01", "SodiumVerif.Props.C14", "SodiumVerif.Props.C10"],
    "C02": ["SodiumVerif.Props.C02", "SodiumVerif.Props.C03", "SodiumVerif.Props.Refine", "SodiumVerif.Props.RefineHist"],
    "C04": ["SodiumVerif.Props.C04", "SodiumVerif.Props.C13", "SodiumVerif.Props.Expand"],
    "C05": ["SodiumVerif.Props.C05", "SodiumVerif.Props.C05b", "SodiumVerif.Props.C18b"],
    "C06": ["SodiumVerif.Props.C06", "SodiumVerif.Props.StructMem"],
    "C07": ["SodiumVerif.Props.C07", "SodiumVerif.Props.C06", "SodiumVerif.Props.StructMem"],
    "C09": ["SodiumVerif.Props.C09", "SodiumVerif.Props.C09b", "SodiumVerif.Props.C06"],
    "C10": ["SodiumVerif.Props.C10", "SodiumVerif.Props.C10b", "SodiumVerif.Props.C10c"],
    "C11": ["SodiumVerif.Props.C11", "SodiumVerif.Props.C11b", "SodiumVerif.Props.C11c"],
    "C12": ["SodiumVerif.Props.C12", "SodiumVerif.Props.C12c"],
    "C13": ["SodiumVerif.Props.C13", "SodiumVerif.Props.Expand"],
    "C14": ["SodiumVerif.Props.C14"],
    "C15": ["SodiumVerif.Props.C15", "SodiumVerif.Props.C02", "SodiumVerif.Props.C04"],
    "C17": ["SodiumVerif.Props.C17", "SodiumVerif.Props.C17b"],
    "C18": ["SodiumVerif.Props.C18", "SodiumVerif.Props.C18b"],
}
