"""C19: two contexts — each script alone, interleaved on one thread, and on two threads."""
import random, os
from common import *
import apigen, c_api


def descope(script):
    """begin/end -> topen/tclose (LIFO), so that scripts can be interleaved line by line"""
    out, stack, k = [], [], 0
    for l in script:
        if l == "begin":
            k += 1; t = f"T{k}"; stack.append(t); out.append(f"topen {t}")
        elif l == "end":
            out.append(f"tclose {stack.pop()}" if stack else "end")
        else:
            out.append(l)
    return out


def interleave(rng, a, b):
    out, i, j = [], 0, 0
    while i < len(a) or j < len(b):
        if j >= len(b) or (i < len(a) and rng.random() < 0.5):
            out.append((0, a[i])); i += 1
        else:
            out.append((1, b[j])); j += 1
    return out


def run2(pairs_list, threads=False):
    text = "".join("".join(f"@{k} {l}\n" for k, l in pairs) + "---\n" for pairs in pairs_list)
    env = dict(ENV)
    env["API_RAW_CB"] = "1"      # also the order in which a context's listeners are called must be its own business
    if threads: env["API2_THREADS"] = "1"
    rc, out, err = run([HBIN, "api2"], stdin=text.encode(), timeout=3000, env=env)
    lines = out.split("\n")
    res, pos = [], 0
    for pairs in pairs_list:
        res.append(lines[pos:pos + len(pairs)]); pos += len(pairs) + 1
    return res, rc, err


def check(tier, seed):
    rng = random.Random(seed * 101 + 19)
    n = 300 if tier == "quick" else 10000
    prof = dict(n_defs=(3, 9), n_txn=(2, 6), samples=0.4, drops=0.3, gcs=0.3, obs=0.0, intxn_defs=0.3,
                weights=dict(accum=1.5, hold=3, lift2=2, defer=0.5, sloop=0.7, cloop=0.5, switchs=0.5, router=0.5))
    A = [descope(apigen.generate(rng, apigen.profile(**prof)) + ["nodes"]) for _ in range(n)]
    B = [descope(apigen.generate(rng, apigen.profile(**prof)) + ["nodes"]) for _ in range(n)]
    # alone (each through the same two-context entry point, the other context idle) and S
    alone_a, _, _ = run2([[(0, l) for l in a] for a in A])
    alone_b, _, _ = run2([[(1, l) for l in b] for b in B])
    runs_s, bad_s, _, _ = c_api.compare(A[: n // 3])
    inter = [interleave(rng, a, b) for a, b in zip(A, B)]
    got_i, rc_i, err_i = run2(inter)
    got_t, rc_t, err_t = run2(inter, threads=True)
    bad = []
    for k in range(n):
        for mode, got in (("interleaved on one thread", got_i), ("on two threads", got_t)):
            ga = [o for (c, _), o in zip(inter[k], got[k]) if c == 0]
            gb = [o for (c, _), o in zip(inter[k], got[k]) if c == 1]
            if ga != alone_a[k] or gb != alone_b[k]:
                which = 0 if ga != alone_a[k] else 1
                ref = alone_a[k] if which == 0 else alone_b[k]; g = ga if which == 0 else gb
                j = next((j for j in range(min(len(ref), len(g))) if ref[j] != g[j]), min(len(ref), len(g)))
                bad.append((k, mode, which, j, ref[j] if j < len(ref) else "<missing>", g[j] if j < len(g) else "<missing>"))
                break
    viols = []
    if bad:
        k, mode, which, j, ref, g = bad[0]
        txt = f"# context {which} behaves differently {mode} than alone: line {j} of its script: alone `{ref}`, with the other context `{g}`\n" + \
              "".join(f"@{c} {l}\n" for c, l in inter[k])
        viols.append({"what": f"contexts influence each other ({len(bad)} script pairs): {mode}: alone `{ref}` vs `{g}`", "found_input": True, "signature": None, "replay_text": txt})
    elif bad_s:
        k, j, h, m = bad_s[0]
        viols.append({"what": f"two-context scripts: implementation differs from S: `{h}` vs `{m}`", "found_input": True, "signature": " ; ".join(A[k]),
                      "replay_text": "# implementation differs from S\n" + "\n".join(A[k]) + "\n"})
    cov = {"evaluations": 2 * n, "distinct_nontrivial": len({tuple(map(tuple, p)) for p in inter}),
           "rule": "pairs of random programs on two contexts: each run alone, interleaved line by line on one thread (including while a transaction of the other context is open), and concurrently on two OS threads with random yields; per-context outputs, samples and node counts must be identical in all three; evaluations = interleaved + threaded runs; distinct by interleaving",
           "samples": [" | ".join(f"@{c} {l}" for c, l in inter[0][:25])],
           "correspondence": {"level": "two-context scripts (harness api2)", "pairs": n, "differences_alone_vs_interleaved_or_threaded": len(bad),
                              "impl_vs_S_disagreements": len(bad_s), "open_transaction_overlaps": sum(1 for p in inter if any(l.startswith("topen") for _, l in p))}}
    return {"coverage": cov, "violations": viols, "summary": f"pairs={n} differences={len(bad)} impl_vs_S={len(bad_s)}"}


def replay(path):
    lines = [l.rstrip("\n") for l in open(path) if l.strip() and not l.startswith("#")]
    pairs = [(int(l[1]), l[3:]) for l in lines if l.startswith("@")]
    a = [l for c, l in pairs if c == 0]; b = [l for c, l in pairs if c == 1]
    al, _, _ = run2([[(0, l) for l in a]]); bl, _, _ = run2([[(1, l) for l in b]]); it, _, _ = run2([pairs])
    ia = ib = 0; badf = False
    for (c, l), o in zip(pairs, it[0]):
        ref = al[0][ia] if c == 0 else bl[0][ib]
        if c == 0: ia += 1
        else: ib += 1
        flag = "" if ref == o else f"   <-- alone: {ref}"
        if flag: badf = True
        print(f"@{c} {l:32s} {o}{flag}")
    return 1 if badf else 0
