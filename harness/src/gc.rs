//! L-gc: raw `GcCtx`/`GcNode` with synthetic objects.
use sodium_rust::verif::{self, GcCtx, GcNode, NodeName, Tracer};
use std::io::{BufRead, Write};
use std::panic::{catch_unwind, AssertUnwindSafe};
use std::sync::{Arc, Mutex};

struct Obj {
    gc: GcNode,
    traced: Arc<Mutex<Vec<GcNode>>>,
    owned: Arc<Mutex<Vec<GcNode>>>,
    dtor: Arc<Mutex<u32>>,
}

pub struct Machine {
    ctx: GcCtx,
    objs: Vec<Obj>,
    handles: Vec<u32>,
    dtor_log: Arc<Mutex<Vec<u32>>>,
    dead: bool,
    brief: bool,
}

#[derive(Clone, Copy, Debug, PartialEq)]
pub enum Op {
    New,
    Inc(usize),
    Dec(usize),
    Edge(usize, usize),
    Unedge(usize, usize),
    Tedge(usize, usize),
    Oedge(usize, usize),
    UpDrop(usize),
    Deref(usize, usize),
    Collect,
    Reset,
    Brief,
    Full,
    Dump,
    Bad,
}

pub fn parse(line: &str) -> Op {
    let ws: Vec<&str> = line.split_whitespace().collect();
    let n = |s: &str| s.parse::<usize>().ok();
    match ws.as_slice() {
        ["new"] => Op::New,
        ["collect"] => Op::Collect,
        ["brief"] => Op::Brief,
        ["full"] => Op::Full,
        ["dump"] => Op::Dump,
        ["---"] => Op::Reset,
        ["inc", a] => n(a).map(Op::Inc).unwrap_or(Op::Bad),
        ["dec", a] => n(a).map(Op::Dec).unwrap_or(Op::Bad),
        ["updrop", a] => n(a).map(Op::UpDrop).unwrap_or(Op::Bad),
        ["edge", a, b] => match (n(a), n(b)) { (Some(a), Some(b)) => Op::Edge(a, b), _ => Op::Bad },
        ["unedge", a, b] => match (n(a), n(b)) { (Some(a), Some(b)) => Op::Unedge(a, b), _ => Op::Bad },
        ["tedge", a, b] => match (n(a), n(b)) { (Some(a), Some(b)) => Op::Tedge(a, b), _ => Op::Bad },
        ["deref", a, b] => match (n(a), n(b)) { (Some(a), Some(b)) => Op::Deref(a, b), _ => Op::Bad },
        ["oedge", a, b] => match (n(a), n(b)) { (Some(a), Some(b)) => Op::Oedge(a, b), _ => Op::Bad },
        _ => Op::Bad,
    }
}

pub fn show(op: &Op) -> String {
    match *op {
        Op::New => "new".into(),
        Op::Inc(a) => format!("inc {a}"),
        Op::Dec(a) => format!("dec {a}"),
        Op::Edge(a, b) => format!("edge {a} {b}"),
        Op::Unedge(a, b) => format!("unedge {a} {b}"),
        Op::Tedge(a, b) => format!("tedge {a} {b}"),
        Op::Oedge(a, b) => format!("oedge {a} {b}"),
        Op::UpDrop(a) => format!("updrop {a}"),
        Op::Deref(a, b) => format!("deref {a} {b}"),
        Op::Collect => "collect".into(),
        Op::Reset => "---".into(),
        Op::Brief => "brief".into(),
        Op::Full => "full".into(),
        Op::Dump => "dump".into(),
        Op::Bad => "bad".into(),
    }
}

impl Drop for Machine {
    /// The synthetic objects and their `GcNode`s form `Arc` cycles (an edge list holds nodes whose callbacks capture
    /// the edge lists), and the hook registry keeps the context alive: break both, or every history leaks its graph.
    fn drop(&mut self) {
        self.ctx.v_registry_clear();
        // buffered candidates sit in the context's root list and point back at the context: drop every handle and
        // collect, which empties the buffers (and frees everything, `drop_all_collect_frees_all`)
        if !self.dead {
            let _ = catch_unwind(AssertUnwindSafe(|| {
                for (i, o) in self.objs.iter().enumerate() {
                    for _ in 0..self.handles[i] { o.gc.dec_ref(); }
                }
                self.ctx.collect_cycles();
            }));
        }
        for o in &self.objs {
            o.traced.lock().unwrap().clear();
            o.owned.lock().unwrap().clear();
        }
        // the clean-up collection above must not be charged to the next machine's cost counters
        // (a machine is dropped either before the next one exists or right after it was created)
        verif::reset_trace_counters();
    }
}

impl Machine {
    pub fn new() -> Machine {
        verif::reset_trace_counters();
        Machine { ctx: GcCtx::new(), objs: vec![], handles: vec![], dtor_log: Arc::new(Mutex::new(vec![])), dead: false, brief: false }
    }

    fn id_of(&self, g: &GcNode) -> usize {
        g.v_id() as usize
    }

    /// None = not applicable (skip)
    fn apply(&mut self, op: Op) -> Option<()> {
        let n = self.objs.len();
        match op {
            Op::New => {
                let traced: Arc<Mutex<Vec<GcNode>>> = Arc::new(Mutex::new(vec![]));
                let owned: Arc<Mutex<Vec<GcNode>>> = Arc::new(Mutex::new(vec![]));
                let dtor = Arc::new(Mutex::new(0u32));
                let (t1, t2, o1, d1, log) = (traced.clone(), traced.clone(), owned.clone(), dtor.clone(), self.dtor_log.clone());
                let my_id = n as u32;
                let gc = GcNode::new(
                    &self.ctx,
                    NodeName::Node((n % 256) as u8),
                    move || {
                        *d1.lock().unwrap() += 1;
                        log.lock().unwrap().push(my_id);
                        let _t: Vec<GcNode> = std::mem::take(&mut *t1.lock().unwrap());
                        let o: Vec<GcNode> = std::mem::take(&mut *o1.lock().unwrap());
                        for t in o {
                            t.dec_ref();
                        }
                    },
                    move |tr: &mut Tracer| {
                        let v = t2.lock().unwrap().clone();
                        for t in &v {
                            tr(t);
                        }
                    },
                );
                assert_eq!(gc.v_id() as usize, n);
                self.objs.push(Obj { gc, traced, owned, dtor });
                self.handles.push(1);
            }
            Op::Inc(a) => {
                if !(a < n && self.handles[a] > 0) { return None; }
                self.handles[a] += 1;
                self.objs[a].gc.inc_ref();
            }
            Op::Dec(a) => {
                if !(a < n && self.handles[a] > 0) { return None; }
                self.handles[a] -= 1;
                self.objs[a].gc.dec_ref();
            }
            Op::Edge(a, b) => {
                if !(a < n && b < n && self.handles[a] > 0 && self.handles[b] > 0 && !self.objs[a].gc.v_freed()) { return None; }
                self.objs[b].gc.inc_ref();
                self.objs[a].traced.lock().unwrap().push(self.objs[b].gc.clone());
                self.objs[a].owned.lock().unwrap().push(self.objs[b].gc.clone());
            }
            Op::Tedge(a, b) => {
                if !(a < n && b < n && self.handles[a] > 0 && !self.objs[a].gc.v_freed()) { return None; }
                self.objs[a].traced.lock().unwrap().push(self.objs[b].gc.clone());
            }
            Op::Oedge(a, b) => {
                if !(a < n && b < n && self.handles[a] > 0 && self.handles[b] > 0 && !self.objs[a].gc.v_freed()) { return None; }
                self.objs[b].gc.inc_ref();
                self.objs[a].owned.lock().unwrap().push(self.objs[b].gc.clone());
            }
            Op::Unedge(a, b) => {
                if !(a < n && b < n && self.handles[a] > 0 && !self.objs[a].gc.v_freed()) { return None; }
                let tp = self.objs[a].traced.lock().unwrap().iter().position(|t| t.v_id() as usize == b);
                let op_ = self.objs[a].owned.lock().unwrap().iter().position(|t| t.v_id() as usize == b);
                match (tp, op_) {
                    (Some(tp), Some(op_)) => {
                        self.objs[a].traced.lock().unwrap().remove(tp);
                        let t = self.objs[a].owned.lock().unwrap().remove(op_);
                        t.dec_ref();
                    }
                    _ => return None,
                }
            }
            Op::Deref(a, b) => {
                // a new handle on b cloned out of the held object a that owns a reference to it
                if !(a < n && self.handles[a] > 0 && !self.objs[a].gc.v_freed()) { return None; }
                let t = self.objs[a].owned.lock().unwrap().iter().find(|t| t.v_id() as usize == b).cloned();
                match t {
                    Some(t) => { t.inc_ref(); self.handles[b] += 1; }
                    None => return None,
                }
            }
            Op::UpDrop(a) => {
                if !(a < n) { return None; }
                if self.objs[a].gc.inc_ref_if_alive() {
                    self.objs[a].gc.dec_ref();
                }
            }
            Op::Collect => self.ctx.collect_cycles(),
            Op::Brief => self.brief = true,
            Op::Full => self.brief = false,
            Op::Dump => {}
            Op::Reset | Op::Bad => unreachable!(),
        }
        Some(())
    }

    fn observe(&self) -> String {
        let mut s = String::new();
        for (i, o) in self.objs.iter().enumerate() {
            if i > 0 { s.push(' '); }
            let c = ['B', 'G', 'P', 'W'][o.gc.v_color() as usize];
            let b = |x: bool| if x { '1' } else { '0' };
            s.push_str(&format!("{}.{}.{}{}{}{}.{}", o.gc.ref_count(), o.gc.v_ref_count_adj(), c, b(o.gc.v_buffered()), b(o.gc.v_freed()), b(o.gc.v_visited()), *o.dtor.lock().unwrap()));
        }
        let roots: Vec<String> = self.ctx.v_root_ids().iter().map(|x| x.to_string()).collect();
        let (tc, ec) = verif::trace_counters();
        let d: Vec<String> = self.dtor_log.lock().unwrap().iter().map(|x| x.to_string()).collect();
        s.push_str(&format!(" | R:{} T:{} C:{}/{} D:{}", roots.join(","), self.ctx.v_to_be_freed_len(), tc, ec, d.join(",")));
        s
    }

    fn observe_brief(&self) -> String {
        let freed = self.objs.iter().filter(|o| o.gc.v_freed()).count();
        let (tc, ec) = verif::trace_counters();
        format!("n={} freed={} R:{} T:{} C:{}/{}", self.objs.len(), freed, self.ctx.v_root_ids().len(), self.ctx.v_to_be_freed_len(), tc, ec)
    }

    /// one protocol step
    pub fn step(&mut self, op: Op) -> String {
        if self.dead { return "dead".into(); }
        let r = catch_unwind(AssertUnwindSafe(|| self.apply(op)));
        match r {
            Ok(None) => "skip".into(),
            Ok(Some(())) => {
                if op == Op::Dump { self.observe() }
                else if self.brief || op == Op::Brief { if op == Op::Collect { self.observe_brief() } else { "ok".into() } }
                else { self.observe() }
            }
            Err(p) => {
                self.dead = true;
                let m = crate::panic_message(&*p);
                let kind = if m.contains("ref count adj was larger") { "adj-gt-rc" }
                    else if m.contains("did not drop to zero") { "not-zero" }
                    else if m.contains("inc_ref on freed") { "inc-ref-freed" }
                    else { "other" };
                if kind == "other" { format!("PANIC other {m}") } else { format!("PANIC {kind}") }
            }
        }
    }

    // ---- ground truth for the failing-input search (implementation only, no model) ----
    /// Checks the C08 statement directly on the real state. `after_collect`: the last op was `collect`.
    pub fn ground_truth(&self, after_collect: bool, contract_ok: bool) -> Result<(), String> {
        let n = self.objs.len();
        let mut reach = vec![false; n];
        let mut stack: Vec<usize> = (0..n).filter(|&i| self.handles[i] > 0).collect();
        while let Some(i) = stack.pop() {
            if reach[i] { continue; }
            reach[i] = true;
            for t in self.objs[i].owned.lock().unwrap().iter() { stack.push(self.id_of(t)); }
        }
        for i in 0..n {
            let o = &self.objs[i];
            let d = *o.dtor.lock().unwrap();
            if d > 1 { return Err(format!("destructor of {i} ran {d} times")); }
            if !contract_ok { continue; }
            if reach[i] && o.gc.v_freed() { return Err(format!("object {i} freed while reachable from a handle")); }
            if d == 1 && !o.gc.v_freed() { return Err(format!("destructor of {i} ran but not marked freed")); }
            if !o.gc.v_freed() {
                let mut inedges = 0u32;
                for j in 0..n {
                    if !self.objs[j].gc.v_freed() {
                        inedges += self.objs[j].owned.lock().unwrap().iter().filter(|t| self.id_of(t) == i).count() as u32;
                    }
                }
                if o.gc.ref_count() != self.handles[i] + inedges {
                    return Err(format!("count of {i} is {} but handles {} + in-edges {}", o.gc.ref_count(), self.handles[i], inedges));
                }
            }
            if after_collect && !reach[i] && !o.gc.v_freed() { return Err(format!("unreachable object {i} not freed by collect")); }
        }
        if after_collect && contract_ok && (!self.ctx.v_root_ids().is_empty() || self.ctx.v_to_be_freed_len() != 0) {
            return Err("candidate buffer not empty after collect".into());
        }
        Ok(())
    }
}

/// `harness gc` : protocol on stdin/stdout. With env GC_TRUTH=1 also prints `TRUTH-FAIL <msg>`
/// lines on stderr-free channel (prefixed, on stdout after the observation) — used by the search.
pub fn run_stdin() -> Result<(), String> {
    let truth = std::env::var("GC_TRUTH").is_ok();
    let stdin = std::io::stdin();
    let stdout = std::io::stdout();
    let mut out = std::io::BufWriter::new(stdout.lock());
    let mut m = Machine::new();
    let mut contract_ok = true;
    for line in stdin.lock().lines() {
        let line = line.map_err(|e| e.to_string())?;
        let op = parse(&line);
        let o = match op {
            Op::Bad => "bad-op".to_string(),
            Op::Reset => { m = Machine::new(); contract_ok = true; "---".to_string() }
            op => {
                let o = m.step(op);
                if truth {
                    if matches!(op, Op::Tedge(..) | Op::Oedge(..)) && o != "skip" { contract_ok = false; }
                    let tf = if o.starts_with("PANIC") { if contract_ok { Err(format!("collector panicked on a contract-respecting history: {o}")) } else { Ok(()) } }
                        else if o == "skip" || o == "dead" { Ok(()) }
                        else { m.ground_truth(op == Op::Collect, contract_ok) };
                    if let Err(e) = tf { writeln!(out, "{o}\tTRUTH-FAIL {e}").ok(); continue; }
                }
                o
            }
        };
        writeln!(out, "{o}").map_err(|e| e.to_string())?;
    }
    Ok(())
}

fn all_ops(nobj: usize) -> Vec<Op> {
    let mut v = vec![Op::New, Op::Collect];
    for a in 0..nobj {
        v.push(Op::Inc(a));
        v.push(Op::Dec(a));
        v.push(Op::UpDrop(a));
        for b in 0..nobj {
            v.push(Op::Edge(a, b));
            v.push(Op::Unedge(a, b));
        }
    }
    v
}

/// `harness gc-enum <nobj> <len> <scripts-out> <obs-out>`: enumerate every contract-respecting history
/// over ≤ nobj objects of length exactly ≤ len (all maximal histories: a history is emitted when it
/// reaches `len` or cannot be extended), checking the ground truth after every step, and write the
/// scripts and the real observations for the model to be compared against.
pub fn enumerate(args: &[String]) -> Result<(), String> {
    let nobj: usize = args.get(0).and_then(|s| s.parse().ok()).ok_or("nobj")?;
    let maxlen: usize = args.get(1).and_then(|s| s.parse().ok()).ok_or("len")?;
    let scripts = args.get(2).ok_or("scripts-out")?;
    let obs = args.get(3).ok_or("obs-out")?;
    let mut fs = std::io::BufWriter::new(std::fs::File::create(scripts).map_err(|e| e.to_string())?);
    let mut fo = std::io::BufWriter::new(std::fs::File::create(obs).map_err(|e| e.to_string())?);
    let ops = all_ops(nobj);
    let mut stats = Stats::default();
    let mut prefix: Vec<Op> = vec![];
    rec(&mut prefix, &ops, maxlen, nobj, &mut fs, &mut fo, &mut stats)?;
    fs.flush().ok();
    fo.flush().ok();
    println!("{{\"histories\": {}, \"steps\": {}, \"collects\": {}, \"truth_failures\": {}, \"first_failure\": {:?}}}", stats.histories, stats.steps, stats.collects, stats.fails, stats.first);
    Ok(())
}

#[derive(Default)]
struct Stats { histories: u64, steps: u64, collects: u64, fails: u64, first: Option<String> }

/// replays a prefix; returns observations, or None if the last op is a skip
fn replay(prefix: &[Op], stats: &mut Stats) -> Option<Vec<String>> {
    let mut m = Machine::new();
    let mut outs = Vec::with_capacity(prefix.len());
    for (k, op) in prefix.iter().enumerate() {
        let o = m.step(*op);
        if k + 1 == prefix.len() {
            if o == "skip" { return None; }
            let t = if o.starts_with("PANIC") { Err(format!("panic {o}")) } else { m.ground_truth(*op == Op::Collect, true) };
            if let Err(e) = t {
                stats.fails += 1;
                if stats.first.is_none() {
                    stats.first = Some(format!("{} => {e}", prefix.iter().map(show).collect::<Vec<_>>().join("; ")));
                }
            }
        }
        outs.push(o);
    }
    Some(outs)
}

fn rec(prefix: &mut Vec<Op>, ops: &[Op], maxlen: usize, nobj: usize, fs: &mut impl Write, fo: &mut impl Write, stats: &mut Stats) -> Result<(), String> {
    let mut extended = false;
    if prefix.len() < maxlen {
        for op in ops {
            if *op == Op::New && prefix.iter().filter(|o| **o == Op::New).count() >= nobj { continue; }
            // prune: two collects in a row add nothing new beyond one (still covered once at the end)
            prefix.push(*op);
            if let Some(outs) = replay(prefix, stats) {
                stats.steps += 1;
                if *op == Op::Collect { stats.collects += 1; }
                extended = true;
                if prefix.len() == maxlen {
                    stats.histories += 1;
                    for (o, out) in prefix.iter().zip(outs.iter()) {
                        writeln!(fs, "{}", show(o)).ok();
                        writeln!(fo, "{out}").ok();
                    }
                    writeln!(fs, "---").ok();
                    writeln!(fo, "---").ok();
                } else {
                    rec(prefix, ops, maxlen, nobj, fs, fo, stats)?;
                }
            }
            prefix.pop();
        }
    }
    let _ = extended;
    Ok(())
}

/// `gc-deep N STACK_MB`: a chain of N objects closed into a cycle, abandoned, collected on a thread with the given stack.
/// The collector's marking recurses along the chain: on a stack of ordinary size the process dies here.
pub fn deep(args: &[String]) -> Result<(), String> {
    let n: usize = args.first().and_then(|a| a.parse().ok()).ok_or("gc-deep N STACK_MB")?;
    let mb: usize = args.get(1).and_then(|a| a.parse().ok()).ok_or("gc-deep N STACK_MB")?;
    let h = std::thread::Builder::new()
        .stack_size(mb << 20)
        .spawn(move || {
            let mut m = Machine::new();
            m.step(Op::Brief);
            for _ in 0..n {
                m.step(Op::New);
            }
            for i in 0..n {
                m.step(Op::Edge(i, (i + 1) % n));
            }
            for i in 0..n {
                m.step(Op::Dec(i));
            }
            println!("deep built n={n}");
            let _ = std::io::stdout().flush();
            m.step(Op::Collect);
            println!("deep=ok n={n} stack_mb={mb}");
            let _ = std::io::stdout().flush();
            std::mem::forget(m);
        })
        .map_err(|e| e.to_string())?;
    h.join().map_err(|_| "deep: panicked".to_string())
}
