//! C20: forced schedules on a shared context. Two (or more) real threads each perform a list of
//! `send`s on sinks of ONE context; a baton decides, at every named schedule point of the library
//! (`verif::sched_point`), which thread runs next. The schedule is a list of thread ids: entry k says
//! which thread executes its next segment (the code up to its next schedule point).
use sodium_rust::verif;
use sodium_rust::*;
use std::io::{BufRead, Write};
use std::sync::{Arc, Condvar, Mutex};

thread_local! { static TID: std::cell::Cell<usize> = std::cell::Cell::new(usize::MAX); }

struct Baton {
    sched: Vec<usize>,   // remaining schedule
    pos: usize,
    turn: Option<usize>, // thread allowed to run now
    done: Vec<bool>,
    trace: Vec<(usize, String)>,
    free_run: bool,      // schedule exhausted: everybody runs freely
}

struct Ctl { m: Mutex<Baton>, cv: Condvar }

impl Ctl {
    /// called by thread `t` when it reaches a schedule point (or starts): wait until it is its turn
    fn yield_at(&self, t: usize, name: &str) {
        let mut b = self.m.lock().unwrap();
        b.trace.push((t, name.to_string()));
        if b.free_run { return; }
        // only the thread that holds the turn gives it up and lets the schedule pick the next one;
        // a thread arriving at its first point without the turn just waits
        if b.turn == Some(t) && name != "start" {
            b.turn = None;
            self.advance(&mut b);
            self.cv.notify_all();
        }
        let deadline = std::time::Instant::now() + std::time::Duration::from_millis(3000);
        while !(b.free_run || b.turn == Some(t)) {
            let left = deadline.saturating_duration_since(std::time::Instant::now());
            if left.is_zero() { b.free_run = true; self.cv.notify_all(); break; }
            b = self.cv.wait_timeout(b, left).unwrap().0;
        }
    }
    fn advance(&self, b: &mut Baton) {
        while b.pos < b.sched.len() {
            let t = b.sched[b.pos];
            b.pos += 1;
            if t < b.done.len() && !b.done[t] { b.turn = Some(t); return; }
        }
        // schedule exhausted: the lowest unfinished thread runs
        match b.done.iter().position(|d| !d) { Some(t) => b.turn = Some(t), None => b.free_run = true }
    }
    fn finish(&self, t: usize) {
        let mut b = self.m.lock().unwrap();
        b.done[t] = true;
        if b.turn == Some(t) || b.turn.is_none() { b.turn = None; self.advance(&mut b); }
        self.cv.notify_all();
    }
}

/// script line: `conc <nsinks> | <thread0 sends: s:v,s:v> | <thread1 sends> [| …] | <schedule: 0,1,1,0,…>`
pub fn run_one(line: &str, show_trace: bool) -> String {
    let parts: Vec<&str> = line.split('|').map(|s| s.trim()).collect();
    if parts.len() < 3 { return "bad-op".into(); }
    let head: Vec<&str> = parts[0].split_whitespace().collect();
    let nsinks: usize = head.get(1).and_then(|s| s.parse().ok()).unwrap_or(1);
    let progs: Vec<Vec<(usize, i64)>> = parts[1..parts.len() - 1].iter().map(|p| {
        p.split(',').filter(|s| !s.trim().is_empty()).map(|sv| { let mut it = sv.trim().split(':'); (it.next().unwrap().parse().unwrap(), it.next().unwrap().parse().unwrap()) }).collect()
    }).collect();
    let sched: Vec<usize> = parts[parts.len() - 1].split(',').filter(|s| !s.trim().is_empty()).map(|s| s.trim().parse().unwrap()).collect();
    let nthreads = progs.len();
    let ctx = SodiumCtx::new();
    let sinks: Vec<StreamSink<i64>> = (0..nsinks).map(|_| ctx.new_stream_sink()).collect();
    let delivered: Arc<Mutex<Vec<(usize, i64)>>> = Arc::new(Mutex::new(vec![]));
    let mut listeners = vec![];
    for (i, s) in sinks.iter().enumerate() {
        let d = delivered.clone();
        listeners.push(s.stream().listen(move |v: &i64| d.lock().unwrap().push((i, *v))));
    }
    let ctl = Arc::new(Ctl { m: Mutex::new(Baton { sched, pos: 0, turn: None, done: vec![false; nthreads], trace: vec![], free_run: false }), cv: Condvar::new() });
    {
        let ctl2 = ctl.clone();
        verif::set_sched_hook(Some(Arc::new(move |name: &'static str| {
            let t = TID.with(|c| c.get());
            if t != usize::MAX { ctl2.yield_at(t, name); }
        })));
    }
    let panicked = Arc::new(Mutex::new(false));
    let mut hs = vec![];
    for (t, prog) in progs.into_iter().enumerate() {
        let (ctl, sinks, panicked) = (ctl.clone(), sinks.clone(), panicked.clone());
        hs.push(std::thread::spawn(move || {
            TID.with(|c| c.set(t));
            ctl.yield_at(t, "start");
            let r = std::panic::catch_unwind(std::panic::AssertUnwindSafe(|| {
                let n = prog.len();
                for (k, (s, v)) in prog.into_iter().enumerate() {
                    if s < sinks.len() { sinks[s].send(v); }
                    if k + 1 < n { ctl.yield_at(t, "sent"); }   // between sends only: a finished thread needs no further turn
                }
            }));
            if r.is_err() { *panicked.lock().unwrap() = true; }
            TID.with(|c| c.set(usize::MAX));
            ctl.finish(t);
        }));
    }
    // kick off: nobody holds the turn yet
    { let mut b = ctl.m.lock().unwrap(); if b.turn.is_none() && !b.free_run { ctl.advance(&mut b); } ctl.cv.notify_all(); }
    let mut hung = false;
    for h in hs { if h.join().is_err() { hung = true; } }
    verif::set_sched_hook(None);
    let mut d = delivered.lock().unwrap().clone();
    let order: Vec<String> = d.iter().map(|(s, v)| format!("{s}:{v}")).collect();
    d.sort();
    let (depth, cn, pp, po) = ctx.impl_.with_data(|x: &mut sodium_rust::verif::SodiumCtxData| (x.transaction_depth, x.changed_nodes.len(), x.pre_post.len(), x.post.len()));
    let firing: usize = sinks.iter().filter(|s| s.stream().impl_.with_firing_op(|f: &mut Option<i64>| f.is_some())).count();
    let mut out = format!("delivered={} depth={depth} cn={cn} pp={pp} po={po} firing={firing}{}{}", order.join(","), if *panicked.lock().unwrap() { " PANIC" } else { "" }, if hung { " HUNG" } else { "" });
    if show_trace {
        let b = ctl.m.lock().unwrap();
        let tr: Vec<String> = b.trace.iter().map(|(t, n)| format!("{t}@{n}")).collect();
        out.push_str(&format!(" trace={}", tr.join(" ")));
    }
    for l in listeners { l.unlisten(); }
    out
}

pub fn run_stdin() -> Result<(), String> {
    let show = std::env::var("CONC_TRACE").is_ok();
    let stdin = std::io::stdin();
    let stdout = std::io::stdout();
    let mut out = std::io::BufWriter::new(stdout.lock());
    for line in stdin.lock().lines() {
        let line = line.map_err(|e| e.to_string())?;
        let o = if line.trim() == "---" { "---".to_string() } else if line.trim_start().starts_with("conc") { run_one(&line, show) } else { "bad-op".into() };
        writeln!(out, "{o}").map_err(|e| e.to_string())?;
    }
    Ok(())
}

/// `gcrace SENDS`: thread B only clones and drops handles (no transaction, no send) while thread A sends; every
/// transaction of A ends with a cycle collection.  Not a forced schedule: the OS scheduler decides.  Prints one line:
/// `gcrace=ok delivered=N`, `gcrace=lost delivered=K of N`, or `gcrace=panic <message>`.
pub fn gcrace(args: &[String]) -> Result<(), String> {
    use std::sync::atomic::{AtomicBool, Ordering};
    let n_send: i64 = args.first().and_then(|a| a.parse().ok()).unwrap_or(2000);
    let r = std::panic::catch_unwind(std::panic::AssertUnwindSafe(|| {
        let ctx = SodiumCtx::new();
        let ss: StreamSink<i64> = ctx.new_stream_sink();
        let mut chain = vec![ss.stream()];
        for _ in 0..100 {
            let last = chain.last().unwrap().clone();
            chain.push(last.map(|a: &i64| *a + 1).or_else(&last));
        }
        let count = Arc::new(Mutex::new(0i64));
        let c2 = count.clone();
        let l = chain.last().unwrap().listen(move |_: &i64| *c2.lock().unwrap() += 1);
        let stop = Arc::new(AtomicBool::new(false));
        let hb = {
            let chain = chain.clone();
            let stop = stop.clone();
            std::thread::spawn(move || {
                while !stop.load(Ordering::SeqCst) {
                    for s in &chain {
                        let c = s.clone();
                        drop(c);
                    }
                }
            })
        };
        let sent = std::panic::catch_unwind(std::panic::AssertUnwindSafe(|| {
            for i in 0..n_send {
                ss.send(i);
            }
        }));
        stop.store(true, Ordering::SeqCst);
        let _ = hb.join();
        let delivered = *count.lock().unwrap();
        std::mem::forget(l);
        std::mem::forget(chain);
        std::mem::forget(ss);
        std::mem::forget(ctx);
        match sent {
            Err(p) => format!("gcrace=panic {}", crate::panic_message(&*p)),
            Ok(()) if delivered == n_send => format!("gcrace=ok delivered={delivered}"),
            Ok(()) => format!("gcrace=lost delivered={delivered} of {n_send}"),
        }
    }));
    match r {
        Ok(line) => println!("{line}"),
        Err(p) => println!("gcrace=panic {}", crate::panic_message(&*p)),
    }
    let _ = std::io::stdout().flush();
    Ok(())
}
