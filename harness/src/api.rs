//! L-api: interpreter of API scripts against the public sodium-rust API (plus a few hook reads).
//! One observation line per script line. See /verif/PROTOCOL.md.
use sodium_rust::verif::SodiumCtxData;
use sodium_rust::*;
use std::collections::HashMap;
use std::io::{BufRead, Write};
use std::panic::{catch_unwind, AssertUnwindSafe};
use std::sync::{Arc, Mutex};

pub fn f1(k: i64, x: i64) -> i64 { x.wrapping_mul(3).wrapping_add(k) }
pub fn p1(k: i64, x: i64) -> bool { x.wrapping_add(k).rem_euclid(3) != 0 }
pub fn f2(op: i64, a: i64, b: i64) -> i64 {
    match op.rem_euclid(3) { 0 => a.wrapping_sub(b), 1 => a.wrapping_mul(31).wrapping_add(b), _ => a.wrapping_add(b.wrapping_mul(7)) }
}
/// n-ary combination used by snapshot3..6 / lift3..6: left fold of f2(1,·,·)
pub fn fn_(args: &[i64]) -> i64 { let mut acc = args[0]; for b in &args[1..] { acc = f2(1, acc, *b); } acc }
pub fn even(x: i64) -> bool { x.rem_euclid(2) == 0 }
pub fn route_keys(sel: i64, v: i64) -> Vec<i64> {
    match sel.rem_euclid(3) { 0 => vec![v.rem_euclid(3)], 1 => vec![v.rem_euclid(3), v.rem_euclid(2)], _ => vec![v.rem_euclid(2), v.rem_euclid(2), v.rem_euclid(3)] }
}

/// `W::<T>(..).is_send_sync()` is true iff `T: Send + Sync` (the inherent method wins when the bound holds, else the
/// method of the deref target is found)
struct W<T>(std::marker::PhantomData<T>);
struct NotSendSync;
impl NotSendSync { fn is_send_sync(&self) -> bool { false } }
impl<T: Send + Sync> W<T> { fn is_send_sync(&self) -> bool { true } }
impl<T> std::ops::Deref for W<T> { type Target = NotSendSync; fn deref(&self) -> &NotSendSync { &NotSendSync } }
macro_rules! send_sync { ($t:ty) => { (stringify!($t), W::<$t>(std::marker::PhantomData).is_send_sync()) }; }

enum H {
    S(Stream<i64>), SS(StreamSink<i64>), C(Cell<i64>), CS(CellSink<i64>), SL(StreamLoop<i64>), CL(CellLoop<i64>),
    R(Arc<Router<i64, i64>>, i64), L(Listener), Z(Lazy<i64>, Arc<Mutex<u32>>), T(Option<Transaction>), P, Dropped,
}

type Log = Arc<Mutex<Vec<(String, i64)>>>;

pub struct Api {
    ctx: SodiumCtx,
    h: HashMap<String, H>,
    log: Log,
    dead: bool,
}

fn num(s: &str) -> Option<i64> { s.parse::<i64>().ok() }

impl Api {
    pub fn new() -> Api { Api { ctx: SodiumCtx::new(), h: HashMap::new(), log: Arc::new(Mutex::new(vec![])), dead: false } }

    fn s(&self, n: &str) -> Option<Stream<i64>> {
        match self.h.get(n)? { H::S(s) => Some(s.clone()), H::SS(s) => Some(s.stream()), H::SL(l) => Some(l.stream()), _ => None }
    }
    fn c(&self, n: &str) -> Option<Cell<i64>> {
        match self.h.get(n)? { H::C(c) => Some(c.clone()), H::CS(c) => Some(c.cell()), H::CL(c) => Some(c.cell()), _ => None }
    }
    fn fresh(&self, n: &str) -> bool { !self.h.contains_key(n) }

    fn drain_cb(&self) -> String {
        let mut l = self.log.lock().unwrap();
        if l.is_empty() { return String::new(); }
        // canonical: stable sort by listener name (per-listener order preserved); API_RAW_CB=1 keeps the order in which the
        // library called the listeners (C19: it must not depend on what another context does)
        let mut v: Vec<(String, i64)> = l.drain(..).collect();
        if std::env::var("API_RAW_CB").is_err() { v.sort_by(|a, b| a.0.cmp(&b.0)); }
        let parts: Vec<String> = v.iter().map(|(n, x)| format!("{n}={x}")).collect();
        format!(" | cb {}", parts.join(" "))
    }

    fn mk_listener(&self, name: &str) -> impl FnMut(&i64) + Send + Sync + 'static {
        let log = self.log.clone();
        let name = name.to_string();
        move |v: &i64| log.lock().unwrap().push((name.clone(), *v))
    }

    /// executes lines[pc..end) ; returns outputs through `out`
    fn exec_range(&mut self, lines: &[Vec<String>], mut pc: usize, end: usize, out: &mut Vec<String>) {
        while pc < end {
            if self.dead { out[pc] = "dead".into(); pc += 1; continue; }
            let ws: Vec<&str> = lines[pc].iter().map(|s| s.as_str()).collect();
            if ws.first() == Some(&"begin") {
                // find matching end
                let mut depth = 1; let mut j = pc + 1;
                while j < end { match lines[j].first().map(|s| s.as_str()) { Some("begin") => depth += 1, Some("end") => { depth -= 1; if depth == 0 { break; } } _ => {} } j += 1; }
                if j >= end { out[pc] = "bad-op".into(); pc += 1; continue; }
                out[pc] = "ok".into();
                let ctx = self.ctx.clone();
                let r = catch_unwind(AssertUnwindSafe(|| ctx.transaction(|| self.exec_range(lines, pc + 1, j, out))));
                match r {
                    Ok(()) => { if !self.dead { out[j] = format!("ok{}", self.drain_cb()); } else { out[j] = "dead".into(); } }
                    Err(p) => {
                        // a panic while closing a transaction whose body already panicked is not reported again
                        if self.dead { out[j] = "dead".into(); } else { self.dead = true; out[j] = format!("PANIC {}", classify(&crate::panic_message(&*p))); }
                    }
                }
                pc = j + 1;
                continue;
            }
            let r = catch_unwind(AssertUnwindSafe(|| self.exec_line(&ws)));
            out[pc] = match r {
                Ok(o) => format!("{o}{}", self.drain_cb()),
                Err(p) => { self.dead = true; format!("PANIC {}", classify(&crate::panic_message(&*p))) }
            };
            pc += 1;
        }
    }

    fn exec_line(&mut self, ws: &[&str]) -> String {
        macro_rules! need { ($e:expr) => { match $e { Some(x) => x, None => return "skip".into() } } }
        macro_rules! fresh { ($n:expr) => { if !self.fresh($n) { return "skip".into(); } } }
        let ok = || "ok".to_string();
        match ws {
            ["end"] => "bad-op".into(),
            ["ssink", x] => { fresh!(x); self.h.insert(x.to_string(), H::SS(self.ctx.new_stream_sink())); ok() }
            ["ssinkc", x, op] => { fresh!(x); let op = need!(num(op)); self.h.insert(x.to_string(), H::SS(self.ctx.new_stream_sink_with_coalescer(move |a: &i64, b: &i64| f2(op, *a, *b)))); ok() }
            ["csink", x, k] => { fresh!(x); let k = need!(num(k)); self.h.insert(x.to_string(), H::CS(self.ctx.new_cell_sink(k))); ok() }
            ["const", x, k] => { fresh!(x); let k = need!(num(k)); self.h.insert(x.to_string(), H::C(self.ctx.new_cell(k))); ok() }
            ["never", x] => { fresh!(x); self.h.insert(x.to_string(), H::S(self.ctx.new_stream())); ok() }
            ["map", x, s, k] => { fresh!(x); let (s, k) = (need!(self.s(s)), need!(num(k))); self.h.insert(x.to_string(), H::S(s.map(move |v: &i64| f1(k, *v)))); ok() }
            ["mapto", x, s, k] => { fresh!(x); let (s, k) = (need!(self.s(s)), need!(num(k))); self.h.insert(x.to_string(), H::S(s.map_to(k))); ok() }
            ["filter", x, s, k] => { fresh!(x); let (s, k) = (need!(self.s(s)), need!(num(k))); self.h.insert(x.to_string(), H::S(s.filter(move |v: &i64| p1(k, *v)))); ok() }
            ["filteropt", x, s, k] => { fresh!(x); let (s, k) = (need!(self.s(s)), need!(num(k)));
                let so: Stream<Option<i64>> = s.map(move |v: &i64| if p1(k, *v) { Some(*v) } else { None });
                self.h.insert(x.to_string(), H::S(so.filter_option())); ok() }
            ["merge", x, a, b, op] => { fresh!(x); let (a, b, op) = (need!(self.s(a)), need!(self.s(b)), need!(num(op))); self.h.insert(x.to_string(), H::S(a.merge(&b, move |p: &i64, q: &i64| f2(op, *p, *q)))); ok() }
            ["orelse", x, a, b] => { fresh!(x); let (a, b) = (need!(self.s(a)), need!(self.s(b))); self.h.insert(x.to_string(), H::S(a.or_else(&b))); ok() }
            ["snapshot", x, s, c, op] => { fresh!(x); let (s, c, op) = (need!(self.s(s)), need!(self.c(c)), need!(num(op))); self.h.insert(x.to_string(), H::S(s.snapshot(&c, move |p: &i64, q: &i64| f2(op, *p, *q)))); ok() }
            ["snapshot1", x, s, c] => { fresh!(x); let (s, c) = (need!(self.s(s)), need!(self.c(c))); self.h.insert(x.to_string(), H::S(s.snapshot1(&c))); ok() }
            ["snapshotn", x, s, cs @ ..] => { fresh!(x); let s = need!(self.s(s));
                let mut cv = vec![]; for c in cs { cv.push(need!(self.c(c))); }
                let r = match cv.len() {
                    2 => s.snapshot3(&cv[0], &cv[1], |a: &i64, b: &i64, c: &i64| fn_(&[*a, *b, *c])),
                    3 => s.snapshot4(&cv[0], &cv[1], &cv[2], |a: &i64, b: &i64, c: &i64, d: &i64| fn_(&[*a, *b, *c, *d])),
                    4 => s.snapshot5(&cv[0], &cv[1], &cv[2], &cv[3], |a: &i64, b: &i64, c: &i64, d: &i64, e: &i64| fn_(&[*a, *b, *c, *d, *e])),
                    5 => s.snapshot6(&cv[0], &cv[1], &cv[2], &cv[3], &cv[4], |a: &i64, b: &i64, c: &i64, d: &i64, e: &i64, f: &i64| fn_(&[*a, *b, *c, *d, *e, *f])),
                    _ => return "skip".into() };
                self.h.insert(x.to_string(), H::S(r)); ok() }
            ["snaplazy", x, s, c] => { fresh!(x); let (s, c) = (need!(self.s(s)), need!(self.c(c)));
                // a Lazy taken inside a propagation callback and forced by the next node: the cell's value in this transaction
                let dep = c.to_dep();
                let sl: Stream<Lazy<i64>> = s.map(lambda1(move |_: &i64| c.sample_lazy(), vec![dep]));
                self.h.insert(x.to_string(), H::S(sl.map(|l: &Lazy<i64>| l.run()))); ok() }
            ["snapmapc", x, s, c, k] => { fresh!(x); let (s, c, k) = (need!(self.s(s)), need!(self.c(c)), need!(num(k)));
                // a mapped cell built inside a propagation callback and sampled there: f(value of c in this transaction)
                let dep = c.to_dep();
                self.h.insert(x.to_string(), H::S(s.map(lambda1(move |_: &i64| c.map(move |v: &i64| f1(k, *v)).sample(), vec![dep])))); ok() }
            ["gate", x, s, c] => { fresh!(x); let (s, c) = (need!(self.s(s)), need!(self.c(c))); self.h.insert(x.to_string(), H::S(s.gate(&c.map(|v: &i64| even(*v))))); ok() }
            ["hold", x, s, k] => { fresh!(x); let (s, k) = (need!(self.s(s)), need!(num(k))); self.h.insert(x.to_string(), H::C(s.hold(k))); ok() }
            ["holdlazy", x, s, z] => { fresh!(x); let s = need!(self.s(s)); let z = match self.h.get(*z) { Some(H::Z(z, _)) => z.clone(), _ => return "skip".into() };
                self.h.insert(x.to_string(), H::C(s.hold_lazy(z))); ok() }
            ["once", x, s] => { fresh!(x); let s = need!(self.s(s)); self.h.insert(x.to_string(), H::S(s.once())); ok() }
            ["updates", x, c] => { fresh!(x); let c = need!(self.c(c)); self.h.insert(x.to_string(), H::S(c.updates())); ok() }
            ["value", x, c] => { fresh!(x); let c = need!(self.c(c)); self.h.insert(x.to_string(), H::S(c.value())); ok() }
            ["mapc", x, c, k] => { fresh!(x); let (c, k) = (need!(self.c(c)), need!(num(k))); self.h.insert(x.to_string(), H::C(c.map(move |v: &i64| f1(k, *v)))); ok() }
            ["lift2", x, a, b, op] => { fresh!(x); let (a, b, op) = (need!(self.c(a)), need!(self.c(b)), need!(num(op))); self.h.insert(x.to_string(), H::C(a.lift2(&b, move |p: &i64, q: &i64| f2(op, *p, *q)))); ok() }
            ["lift2d", x, a, b, c, op] => { fresh!(x); let (a, b, c, op) = (need!(self.c(a)), need!(self.c(b)), need!(self.c(c)), need!(num(op)));
                // a lift whose function captures a third cell and declares it (lambda2 with deps): the collector must see it once
                let dep = c.to_dep();
                self.h.insert(x.to_string(), H::C(a.lift2(&b, lambda2(move |p: &i64, q: &i64| { c.impl_.nop(); f2(op, *p, *q) }, vec![dep])))); ok() }
            ["liftn", x, cs @ ..] => { fresh!(x); let mut cv = vec![]; for c in cs { cv.push(need!(self.c(c))); }
                let r = match cv.len() {
                    3 => cv[0].lift3(&cv[1], &cv[2], |a: &i64, b: &i64, c: &i64| fn_(&[*a, *b, *c])),
                    4 => cv[0].lift4(&cv[1], &cv[2], &cv[3], |a: &i64, b: &i64, c: &i64, d: &i64| fn_(&[*a, *b, *c, *d])),
                    5 => cv[0].lift5(&cv[1], &cv[2], &cv[3], &cv[4], |a: &i64, b: &i64, c: &i64, d: &i64, e: &i64| fn_(&[*a, *b, *c, *d, *e])),
                    6 => cv[0].lift6(&cv[1], &cv[2], &cv[3], &cv[4], &cv[5], |a: &i64, b: &i64, c: &i64, d: &i64, e: &i64, f: &i64| fn_(&[*a, *b, *c, *d, *e, *f])),
                    _ => return "skip".into() };
                self.h.insert(x.to_string(), H::C(r)); ok() }
            ["accum", x, s, k, op] => { fresh!(x); let (s, k, op) = (need!(self.s(s)), need!(num(k)), need!(num(op))); self.h.insert(x.to_string(), H::C(s.accum(k, move |a: &i64, st: &i64| f2(op, *a, *st)))); ok() }
            ["collect", x, s, k, op] => { fresh!(x); let (s, k, op) = (need!(self.s(s)), need!(num(k)), need!(num(op)));
                self.h.insert(x.to_string(), H::S(s.collect(k, move |a: &i64, st: &i64| (f2(op, *a, *st), f2(op + 1, *a, *st))))); ok() }
            ["accumlazy", x, s, z, op] => { fresh!(x); let (s, op) = (need!(self.s(s)), need!(num(op)));
                let z = match self.h.get(*z) { Some(H::Z(z, _)) => z.clone(), _ => return "skip".into() };
                self.h.insert(x.to_string(), H::C(s.accum_lazy(z, move |a: &i64, st: &i64| f2(op, *a, *st)))); ok() }
            ["collectlazy", x, s, z, op] => { fresh!(x); let (s, op) = (need!(self.s(s)), need!(num(op)));
                let z = match self.h.get(*z) { Some(H::Z(z, _)) => z.clone(), _ => return "skip".into() };
                self.h.insert(x.to_string(), H::S(s.collect_lazy(z, move |a: &i64, st: &i64| (f2(op, *a, *st), f2(op + 1, *a, *st))))); ok() }
            ["defer", x, s] => { fresh!(x); let s = need!(self.s(s)); self.h.insert(x.to_string(), H::S(Operational::defer(&s))); ok() }
            ["split", x, s, n] => { fresh!(x); let (s, n) = (need!(self.s(s)), need!(num(n))); if !(0..=8).contains(&n) { return "skip".into(); }
                self.h.insert(x.to_string(), H::S(s.map(move |v: &i64| (0..n).map(|j| v.wrapping_add(j)).collect::<Vec<i64>>()).split())); ok() }
            ["switchs", x, sel, cands @ ..] => { fresh!(x); let sel = need!(self.c(sel)); if cands.is_empty() { return "skip".into(); }
                let mut cv: Vec<Stream<i64>> = vec![]; for c in cands { cv.push(need!(self.s(c))); }
                let deps = cv.iter().map(|c| c.to_dep()).collect();
                let n = cv.len() as i64;
                let csa = sel.map(lambda1(move |k: &i64| cv[k.rem_euclid(n) as usize].clone(), deps));
                self.h.insert(x.to_string(), H::S(Cell::switch_s(&csa))); ok() }
            ["switchdyn", x, sel, s, op] => { fresh!(x); let (sel, base, op) = (need!(self.c(sel)), need!(self.s(s)), need!(num(op)));
                // dynamic switching: every update of the selector builds a fresh candidate stream inside the closure
                let dep = base.to_dep();
                let csa = sel.map(lambda1(move |k: &i64| { let k = *k; base.map(move |v: &i64| f2(op, *v, k)) }, vec![dep]));
                self.h.insert(x.to_string(), H::S(Cell::switch_s(&csa))); ok() }
            ["switchlate", x, s, base, op] => { fresh!(x); let (s, base, op) = (need!(self.s(s)), need!(self.s(base)), need!(num(op)));
                // the canonical dynamic switch: every event of `s` builds a fresh stream on `base`; nothing before the first event
                let dep = base.to_dep();
                let ss: Stream<Stream<i64>> = s.map(lambda1(move |k: &i64| { let k = *k; base.map(move |v: &i64| f2(op, *v, k)) }, vec![dep]));
                let cs = ss.hold(self.ctx.new_stream());
                self.h.insert(x.to_string(), H::S(Cell::switch_s(&cs))); ok() }
            ["switchlatec", x, s, base, op] => { fresh!(x); let (s, base, op) = (need!(self.s(s)), need!(self.s(base)), need!(num(op)));
                // cells built on demand: every event k of `s` builds, inside the transaction, a fresh cell on `base`
                // (the fresh cell sits on a two-input node built during propagation, one input of which never fires)
                let quiet: Stream<i64> = self.ctx.new_stream();
                let deps = vec![base.to_dep(), quiet.to_dep()];
                let sc: Stream<Cell<i64>> = s.map(lambda1(move |k: &i64| { let k = *k; base.or_else(&quiet).map(move |v: &i64| f2(op, *v, k)).hold(k) }, deps));
                let cc = sc.hold(self.ctx.new_cell(0));
                self.h.insert(x.to_string(), H::C(Cell::switch_c(&cc))); ok() }
            ["switchc", x, sel, cands @ ..] => { fresh!(x); let sel = need!(self.c(sel)); if cands.is_empty() { return "skip".into(); }
                let mut cv: Vec<Cell<i64>> = vec![]; for c in cands { cv.push(need!(self.c(c))); }
                let deps = cv.iter().map(|c| c.to_dep()).collect();
                let n = cv.len() as i64;
                let cca = sel.map(lambda1(move |k: &i64| cv[k.rem_euclid(n) as usize].clone(), deps));
                self.h.insert(x.to_string(), H::C(Cell::switch_c(&cca))); ok() }
            ["sloop", x] => { fresh!(x); self.h.insert(x.to_string(), H::SL(self.ctx.new_stream_loop())); ok() }
            ["sloopclose", l, s] => { let s = need!(self.s(s)); match self.h.get(*l) { Some(H::SL(l)) => { l.loop_(&s); ok() } _ => "skip".into() } }
            ["cloop", x] => { fresh!(x); self.h.insert(x.to_string(), H::CL(self.ctx.new_cell_loop())); ok() }
            ["cloopclose", l, c] => { let c = need!(self.c(c)); match self.h.get(*l) { Some(H::CL(l)) => { l.loop_(&c); ok() } _ => "skip".into() } }
            ["router", r, s, sel] => { fresh!(r); let (s, sel) = (need!(self.s(s)), need!(num(sel))); self.h.insert(r.to_string(), H::R(Arc::new(self.ctx.new_router(&s, move |v: &i64| route_keys(sel, *v))), sel)); ok() }
            ["route", x, r, k] => { fresh!(x); let k = need!(num(k)); match self.h.get(*r) { Some(H::R(r, _)) => { let s = r.filter_matches(&k); self.h.insert(x.to_string(), H::S(s)); ok() } _ => "skip".into() } }
            ["listen", l, x] | ["listenweak", l, x] => { fresh!(l);
                let weak = ws[0] == "listenweak";
                let k = self.mk_listener(l);
                let li = if let Some(s) = self.s(x) { if weak { s.listen_weak(k) } else { s.listen(k) } }
                    else if let Some(c) = self.c(x) { if weak { c.listen_weak(k) } else { c.listen(k) } } else { return "skip".into() };
                self.h.insert(l.to_string(), H::L(li)); ok() }
            ["routelate", l, r, k0, k] => { fresh!(l); let (k0, k) = (need!(num(k0)), need!(num(k)));
                // a route requested from inside a handler that runs after the router's update (a listener on another routed stream),
                // on that stream's first event: the new route sees the input's events of later transactions
                match self.h.get(*r) {
                    Some(H::R(router, _)) => {
                        let trig = router.filter_matches(&k0);
                        let router2 = router.clone();
                        let log = self.log.clone(); let name = l.to_string();
                        let keep: Arc<Mutex<Vec<Listener>>> = Arc::new(Mutex::new(vec![]));
                        let outer = trig.once().listen(move |_: &i64| {
                            let rs = router2.filter_matches(&k);
                            let (log, name) = (log.clone(), name.clone());
                            keep.lock().unwrap().push(rs.listen(move |v: &i64| log.lock().unwrap().push((name.clone(), *v))));
                        });
                        std::mem::forget(outer);
                        self.h.insert(l.to_string(), H::P); ok() }
                    _ => "skip".into() } }
            ["latelisten", l, s, base, op] => { fresh!(l); let (s, base, op) = (need!(self.s(s)), need!(self.s(base)), need!(num(op)));
                // FRP built inside a listener handler, during propagation: on the first event k of `s` a two-input node on `base`
                // (its other input never fires), a map and a listener are built; they must see `base`'s event of that very transaction
                let quiet: Stream<i64> = self.ctx.new_stream();
                let log = self.log.clone(); let name = l.to_string();
                let keep: Arc<Mutex<Vec<Listener>>> = Arc::new(Mutex::new(vec![]));
                let outer = s.once().listen(move |k: &i64| {
                    let k = *k;
                    let m = base.or_else(&quiet).map(move |v: &i64| f2(op, *v, k));
                    let (log, name) = (log.clone(), name.clone());
                    let li = m.listen(move |v: &i64| log.lock().unwrap().push((name.clone(), *v)));
                    keep.lock().unwrap().push(li);
                });
                std::mem::forget(outer);      // a strong listener: the context keeps it; the script cannot unlisten it
                self.h.insert(l.to_string(), H::P); ok() }
            ["latehold", l, trig, s, init] => { fresh!(l); let (trig, s, init) = (need!(self.s(trig)), need!(self.s(s)), need!(num(init)));
                // a cell built inside a listener handler (of another stream), during propagation: it must take up the event its
                // stream has in that very transaction; every event of the stream then reports the value the cell had before it
                let log = self.log.clone(); let name = l.to_string();
                let keep: Arc<Mutex<Vec<Listener>>> = Arc::new(Mutex::new(vec![]));
                let outer = trig.once().listen(move |_k: &i64| {
                    let c = s.hold(init);
                    let (log, name) = (log.clone(), name.clone());
                    let li = s.snapshot1(&c).listen(move |v: &i64| log.lock().unwrap().push((name.clone(), *v)));
                    keep.lock().unwrap().push(li);
                });
                std::mem::forget(outer);
                self.h.insert(l.to_string(), H::P); ok() }
            ["handlerlisten", l, trig, s] => { fresh!(l); let (trig, s) = (need!(self.s(trig)), need!(self.s(s)));
                // a listener registered on `s` from inside the handler of another stream: it is told the event `s` has in
                // that very transaction, whether or not `s` was updated before the handler ran
                let log = self.log.clone(); let name = l.to_string();
                let keep: Arc<Mutex<Vec<Listener>>> = Arc::new(Mutex::new(vec![]));
                let outer = trig.once().listen(move |_k: &i64| {
                    let (log, name) = (log.clone(), name.clone());
                    let li = s.listen(move |v: &i64| log.lock().unwrap().push((name.clone(), *v)));
                    keep.lock().unwrap().push(li);
                });
                std::mem::forget(outer);
                self.h.insert(l.to_string(), H::P); ok() }
            ["lateloop", l, trig, s, k] => { fresh!(l); let (trig, s, k) = (need!(self.s(trig)), need!(self.s(s)), need!(num(k)));
                // a StreamLoop created, used and closed (onto `s`) inside the handler of another stream
                let log = self.log.clone(); let name = l.to_string(); let ctx = self.ctx.clone();
                let keep: Arc<Mutex<Vec<Listener>>> = Arc::new(Mutex::new(vec![]));
                let outer = trig.once().listen(move |_k: &i64| {
                    let sl: StreamLoop<i64> = ctx.new_stream_loop();
                    // (odd k: the loop is closed before anything uses its stream; even k: after)
                    if k.rem_euclid(2) == 1 { sl.loop_(&s); }
                    let m = sl.stream().map(move |v: &i64| f1(k, *v));
                    let (log, name) = (log.clone(), name.clone());
                    let li = m.listen(move |v: &i64| log.lock().unwrap().push((name.clone(), *v)));
                    if k.rem_euclid(2) == 0 { sl.loop_(&s); }
                    keep.lock().unwrap().push(li);
                });
                std::mem::forget(outer);
                self.h.insert(l.to_string(), H::P); ok() }
            ["switchnest", x, c, sel, cands @ ..] => { fresh!(x); if c == sel { return "skip".into(); } let (c, sel) = (need!(self.c(c)), need!(self.c(sel))); if cands.is_empty() { return "skip".into(); }
                // a switch built by a mapping function: every value of `c` builds a fresh `switch_s` over `sel`'s choice among
                // the candidates, and the result switches to it: the same as that switch built outside
                let mut cv: Vec<Stream<i64>> = vec![]; for s in cands { cv.push(need!(self.s(s))); }
                let mut deps: Vec<Dep> = cv.iter().map(|s| s.to_dep()).collect();
                deps.push(sel.to_dep());
                let n = cv.len() as i64;
                let outer = c.map(lambda1(move |_k: &i64| {
                    let cv = cv.clone();
                    let cdeps: Vec<Dep> = cv.iter().map(|s| s.to_dep()).collect();
                    Cell::switch_s(&sel.map(lambda1(move |k: &i64| cv[k.rem_euclid(n) as usize].clone(), cdeps)))
                }, deps));
                self.h.insert(x.to_string(), H::S(Cell::switch_s(&outer))); ok() }
            ["lateswitch", l, trig, s] => { fresh!(l); let (trig, s) = (need!(self.s(trig)), need!(self.s(s)));
                // a switch built by the handler of another stream's first event, over a constant cell holding `s`: it is `s`
                // from that very transaction on (whether or not `s` was visited before the handler ran)
                let log = self.log.clone(); let name = l.to_string(); let ctx = self.ctx.clone();
                let keep: Arc<Mutex<Vec<Listener>>> = Arc::new(Mutex::new(vec![]));
                let outer = trig.once().listen(move |_k: &i64| {
                    let sw = Cell::switch_s(&ctx.new_cell(s.clone()));
                    let (log, name) = (log.clone(), name.clone());
                    let li = sw.listen(move |v: &i64| log.lock().unwrap().push((name.clone(), *v)));
                    keep.lock().unwrap().push(li);
                });
                std::mem::forget(outer);
                self.h.insert(l.to_string(), H::P); ok() }
            ["lateswitchc", l, trig, c] => { fresh!(l); let (trig, c) = (need!(self.s(trig)), need!(self.c(c)));
                // the same with `switch_c` over a constant cell holding `c`; every update of the result from that transaction
                // on is reported (through `updates().listen`, so that the current value is not)
                let log = self.log.clone(); let name = l.to_string(); let ctx = self.ctx.clone();
                let keep: Arc<Mutex<Vec<Listener>>> = Arc::new(Mutex::new(vec![]));
                let outer = trig.once().listen(move |_k: &i64| {
                    let sw = Cell::switch_c(&ctx.new_cell(c.clone()));
                    let (log, name) = (log.clone(), name.clone());
                    let li = sw.updates().listen(move |v: &i64| log.lock().unwrap().push((name.clone(), *v)));
                    keep.lock().unwrap().push(li);
                });
                std::mem::forget(outer);
                self.h.insert(l.to_string(), H::P); ok() }
            ["routehandler", l, trig, r, k] => { fresh!(l); let (trig, k) = (need!(self.s(trig)), need!(num(k)));
                // a route requested (and listened to) by the handler of any stream's first event — possibly a deferred stream,
                // whose handler runs in a later transaction than the one the router dispatched in
                let router = match self.h.get(*r) { Some(H::R(r, _)) => r.clone(), _ => return "skip".into() };
                let log = self.log.clone(); let name = l.to_string();
                let keep: Arc<Mutex<Vec<Listener>>> = Arc::new(Mutex::new(vec![]));
                let outer = trig.once().listen(move |_k: &i64| {
                    let (log, name) = (log.clone(), name.clone());
                    let li = router.filter_matches(&k).listen(move |v: &i64| log.lock().unwrap().push((name.clone(), *v)));
                    keep.lock().unwrap().push(li);
                });
                std::mem::forget(outer);
                self.h.insert(l.to_string(), H::P); ok() }
            ["laterouter", l, trig, s, sel, k] => { fresh!(l); let (trig, s, sel, k) = (need!(self.s(trig)), need!(self.s(s)), need!(num(sel)), need!(num(k)));
                // a router built (and one of its routes listened to) by the handler of another stream's first event, possibly
                // after its input was visited in that transaction
                let log = self.log.clone(); let name = l.to_string(); let ctx = self.ctx.clone();
                let keep: Arc<Mutex<Vec<(Arc<Router<i64, i64>>, Listener)>>> = Arc::new(Mutex::new(vec![]));
                let outer = trig.once().listen(move |_k: &i64| {
                    let r = Arc::new(ctx.new_router(&s, move |v: &i64| route_keys(sel, *v)));
                    let (log, name) = (log.clone(), name.clone());
                    let li = r.filter_matches(&k).listen(move |v: &i64| log.lock().unwrap().push((name.clone(), *v)));
                    keep.lock().unwrap().push((r, li));
                });
                std::mem::forget(outer);
                self.h.insert(l.to_string(), H::P); ok() }
            ["switchlatecs", x, s, base, op] => { fresh!(x); let (s, base, op) = (need!(self.s(s)), need!(self.s(base)), need!(num(op)));
                // as `switchlatec`, but every cell built on demand contains a switch of its own (over a constant cell holding the
                // freshly built stream): its set-up is still queued when `switch_c` visits the new cell
                let quiet: Stream<i64> = self.ctx.new_stream();
                let deps = vec![base.to_dep(), quiet.to_dep()];
                let ctx = self.ctx.clone();
                let sc: Stream<Cell<i64>> = s.map(lambda1(move |k: &i64| { let k = *k;
                    let inner = base.or_else(&quiet).map(move |v: &i64| f2(op, *v, k));
                    Cell::switch_s(&ctx.new_cell(inner)).hold(k) }, deps));
                let cc = sc.hold(self.ctx.new_cell(0));
                self.h.insert(x.to_string(), H::C(Cell::switch_c(&cc))); ok() }
            ["lateloop2", l, trig1, trig2, s] => { fresh!(l); let (trig1, trig2, s) = (need!(self.s(trig1)), need!(self.s(trig2)), need!(self.s(s)));
                // a StreamLoop created (and used: `loop.or_else(trig1)`, listened to) by one handler and closed onto `s` by a later
                // handler of the same transaction (corpus only: `trig2` must fire, later, in the transaction of `trig1`'s first event)
                let log = self.log.clone(); let name = l.to_string(); let ctx = self.ctx.clone();
                let slot: Arc<Mutex<Option<StreamLoop<i64>>>> = Arc::new(Mutex::new(None));
                let keep: Arc<Mutex<Vec<Listener>>> = Arc::new(Mutex::new(vec![]));
                let (slot1, t1) = (slot.clone(), trig1.clone());
                let h1 = trig1.once().listen(move |_k: &i64| {
                    let sl: StreamLoop<i64> = ctx.new_stream_loop();
                    let n = sl.stream().or_else(&t1);
                    let (log, name) = (log.clone(), name.clone());
                    keep.lock().unwrap().push(n.listen(move |v: &i64| log.lock().unwrap().push((name.clone(), *v))));
                    *slot1.lock().unwrap() = Some(sl);
                });
                let h2 = trig2.once().listen(move |_k: &i64| { if let Some(sl) = slot.lock().unwrap().take() { sl.loop_(&s); std::mem::forget(sl); } });
                std::mem::forget(h1); std::mem::forget(h2);
                self.h.insert(l.to_string(), H::P); ok() }
            ["leafdrop", l, trig, s, kind] => { fresh!(l); let (trig, s, kind) = (need!(self.s(trig)), need!(self.s(s)), need!(num(kind)));
                // an unobserved primitive on `s` whose only handle is dropped by the handler of another stream's first event,
                // possibly while its node is already queued for update in that transaction: nothing may happen
                let leaf: Box<dyn std::any::Any + Send> = match kind.rem_euclid(6) {
                    0 => Box::new(s.map(|v: &i64| f1(1, *v))),
                    1 => Box::new(s.hold(0)),
                    2 => Box::new(s.filter(|v: &i64| p1(1, *v))),
                    3 => Box::new(s.merge(&trig, |a: &i64, b: &i64| f2(1, *a, *b))),
                    4 => Box::new(s.once()),
                    _ => Box::new(s.map(|v: &i64| f1(2, *v)).hold(1).map(|v: &i64| f1(3, *v))),
                };
                let slot: Arc<Mutex<Option<Box<dyn std::any::Any + Send>>>> = Arc::new(Mutex::new(Some(leaf)));
                let outer = trig.once().listen(move |_k: &i64| { *slot.lock().unwrap() = None; });
                std::mem::forget(outer);
                self.h.insert(l.to_string(), H::P); ok() }
            ["sendsync"] => {
                // C20 "all handles are Send and Sync": decided per type at compile time (autoref specialisation), reported at run time
                let v: Vec<(&str, bool)> = vec![
                    send_sync!(SodiumCtx), send_sync!(Stream<i64>), send_sync!(Cell<i64>), send_sync!(StreamSink<i64>), send_sync!(CellSink<i64>),
                    send_sync!(StreamLoop<i64>), send_sync!(CellLoop<i64>), send_sync!(Listener), send_sync!(Lazy<i64>), send_sync!(Router<i64, i64>),
                    send_sync!(Transaction),
                ];
                let bad: Vec<&str> = v.iter().filter(|x| !x.1).map(|x| x.0).collect();
                if bad.is_empty() { "sendsync=ok".into() } else { format!("sendsync=BAD {}", bad.join(",")) }
            }
            ["listenkill", l, x, victim] => { fresh!(l);
                // a listener whose handler unlistens another listener (every time it runs): from then on the victim must stay silent,
                // also for the rest of the transaction in which this happens
                let v = match self.h.get(*victim) { Some(H::L(li)) => Listener { impl_: li.impl_.clone() }, _ => return "skip".into() };
                let log = self.log.clone(); let name = l.to_string();
                let k = move |a: &i64| { log.lock().unwrap().push((name.clone(), *a)); v.unlisten(); };
                let li = if let Some(s) = self.s(x) { s.listen(k) } else if let Some(c) = self.c(x) { c.listen(k) } else { return "skip".into() };
                self.h.insert(l.to_string(), H::L(li)); ok() }
            ["unlisten", l] => match self.h.get(*l) { Some(H::L(li)) => { li.unlisten(); ok() } _ => "skip".into() },
            ["send", s, v] => { let v = need!(num(v)); match self.h.get(*s) { Some(H::SS(x)) => { x.send(v); ok() } Some(H::CS(x)) => { x.send(v); ok() } _ => "skip".into() } }
            ["sample", c] => { let c = need!(self.c(c)); format!("v={}", c.sample()) }
            ["mklazy", z, k] => { fresh!(z); let k = need!(num(k)); let cnt = Arc::new(Mutex::new(0u32)); let c2 = cnt.clone();
                self.h.insert(z.to_string(), H::Z(Lazy::new(move || { *c2.lock().unwrap() += 1; k }), cnt)); ok() }
            ["lazy", z, c] => { fresh!(z); let c = need!(self.c(c)); self.h.insert(z.to_string(), H::Z(c.sample_lazy(), Arc::new(Mutex::new(0)))); ok() }
            ["force", z] => match self.h.get(*z) { Some(H::Z(z, cnt)) => { let v = z.run(); let r = *cnt.lock().unwrap(); format!("v={v} runs={}", if r <= 1 { "ok".to_string() } else { r.to_string() }) } _ => "skip".into() },
            ["clonelazy", y, z] => { fresh!(y); match self.h.get(*z) { Some(H::Z(z, cnt)) => { let n = H::Z(z.clone(), cnt.clone()); self.h.insert(y.to_string(), n); ok() } _ => "skip".into() } }
            ["topen", t] => { fresh!(t); self.h.insert(t.to_string(), H::T(Some(self.ctx.new_transaction()))); ok() }
            ["tclose", t] => match self.h.get(*t) { Some(H::T(Some(t))) => { t.close(); ok() } _ => "skip".into() },
            ["tdrop", t] => match self.h.get_mut(*t) { Some(H::T(o)) if o.is_some() => { let x = o.take(); drop(x); ok() } _ => "skip".into() },
            ["post", p, c] => { fresh!(p); let c = need!(self.c(c)); let log = self.log.clone(); let name = p.to_string();
                self.h.insert(p.to_string(), H::P);
                self.ctx.post(move || { let v = c.sample(); log.lock().unwrap().push((name.clone(), v)); }); ok() }
            ["postsend", p, s, v] => { fresh!(p); let v = need!(num(v));
                // a send made by a posted closure: a transaction of its own after the current one
                match self.h.get(*s) {
                    Some(H::SS(x)) => { let x = x.clone(); self.h.insert(p.to_string(), H::P); self.ctx.post(move || x.send(v)); ok() }
                    Some(H::CS(x)) => { let x = x.clone(); self.h.insert(p.to_string(), H::P); self.ctx.post(move || x.send(v)); ok() }
                    _ => "skip".into() } }
            ["drop", x] => match self.h.get(*x) { Some(H::Dropped) | None | Some(H::T(_)) | Some(H::P) => "skip".into(), _ => { self.h.insert(x.to_string(), H::Dropped); ok() } },
            ["clone", y, x] => { fresh!(y);
                let n = match self.h.get(*x) { Some(H::S(s)) => H::S(s.clone()), Some(H::SS(s)) => H::SS(s.clone()), Some(H::C(c)) => H::C(c.clone()), Some(H::CS(c)) => H::CS(c.clone()),
                    Some(H::SL(l)) => H::S(l.stream()), Some(H::CL(l)) => H::C(l.cell()), _ => return "skip".into() };
                self.h.insert(y.to_string(), n); ok() }
            ["gc"] => { self.ctx.impl_.collect_cycles(); ok() }
            ["obs"] => self.obs(),
            ["memcheck"] => self.memcheck(),
            ["wfcheck"] => self.wfcheck(),
            ["graphdump"] => self.graphdump(),
            ["updclear"] => { let _ = sodium_rust::verif::take_update_log(); ok() }
            ["updlog"] => {
                // L-sched-api: the update closures the scheduler ran since `updclear` (in order) and the nodes it found changed
                let log = sodium_rust::verif::take_update_log();
                let upd: Vec<String> = log.iter().filter(|e| e.0 == b'U').map(|e| e.1.to_string()).collect();
                let mut chg: Vec<u32> = log.iter().filter(|e| e.0 == b'C').map(|e| e.1).collect();
                chg.sort(); chg.dedup();
                let chg: Vec<String> = chg.iter().map(|x| x.to_string()).collect();
                format!("upd={} chg={}", upd.join(","), chg.join(","))
            }
            ["nodes"] => format!("nodes={}", self.ctx.impl_.node_count()),
            ["leakcheck"] => {
                for (_, h) in self.h.iter() { if let H::L(l) = h { l.unlisten(); } }
                self.h.clear();
                self.ctx.transaction(|| {});
                self.ctx.impl_.collect_cycles();
                let ka = self.ctx.impl_.with_data(|d: &mut SodiumCtxData| d.keep_alive.len());
                if ka == 0 { format!("leak={}", self.ctx.impl_.node_count()) } else { format!("leak={} listeners-still-rooted={ka}", self.ctx.impl_.node_count()) }
            }
            _ => "bad-op".into(),
        }
    }

    /// L-mem: the collector's contract checked on the real graph: for every unfreed gc node,
    /// count >= (edges reported by unfreed nodes' trace) + (handles this harness and the context's
    /// strong-listener list are known to hold); and no reported edge leads to a freed node.
    fn memcheck(&self) -> String {
        use std::collections::HashMap as Map;
        let gc = self.ctx.impl_.gc_ctx();
        gc.v_registry_prune();
        let nodes = gc.v_registry();
        let mut inc: Map<u32, u32> = Map::new();
        let mut freed_target: Option<(u32, u32)> = None;
        for n in &nodes {
            if n.v_freed() { continue; }
            let from = n.v_id();
            n.trace(|t| { *inc.entry(t.v_id()).or_insert(0) += 1; if t.v_freed() { freed_target = Some((from, t.v_id())); } });
        }
        let mut held: Map<u32, u32> = Map::new();
        let mut freed_held: Option<String> = None;
        let mut add = |name: &str, g: &sodium_rust::verif::GcNode| {
            *held.entry(g.v_id()).or_insert(0) += 1;
            if g.v_freed() { freed_held = Some(format!("{name} (gc node {})", g.v_id())); }
        };
        for (name, h) in self.h.iter() {
            match h {
                H::S(s) => add(name, &s.impl_.node().gc_node),
                H::SS(s) => add(name, &s.stream().impl_.node().gc_node),
                H::C(c) => add(name, &c.impl_.node().gc_node),
                H::CS(c) => { add(name, &c.cell().impl_.node().gc_node); }
                H::SL(l) => add(name, &l.impl_.gc_node),
                H::L(l) => { let _ = l; }
                _ => {}
            }
        }
        if let Some(x) = freed_held { return format!("mem=BAD the object behind held handle {x} has been freed by the collector"); }
        let mut add = |id: u32| *held.entry(id).or_insert(0) += 1;
        for (_, h) in self.h.iter() { if let H::L(l) = h { add(l.impl_.gc_node.v_id()); } }
        self.ctx.impl_.with_data(|d: &mut SodiumCtxData| { for l in &d.keep_alive { add(l.gc_node.v_id()); } });
        if let Some((a, b)) = freed_target { return format!("mem=BAD unfreed node {a} reports an edge to freed node {b}"); }
        for n in &nodes {
            if n.v_freed() { continue; }
            let id = n.v_id();
            let (rc, i, h) = (n.ref_count(), *inc.get(&id).unwrap_or(&0), *held.get(&id).unwrap_or(&0));
            if rc < i + h { return format!("mem=BAD node {id} ({}) count {rc} < reported in-edges {i} + held handles {h}", n.v_name()); }
        }
        "mem=ok".into()
    }

    /// The hypotheses of the scheduler theorem (`Sched.WF`) checked on the real node graph reachable
    /// from the held handles and the rooted listeners: the dependency relation is acyclic, and every
    /// node is registered as a dependent of each of its dependencies.
    fn wfcheck(&self) -> String {
        use sodium_rust::verif::{IsNode, Node};
        use std::collections::HashMap as Map;
        let mut start: Vec<Node> = vec![];
        for (_, h) in self.h.iter() {
            match h {
                H::S(s) => start.push(s.impl_.node().clone()),
                H::SS(s) => start.push(s.stream().impl_.node().clone()),
                H::C(c) => { start.push(c.impl_.node().clone()); start.push(c.updates().impl_.node().clone()); }
                H::CS(c) => { start.push(c.cell().impl_.node().clone()); start.push(c.cell().updates().impl_.node().clone()); }
                H::SL(l) => start.push(l.stream().impl_.node().clone()),
                H::CL(l) => { start.push(l.cell().impl_.node().clone()); start.push(l.cell().updates().impl_.node().clone()); }
                H::L(l) => { if let Some(n) = l.impl_.node_op() { start.push(n); } }
                _ => {}
            }
        }
        self.ctx.impl_.with_data(|d: &mut SodiumCtxData| { for l in &d.keep_alive { if let Some(n) = l.node_op() { start.push(n); } } });
        // collect reachable nodes (up through dependencies, down through live dependents)
        let key = |n: &Node| std::sync::Arc::as_ptr(&n.data) as usize;
        let mut nodes: Map<usize, Node> = Map::new();
        let mut stack = start;
        while let Some(n) = stack.pop() {
            let k = key(&n);
            if nodes.contains_key(&k) { continue; }
            for d in n.data.dependencies.read().iter() { stack.push(d.node().clone()); }
            for d in n.data.dependents.read().iter() { if let Some(u) = d.upgrade() { stack.push(u.node().clone()); } }
            nodes.insert(k, n);
        }
        // adjacency: n in dependents(d) for every dependency d of n
        for (k, n) in nodes.iter() {
            for d in n.data.dependencies.read().iter() {
                let found = d.data().dependents.read().iter().any(|w| w.data().upgrade().map(|x| std::sync::Arc::as_ptr(&x) as usize == *k).unwrap_or(false));
                // a routed stream depends on its router without being registered there: the router queues it itself
                if !found && d.gc_node().v_name().to_string() != "Router" {
                    return format!("wf=BAD node {} ({}) is not registered as a dependent of its dependency {} ({})", n.gc_node.v_id(), n.gc_node.v_name(), d.gc_node().v_id(), d.gc_node().v_name());
                }
            }
        }
        // acyclicity: DFS with colours over the dependency relation
        let mut colour: Map<usize, u8> = Map::new();
        fn visit(k: usize, nodes: &Map<usize, Node>, colour: &mut Map<usize, u8>) -> Option<u32> {
            match colour.get(&k) { Some(1) => return Some(nodes[&k].gc_node.v_id()), Some(2) => return None, _ => {} }
            colour.insert(k, 1);
            let deps: Vec<usize> = nodes[&k].data.dependencies.read().iter().map(|d| std::sync::Arc::as_ptr(d.data()) as usize).collect();
            for d in deps { if nodes.contains_key(&d) { if let Some(x) = visit(d, nodes, colour) { return Some(x); } } }
            colour.insert(k, 2);
            None
        }
        let keys: Vec<usize> = nodes.keys().cloned().collect();
        for k in keys {
            if let Some(x) = visit(k, &nodes, &mut colour) {
                return format!("wf=BAD the node dependency graph has a cycle through node {x} ({})", nodes.values().find(|n| n.gc_node.v_id() == x).map(|n| n.gc_node.v_name().to_string()).unwrap_or_default());
            }
        }
        "wf=ok".into()
    }

    /// L-struct: dump of the live collector graph: every unfreed gc object ever created in this context, in creation
    /// order (its rank among the live ones is its name); per object: kind, count, reported edges (sorted ranks).
    fn graphdump(&self) -> String {
        use std::collections::HashMap as Map;
        let gc = self.ctx.impl_.gc_ctx();
        gc.v_registry_prune();
        let mut nodes = gc.v_registry();
        nodes.sort_by_key(|n| n.v_id());
        let rank: Map<u32, usize> = nodes.iter().enumerate().map(|(k, n)| (n.v_id(), k)).collect();
        let mut parts = vec![];
        for n in &nodes {
            let mut edges: Vec<String> = vec![];
            let mut es: Vec<usize> = vec![];
            n.trace(|t| match rank.get(&t.v_id()) { Some(r) => es.push(*r), None => edges.push("freed".into()) });
            es.sort();
            edges.extend(es.iter().map(|x| x.to_string()));
            parts.push(format!("{}:{}[{}]", n.v_name(), n.ref_count(), edges.join(",")));
        }
        format!("graph {}", parts.join(" "))
    }

    fn obs(&self) -> String {
        let (d, cn, pp, po, ac) = self.ctx.impl_.with_data(|d: &mut SodiumCtxData| (d.transaction_depth, d.changed_nodes.len(), d.pre_post.len(), d.post.len(), d.allow_collect_cycles_counter));
        if d > 0 { return format!("open {d}"); }
        let mut firing = 0;
        for (_, h) in self.h.iter() {
            let s = match h { H::S(s) => Some(s.clone()), H::SS(s) => Some(s.stream()), H::SL(l) => Some(l.stream()), H::C(c) => Some(c.updates()), H::CS(c) => Some(c.cell().updates()), _ => None };
            if let Some(s) = s { if s.impl_.with_firing_op(|f: &mut Option<i64>| f.is_some()) { firing += 1; } }
        }
        format!("idle cn={cn} pp={pp} po={po} ac={ac} firing={firing}")
    }
}

fn classify(m: &str) -> String {
    if m.contains("StreamLoop already looped") { "looped-twice".into() }
    else if m.contains("CellLoop sampled before looped") { "sample-before-loop".into() }
    else if m.contains("did not drop to zero") { "gc-not-zero".into() }
    else if m.contains("ref count adj was larger") { "gc-adj-gt-rc".into() }
    else if m.contains("inc_ref on freed") { "gc-inc-ref-freed".into() }
    else { format!("other {}", m.chars().take(80).collect::<String>().replace('\n', " ")) }
}

/// Runs one script (lines up to, not including, `---`). Isolated thread so that a deadlock
/// (observed outcome `hang`) can be detected by the caller with a timeout.
pub fn run_script(lines: Vec<Vec<String>>) -> Vec<String> {
    let n = lines.len();
    let mut out = vec![String::new(); n];
    let mut api = Api::new();
    api.exec_range(&lines, 0, n, &mut out);
    // leak the machine if it died in a panic inside a transaction (locks may be poisoned/held)
    if api.dead { std::mem::forget(api); }
    out
}

pub fn run_stdin() -> Result<(), String> {
    let budget_ms: u64 = std::env::var("API_SCRIPT_TIMEOUT_MS").ok().and_then(|s| s.parse().ok()).unwrap_or(5000);
    let stdin = std::io::stdin();
    let stdout = std::io::stdout();
    let mut out = std::io::BufWriter::new(stdout.lock());
    let mut cur: Vec<Vec<String>> = vec![];
    let mut hangs = 0u32;
    let mut flush = |cur: &mut Vec<Vec<String>>, sep: bool, out: &mut dyn Write| -> Result<(), String> {
        if !cur.is_empty() {
            let lines = std::mem::take(cur);
            let n = lines.len();
            let (tx, rx) = std::sync::mpsc::channel();
            std::thread::Builder::new().stack_size(256 << 20).spawn(move || { let r = run_script(lines); let _ = tx.send(r); }).map_err(|e| e.to_string())?;
            // a library that hangs on many scripts must not stall the whole run (every hung script leaves a thread behind):
            // after three hangs the budget drops to 1 s, after ten the remaining scripts are not run at all
            if hangs >= 10 {
                for _ in 0..n { writeln!(out, "SKIPPED").map_err(|e| e.to_string())?; }
                if sep { writeln!(out, "---").map_err(|e| e.to_string())?; }
                return Ok(());
            }
            let budget = if hangs >= 3 { budget_ms.min(1000) } else { budget_ms };
            match rx.recv_timeout(std::time::Duration::from_millis(budget)) {
                Ok(r) => { for l in r { writeln!(out, "{l}").map_err(|e| e.to_string())?; } }
                Err(_) => { hangs += 1; for _ in 0..n { writeln!(out, "HANG").map_err(|e| e.to_string())?; } }
            }
        }
        if sep { writeln!(out, "---").map_err(|e| e.to_string())?; }
        Ok(())
    };
    for line in stdin.lock().lines() {
        let line = line.map_err(|e| e.to_string())?;
        let ws: Vec<String> = line.split_whitespace().map(|s| s.to_string()).collect();
        if ws.len() == 1 && ws[0] == "---" { flush(&mut cur, true, &mut out)?; } else { cur.push(ws); }
    }
    flush(&mut cur, false, &mut out)?;
    out.flush().ok();
    Ok(())
}


/// `harness api2`: two independent contexts. Lines are `@0 <stmt>` / `@1 <stmt>` (no begin/end: use
/// topen/tclose). Default: one thread, lines executed in file order (an interleaving). With
/// API2_THREADS=1 the two contexts' lines run concurrently on two OS threads (each context on its own
/// thread, random yields), outputs are still reported in file order.
pub fn run_stdin2() -> Result<(), String> {
    let threads = std::env::var("API2_THREADS").is_ok();
    let stdin = std::io::stdin();
    let stdout = std::io::stdout();
    let mut out = std::io::BufWriter::new(stdout.lock());
    let mut cur: Vec<(usize, Vec<String>)> = vec![];
    let mut flush = |cur: &mut Vec<(usize, Vec<String>)>, sep: bool, out: &mut dyn Write| -> Result<(), String> {
        if !cur.is_empty() {
            let lines = std::mem::take(cur);
            let n = lines.len();
            let (tx, rx) = std::sync::mpsc::channel();
            std::thread::Builder::new().stack_size(256 << 20).spawn(move || {
                let mut outs = vec![String::new(); lines.len()];
                if !threads {
                    let mut m = [Api::new(), Api::new()];
                    for (j, (k, ws)) in lines.iter().enumerate() {
                        let w: Vec<&str> = ws.iter().map(|s| s.as_str()).collect();
                        let a = &mut m[*k];
                        outs[j] = if a.dead { "dead".into() } else {
                            match catch_unwind(AssertUnwindSafe(|| a.exec_line(&w))) {
                                Ok(o) => format!("{o}{}", a.drain_cb()),
                                Err(p) => { a.dead = true; format!("PANIC {}", classify(&crate::panic_message(&*p))) }
                            }
                        };
                    }
                } else {
                    let mut hs = vec![];
                    for k in 0..2usize {
                        let mine: Vec<(usize, Vec<String>)> = lines.iter().enumerate().filter(|(_, l)| l.0 == k).map(|(j, l)| (j, l.1.clone())).collect();
                        hs.push(std::thread::Builder::new().stack_size(64 << 20).spawn(move || {
                            let mut a = Api::new();
                            let mut res = vec![];
                            let mut x: u64 = 88172645463325252 ^ (k as u64 + 1);
                            for (j, ws) in mine {
                                x ^= x << 13; x ^= x >> 7; x ^= x << 17;
                                if x % 3 == 0 { std::thread::yield_now(); }
                                let w: Vec<&str> = ws.iter().map(|s| s.as_str()).collect();
                                let o = if a.dead { "dead".to_string() } else {
                                    match catch_unwind(AssertUnwindSafe(|| a.exec_line(&w))) {
                                        Ok(o) => format!("{o}{}", a.drain_cb()),
                                        Err(p) => { a.dead = true; format!("PANIC {}", classify(&crate::panic_message(&*p))) }
                                    }
                                };
                                res.push((j, o));
                            }
                            res
                        }).unwrap());
                    }
                    for h in hs { for (j, o) in h.join().unwrap_or_default() { outs[j] = o; } }
                }
                let _ = tx.send(outs);
            }).map_err(|e| e.to_string())?;
            match rx.recv_timeout(std::time::Duration::from_millis(20000)) {
                Ok(r) => { for l in r { writeln!(out, "{l}").map_err(|e| e.to_string())?; } }
                Err(_) => { for _ in 0..n { writeln!(out, "HANG").map_err(|e| e.to_string())?; } }
            }
        }
        if sep { writeln!(out, "---").map_err(|e| e.to_string())?; }
        Ok(())
    };
    for line in stdin.lock().lines() {
        let line = line.map_err(|e| e.to_string())?;
        let ws: Vec<String> = line.split_whitespace().map(|s| s.to_string()).collect();
        if ws.len() == 1 && ws[0] == "---" { flush(&mut cur, true, &mut out)?; continue; }
        let k = match ws.first().map(|s| s.as_str()) { Some("@0") => 0, Some("@1") => 1, _ => 0 };
        cur.push((k, ws[1.min(ws.len())..].to_vec()));
    }
    flush(&mut cur, false, &mut out)?;
    out.flush().ok();
    Ok(())
}
