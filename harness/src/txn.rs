//! L-txn: the real `SodiumCtx` transaction bookkeeping with recording closures.
use sodium_rust::verif::{IsNode, Node, NodeName, SodiumCtxData, SodiumCtxImpl};
use std::collections::HashMap;
use std::io::{BufRead, Write};
use std::sync::{Arc, Mutex};

#[derive(Clone)]
struct ActDef { q: char, body: Vec<usize> }

struct M {
    ctx: SodiumCtxImpl,
    defs: Arc<Mutex<HashMap<usize, ActDef>>>,
    log: Arc<Mutex<Vec<usize>>>,
    scoped: HashMap<String, sodium_rust::Transaction>,
    pub_ctx: sodium_rust::SodiumCtx,
    nodes: Vec<Node>,
}

fn push(ctx: &SodiumCtxImpl, defs: &Arc<Mutex<HashMap<usize, ActDef>>>, log: &Arc<Mutex<Vec<usize>>>, i: usize) {
    let d = defs.lock().unwrap().get(&i).cloned().unwrap();
    let (ctx2, defs2, log2) = (ctx.clone(), defs.clone(), log.clone());
    let body = d.body.clone();
    let k = move || {
        log2.lock().unwrap().push(i);
        if d.q == 'e' {
            // a set-up closure that queues further work while the transaction closes
            for &b in &body { push(&ctx2, &defs2, &log2, b); }
        } else if d.q == 'o' {
            // a post closure is an arbitrary nested transaction
            ctx2.enter_transaction();
            for &b in &body { push(&ctx2, &defs2, &log2, b); }
            ctx2.leave_transaction();
        }
    };
    match d.q { 'e' => ctx.pre_eot(k), 'p' => ctx.pre_post(k), _ => ctx.post(k) }
}

impl M {
    fn new() -> M {
        let pub_ctx = sodium_rust::SodiumCtx::new();
        M { ctx: pub_ctx.impl_.clone(), defs: Arc::new(Mutex::new(HashMap::new())), log: Arc::new(Mutex::new(vec![])), scoped: HashMap::new(), pub_ctx, nodes: vec![] }
    }
    fn observe(&self) -> String {
        let (d, e, p, o, a) = self.ctx.with_data(|d: &mut SodiumCtxData| (d.transaction_depth, d.pre_eot.len(), d.pre_post.len(), d.post.len(), d.allow_collect_cycles_counter));
        let log: Vec<String> = self.log.lock().unwrap().iter().map(|x| x.to_string()).collect();
        format!("d={d} e={e} p={p} o={o} a={a} log={}", log.join(","))
    }
}

pub fn run_stdin() -> Result<(), String> {
    let stdin = std::io::stdin();
    let stdout = std::io::stdout();
    let mut out = std::io::BufWriter::new(stdout.lock());
    let mut m = M::new();
    for line in stdin.lock().lines() {
        let line = line.map_err(|e| e.to_string())?;
        let ws: Vec<&str> = line.split_whitespace().collect();
        let o: String = match ws.as_slice() {
            ["---"] => { m = M::new(); "---".into() }
            ["def", i, q, body @ ..] => {
                let i = i.parse::<usize>(); let body: Option<Vec<usize>> = body.iter().map(|s| s.parse::<usize>().ok()).collect();
                match (i, body) {
                    (Ok(i), Some(body)) => {
                        let q = match *q { "e" => 'e', "p" => 'p', _ => 'o' };
                        let mut defs = m.defs.lock().unwrap();
                        if body.iter().all(|&b| b < i) && !defs.contains_key(&i) { defs.insert(i, ActDef { q, body }); "ok".into() } else { "skip".into() }
                    }
                    _ => "bad-op".into(),
                }
            }
            ["enter"] => { m.ctx.enter_transaction(); m.observe() }
            ["leave"] => {
                let d = m.ctx.with_data(|d: &mut SodiumCtxData| d.transaction_depth);
                if d == 0 { "skip".into() } else { m.ctx.leave_transaction(); m.observe() }
            }
            ["push", i] => match i.parse::<usize>() {
                Ok(i) => if m.defs.lock().unwrap().contains_key(&i) { push(&m.ctx, &m.defs, &m.log, i); m.observe() } else { "skip".into() },
                Err(_) => "bad-op".into(),
            },
            ["upd", is @ ..] => {
                // a node queued for the propagation of the open transaction; its update pushes the closures
                let is: Option<Vec<usize>> = is.iter().map(|s| s.parse::<usize>().ok()).collect();
                let d = m.ctx.with_data(|d: &mut SodiumCtxData| d.transaction_depth);
                match is {
                    Some(is) => {
                        if d == 0 || is.is_empty() || !is.iter().all(|i| m.defs.lock().unwrap().contains_key(i)) { "skip".into() } else {
                            let (ctx2, defs2, log2) = (m.ctx.clone(), m.defs.clone(), m.log.clone());
                            // (update_node runs a node's update only when one of its dependencies has changed)
                            let src = Node::new(&m.ctx, NodeName::Node(1), || {}, vec![]);
                            src.data.changed.store(true, std::sync::atomic::Ordering::SeqCst);
                            let src2 = src.clone();
                            let node = Node::new(&m.ctx, NodeName::Node(0), move || {
                                for &i in &is { push(&ctx2, &defs2, &log2, i); }
                                src2.data.changed.store(false, std::sync::atomic::Ordering::SeqCst);
                            }, vec![src.box_clone()]);
                            m.ctx.with_data(|d: &mut SodiumCtxData| d.changed_nodes.push(node.box_clone()));
                            m.nodes.push(node); m.nodes.push(src);
                            m.observe()
                        }
                    }
                    None => "bad-op".into(),
                }
            }
            ["topen", t] => if m.scoped.contains_key(*t) { "skip".into() } else { let tx = m.pub_ctx.new_transaction(); m.scoped.insert(t.to_string(), tx); m.observe() },
            ["tclose", t] => match m.scoped.get(*t) { Some(tx) => { tx.close(); m.observe() } None => "skip".into() },
            _ => "bad-op".into(),
        };
        writeln!(out, "{o}").map_err(|e| e.to_string())?;
    }
    Ok(())
}
