//! Correspondence harness: interprets the line protocols of /verif/lean (Model/*Script.lean)
//! against the real sodium-rust library, in-process, and prints one observation per line.
mod api;
mod conc;
mod gc;
mod lazy;
mod node;
mod txn;

fn main() {
    std::panic::set_hook(Box::new(|_| {}));
    let args: Vec<String> = std::env::args().collect();
    // run on a thread with a large stack: the library's walks are recursive
    let child = std::thread::Builder::new()
        .stack_size(1 << 30)
        .spawn(move || match mode_dispatch(&args) {
            Ok(()) => 0,
            Err(e) => {
                eprintln!("harness: {e}");
                2
            }
        })
        .unwrap();
    std::process::exit(child.join().unwrap_or(3));
}

fn mode_dispatch(args: &[String]) -> Result<(), String> {
    match args.get(1).map(|s| s.as_str()) {
        Some("gc") => gc::run_stdin(),
        Some("gc-enum") => gc::enumerate(&args[2..]),
        Some("node") => node::run_stdin(),
        Some("api") => api::run_stdin(),
        Some("txn") => txn::run_stdin(),
        Some("api2") => api::run_stdin2(),
        Some("conc") => conc::run_stdin(),
        Some("lazy") => lazy::run_stdin(),
        Some("gc-deep") => gc::deep(&args[2..]),
        Some("gcrace") => conc::gcrace(&args[2..]),
        _ => Err("usage: harness gc|gc-enum ...".into()),
    }
}

pub fn panic_message(p: &(dyn std::any::Any + Send)) -> String {
    if let Some(s) = p.downcast_ref::<String>() {
        s.clone()
    } else if let Some(s) = p.downcast_ref::<&str>() {
        s.to_string()
    } else {
        "unknown panic".into()
    }
}
