//! L-lazy: the real `Lazy` (src/impl_/lazy.rs) with counting thunks against the heap model
//! `Model/LazyHeap.lean`: handles are clones, a thunk may force the lazies it captured.
use sodium_rust::Lazy;
use std::io::{BufRead, Write};
use std::sync::atomic::{AtomicUsize, Ordering};
use std::sync::Arc;

struct M {
    runs: Vec<Arc<AtomicUsize>>,            // one counter per allocated memo cell, in allocation order
    handles: Vec<Option<(usize, Lazy<i64>)>>, // handle id -> (cell index, the clone held by that handle)
}

pub fn f1(fid: usize, x: i64) -> i64 {
    match fid % 4 { 0 => x.wrapping_add(1), 1 => x.wrapping_mul(2), 2 => x.wrapping_neg(), _ => x.wrapping_sub(7) }
}
pub fn f2(fid: usize, a: i64, b: i64) -> i64 {
    match fid % 3 { 0 => a.wrapping_add(b), 1 => a.wrapping_sub(b), _ => if a >= b { a } else { b } }
}

impl M {
    fn new() -> M { M { runs: vec![], handles: vec![] } }
    fn live(&self, h: &str) -> Option<(usize, Lazy<i64>)> {
        h.parse::<usize>().ok().and_then(|h| self.handles.get(h).cloned().flatten())
    }
    fn alloc(&mut self, cnt: Arc<AtomicUsize>, l: Lazy<i64>) -> String {
        self.runs.push(cnt);
        self.handles.push(Some((self.runs.len() - 1, l)));
        format!("h={}", self.handles.len() - 1)
    }
    fn runs(&self) -> String {
        self.runs.iter().map(|c| c.load(Ordering::SeqCst).to_string()).collect::<Vec<_>>().join(",")
    }
}

pub fn run_stdin() -> Result<(), String> {
    let stdin = std::io::stdin();
    let stdout = std::io::stdout();
    let mut out = std::io::BufWriter::new(stdout.lock());
    let mut m = M::new();
    for line in stdin.lock().lines() {
        let line = line.map_err(|e| e.to_string())?;
        let ws: Vec<&str> = line.split_whitespace().collect();
        let o: String = match ws.as_slice() {
            ["---"] => { m = M::new(); "---".into() }
            ["new", "c", v] => match v.parse::<i64>() {
                Ok(v) => {
                    let cnt = Arc::new(AtomicUsize::new(0)); let c2 = cnt.clone();
                    let l = Lazy::new(move || { c2.fetch_add(1, Ordering::SeqCst); v });
                    m.alloc(cnt, l)
                }
                Err(_) => "bad-op".into(),
            },
            // `Lazy::of_value`: no thunk at all, the counter of that cell stays 0
            ["new", "v", v] => match v.parse::<i64>() {
                Ok(v) => m.alloc(Arc::new(AtomicUsize::new(0)), Lazy::of_value(v)),
                Err(_) => "bad-op".into(),
            },
            ["new", "app", fid, h] => match (fid.parse::<usize>(), m.live(h)) {
                (Ok(fid), Some((_, src))) => {
                    let cnt = Arc::new(AtomicUsize::new(0)); let c2 = cnt.clone();
                    let l = Lazy::new(move || { c2.fetch_add(1, Ordering::SeqCst); f1(fid, src.run()) });
                    m.alloc(cnt, l)
                }
                _ => "bad-op".into(),
            },
            ["new", "app2", fid, h1, h2] => match (fid.parse::<usize>(), m.live(h1), m.live(h2)) {
                (Ok(fid), Some((_, a)), Some((_, b))) => {
                    let cnt = Arc::new(AtomicUsize::new(0)); let c2 = cnt.clone();
                    let l = Lazy::new(move || { c2.fetch_add(1, Ordering::SeqCst); let x = a.run(); let y = b.run(); f2(fid, x, y) });
                    m.alloc(cnt, l)
                }
                _ => "bad-op".into(),
            },
            ["clone", h] => match m.live(h) {
                Some((c, l)) => { m.handles.push(Some((c, l.clone()))); format!("h={}", m.handles.len() - 1) }
                None => "bad-op".into(),
            },
            ["force", h] => match m.live(h) {
                Some((_, l)) => { let v = l.run(); format!("v={} runs={}", v, m.runs()) }
                None => "bad-op".into(),
            },
            ["drop", h] => match h.parse::<usize>() {
                Ok(h) if h < m.handles.len() && m.handles[h].is_some() => { m.handles[h] = None; "ok".into() }
                _ => "bad-op".into(),
            },
            _ => "bad-op".into(),
        };
        writeln!(out, "{o}").map_err(|e| e.to_string())?;
    }
    Ok(())
}
