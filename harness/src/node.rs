//! L-node: raw `Node` graphs with recording update closures, driven through the real
//! `update_node` / `end_of_transaction`.
use sodium_rust::verif::{IsNode, IsNodeExt, Node, NodeName, SodiumCtxData, SodiumCtxImpl};
use std::io::{BufRead, Write};
use std::panic::{catch_unwind, AssertUnwindSafe};
use std::sync::atomic::{AtomicBool, Ordering};
use std::sync::{Arc, Mutex};

struct M {
    ctx: SodiumCtxImpl,
    nodes: Vec<Node>,
    deps: Arc<Mutex<Vec<Vec<usize>>>>,
    fired: Arc<Mutex<Vec<Arc<AtomicBool>>>>,
    log: Arc<Mutex<Vec<usize>>>,
}

impl M {
    fn new() -> M {
        M { ctx: SodiumCtxImpl::new(), nodes: vec![], deps: Arc::new(Mutex::new(vec![])), fired: Arc::new(Mutex::new(vec![])), log: Arc::new(Mutex::new(vec![])) }
    }

    fn add_node(&mut self, ds: &[usize]) {
        let i = self.nodes.len();
        let dep_nodes: Vec<Box<dyn IsNode + Send + Sync>> = ds.iter().map(|&d| self.nodes[d].box_clone()).collect();
        let node = Node::new(&self.ctx, NodeName::Node((i % 256) as u8), || {}, dep_nodes);
        self.deps.lock().unwrap().push(ds.to_vec());
        self.fired.lock().unwrap().push(Arc::new(AtomicBool::new(false)));
        let (log, deps, fired) = (self.log.clone(), self.deps.clone(), self.fired.clone());
        let me = Node::downgrade2(&node);
        *node.data.update.write() = Box::new(move || {
            log.lock().unwrap().push(i);
            let ds = deps.lock().unwrap()[i].clone();
            let f = fired.lock().unwrap();
            if ds.iter().any(|&d| f[d].load(Ordering::SeqCst)) {
                f[i].store(true, Ordering::SeqCst);
                if let Some(me) = me.upgrade2() {
                    me.data.changed.store(true, Ordering::SeqCst);
                }
            }
        });
        self.nodes.push(node);
    }

    fn txn(&mut self, fs: &[usize]) -> String {
        self.log.lock().unwrap().clear();
        let ctx = self.ctx.clone();
        let observed: Arc<Mutex<String>> = Arc::new(Mutex::new(String::new()));
        ctx.enter_transaction();
        for &s in fs {
            self.fired.lock().unwrap()[s].store(true, Ordering::SeqCst);
            self.nodes[s].data.changed.store(true, Ordering::SeqCst);
            let n = self.nodes[s].box_clone();
            ctx.with_data(|d: &mut SodiumCtxData| d.changed_nodes.push(n));
        }
        // observe from a post closure: after propagation and the pre_post resets, before the flags are cleared by us
        ctx.leave_transaction();
        let n = self.nodes.len();
        let log: Vec<String> = self.log.lock().unwrap().iter().map(|x| x.to_string()).collect();
        let f = self.fired.lock().unwrap();
        let fired: Vec<String> = (0..n).filter(|&i| f[i].load(Ordering::SeqCst)).map(|i| i.to_string()).collect();
        let vis: Vec<String> = (0..n).filter(|&i| self.nodes[i].data.visited.load(Ordering::SeqCst)).map(|i| i.to_string()).collect();
        let q = ctx.with_data(|d: &mut SodiumCtxData| d.changed_nodes.len());
        let out = format!("log={} fired={} visited={} q={}", log.join(","), fired.join(","), vis.join(","), q);
        let _ = observed;
        // clear firings / changed (what the streams' own pre_post closures do)
        for i in 0..n {
            f[i].store(false, Ordering::SeqCst);
            self.nodes[i].data.changed.store(false, Ordering::SeqCst);
        }
        out
    }

    /// implementation-only ground truth for C03 on the last transaction
    fn truth(&self, fs: &[usize], out: &str) -> Result<(), String> {
        let n = self.nodes.len();
        let deps = self.deps.lock().unwrap();
        let log: Vec<usize> = out.split(' ').next().unwrap_or("").trim_start_matches("log=").split(',').filter(|s| !s.is_empty()).map(|s| s.parse().unwrap()).collect();
        let fired: Vec<usize> = out.split(' ').nth(1).unwrap_or("").trim_start_matches("fired=").split(',').filter(|s| !s.is_empty()).map(|s| s.parse().unwrap()).collect();
        let mut aff = vec![false; n];
        for &s in fs { aff[s] = true; }
        for i in 0..n { if deps[i].iter().any(|&d| aff[d]) { aff[i] = true; } } // ids are topologically ordered
        let mut pos = vec![None; n];
        for (k, &i) in log.iter().enumerate() {
            if pos[i].is_some() { return Err(format!("update of node {i} ran twice")); }
            pos[i] = Some(k);
        }
        for i in 0..n {
            let derived = !deps[i].is_empty() && deps[i].iter().any(|&d| aff[d]);
            if derived {
                let Some(pi) = pos[i] else { return Err(format!("node {i} has a changed dependency but was never updated")) };
                for &d in deps[i].iter() {
                    let d_derived = !deps[d].is_empty() && deps[d].iter().any(|&x| aff[x]);
                    if d_derived {
                        match pos[d] { Some(pd) if pd < pi => {}, _ => return Err(format!("node {i} was updated before its changed dependency {d} had settled")) }
                    }
                }
                if !fired.contains(&i) { return Err(format!("node {i} did not see the change of its dependencies")); }
            } else if pos[i].is_some() && !deps[i].iter().any(|&d| aff[d]) {
                return Err(format!("node {i} was updated although no dependency changed"));
            }
        }
        Ok(())
    }
}

pub fn run_stdin() -> Result<(), String> {
    let truth = std::env::var("NODE_TRUTH").is_ok();
    let stdin = std::io::stdin();
    let stdout = std::io::stdout();
    let mut out = std::io::BufWriter::new(stdout.lock());
    let mut m = M::new();
    for line in stdin.lock().lines() {
        let line = line.map_err(|e| e.to_string())?;
        let ws: Vec<&str> = line.split_whitespace().collect();
        let nums = |xs: &[&str]| -> Option<Vec<usize>> { xs.iter().map(|s| s.parse::<usize>().ok()).collect() };
        let o: String = match ws.as_slice() {
            ["---"] => { m = M::new(); "---".into() }
            ["variant", _] => "ok".into(),
            ["node", ds @ ..] => match nums(ds) {
                Some(ds) => if ds.iter().all(|&d| d < m.nodes.len()) { let i = m.nodes.len(); m.add_node(&ds); format!("n{i}") } else { "skip".into() },
                None => "bad-op".into(),
            },
            ["adddep", a, b] => match (a.parse::<usize>(), b.parse::<usize>()) {
                (Ok(a), Ok(b)) => if a < m.nodes.len() && b < a { m.nodes[a].add_dependency(m.nodes[b].clone()); m.deps.lock().unwrap()[a].push(b); "ok".into() } else { "skip".into() },
                _ => "bad-op".into(),
            },
            ["rmdep", a, b] => match (a.parse::<usize>(), b.parse::<usize>()) {
                (Ok(a), Ok(b)) => if a < m.nodes.len() && b < m.nodes.len() { let nb = m.nodes[b].clone(); m.nodes[a].remove_dependency(&nb); m.deps.lock().unwrap()[a].retain(|&x| x != b); "ok".into() } else { "skip".into() },
                _ => "bad-op".into(),
            },
            ["txn", fs @ ..] => match nums(fs) {
                Some(fs) => if fs.iter().all(|&f| f < m.nodes.len()) {
                    let r = catch_unwind(AssertUnwindSafe(|| m.txn(&fs)));
                    match r {
                        Ok(o) => { if truth { match m.truth(&fs, &o) { Ok(()) => o, Err(e) => format!("{o}\tTRUTH-FAIL {e}") } } else { o } }
                        Err(p) => format!("PANIC {}", crate::panic_message(&*p)),
                    }
                } else { "skip".into() },
                None => "bad-op".into(),
            },
            _ => "bad-op".into(),
        };
        writeln!(out, "{o}").map_err(|e| e.to_string())?;
    }
    Ok(())
}
