/-
  Bridge between M_sched (`Model/Sched.lean`) and S (`Spec/Denot.lean`).

  A program `sp` of S is turned into a scheduler instance:
    * graph    `specGraph sp`  : `deps i = operands sp i`, `dependents d = [i < size | d ∈ operands sp i]`;
    * update   `specF sp ev i` : definition `i`'s firing equation applied to the value slots of its operands;
    * state    `specState sp`  : one node per definition, nothing visited, no values, empty queue.
  This file proves what the scheduler theorems need about that instance (`specWF`, `specInit`), the two
  facts about the firing equations that make "run the update iff some dependency changed" agree with S
  (`fireOf_congr_operands`: the equation of `i` reads only `operands sp i`; `fireOf_quiet_silent`: it yields
  "does not fire" when no operand fires), and that S's firing table, read as a scheduler state
  (`tableState`), is a fixed point of `specF` (`tableState_fixedPoint`) with the fired source slots
  (`tableState_sources`).  The refinement theorem itself is in `Props/Refine.lean`.
-/
import SodiumVerif.Lemmas.SchedInv
import SodiumVerif.Lemmas.SpecFire

namespace SodiumVerif
namespace Bridge

open Spec Sched

/-! ### the fragment -/

/-- leaves whose firing is injected from outside the transaction (`fireOf = some (ev.get i)`) -/
def isInput : Def → Bool
  | .sink _ | .csink _ | .defer _ | .split .. => true
  | _ => false

/-- the static stream fragment: the firing depends on the firings of the operands and on
    start-of-transaction values only, and the dependency structure does not depend on any cell value -/
def isStatic : Def → Bool
  | .sink _ | .csink _ | .const _ | .never | .defer _ | .split .. => true
  | .map .. | .mapto .. | .filter .. | .merge .. | .orelse .. | .when .. => true
  | .snapshot .. | .snapshot1 .. | .snapshotn .. | .gate .. => true
  | .hold .. | .updates _ | .once _ | .route .. | .sloop => true
  | _ => false

/-- every definition of the program is in the static fragment -/
def Static (sp : Spec) : Prop := ∀ i, i < sp.defs.size → isStatic (sp.getDef i) = true

/-- definition `i` is *quiet*: its equation cannot fire unless one of its operands fires.  The only
    equation of S that is not quiet is that of a `value` stream in the transaction that created it
    (it fires with the cell's current value). -/
def quietAt (sp : Spec) (i : Nat) : Bool :=
  match sp.getDef i with
  | .value _ => sp.created.getD i 0 != sp.txn
  | _ => true

/-- every definition is quiet (the fragment for which the refinement theorem is proved) -/
def Quiet (sp : Spec) : Prop := ∀ i, i < sp.defs.size → quietAt sp i = true

theorem Static.quiet {sp : Spec} (h : Static sp) : Quiet sp := by
  intro i hi
  have := h i hi
  unfold quietAt
  cases hd : sp.getDef i <;> simp_all [isStatic]

instance (sp : Spec) : Decidable (Static sp) := by unfold Static; infer_instance
instance (sp : Spec) : Decidable (Quiet sp) := by unfold Quiet; infer_instance

/-- the events of a transaction: distinct keys, each an input leaf -/
structure EvOK (sp : Spec) (ev : Events) : Prop where
  nodup : (ev.map (·.1)).Nodup
  input : ∀ p ∈ ev, isInput (sp.getDef p.1) = true

/-! ### small facts about `getDef`, `operands`, `Events.get` -/

theorem getDef_ge (sp : Spec) (i : Nat) (h : sp.defs.size ≤ i) : sp.getDef i = .never := by
  unfold Spec.getDef
  simp [Array.getD, Nat.not_lt.mpr h]

theorem operands_ge (sp : Spec) (i : Nat) (h : sp.defs.size ≤ i) : operands sp i = [] := by
  simp only [operands, getDef_ge sp i h]

theorem lt_of_operands_ne_nil {sp : Spec} {i : Nat} (h : operands sp i ≠ []) : i < sp.defs.size :=
  Nat.lt_of_not_le fun hge => h (operands_ge sp i hge)

theorem lt_of_isInput {sp : Spec} {i : Nat} (h : isInput (sp.getDef i) = true) : i < sp.defs.size := by
  apply Nat.lt_of_not_le
  intro hge
  rw [getDef_ge sp i hge] at h
  cases h

theorem operands_of_isInput {sp : Spec} {i : Nat} (h : isInput (sp.getDef i) = true) : operands sp i = [] := by
  cases hd : sp.getDef i <;> simp_all [isInput, operands]

theorem evGet_mem {ev : Events} {i : Nat} {v : Int} (h : ev.get i = some v) : (i, v) ∈ ev := by
  unfold Events.get at h
  cases hf : ev.find? (·.1 == i) with
  | none => simp [hf] at h
  | some p =>
    rw [hf] at h
    have h1 := List.mem_of_find?_eq_some hf
    have h2 := List.find?_some hf
    simp only [Option.map_some, Option.some.injEq] at h
    have : p = (i, v) := by
      cases p with
      | mk a b => simp_all
    rw [← this]; exact h1

theorem evGet_none_of_not_mem {ev : Events} {i : Nat} (h : i ∉ ev.map (·.1)) : ev.get i = none := by
  cases hg : ev.get i with
  | none => rfl
  | some v => exact absurd (List.mem_map.mpr ⟨(i, v), evGet_mem hg, rfl⟩) h

theorem evGet_cons (p : Nat × Int) (t : Events) (i : Nat) :
    Events.get (p :: t) i = if p.1 = i then some p.2 else Events.get t i := by
  unfold Events.get
  rw [List.find?_cons]
  by_cases h : p.1 = i
  · simp [h]
  · have hb : (p.1 == i) = false := by simpa using h
    simp [h, hb]

/-- an event can only be injected at an input leaf -/
theorem EvOK.isInput_of_get {sp : Spec} {ev : Events} (h : EvOK sp ev) {i : Nat} (hg : ev.get i ≠ none) :
    isInput (sp.getDef i) = true := by
  cases hv : ev.get i with
  | none => exact absurd hv hg
  | some v => exact h.input (i, v) (evGet_mem hv)

/-! ### the firing equation of `i` reads `look` only at `operands sp i` -/

theorem mapM_congr_mem {look look' : Nat → Option (Option Int)} :
    ∀ (cs : List Nat), (∀ c ∈ cs, look c = look' c) → cs.mapM look = cs.mapM look' := by
  intro cs
  induction cs with
  | nil => intro _; rfl
  | cons c cs ih =>
    intro h
    rw [List.mapM_cons, List.mapM_cons, h c List.mem_cons_self,
      ih (fun c' hc' => h c' (List.mem_cons_of_mem _ hc'))]

theorem fireOf_congr_operands (sp : Spec) (ev : Events) {look look' : Nat → Option (Option Int)} (i : Nat)
    (h : ∀ j ∈ operands sp i, look j = look' j) : fireOf sp ev look i = fireOf sp ev look' i := by
  cases hd : sp.getDef i with
  | sink c => rw [fireOf_sink _ _ _ _ hd, fireOf_sink _ _ _ _ hd]
  | csink k => rw [fireOf_csink _ _ _ _ hd, fireOf_csink _ _ _ _ hd]
  | defer s => rw [fireOf_defer _ _ _ _ hd, fireOf_defer _ _ _ _ hd]
  | split s n => rw [fireOf_split _ _ _ _ hd, fireOf_split _ _ _ _ hd]
  | const k => rw [fireOf_const _ _ _ _ hd, fireOf_const _ _ _ _ hd]
  | never => rw [fireOf_never _ _ _ _ hd, fireOf_never _ _ _ _ hd]
  | map s k =>
    rw [fireOf_map _ _ _ _ hd, fireOf_map _ _ _ _ hd, h s (by simp [operands, hd])]
  | mapto s k =>
    rw [fireOf_mapto _ _ _ _ hd, fireOf_mapto _ _ _ _ hd, h s (by simp [operands, hd])]
  | filter s k =>
    rw [fireOf_filter _ _ _ _ hd, fireOf_filter _ _ _ _ hd, h s (by simp [operands, hd])]
  | merge a b op =>
    rw [fireOf_merge _ _ _ _ hd, fireOf_merge _ _ _ _ hd, h a (by simp [operands, hd]),
      h b (by simp [operands, hd])]
  | orelse a b =>
    rw [fireOf_orelse _ _ _ _ hd, fireOf_orelse _ _ _ _ hd, h a (by simp [operands, hd]),
      h b (by simp [operands, hd])]
  | snapshot s c op =>
    rw [fireOf_snapshot _ _ _ _ hd, fireOf_snapshot _ _ _ _ hd, h s (by simp [operands, hd])]
  | snapshot1 s c =>
    rw [fireOf_snapshot1 _ _ _ _ hd, fireOf_snapshot1 _ _ _ _ hd, h s (by simp [operands, hd])]
  | snapshotn s cs =>
    rw [fireOf_snapshotn _ _ _ _ hd, fireOf_snapshotn _ _ _ _ hd, h s (by simp [operands, hd])]
  | gate s c =>
    rw [fireOf_gate _ _ _ _ hd, fireOf_gate _ _ _ _ hd, h s (by simp [operands, hd])]
  | hold s k =>
    rw [fireOf_hold _ _ _ _ hd, fireOf_hold _ _ _ _ hd, h s (by simp [operands, hd])]
  | holdz s c =>
    rw [fireOf_holdz _ _ _ _ hd, fireOf_holdz _ _ _ _ hd, h s (by simp [operands, hd])]
  | once s =>
    rw [fireOf_once _ _ _ _ hd, fireOf_once _ _ _ _ hd, h s (by simp [operands, hd])]
  | updates c =>
    rw [fireOf_updates _ _ _ _ hd, fireOf_updates _ _ _ _ hd, h c (by simp [operands, hd])]
  | value c =>
    rw [fireOf_value _ _ _ _ hd, fireOf_value _ _ _ _ hd, h c (by simp [operands, hd])]
  | mapc c k =>
    rw [fireOf_mapc _ _ _ _ hd, fireOf_mapc _ _ _ _ hd, h c (by simp [operands, hd])]
  | lift2 a b op =>
    rw [fireOf_lift2 _ _ _ _ hd, fireOf_lift2 _ _ _ _ hd, h a (by simp [operands, hd]),
      h b (by simp [operands, hd])]
  | liftn cs =>
    rw [fireOf_liftn _ _ _ _ hd, fireOf_liftn _ _ _ _ hd,
      mapM_congr_mem cs (fun c hc => h c (by simpa [operands, hd] using hc))]
  | accum s k op =>
    rw [fireOf_accum _ _ _ _ hd, fireOf_accum _ _ _ _ hd, h s (by simp [operands, hd])]
  | collect s k op =>
    rw [fireOf_collect _ _ _ _ hd, fireOf_collect _ _ _ _ hd, h s (by simp [operands, hd])]
  | switchs sel cands =>
    rw [fireOf_switchs _ _ _ _ hd, fireOf_switchs _ _ _ _ hd]
    split
    · rename_i k hk
      exact h _ (by simp [operands, hd, hk])
    · rfl
  | switchc sel cands =>
    have hsel := h sel (by simp only [operands, hd]; split <;> simp)
    have hc : ∀ k : Int, look (cands.getD (k % cands.length).toNat 0) =
        look' (cands.getD (k % cands.length).toNat 0) := by
      intro k
      apply h
      simp only [operands, hd]
      split
      · rename_i he; subst he; simp
      · rename_i hne; exact List.mem_cons_of_mem _ (getD_emod_mem cands k hne)
    rw [fireOf_switchc _ _ _ _ hd, fireOf_switchc _ _ _ _ hd, hsel]
    cases look' sel with
    | none => rfl
    | some sf =>
      cases sf with
      | some k => simp only [Option.bind_eq_bind, Option.bind_some, hc]
      | none => simp only [Option.bind_eq_bind, Option.bind_some, hc]
  | sloop =>
    rw [fireOf_sloop _ _ _ _ hd, fireOf_sloop _ _ _ _ hd]
    split
    · rename_i t ht
      exact h _ (by simp [operands, hd, ht])
    · rfl
  | cloop =>
    rw [fireOf_cloop _ _ _ _ hd, fireOf_cloop _ _ _ _ hd]
    split
    · rename_i t ht
      exact h _ (by simp [operands, hd, ht])
    · rfl
  | route src sel k =>
    rw [fireOf_route _ _ _ _ hd, fireOf_route _ _ _ _ hd, h src (by simp [operands, hd])]
  | «when» a b =>
    rw [fireOf_when _ _ _ _ hd, fireOf_when _ _ _ _ hd, h a (by simp [operands, hd]),
      h b (by simp [operands, hd])]

/-! ### a quiet equation does not fire when none of its operands fires -/

theorem mapM_silent {look : Nat → Option (Option Int)} :
    ∀ (cs : List Nat), (∀ c ∈ cs, look c = some none) → cs.mapM look = some (List.replicate cs.length none) := by
  intro cs
  induction cs with
  | nil => intro _; rfl
  | cons c cs ih =>
    intro h
    rw [List.mapM_cons, h c List.mem_cons_self, ih (fun c' hc' => h c' (List.mem_cons_of_mem _ hc'))]
    rfl

theorem fireOf_quiet_silent (sp : Spec) (ev : Events) {look : Nat → Option (Option Int)} (i : Nat)
    (hq : quietAt sp i = true) (hne : operands sp i ≠ [])
    (h : ∀ j ∈ operands sp i, look j = some none) : fireOf sp ev look i = some none := by
  cases hd : sp.getDef i with
  | sink c => exact absurd (by simp [operands, hd]) hne
  | csink k => exact absurd (by simp [operands, hd]) hne
  | defer s => exact absurd (by simp [operands, hd]) hne
  | split s n => exact absurd (by simp [operands, hd]) hne
  | const k => exact fireOf_const _ _ _ _ hd
  | never => exact fireOf_never _ _ _ _ hd
  | map s k => rw [fireOf_map _ _ _ _ hd, h s (by simp [operands, hd])]; rfl
  | mapto s k => rw [fireOf_mapto _ _ _ _ hd, h s (by simp [operands, hd])]; rfl
  | filter s k => rw [fireOf_filter _ _ _ _ hd, h s (by simp [operands, hd])]; rfl
  | merge a b op =>
    rw [fireOf_merge _ _ _ _ hd, h a (by simp [operands, hd]), h b (by simp [operands, hd])]; rfl
  | orelse a b =>
    rw [fireOf_orelse _ _ _ _ hd, h a (by simp [operands, hd]), h b (by simp [operands, hd])]; rfl
  | snapshot s c op => rw [fireOf_snapshot _ _ _ _ hd, h s (by simp [operands, hd])]; rfl
  | snapshot1 s c => rw [fireOf_snapshot1 _ _ _ _ hd, h s (by simp [operands, hd])]; rfl
  | snapshotn s cs => rw [fireOf_snapshotn _ _ _ _ hd, h s (by simp [operands, hd])]; rfl
  | gate s c => rw [fireOf_gate _ _ _ _ hd, h s (by simp [operands, hd])]; rfl
  | hold s k => rw [fireOf_hold _ _ _ _ hd, h s (by simp [operands, hd])]
  | holdz s c => rw [fireOf_holdz _ _ _ _ hd, h s (by simp [operands, hd])]
  | once s =>
    rw [fireOf_once _ _ _ _ hd, h s (by simp [operands, hd])]
    split <;> rfl
  | updates c => rw [fireOf_updates _ _ _ _ hd, h c (by simp [operands, hd])]
  | value c =>
    have hq' : (sp.created.getD i 0 == sp.txn) = false := by
      simpa [quietAt, hd, bne] using hq
    rw [fireOf_value _ _ _ _ hd, h c (by simp [operands, hd]), hq']
    rfl
  | mapc c k => rw [fireOf_mapc _ _ _ _ hd, h c (by simp [operands, hd])]; rfl
  | lift2 a b op =>
    rw [fireOf_lift2 _ _ _ _ hd, h a (by simp [operands, hd]), h b (by simp [operands, hd])]; rfl
  | liftn cs =>
    rw [fireOf_liftn _ _ _ _ hd, mapM_silent cs (fun c hc => h c (by simpa [operands, hd] using hc))]
    simp
  | accum s k op => rw [fireOf_accum _ _ _ _ hd, h s (by simp [operands, hd])]; rfl
  | collect s k op => rw [fireOf_collect _ _ _ _ hd, h s (by simp [operands, hd])]; rfl
  | switchs sel cands =>
    rw [fireOf_switchs _ _ _ _ hd]
    split
    · rename_i k hk
      exact h _ (by simp [operands, hd, hk])
    · rfl
  | switchc sel cands =>
    have hsel := h sel (by simp only [operands, hd]; split <;> simp)
    have hc : ∀ k : Int, look (cands.getD (k % cands.length).toNat 0) = some none := by
      intro k
      apply h
      simp only [operands, hd]
      split
      · rename_i he; subst he; simp
      · rename_i hne; exact List.mem_cons_of_mem _ (getD_emod_mem cands k hne)
    rw [fireOf_switchc _ _ _ _ hd, hsel]
    simp only [Option.bind_eq_bind, Option.bind_some]
    split
    · exact hc _
    · rfl
  | sloop =>
    rw [fireOf_sloop _ _ _ _ hd]
    split
    · rename_i t ht
      exact h _ (by simp [operands, hd, ht])
    · rfl
  | cloop =>
    rw [fireOf_cloop _ _ _ _ hd]
    split
    · rename_i t ht
      exact h _ (by simp [operands, hd, ht])
    · rfl
  | route src sel k => rw [fireOf_route _ _ _ _ hd, h src (by simp [operands, hd])]; rfl
  | «when» a b =>
    rw [fireOf_when _ _ _ _ hd, h a (by simp [operands, hd]), h b (by simp [operands, hd])]; rfl

theorem fireOf_static_silent (sp : Spec) (ev : Events) {look : Nat → Option (Option Int)} (i : Nat)
    (hs : Static sp) (hne : operands sp i ≠ [])
    (h : ∀ j ∈ operands sp i, look j = some none) : fireOf sp ev look i = some none :=
  fireOf_quiet_silent sp ev i (hs.quiet i (lt_of_operands_ne_nil hne)) hne h

/-! ### the equation of a leaf is "the injected event" -/

theorem fireOf_leaf (sp : Spec) (ev : Events) (look : Nat → Option (Option Int)) (i : Nat)
    (hop : operands sp i = []) (hev : ev.get i ≠ none → isInput (sp.getDef i) = true) :
    fireOf sp ev look i = some (ev.get i) := by
  have hno : isInput (sp.getDef i) = false → ev.get i = none := by
    intro hf
    cases hg : ev.get i with
    | none => rfl
    | some v => rw [hev (by rw [hg]; simp)] at hf; cases hf
  cases hd : sp.getDef i with
  | sink c => exact fireOf_sink _ _ _ _ hd
  | csink k => exact fireOf_csink _ _ _ _ hd
  | defer s => exact fireOf_defer _ _ _ _ hd
  | split s n => exact fireOf_split _ _ _ _ hd
  | const k => rw [fireOf_const _ _ _ _ hd, hno (by rw [hd]; rfl)]
  | never => rw [fireOf_never _ _ _ _ hd, hno (by rw [hd]; rfl)]
  | liftn cs =>
    have hcs : cs = [] := by simpa [operands, hd] using hop
    subst hcs
    rw [fireOf_liftn _ _ _ _ hd, hno (by rw [hd]; rfl)]; rfl
  | switchs sel cands =>
    rw [fireOf_switchs _ _ _ _ hd, hno (by rw [hd]; rfl)]
    split
    · rename_i k hk
      simp [operands, hd, hk] at hop
    · rfl
  | sloop =>
    rw [fireOf_sloop _ _ _ _ hd, hno (by rw [hd]; rfl)]
    split
    · rename_i t ht
      simp [operands, hd, ht] at hop
    · rfl
  | cloop =>
    rw [fireOf_cloop _ _ _ _ hd, hno (by rw [hd]; rfl)]
    split
    · rename_i t ht
      simp [operands, hd, ht] at hop
    · rfl
  | switchc sel cands =>
    simp only [operands, hd] at hop
    split at hop <;> cases hop
  | _ => simp [operands, hd] at hop

/-! ### the scheduler instance of a program -/

/-- a store holding `f 0, …, f (n-1)` -/
def tabulate {α : Type} (n : Nat) (f : Nat → α) : Store α := ⟨((List.range n).map f).toArray⟩

theorem tabulate_get {α : Type} [Inhabited α] (n : Nat) (f : Nat → α) (i : Nat) :
    (tabulate n f).get i = if i < n then f i else default := by
  unfold tabulate Store.get
  by_cases h : i < n
  · simp [h]
  · simp [h]

/-- the scheduler node of definition `i`: upstream = the operands of its equation, downstream = the
    definitions that have `i` as an operand -/
def specNode (sp : Spec) (i : Nat) : SNode Int :=
  { deps := operands sp i
    dependents := (List.range sp.defs.size).filter fun k => decide (i ∈ operands sp k) }

/-- the scheduler state at the start of a transaction: one node per definition, nothing visited, no
    value, empty queue -/
def specState (sp : Spec) : St Int :=
  { nodes := tabulate sp.defs.size (specNode sp), n := sp.defs.size }

/-- the dependency graph of the program -/
def specGraph (sp : Spec) : G := graphOf (specState sp)

/-- the update closure of definition `i`: its firing equation applied to the current value slots of
    the nodes it reads (`none` = that node did not fire) -/
def specF (sp : Spec) (ev : Events) : Nat → (Nat → Option Int) → Option Int :=
  fun i vals => (fireOf sp ev (fun j => some (vals j)) i).getD none

theorem specState_get (sp : Spec) (i : Nat) :
    (specState sp).nodes.get i = if i < sp.defs.size then specNode sp i else {} :=
  tabulate_get _ _ _

theorem specGraph_deps (sp : Spec) (i : Nat) : (specGraph sp).deps i = operands sp i := by
  show ((specState sp).nodes.get i).deps = _
  rw [specState_get]
  split
  · rfl
  · rename_i h; rw [operands_ge sp i (Nat.le_of_not_lt h)]

theorem mem_specGraph_dependents (sp : Spec) (d i : Nat) :
    i ∈ (specGraph sp).dependents d ↔ d < sp.defs.size ∧ i < sp.defs.size ∧ d ∈ operands sp i := by
  show i ∈ ((specState sp).nodes.get d).dependents ↔ _
  rw [specState_get]
  split
  · rename_i h
    simp [specNode, h]
  · rename_i h
    simp [h]

/-- the rank, cut off outside the program (where `WellRanked` says nothing) -/
def specRank (sp : Spec) (rank : Nat → Nat) (i : Nat) : Nat := if i < sp.defs.size then rank i else 0

theorem specF_loc (sp : Spec) (ev : Events) (i : Nat) (v v' : Nat → Option Int)
    (h : ∀ d ∈ (specGraph sp).deps i, v d = v' d) : specF sp ev i v = specF sp ev i v' := by
  unfold specF
  rw [fireOf_congr_operands sp ev i (fun j hj => by rw [h j (by rw [specGraph_deps]; exact hj)])]

/-- a well-ranked program gives a well-formed scheduler instance -/
theorem specWF {sp : Spec} {rank : Nat → Nat} (wr : WellRanked sp rank) (ev : Events) :
    WF (specGraph sp) (specF sp ev) (specRank sp rank) (specState sp).n ((specState sp).n + 2) := by
  refine ⟨?_, ?_, ?_, specF_loc sp ev, ?_⟩
  · intro i d h
    rw [specGraph_deps] at h
    have hi : i < sp.defs.size := lt_of_operands_ne_nil (by intro e; rw [e] at h; cases h)
    have := wr.dec i hi d h
    simp only [specRank, hi, this.1, if_true]
    exact this.2
  · intro i
    show specRank sp rank i < sp.defs.size + 2
    unfold specRank
    split
    · rename_i hi; have := wr.bound i hi; omega
    · omega
  · intro i d h
    rw [specGraph_deps] at h
    have hi : i < sp.defs.size := lt_of_operands_ne_nil (by intro e; rw [e] at h; cases h)
    exact (mem_specGraph_dependents sp d i).mpr ⟨(wr.dec i hi d h).1, hi, h⟩
  · intro d i h
    exact ((mem_specGraph_dependents sp d i).mp h).2.1

theorem specInit (sp : Spec) : Init (specGraph sp) (specState sp).n (specState sp) := by
  refine ⟨hasGraph_graphOf _, ?_, ?_, ?_, ?_, rfl, rfl⟩
  · intro j; rw [specState_get]; split <;> rfl
  · intro j _; rw [specState_get]; split <;> exact ⟨rfl, rfl⟩
  · intro j h; rw [specState_get] at h; split at h <;> cases h
  · intro a h; cases h

theorem specSrcs {sp : Spec} {ev : Events} (hev : EvOK sp ev) :
    ∀ p ∈ ev, (specGraph sp).deps p.1 = [] ∧ p.1 < (specState sp).n := by
  intro p hp
  have := hev.input p hp
  exact ⟨by rw [specGraph_deps]; exact operands_of_isInput this, lt_of_isInput this⟩

/-! ### the slots written by `fireSources` -/

theorem fireSources_slots : ∀ (ev : Events) (s : St Int), (ev.map (·.1)).Nodup → ∀ j,
    ((fireSources ev s).nodes.get j).val = (match ev.get j with | some v => some v | none => (s.nodes.get j).val) ∧
    ((fireSources ev s).nodes.get j).changed =
      (match ev.get j with | some _ => true | none => (s.nodes.get j).changed) := by
  intro ev
  induction ev with
  | nil => intro s _ j; exact ⟨rfl, rfl⟩
  | cons p t ih =>
    intro s hnd j
    rw [List.map_cons, List.nodup_cons] at hnd
    have := ih { (s.upd p.1 fun nd => { nd with changed := true, val := some p.2 }) with
      queue := s.queue ++ [p.1] } hnd.2 j
    show ((fireSources t _).nodes.get j).val = _ ∧ ((fireSources t _).nodes.get j).changed = _
    rw [this.1, this.2, evGet_cons]
    by_cases h : p.1 = j
    · subst h
      rw [evGet_none_of_not_mem hnd.1]
      simp
    · have h' : j ≠ p.1 := fun e => h e.symm
      simp [h, h']

/-- in `specState` the fired source slots are exactly the injected events -/
theorem specState_fired {sp : Spec} {ev : Events} (hev : EvOK sp ev) (j : Nat) :
    ((fireSources ev (specState sp)).nodes.get j).val = ev.get j ∧
    ((fireSources ev (specState sp)).nodes.get j).changed = (ev.get j).isSome := by
  have h := fireSources_slots ev (specState sp) hev.nodup j
  have h0 : ((specState sp).nodes.get j).val = none ∧ ((specState sp).nodes.get j).changed = false := by
    rw [specState_get]; split <;> exact ⟨rfl, rfl⟩
  rw [h.1, h.2, h0.1, h0.2]
  cases ev.get j <;> exact ⟨rfl, rfl⟩

/-! ### S's firing table as a scheduler state -/

/-- the state whose slots hold the table: `val i = fire tbl i`, `changed i = (fire tbl i).isSome` -/
def tableState (sp : Spec) (tbl : Table) : St Int :=
  { nodes := tabulate sp.defs.size fun i => { val := fire tbl i, changed := (fire tbl i).isSome }
    n := sp.defs.size }

theorem tableState_get (sp : Spec) (tbl : Table) (i : Nat) :
    (tableState sp tbl).nodes.get i =
      if i < sp.defs.size then { val := fire tbl i, changed := (fire tbl i).isSome } else {} :=
  tabulate_get _ _ _

theorem tableState_val (sp : Spec) (tbl : Table) (i : Nat) :
    ((tableState sp tbl).nodes.get i).val = if i < sp.defs.size then fire tbl i else none := by
  rw [tableState_get]; split <;> rfl

theorem tableState_changed (sp : Spec) (tbl : Table) (i : Nat) :
    ((tableState sp tbl).nodes.get i).changed = ((tableState sp tbl).nodes.get i).val.isSome := by
  rw [tableState_get]; split <;> rfl

/-- the table of a well-ranked quiet program is a fixed point of the scheduler's update functions -/
theorem tableState_fixedPoint {sp : Spec} {rank : Nat → Nat} (wr : WellRanked sp rank) (hq : Quiet sp)
    (ev : Events) : FixedPoint (specGraph sp) (specF sp ev) (tableState sp (fireTable sp ev)) := by
  intro j hs
  rw [specGraph_deps] at hs ⊢
  refine ⟨?_, tableState_changed _ _ _⟩
  have hj : j < sp.defs.size := lt_of_operands_ne_nil hs
  -- the operands are resolved, and their slots hold their table entries
  have hop : ∀ d ∈ operands sp j,
      (fireTable sp ev).get d = some (((tableState sp (fireTable sp ev)).nodes.get d).val) := by
    intro d hd
    have hdn := (wr.dec j hj d hd).1
    rw [tableState_val, if_pos hdn]
    unfold fire
    cases h : (fireTable sp ev).get d with
    | none => exact absurd h (fireTable_total sp ev rank wr d hdn)
    | some r => rfl
  -- so the update function recomputes the table entry
  have hF : specF sp ev j (fun k => ((tableState sp (fireTable sp ev)).nodes.get k).val) =
      fire (fireTable sp ev) j := by
    unfold specF
    rw [← fireOf_congr_operands sp ev (look := fun k => (fireTable sp ev).get k) j
      (fun d hd => hop d hd), fireTable_fix sp ev rank wr j hj]
    rfl
  rw [hF, tableState_val, if_pos hj]
  split
  · rfl
  · -- no operand fires: the equation is silent
    rename_i hany
    have hsil : ∀ d ∈ operands sp j, (fireTable sp ev).get d = some none := by
      intro d hd
      rw [hop d hd]
      have hc : ((tableState sp (fireTable sp ev)).nodes.get d).changed = false := by
        cases hc : ((tableState sp (fireTable sp ev)).nodes.get d).changed with
        | false => rfl
        | true => exact absurd (List.any_eq_true.mpr ⟨d, hd, hc⟩) hany
      rw [tableState_changed] at hc
      cases hv : ((tableState sp (fireTable sp ev)).nodes.get d).val with
      | none => rfl
      | some x => rw [hv] at hc; cases hc
    have := fireOf_quiet_silent sp ev (look := fun k => (fireTable sp ev).get k) j (hq j hj) hs hsil
    rw [fireTable_fix sp ev rank wr j hj] at this
    unfold fire
    rw [this]; rfl

/-- the table agrees with the fired source slots at every leaf -/
theorem tableState_sources {sp : Spec} {rank : Nat → Nat} (wr : WellRanked sp rank) {ev : Events}
    (hev : EvOK sp ev) (j : Nat) (hs : operands sp j = []) :
    ((tableState sp (fireTable sp ev)).nodes.get j).val = ev.get j ∧
    ((tableState sp (fireTable sp ev)).nodes.get j).changed = (ev.get j).isSome := by
  have hv : ((tableState sp (fireTable sp ev)).nodes.get j).val = ev.get j := by
    rw [tableState_val]
    split
    · rename_i hj
      have h1 := fireTable_fix sp ev rank wr j hj
      rw [fireOf_leaf sp ev _ j hs (fun hg => hev.isInput_of_get hg)] at h1
      unfold fire
      rw [← h1]; rfl
    · rename_i hj
      cases hg : ev.get j with
      | none => rfl
      | some v => exact absurd (lt_of_isInput (hev.isInput_of_get (by rw [hg]; simp))) hj
  exact ⟨hv, by rw [tableState_changed, hv]⟩

/-! ### outside the program the table is empty -/

theorem roundStep_get_ne (sp : Spec) (ev : Events) (t : Table) (i j : Nat) (h : j ≠ i) :
    (roundStep sp ev t i).get j = t.get j := by
  unfold roundStep
  split
  · rfl
  · split
    · rw [Store.get_set, if_neg h]
    · rfl

theorem foldl_roundStep_get_ne (sp : Spec) (ev : Events) (j : Nat) :
    ∀ (l : List Nat) (t : Table), (∀ a ∈ l, j ≠ a) → (l.foldl (roundStep sp ev) t).get j = t.get j := by
  intro l
  induction l with
  | nil => intro t _; rfl
  | cons a l ih =>
    intro t h
    rw [List.foldl_cons, ih _ (fun b hb => h b (List.mem_cons_of_mem _ hb)),
      roundStep_get_ne sp ev t a j (h a List.mem_cons_self)]

theorem rounds_get_ge (sp : Spec) (ev : Events) (j : Nat) (hj : sp.defs.size ≤ j) :
    ∀ (n : Nat) (t : Table), (rounds sp ev n t).get j = t.get j := by
  intro n
  induction n with
  | zero => intro t; rfl
  | succ n ih =>
    intro t
    show (rounds sp ev n (round sp ev t)).get j = _
    rw [ih, round_eq, foldl_roundStep_get_ne sp ev j _ t (fun a ha => by
      have := List.mem_range.mp ha; omega)]

theorem fire_fireTable_ge (sp : Spec) (ev : Events) (j : Nat) (hj : sp.defs.size ≤ j) :
    fire (fireTable sp ev) j = none := by
  unfold fire fireTable
  rw [rounds_get_ge sp ev j hj, Store.get_empty]
  rfl

theorem tableState_val' (sp : Spec) (ev : Events) (i : Nat) :
    ((tableState sp (fireTable sp ev)).nodes.get i).val = fire (fireTable sp ev) i := by
  rw [tableState_val]
  split
  · rfl
  · rename_i h; rw [fire_fireTable_ge sp ev i (Nat.le_of_not_lt h)]

end Bridge
end SodiumVerif
