/-
  Completeness (C07): one pass frees every piece of garbage that hangs off a purple candidate,
  and leaves the candidate buffer consistent (`CandOk`); hence a whole collection from a state
  satisfying `GcInv` and `BufInv` leaves no garbage at all.
-/
import SodiumVerif.Lemmas.GcCompleteMark
import SodiumVerif.Lemmas.GcCompleteCause
import SodiumVerif.Lemmas.GcCompleteClient

namespace SodiumVerif
namespace Gc
open State

/-! ### paths along reported edges are paths along counted references -/

theorem treach_reach {g : State} (I : GcInv g) {r i : Nat} (p : TReach (edges g) r i) :
    Reach g r i := by
  induction p with
  | refl _ => exact .refl _
  | @step b c _ hc _ ih =>
    have hc' : c ∈ (g.nodes.get b).owned := by rw [← I.contract]; exact hc
    have hb : (g.nodes.get b).freed = false := by
      cases hf : (g.nodes.get b).freed with
      | false => rfl
      | true => rw [(I.freedEmpty b hf).1] at hc'; cases hc'
    exact .step ih hb hc'

/-! ### phase 2: garbage is white after the scan -/

/-- every counted reference to a piece of garbage comes from garbage, which is gray: its
    adjustment equals its count -/
theorem garbage_adj_eq {g m : State} (I : GcInv g) (M : Marked g m)
    (hgray : ∀ x, Garbage g x → isGray m x) {x : Nat} (hx : Garbage g x) :
    (m.nodes.get x).adj = (m.nodes.get x).rc := by
  obtain ⟨hxl, hxf, hxn⟩ := hx
  have hext : ext g x = 0 := by
    apply Classical.byContradiction
    intro h; exact hxn (Live.self hxf (by omega))
  have hrc := I.ext_add x
  have hte : tracedIn m x = inCount g x := by rw [tracedIn_core M.core, I.tracedIn_eq]
  have hgi : grayIn m x = tracedIn m x := by
    unfold grayIn tracedIn
    apply sumTo_congr
    intro j hj
    by_cases hg : (m.nodes.get j).color = .gray
    · rw [if_pos hg]
    · rw [if_neg hg]
      symm
      apply List.count_eq_zero.mpr
      intro hmem
      rw [M.core.traced, I.contract] at hmem
      have hjf : (g.nodes.get j).freed = false := by
        cases hf : (g.nodes.get j).freed with
        | false => rfl
        | true => rw [(I.freedEmpty j hf).1] at hmem; cases hmem
      have hjl : j < g.nextId := by rw [← M.core.nextId]; exact hj
      have hnl : ¬ Live g j := fun h => hxn (h.reach (.step (.refl j) hjf hmem))
      exact hg (hgray j ⟨hjl, hjf, hnl⟩)
  rw [M.mg x, hgi, hte, M.core.rc]
  omega

/-- what `scan_roots` establishes in addition to `Scanned` -/
theorem scanRoots_complete {g m : State} (I : GcInv g) (M : Marked g m) (MC : MarkedC g m)
    (ho : (scanRoots m).oof = false) :
    SameBuf m (scanRoots m) ∧
    (∀ i, (g.nodes.get i).freed = false → ((scanRoots m).nodes.get i).color ≠ .purple) ∧
    (BufInv g → ∀ i, Garbage g i → ((scanRoots m).nodes.get i).color = .white) := by
  rw [scanRoots_eq] at ho ⊢
  simp only [] at ho ⊢
  generalize hg1 : m.roots.foldl (fun g r => scan (walkFuel { m with roots := [] }) r g)
    { m with roots := [] } = g1 at ho ⊢
  generalize hg2 : m.roots.foldl (fun g r => reset1 (walkFuel { m with roots := [] }) r g) g1 = g2
    at ho ⊢
  generalize hg3 : m.roots.foldl (fun g r => reset2 (walkFuel { m with roots := [] }) r g) g2 = g3
    at ho ⊢
  have ho3 : g3.oof = false := ho
  have hw23 : WalkP g1 g3 := by
    rw [← hg3]
    refine WalkP.trans (g' := g2) ?_ ?_
    · rw [← hg2]
      exact foldl_rel (I := fun _ => True) WalkP.refl (fun _ _ _ => WalkP.trans)
        (fun _ _ _ _ => trivial) _ _ trivial (fun a _ r _ => reset1_walkP _ r a)
    · exact foldl_rel (I := fun _ => True) WalkP.refl (fun _ _ _ => WalkP.trans)
        (fun _ _ _ _ => trivial) _ _ trivial (fun a _ r _ => reset2_walkP _ r a)
  have ho1 : g1.oof = false := hw23.toWalk.oof_false ho3
  obtain ⟨hS, hng, _⟩ := scan_phase I M g1 hg1 ho1
  have hm0 : ∀ i, ({ m with roots := [] } : State).nodes.get i = m.nodes.get i := fun _ => rfl
  -- flags
  have hb1 : SameBuf { m with roots := [] } g1 := by rw [← hg1]; exact scan_fold_sameBuf _ _ _
  have hb2 : SameBuf g1 g2 := by rw [← hg2]; exact reset1_fold_sameBuf _ _ _
  have hb3 : SameBuf g2 g3 := by rw [← hg3]; exact reset2_fold_sameBuf _ _ _
  have hc2 : SameCol g1 g2 := by rw [← hg2]; exact reset1_fold_sameCol _ _ _
  have hc3 : SameCol g2 g3 := by rw [← hg3]; exact reset2_fold_sameCol _ _ _
  have hcol3 : ∀ i, (g3.nodes.get i).color = (g1.nodes.get i).color := hc2.trans hc3
  -- the cause of every blackening
  have hwfm0 : WfE m := I.wfE.of_core M.core
  have hwfm : WfE ({ m with roots := [] } : State) := hwfm0
  have hcause : BlackCause (ScanSrc { m with roots := [] }) { m with roots := [] } g1 := by
    rw [← hg1]
    exact scan_fold_cause _ m.roots { m with roots := [] } (fun r hr => M.rootsLt r hr) hwfm
  refine ⟨fun i => ?_, fun i hf => ?_, fun B i hi => ?_⟩
  · show (g3.nodes.get i).buffered = _
    rw [hb3 i, hb2 i, hb1 i]
  · show (g3.nodes.get i).color ≠ .purple
    rw [hcol3]
    intro hp
    have hpm : (m.nodes.get i).color = .purple := by
      rcases hS.color i with e | e | ⟨_, e, _⟩
      · rw [← hm0, ← e]; exact hp
      · rw [hp] at e; cases e
      · rw [hp] at e; cases e
    have := MC.rootsGray i (MC.cand i (by rw [M.core.freed]; exact hf) (.inr hpm))
    unfold isGray at this
    rw [hpm] at this; cases this
  · show (g3.nodes.get i).color = .white
    rw [hcol3]
    -- garbage is gray after the marking
    have hgray : ∀ x, Garbage g x → isGray m x := by
      rintro x ⟨hxl, hxf, hxn⟩
      obtain ⟨r, _, hp, p⟩ := B.covered x hxl hxf hxn
      exact MC.reach_gray I M.core (p.source_unfreed hxf) hp p
    have hgi := hgray i hi
    rcases hS.color i with e | e | ⟨_, e, _⟩
    · rw [hm0, hgi] at e; exact absurd e (hng i)
    · -- blackened: there is a cause, which is not garbage, so `i` is live
      exfalso
      obtain ⟨r, ⟨hrg, hra⟩, p⟩ := hcause i (by rw [hm0, hgi]; intro h; cases h) e
      rw [hm0] at hrg hra
      have hedges : edges ({ m with roots := [] } : State) = edges g := by
        funext j; exact M.core.traced j
      rw [hedges] at p
      have pr := treach_reach I p
      have hrf : (g.nodes.get r).freed = false := pr.source_unfreed hi.2.1
      have hrl : r < g.nextId := by
        apply Classical.byContradiction
        intro hlt
        rw [M.fresh r (by rw [M.core.nextId]; omega)] at hrg; cases hrg
      by_cases hrn : Live g r
      · exact hi.2.2 (hrn.reach pr)
      · exact hra (garbage_adj_eq I M hgray ⟨hrl, hrf, hrn⟩)
    · exact e

/-! ### phase 3: the candidate buffer after `collect_roots` -/

/-- no object turned purple -/
def PurpleAnti (g g' : State) : Prop :=
  ∀ i, (g'.nodes.get i).color = .purple → (g.nodes.get i).color = .purple

theorem PurpleAnti.refl (g : State) : PurpleAnti g g := fun _ h => h
theorem PurpleAnti.trans {g g' g'' : State} (h1 : PurpleAnti g g') (h2 : PurpleAnti g' g'') :
    PurpleAnti g g'' := fun i h => h1 i (h2 i h)

theorem collectWhite_purpleAnti : ∀ (fuel s : Nat) (gw : State × List Nat),
    PurpleAnti gw.1 (collectWhite fuel s gw).1 := by
  intro fuel
  induction fuel with
  | zero => intro s gw; exact fun _ h => h
  | succ fuel ih =>
    intro s gw
    obtain ⟨g, w⟩ := gw
    rw [collectWhite_succ]
    split
    · have h1 : PurpleAnti g (g.upd s fun x => { x with color := .black }).tick := by
        intro i hp
        simp only [Store.get_set] at hp
        split at hp
        · cases hp
        · exact hp
      refine h1.trans ?_
      exact foldl_rel (R := fun a b : State × List Nat => PurpleAnti a.1 b.1) (I := fun _ => True)
        (fun a => PurpleAnti.refl a.1) (fun _ _ _ => PurpleAnti.trans)
        (fun _ _ _ _ => trivial) _ (_, w) trivial
        (fun a _ t _ => (show PurpleAnti a.1 a.1.tickE from fun _ h => h).trans
          (ih t (a.1.tickE, a.2)))
    · exact PurpleAnti.refl g

theorem crStep_buffered (f : Nat) (a : State × List Nat) (r i : Nat) :
    ((crStep f a r).1.nodes.get i).buffered =
      if i = r then false else (a.1.nodes.get i).buffered := by
  unfold crStep
  rw [collectWhite_sameBuf f r (a.1.upd r fun x => { x with buffered := false }, a.2) i]
  simp only [Store.get_set]
  split <;> rfl

theorem crStep_purpleAnti (f : Nat) (a : State × List Nat) (r : Nat) :
    PurpleAnti a.1 (crStep f a r).1 := by
  unfold crStep
  refine PurpleAnti.trans (g' := a.1.upd r fun x => { x with buffered := false }) ?_
    (collectWhite_purpleAnti f r _)
  intro i hp
  simp only [Store.get_set] at hp
  split at hp
  · next h => subst h; exact hp
  · exact hp

/-- the `collect_white` loop clears the flag of every root, sets none, and makes nothing purple -/
theorem crStep_fold_flags (f : Nat) : ∀ (l : List Nat) (a : State × List Nat) (i : Nat),
    (((l.foldl (crStep f) a).1.nodes.get i).buffered = true →
      (a.1.nodes.get i).buffered = true ∧ i ∉ l) ∧
    (((l.foldl (crStep f) a).1.nodes.get i).color = .purple → (a.1.nodes.get i).color = .purple) := by
  intro l
  induction l with
  | nil => intro a i; exact ⟨fun h => ⟨h, List.not_mem_nil⟩, fun h => h⟩
  | cons r rest ih =>
    intro a i
    simp only [List.foldl_cons]
    obtain ⟨h1, h2⟩ := ih (crStep f a r) i
    refine ⟨fun h => ?_, fun h => crStep_purpleAnti f a r i (h2 h)⟩
    obtain ⟨hb, hn⟩ := h1 h
    rw [crStep_buffered] at hb
    by_cases hir : i = r
    · rw [if_pos hir] at hb; cases hb
    · rw [if_neg hir] at hb
      exact ⟨hb, fun hm => by
        rcases List.mem_cons.mp hm with h | h
        · exact hir h
        · exact hn h⟩

/-- if every flagged unfreed object is a root and no unfreed object is purple, `collect_roots`
    leaves the candidate buffer consistent -/
theorem collectRoots_candOk {s : State}
    (h : ∀ i, (s.nodes.get i).freed = false →
      ((s.nodes.get i).buffered = true → i ∈ s.roots) ∧ (s.nodes.get i).color ≠ .purple) :
    CandOk (collectRoots s) := by
  rw [collectRoots_eq]
  simp only []
  have hw := crStep_fold_walk (walkFuel { s with roots := [] }) s.roots ({ s with roots := [] }, [])
  have hfl := crStep_fold_flags (walkFuel { s with roots := [] }) s.roots ({ s with roots := [] }, [])
  generalize s.roots.foldl (crStep (walkFuel { s with roots := [] })) ({ s with roots := [] }, [])
    = res at hw hfl ⊢
  have hc : CandOk res.1 := by
    intro i hf hc
    have hf' : (s.nodes.get i).freed = false := by rw [← hf]; exact (hw.freed i).symm
    obtain ⟨h1, h2⟩ := h i hf'
    rcases hc with hc | hc
    · obtain ⟨hb, hn⟩ := (hfl i).1 hc
      exact absurd (h1 hb) hn
    · exact absurd ((hfl i).2 hc) h2
  have hc1 := candOk_freeCollected_fold res.2 res.1 hc
  generalize res.2.foldl freeCollected res.1 = g1 at hc1 ⊢
  have hc1' : CandOk ({ g1 with toBeFreed := [] } : State) := hc1
  exact candOk_checkZero _ (candOk_checkZero _ (candOk_freeCollected_fold _ _ hc1'))

/-! ### one pass -/

theorem onePass_candOk {g : State} (I : GcInv g) (C : CandOk g) (ho : (onePass g).oof = false) :
    CandOk (onePass g) := by
  unfold onePass at ho ⊢
  have hos : (scanRoots (markRoots g)).oof = false := collectRoots_oof_mono _ ho
  have hom : (markRoots g).oof = false := scanRoots_oof_mono _ hos
  have M := markRoots_spec I hom
  have MC := markRoots_complete I C hom
  obtain ⟨hb, hnp, _⟩ := scanRoots_complete I M MC hos
  have S := scanRoots_spec I M hos
  apply collectRoots_candOk
  intro i hf
  have hfg : (g.nodes.get i).freed = false := by rw [← S.core.freed]; exact hf
  refine ⟨fun hbi => ?_, hnp i hfg⟩
  rw [S.roots]
  rw [hb i] at hbi
  exact MC.cand i (by rw [M.core.freed]; exact hfg) (.inl hbi)

/-- everything that is white after the scan is freed by the pass -/
theorem onePass_white_freed {g : State} (I : GcInv g) (ho : (onePass g).oof = false) :
    ∀ j, ((scanRoots (markRoots g)).nodes.get j).color = .white →
      ((onePass g).nodes.get j).freed = true := by
  unfold onePass at ho ⊢
  generalize hm : markRoots g = m at ho ⊢
  generalize hs : scanRoots m = s at ho ⊢
  have hos : s.oof = false := collectRoots_oof_mono s ho
  have hom : m.oof = false := scanRoots_oof_mono m (by rw [hs]; exact hos)
  have M : Marked g m := by rw [← hm]; exact markRoots_spec I (by rw [hm]; exact hom)
  have S : Scanned g m s := by rw [← hs]; exact scanRoots_spec I M (by rw [hs]; exact hos)
  rw [collectRoots_oof] at ho
  rw [collectRoots_eq]
  simp only []
  generalize hres : s.roots.foldl (crStep (walkFuel { s with roots := [] }))
    ({ s with roots := [] }, []) = res at ho ⊢
  have C := collect_phase I M S res hres ho
  obtain ⟨c, wl⟩ := res
  simp only at C ho ⊢
  have K0 := freeInv_start I C
  have hwl : ∀ n ∈ wl, n < c.nextId := by
    intro n hn
    have hw := (C.mem n).mp hn
    apply Classical.byContradiction
    intro hlt
    have : s.nextId ≤ n := by rw [S.core.nextId, ← C.core.nextId]; omega
    rw [S.fresh n this] at hw; cases hw
  obtain ⟨K1, ht1, hf1⟩ := freeInv_fold wl c K0 hwl
  generalize hg1 : wl.foldl freeCollected c = g1 at K1 ht1 hf1 ⊢
  have htbf : g1.toBeFreed = m.toBeFreed := (ht1.trans C.toBeFreed).trans S.toBeFreed
  rw [htbf]
  have K1' : FreeInv g [] { g1 with toBeFreed := [] } := K1.of_roots rfl rfl rfl (fun r hr => hr)
  have htl : ∀ n ∈ m.toBeFreed, n < ({ g1 with toBeFreed := [] } : State).nextId := by
    intro n hn
    show n < g1.nextId
    rw [K1.nextId, ← M.core.nextId]; exact (M.tbf n hn).1
  obtain ⟨_, _, hf2⟩ := freeInv_fold m.toBeFreed _ K1' htl
  intro j hw
  rw [checkZero_nodes, checkZero_nodes, hf2]
  left
  show (g1.nodes.get j).freed = true
  rw [hf1]
  exact .inr ((C.mem j).mpr hw)

/-- **one pass frees all covered garbage** -/
theorem onePass_frees_garbage {g : State} (I : GcInv g) (B : BufInv g)
    (ho : (onePass g).oof = false) :
    ∀ i, Garbage g i → ((onePass g).nodes.get i).freed = true := by
  have hos : (scanRoots (markRoots g)).oof = false := collectRoots_oof_mono _ ho
  have hom : (markRoots g).oof = false := scanRoots_oof_mono _ hos
  have M := markRoots_spec I hom
  have MC := markRoots_complete I B.cand hom
  obtain ⟨_, _, hwhite⟩ := scanRoots_complete I M MC hos
  intro i hi
  exact onePass_white_freed I ho i (hwhite B i hi)

/-! ### the loop -/

/-- a state without garbage: every allocated unfreed object is live -/
def NoGarbage (g : State) : Prop :=
  ∀ i, i < g.nextId → (g.nodes.get i).freed = false → Live g i

/-- passes create no garbage -/
theorem NoGarbage.passes {g g' : State} (I : GcInv g) (P : Passes g g') (h : NoGarbage g) :
    NoGarbage g' := by
  intro i hi hf
  rw [P.nextId] at hi
  exact P.live' I (h i hi (P.mono i hf).1)

theorem onePass_noGarbage {g : State} (I : GcInv g) (B : BufInv g)
    (ho : (onePass g).oof = false) : NoGarbage (onePass g) := by
  have P := (onePass_spec I ho).passes I
  intro i hi hf
  rw [P.nextId] at hi
  have hfg := (P.mono i hf).1
  by_cases hl : Live g i
  · exact P.live' I hl
  · have := onePass_frees_garbage I B ho i ⟨hi, hfg, hl⟩
    rw [hf] at this; cases this

theorem collectLoop_candOk : ∀ (fuel : Nat) (g : State), GcInv g → CandOk g →
    (collectLoop fuel g).oof = false → CandOk (collectLoop fuel g) := by
  intro fuel
  induction fuel with
  | zero => intro g _ _ h; simp [collectLoop] at h
  | succ fuel ih =>
    intro g I C h
    unfold collectLoop at h ⊢
    simp only [] at h ⊢
    by_cases hp : (onePass g).panic.isSome = true
    · rw [if_pos hp] at h ⊢
      exact onePass_candOk I C h
    · rw [if_neg hp] at h ⊢
      by_cases he : (onePass g).roots.isEmpty = true ∧ (onePass g).toBeFreed.isEmpty = true
      · rw [if_pos he] at h ⊢
        exact onePass_candOk I C h
      · rw [if_neg he] at h ⊢
        have ho := collectLoop_oof_mono fuel _ h
        exact ih _ (onePass_spec I ho).inv (onePass_candOk I C ho) h

theorem collectLoop_noGarbage : ∀ (fuel : Nat) (g : State), GcInv g → BufInv g →
    (collectLoop fuel g).oof = false → NoGarbage (collectLoop fuel g) := by
  intro fuel
  cases fuel with
  | zero => intro g _ _ h; simp [collectLoop] at h
  | succ fuel =>
    intro g I B h
    unfold collectLoop at h ⊢
    simp only [] at h ⊢
    by_cases hp : (onePass g).panic.isSome = true
    · rw [if_pos hp] at h ⊢
      exact onePass_noGarbage I B h
    · rw [if_neg hp] at h ⊢
      by_cases he : (onePass g).roots.isEmpty = true ∧ (onePass g).toBeFreed.isEmpty = true
      · rw [if_pos he] at h ⊢
        exact onePass_noGarbage I B h
      · rw [if_neg he] at h ⊢
        have ho := collectLoop_oof_mono fuel _ h
        have I1 := (onePass_spec I ho).inv
        exact (onePass_noGarbage I B ho).passes I1 (collectLoop_spec fuel _ I1 h).1

/-! ### the collection -/

/-- **Completeness of a collection.**  From a state satisfying the collector invariant and the
    buffer invariant, after `collect_cycles` every allocated unfreed object is reachable from an
    unfreed object with an external handle: nothing unreachable survives. -/
theorem collect_complete (g : State) (I : GcInv g) (B : BufInv g)
    (ho : (collectCycles g).oof = false) :
    ∀ i, i < (collectCycles g).nextId → ((collectCycles g).nodes.get i).freed = false →
      Live (collectCycles g) i :=
  collectLoop_noGarbage (g.nextId + 2) g I B ho

/-- … and the buffer invariant holds again (with an empty buffer) -/
theorem bufinv_collectCycles (g : State) (I : GcInv g) (B : BufInv g)
    (ho : (collectCycles g).oof = false) : BufInv (collectCycles g) :=
  ⟨collectLoop_candOk (g.nextId + 2) g I B.cand ho,
   fun i hi hf hnl => absurd (collect_complete g I B ho i hi hf) hnl⟩

/-- after a collection no unfreed object is flagged `buffered` or purple -/
theorem collectCycles_no_candidates (g : State) (I : GcInv g) (B : BufInv g)
    (ho : (collectCycles g).oof = false) (i : Nat)
    (hf : ((collectCycles g).nodes.get i).freed = false) :
    ((collectCycles g).nodes.get i).buffered = false ∧
      ((collectCycles g).nodes.get i).color = .black := by
  have hC := collectLoop_candOk (g.nextId + 2) g I B.cand ho
  obtain ⟨P, hr⟩ := collectCycles_spec g I ho
  have hno : ¬ ((collectCycles g).nodes.get i).buffered = true ∧
      ¬ ((collectCycles g).nodes.get i).color = .purple := by
    constructor
    · intro h
      have : i ∈ (collectCycles g).roots := hC i hf (.inl h)
      rw [hr] at this; cases this
    · intro h
      have : i ∈ (collectCycles g).roots := hC i hf (.inr h)
      rw [hr] at this; cases this
  refine ⟨by simpa using hno.1, ?_⟩
  rcases (P.inv.quiescent i).2.2 with h | h
  · exact h
  · exact absurd h hno.2

end Gc
end SodiumVerif
