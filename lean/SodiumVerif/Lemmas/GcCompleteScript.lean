/-
  Completeness at the script level (`GcScript`): a contract-respecting client keeps, besides
  `GcInv`, the buffer invariant `BufInv`, and the external count `ext` of every unfreed object is
  *exactly* the number of handles the client holds on it.
-/
import SodiumVerif.Lemmas.GcCompletePass

namespace SodiumVerif
namespace GcScript
open Gc

/-- the script state is consistent (strengthening of `ScriptInv`): collector invariant, buffer
    invariant, every held object is allocated and unfreed, and `ext` = number of handles -/
structure ScriptInvC (s : St) : Prop where
  inv : GcInv s.g
  buf : BufInv s.g
  held : ∀ a, 0 < s.handles.get a → a < s.g.nextId ∧ (s.g.nodes.get a).freed = false
  exact : ∀ a, (s.g.nodes.get a).freed = false → ext s.g a = s.handles.get a

theorem ScriptInvC.scriptInv {s : St} (J : ScriptInvC s) : ScriptInv s :=
  ⟨J.inv, fun a h => ⟨(J.held a h).1, (J.held a h).2, by rw [J.exact a (J.held a h).2]; exact Nat.le_refl _⟩⟩

theorem ScriptInvC.ext_pos {s : St} (J : ScriptInvC s) {a : Nat} (h : 0 < s.handles.get a) :
    0 < ext s.g a := by rw [J.exact a (J.held a h).2]; exact h

theorem scriptInvC_init : ScriptInvC {} := by
  refine ⟨gcinv_init, bufinv_init, fun a h => by simp at h, fun a _ => ?_⟩
  have e : ext ({} : St).g a = 0 := by
    unfold ext
    have : ((({} : St).g.nodes.get a)).rc = 0 := rfl
    rw [this]; simp
  rw [e]; simp

theorem script_step' {s s' : St} {op : Op} (J : ScriptInvC s) (hop : op.good)
    (hfuel : op = .collect → (collectCycles s.g).oof = false)
    (h : apply s op = some s') : ScriptInvC s' := by
  cases op with
  | tedge a b => exact absurd hop id
  | oedge a b => exact absurd hop id
  | bad => simp [apply] at h
  | reset =>
    simp only [apply, Option.some.injEq] at h
    subst h; exact scriptInvC_init
  | brief =>
    simp only [apply, Option.some.injEq] at h
    subst h; exact ⟨J.inv, J.buf, J.held, J.exact⟩
  | full =>
    simp only [apply, Option.some.injEq] at h
    subst h; exact ⟨J.inv, J.buf, J.held, J.exact⟩
  | dump =>
    simp only [apply, Option.some.injEq] at h
    subst h; exact J
  | new =>
    simp only [apply, Option.some.injEq] at h
    subst h
    have hid : (newNode s.g).2 = s.g.nextId := rfl
    refine ⟨gcinv_newNode J.inv, bufinv_newNode J.inv J.buf, fun a ha => ?_, fun a hf => ?_⟩
    · simp only [Store.get_set] at ha
      show a < (newNode s.g).1.nextId ∧ ((newNode s.g).1.nodes.get a).freed = false
      rw [newNode_nextId, newNode_get]
      rw [hid] at ha
      by_cases hi : a = s.g.nextId
      · rw [if_pos hi]; exact ⟨by omega, rfl⟩
      · rw [if_neg hi] at ha ⊢
        obtain ⟨h1, h2⟩ := J.held a ha
        exact ⟨by omega, h2⟩
    · simp only [Store.get_set]
      have hf' : ((newNode s.g).1.nodes.get a).freed = false := hf
      show ext (newNode s.g).1 a = _
      rw [hid]
      by_cases hi : a = s.g.nextId
      · subst hi; rw [if_pos rfl, ext_newNode_new J.inv]
      · rw [newNode_get, if_neg hi] at hf'
        rw [if_neg hi, ext_newNode_other J.inv hi]
        exact J.exact a hf'
  | inc a =>
    simp only [apply] at h
    split at h
    · next hc =>
      simp only [Option.some.injEq] at h
      subst h
      obtain ⟨h1, h2⟩ := J.held a hc.2
      have he := J.ext_pos hc.2
      have F := rcOnly_incRef h2
      refine ⟨gcinv_incRef J.inv h1 h2, bufinv_incRef J.inv J.buf h2 he, fun x hx => ?_,
        fun x hf => ?_⟩
      · simp only [Store.get_set] at hx
        show x < (incRef s.g a).nextId ∧ ((incRef s.g a).nodes.get x).freed = false
        rw [F.nextId, F.freed]
        by_cases hi : x = a
        · subst hi; exact ⟨h1, h2⟩
        · rw [if_neg hi] at hx; exact J.held x hx
      · simp only [Store.get_set]
        have hf' : ((incRef s.g a).nodes.get x).freed = false := hf
        rw [F.freed] at hf'
        show ext (incRef s.g a) x = _
        by_cases hi : x = a
        · subst hi; rw [if_pos rfl, ext_incRef_self J.inv h2, J.exact x hf']
        · rw [if_neg hi, ext_incRef_other h2 hi]; exact J.exact x hf'
    · cases h
  | deref a b =>
    simp only [apply] at h
    split at h
    · next hc =>
      simp only [Option.some.injEq] at h
      subst h
      obtain ⟨_, ha2⟩ := J.held a hc.2.1
      have hea := J.ext_pos hc.2.1
      have hmem : b ∈ (s.g.nodes.get a).owned := by
        have := hc.2.2.2; simpa [State.node] using this
      have h1 : b < s.g.nextId := J.inv.wf a b hmem
      have h2 : (s.g.nodes.get b).freed = false := J.inv.noDangling a b ha2 hmem
      have hl : Live s.g b := ⟨a, ha2, hea, .step (.refl a) ha2 hmem⟩
      have F := rcOnly_incRef h2
      refine ⟨gcinv_incRef J.inv h1 h2, bufinv_incRef_live J.inv J.buf h2 hl, fun x hx => ?_,
        fun x hf => ?_⟩
      · simp only [Store.get_set] at hx
        show x < (incRef s.g b).nextId ∧ ((incRef s.g b).nodes.get x).freed = false
        rw [F.nextId, F.freed]
        by_cases hi : x = b
        · subst hi; exact ⟨h1, h2⟩
        · rw [if_neg hi] at hx; exact J.held x hx
      · simp only [Store.get_set]
        have hf' : ((incRef s.g b).nodes.get x).freed = false := hf
        rw [F.freed] at hf'
        show ext (incRef s.g b) x = _
        by_cases hi : x = b
        · subst hi; rw [if_pos rfl, ext_incRef_self J.inv h2, J.exact x hf']
        · rw [if_neg hi, ext_incRef_other h2 hi]; exact J.exact x hf'
    · cases h
  | dec a =>
    simp only [apply] at h
    split at h
    · next hc =>
      simp only [Option.some.injEq] at h
      subst h
      obtain ⟨h1, h2⟩ := J.held a hc.2
      have he := J.ext_pos hc.2
      have F := rcOnly_decRef s.g a
      refine ⟨gcinv_decRef_handle J.inv h1 he, bufinv_decRef_handle J.inv J.buf h2 he,
        fun x hx => ?_, fun x hf => ?_⟩
      · simp only [Store.get_set] at hx
        show x < (decRef s.g a).nextId ∧ ((decRef s.g a).nodes.get x).freed = false
        rw [F.nextId, F.freed]
        by_cases hi : x = a
        · subst hi; exact ⟨h1, h2⟩
        · rw [if_neg hi] at hx; exact J.held x hx
      · simp only [Store.get_set]
        have hf' : ((decRef s.g a).nodes.get x).freed = false := hf
        rw [F.freed] at hf'
        show ext (decRef s.g a) x = _
        by_cases hi : x = a
        · subst hi; rw [if_pos rfl, ext_decRef_self he, J.exact x hf']
        · rw [if_neg hi, ext_decRef_other _ hi]; exact J.exact x hf'
    · cases h
  | edge a b =>
    have hg := apply_edge_g h
    simp only [apply] at h
    split at h
    · next hc =>
      simp only [Option.some.injEq] at h
      have hh : s'.handles = s.handles := by subst h; rfl
      obtain ⟨ha1, ha2⟩ := J.held a hc.2.2.1
      obtain ⟨hb1, hb2⟩ := J.held b hc.2.2.2.1
      obtain ⟨hn, hf⟩ := addEdge_frame (a := a) hb2
      refine ⟨by rw [hg]; exact gcinv_addEdge J.inv ha1 hb1 ha2 hb2,
        by rw [hg]; exact bufinv_addEdge J.inv J.buf ha1 ha2 hb2 (J.ext_pos hc.2.2.2.1),
        fun x hx => ?_, fun x hfx => ?_⟩
      · rw [hh] at hx
        rw [hg, hn, hf]
        exact J.held x hx
      · rw [hg, hf] at hfx
        rw [hh, hg, ext_addEdge J.inv ha1 ha2 hb2]
        exact J.exact x hfx
    · cases h
  | unedge a b =>
    obtain ⟨hg, ha1, ha2, hb⟩ := apply_unedge_g h
    simp only [apply] at h
    split at h
    · simp only [Option.some.injEq] at h
      have hh : s'.handles = s.handles := by subst h; rfl
      obtain ⟨hn, hf⟩ := delEdge_frame s.g a b
      refine ⟨by rw [hg]; exact gcinv_delEdge J.inv ha1 ha2 hb,
        by rw [hg]; exact bufinv_delEdge J.inv J.buf ha1 ha2 hb, fun x hx => ?_, fun x hfx => ?_⟩
      · rw [hh] at hx
        rw [hg, hn, hf]
        exact J.held x hx
      · rw [hg, hf] at hfx
        rw [hh, hg, ext_delEdge J.inv ha1 ha2 hb]
        exact J.exact x hfx
    · cases h
  | updrop a =>
    have hg := apply_updrop_g h
    simp only [apply] at h
    split at h
    · next hc =>
      simp only [Option.some.injEq] at h
      have hh : s'.handles = s.handles := by subst h; rfl
      obtain ⟨hn, hf⟩ := upgradeDrop_frame s.g a
      refine ⟨by rw [hg]; exact gcinv_upgradeDrop J.inv hc,
        by rw [hg]; exact bufinv_upgradeDrop J.inv J.buf, fun x hx => ?_, fun x hfx => ?_⟩
      · rw [hh] at hx
        rw [hg, hn, hf]
        exact J.held x hx
      · rw [hg, hf] at hfx
        rw [hh, hg, ext_upgradeDrop J.inv]
        exact J.exact x hfx
    · cases h
  | collect =>
    simp only [apply, Option.some.injEq] at h
    subst h
    have ho := hfuel rfl
    obtain ⟨hP, _⟩ := collectCycles_spec s.g J.inv ho
    refine ⟨hP.inv, bufinv_collectCycles s.g J.inv J.buf ho, fun x hx => ?_, fun x hf => ?_⟩
    · have hx' : 0 < s.handles.get x := hx
      obtain ⟨h1, h2⟩ := J.held x hx'
      show x < (collectCycles s.g).nextId ∧ ((collectCycles s.g).nodes.get x).freed = false
      rw [hP.nextId]
      exact ⟨h1, hP.live x ⟨x, h2, J.ext_pos hx', .refl x⟩⟩
    · have hf' : ((collectCycles s.g).nodes.get x).freed = false := hf
      show ext (collectCycles s.g) x = s.handles.get x
      rw [hP.ext J.inv]
      exact J.exact x (hP.mono x hf').1

end GcScript
end SodiumVerif
