/-
  M_conc, the positive direction: sends that do not overlap are all delivered, exactly once, in the
  order in which they were started, and leave the context idle.

  * `iter k sh t`           : `k` consecutive segments of ONE thread
  * `Idle sh`               : no transaction open, nothing queued, nothing marked
  * `send_alone`            : 19 segments from an idle state = one complete send
  * `program_alone`         : a whole program executed alone
  * `runSched_nil_steps` / `runSched_replicate_steps` : the scheduler follows one thread
  * `serial_runSched`       : the empty schedule runs the threads one after the other
  * `exclusive_runSched`    : any schedule made of whole-send blocks (`blocks order`)
-/
import SodiumVerif.Model.Conc

namespace SodiumVerif
namespace Conc

/-! ### iterating one thread -/

/-- `k` consecutive segments of one thread, nobody else running -/
def iter : Nat → Shared → Thread → Shared × Thread
  | 0, sh, t => (sh, t)
  | k + 1, sh, t => iter k (stepThread sh t).1 (stepThread sh t).2

@[simp] theorem iter_zero (sh : Shared) (t : Thread) : iter 0 sh t = (sh, t) := rfl

theorem iter_succ (k : Nat) (sh : Shared) (t : Thread) :
    iter (k + 1) sh t = iter k (stepThread sh t).1 (stepThread sh t).2 := rfl

theorem iter_add (a b : Nat) (sh : Shared) (t : Thread) :
    iter (a + b) sh t = iter b (iter a sh t).1 (iter a sh t).2 := by
  induction a generalizing sh t with
  | zero => simp only [Nat.zero_add, iter_zero]
  | succ a ih =>
    have e : a + 1 + b = (a + b) + 1 := by omega
    rw [e, iter_succ, iter_succ, ih]

theorem iter_succ_right (k : Nat) (sh : Shared) (t : Thread) :
    iter (k + 1) sh t = stepThread (iter k sh t).1 (iter k sh t).2 := by
  rw [iter_add k 1]; rfl

/-- the context is idle: no transaction open, nothing queued, no firing, no mark -/
def Idle (sh : Shared) : Prop :=
  sh.depth = 0 ∧ sh.allow = 0 ∧ sh.changedNodes = [] ∧ sh.prePost = [] ∧
  (∀ i, sh.firing.get i = none) ∧ (∀ i, sh.changed.get i = false) ∧
  (∀ n, sh.visited.get n = false) ∧ sh.underflow = false

theorem idle_init (nsinks : Nat) : Idle { nsinks := nsinks } := by
  refine ⟨rfl, rfl, rfl, rfl, ?_, ?_, ?_, rfl⟩ <;> intro i <;> exact Store.get_empty i

/-! ### one send, segment by segment -/

section Send
variable (ns : Nat) (todo : List (Nat × Int)) (s : Nat) (v : Int)
  (f : Store (Option Int)) (c vis : Store Bool) (del : List (Nat × Int)) (col : Nat)

/-- the state after `j` segments of a send of `v` on sink `s` started in an idle context -/
def trace : Nat → Shared × Thread
  | 0 => (⟨ns, 0, 0, [], [], f, c, vis, del, col, false⟩, ⟨todo, some (s, v), .start, false⟩)
  | 1 => (⟨ns, 1, 0, [], [], f, c, vis, del, col, false⟩, ⟨todo, some (s, v), .entered, false⟩)
  | 2 => (⟨ns, 1, 0, [s], [], f, c.set s true, vis, del, col, false⟩,
          ⟨todo, some (s, v), .pushed, false⟩)
  | 3 => (⟨ns, 2, 0, [s], [], f, c.set s true, vis, del, col, false⟩,
          ⟨todo, some (s, v), .entered2, false⟩)
  | 4 => (⟨ns, 2, 0, [s], [PP.clear s], f.set s (some v), (c.set s true).set s true, vis, del, col, false⟩,
          ⟨todo, some (s, v), .stored, false⟩)
  | 5 => (⟨ns, 1, 0, [s], [PP.clear s], f.set s (some v), (c.set s true).set s true, vis, del, col, false⟩,
          ⟨todo, some (s, v), .left2 false, false⟩)
  | 6 => (⟨ns, 1, 0, [s], [PP.clear s], f.set s (some v), (c.set s true).set s true, vis, del, col, false⟩,
          ⟨todo, some (s, v), .afterStore, false⟩)
  | 7 => (⟨ns, 1, 0, [s], [PP.clear s], f.set s (some v), (c.set s true).set s true, vis, del, col, false⟩,
          ⟨todo, some (s, v), .beforeDec, false⟩)
  | 8 => (⟨ns, 0, 0, [s], [PP.clear s], f.set s (some v), (c.set s true).set s true, vis, del, col, false⟩,
          ⟨todo, some (s, v), .left true, false⟩)
  | 9 => (⟨ns, 1, 1, [s], [PP.clear s], f.set s (some v), (c.set s true).set s true, vis, del, col, false⟩,
          ⟨todo, some (s, v), .eotStart, false⟩)
  | 10 => (⟨ns, 1, 1, [s], [PP.clear s], f.set s (some v), (c.set s true).set s true, vis, del, col, false⟩,
          ⟨todo, some (s, v), .afterPreEot, false⟩)
  | 11 => (⟨ns, 1, 1, [], [PP.clear s], f.set s (some v), (c.set s true).set s true, vis, del, col, false⟩,
          ⟨todo, some (s, v), .took [s], false⟩)
  | 12 => (⟨ns, 1, 1, [], [PP.clear s, PP.unvisit s], f.set s (some v), (c.set s true).set s true,
            vis.set s true, del, col, false⟩,
          ⟨todo, some (s, v), .took [ns + s], false⟩)
  | 13 => (⟨ns, 1, 1, [], [PP.clear s, PP.unvisit s, PP.unvisit (ns + s)], f.set s (some v),
            (c.set s true).set s true, (vis.set s true).set (ns + s) true, del ++ [(s, v)], col, false⟩,
          ⟨todo, some (s, v), .took [], false⟩)
  | 14 => (⟨ns, 1, 1, [], [PP.clear s, PP.unvisit s, PP.unvisit (ns + s)], f.set s (some v),
            (c.set s true).set s true, (vis.set s true).set (ns + s) true, del ++ [(s, v)], col, false⟩,
          ⟨todo, some (s, v), .drained, false⟩)
  | 15 => (⟨ns, 0, 1, [], [PP.clear s, PP.unvisit s, PP.unvisit (ns + s)], f.set s (some v),
            (c.set s true).set s true, (vis.set s true).set (ns + s) true, del ++ [(s, v)], col, false⟩,
          ⟨todo, some (s, v), .afterDepthDec, false⟩)
  | 16 => (⟨ns, 0, 1, [], [], (f.set s (some v)).set s none,
            ((c.set s true).set s true).set s false,
            (((vis.set s true).set (ns + s) true).set s false).set (ns + s) false,
            del ++ [(s, v)], col, false⟩,
          ⟨todo, some (s, v), .afterPrePost, false⟩)
  | 17 => (⟨ns, 0, 1, [], [], (f.set s (some v)).set s none,
            ((c.set s true).set s true).set s false,
            (((vis.set s true).set (ns + s) true).set s false).set (ns + s) false,
            del ++ [(s, v)], col, false⟩,
          ⟨todo, some (s, v), .afterPost, false⟩)
  | 18 => (⟨ns, 0, 0, [], [], (f.set s (some v)).set s none,
            ((c.set s true).set s true).set s false,
            (((vis.set s true).set (ns + s) true).set s false).set (ns + s) false,
            del ++ [(s, v)], col, false⟩,
          ⟨todo, some (s, v), .beforeCollect, false⟩)
  | _ => (⟨ns, 0, 0, [], [], (f.set s (some v)).set s none,
            ((c.set s true).set s true).set s false,
            (((vis.set s true).set (ns + s) true).set s false).set (ns + s) false,
            del ++ [(s, v)], col + 1, false⟩,
          (⟨todo, some (s, v), .start, false⟩ : Thread).next)

variable {ns todo s v f c vis del col}

/-- during the first 18 segments the send is still in progress -/
theorem trace_cur (j : Nat) (hj : j < 19) :
    (trace ns todo s v f c vis del col j).2.cur = some (s, v) := by
  match j, hj with
  | 0, _ | 1, _ | 2, _ | 3, _ | 4, _ | 5, _ | 6, _ | 7, _ | 8, _ | 9, _ | 10, _ | 11, _ | 12, _
  | 13, _ | 14, _ | 15, _ | 16, _ | 17, _ | 18, _ => rfl
  | j + 19, h => omega

/-- each segment takes the `j`th state of the trace to the next one -/
theorem trace_step (hs : s < ns) (hf : ∀ i, f.get i = none)
    (hv : ∀ i, vis.get i = false) (j : Nat) (hj : j < 19) :
    stepThread (trace ns todo s v f c vis del col j).1 (trace ns todo s v f c vis del col j).2 =
      trace ns todo s v f c vis del col (j + 1) := by
  have h1 : ¬ ns + s < ns := by omega
  have h2 : ns + s - ns = s := by omega
  have h5 : ¬ ns = 0 := by omega
  match j, hj with
  | 0, _ => rfl
  | 1, _ => rfl
  | 2, _ => rfl
  | 3, _ => simp [trace, stepThread, hf]
  | 4, _ => simp [trace, stepThread, decDepth]
  | 5, _ => simp [trace, stepThread]
  | 6, _ => rfl
  | 7, _ => simp [trace, stepThread, decDepth]
  | 8, _ => simp [trace, stepThread]
  | 9, _ => rfl
  | 10, _ => rfl
  | 11, _ => simp [trace, stepThread, updateNode, hs, hv]
  | 12, _ => simp [trace, stepThread, updateNode, h1, h2, h5, hv]
  | 13, _ => rfl
  | 14, _ => simp [trace, stepThread, decDepth]
  | 15, _ => simp [trace, stepThread, runPP]
  | 16, _ => rfl
  | 17, _ => simp [trace, stepThread]
  | 18, _ => cases todo <;> simp [trace, stepThread, Thread.next]
  | j + 19, h => omega

/-- `j ≤ 19` segments executed alone follow the trace -/
theorem iter_trace (hs : s < ns) (hf : ∀ i, f.get i = none) (hv : ∀ i, vis.get i = false)
    (j : Nat) (hj : j ≤ 19) :
    iter j (trace ns todo s v f c vis del col 0).1 (trace ns todo s v f c vis del col 0).2 =
      trace ns todo s v f c vis del col j := by
  induction j with
  | zero => rfl
  | succ j ih =>
    rw [iter_succ_right, ih (by omega)]
    exact trace_step hs hf hv j (by omega)

end Send

/-! ### one complete send -/

/-- what is left of a thread's program, the send in progress included -/
def remaining (t : Thread) : List (Nat × Int) :=
  match t.cur with
  | none => []
  | some sv => sv :: t.todo

/-- `sh'` is `sh` after the sends `l` have been delivered, once each and in this order, in `l.length`
    transactions, and the context is idle again -/
def Delivers (sh sh' : Shared) (l : List (Nat × Int)) : Prop :=
  Idle sh' ∧ sh'.delivered = sh.delivered ++ l ∧ sh'.collects = sh.collects + l.length ∧
  sh'.nsinks = sh.nsinks

theorem Delivers.refl {sh : Shared} (h : Idle sh) : Delivers sh sh [] :=
  ⟨h, by simp, by simp, rfl⟩

theorem Delivers.trans {a b c : Shared} {l m : List (Nat × Int)} (h1 : Delivers a b l)
    (h2 : Delivers b c m) : Delivers a c (l ++ m) := by
  obtain ⟨_, d1, c1, n1⟩ := h1
  obtain ⟨i2, d2, c2, n2⟩ := h2
  refine ⟨i2, ?_, ?_, ?_⟩
  · rw [d2, d1, List.append_assoc]
  · rw [c2, c1, List.length_append]; omega
  · rw [n2, n1]

/-- **one send executed alone** takes exactly 19 segments: started in an idle context it delivers its
    value (once), runs one collection, leaves the context idle, and the thread moves on to its next
    send; during the first 18 segments the send is still in progress -/
theorem send_alone_full (sh : Shared) (t : Thread) (s : Nat) (v : Int) (hidle : Idle sh)
    (hcur : t.cur = some (s, v)) (hpc : t.pc = .start) (hnested : t.nested = false)
    (hs : s < sh.nsinks) :
    Idle (iter 19 sh t).1 ∧
    (iter 19 sh t).1.delivered = sh.delivered ++ [(s, v)] ∧
    (iter 19 sh t).1.collects = sh.collects + 1 ∧
    (iter 19 sh t).1.nsinks = sh.nsinks ∧
    (iter 19 sh t).2 = t.next ∧
    ∀ j, j < 19 → (iter j sh t).2.cur = some (s, v) := by
  obtain ⟨ns, d, a, cn, pp, f, c, vis, del, col, uf⟩ := sh
  obtain ⟨todo, cur, pc, nested⟩ := t
  obtain ⟨hd, ha, hcn, hpp, hf, hc, hv, hu⟩ := hidle
  simp only at hd ha hcn hpp hf hc hv hu hcur hpc hnested hs
  subst hd ha hcn hpp hu hcur hpc hnested
  have key := fun j hj => iter_trace (todo := todo) (v := v) (c := c) (del := del) (col := col)
    hs hf hv j hj
  have k19 := key 19 (Nat.le_refl _)
  simp only [trace] at key k19
  refine ⟨?_, ?_, ?_, ?_, ?_, ?_⟩
  · rw [k19]
    refine ⟨rfl, rfl, rfl, rfl, ?_, ?_, ?_, rfl⟩
    · intro i; simp only [Store.get_set, hf]; split <;> rfl
    · intro i; simp only [Store.get_set, hc]; split <;> rfl
    · intro i; simp only [Store.get_set, hv]; split <;> (try split) <;> rfl
  · rw [k19]
  · rw [k19]
  · rw [k19]
  · rw [k19]
  · intro j hj
    rw [key j (by omega)]
    exact trace_cur j hj

theorem send_alone_delivers (sh : Shared) (t : Thread) (s : Nat) (v : Int) (hidle : Idle sh)
    (hcur : t.cur = some (s, v)) (hpc : t.pc = .start) (hnested : t.nested = false)
    (hs : s < sh.nsinks) : Delivers sh (iter 19 sh t).1 [(s, v)] := by
  obtain ⟨h1, h2, h3, h4, _, _⟩ := send_alone_full sh t s v hidle hcur hpc hnested hs
  exact ⟨h1, h2, h3, h4⟩

/-! ### a whole program -/

/-- a thread between two sends: finished, or about to start its next send -/
def AtRest (ns : Nat) (t : Thread) : Prop :=
  t.nested = false ∧ (t.cur = none ∨ t.pc = .start) ∧ ∀ sv ∈ remaining t, sv.1 < ns

theorem remaining_of_cur {t : Thread} {sv : Nat × Int} (h : t.cur = some sv) :
    remaining t = sv :: remaining t.next := by
  obtain ⟨todo, cur, pc, nested⟩ := t
  simp only at h; subst h
  cases todo <;> rfl

theorem remaining_of_finished {t : Thread} (h : t.finished = true) : remaining t = [] := by
  obtain ⟨todo, cur, pc, nested⟩ := t
  cases cur with
  | none => rfl
  | some sv => simp [Thread.finished] at h

theorem cur_of_unfinished {t : Thread} (h : t.finished = false) : ∃ sv, t.cur = some sv := by
  obtain ⟨todo, cur, pc, nested⟩ := t
  cases cur with
  | none => simp [Thread.finished] at h
  | some sv => exact ⟨sv, rfl⟩

theorem finished_of_remaining_nil {t : Thread} (h : remaining t = []) : t.finished = true := by
  obtain ⟨todo, cur, pc, nested⟩ := t
  cases cur with
  | none => rfl
  | some sv => simp [remaining] at h

theorem AtRest.next {ns : Nat} {t : Thread} {sv : Nat × Int} (h : AtRest ns t)
    (hc : t.cur = some sv) : AtRest ns t.next := by
  obtain ⟨hn, _, hr⟩ := h
  rw [remaining_of_cur hc] at hr
  refine ⟨?_, ?_, fun x hx => hr x (List.mem_cons_of_mem _ hx)⟩
  · obtain ⟨todo, cur, pc, nested⟩ := t
    cases todo <;> simp_all [Thread.next]
  · obtain ⟨todo, cur, pc, nested⟩ := t
    cases todo <;> simp [Thread.next]

/-- a thread at rest that is not finished is at the start of a send on a valid sink -/
theorem AtRest.start {ns : Nat} {t : Thread} {sv : Nat × Int} (h : AtRest ns t)
    (hc : t.cur = some sv) : t.pc = .start ∧ t.nested = false ∧ sv.1 < ns := by
  obtain ⟨hn, hp, hr⟩ := h
  refine ⟨?_, hn, hr sv (by rw [remaining_of_cur hc]; exact List.mem_cons_self)⟩
  rcases hp with hp | hp
  · rw [hc] at hp; cases hp
  · exact hp

/-- the initial thread of a program -/
theorem atRest_init {ns : Nat} {p : List (Nat × Int)} (h : ∀ sv ∈ p, sv.1 < ns) :
    AtRest ns ({ todo := p } : Thread).next ∧ remaining ({ todo := p } : Thread).next = p := by
  cases p with
  | nil => exact ⟨⟨rfl, Or.inl rfl, fun _ hx => by cases hx⟩, rfl⟩
  | cons sv p => exact ⟨⟨rfl, Or.inr rfl, h⟩, rfl⟩

/-- **a whole program executed alone** from an idle context: every send is delivered, once, in
    program order, in `19 * n` segments; the context ends idle and the thread finished -/
theorem program_alone_gen (n : Nat) (sh : Shared) (t : Thread) (hidle : Idle sh)
    (hrest : AtRest sh.nsinks t) (hn : (remaining t).length = n) :
    Delivers sh (iter (19 * n) sh t).1 (remaining t) ∧ (iter (19 * n) sh t).2.finished = true := by
  induction n generalizing sh t with
  | zero =>
    have h0 : remaining t = [] := List.eq_nil_of_length_eq_zero hn
    rw [h0]
    exact ⟨Delivers.refl hidle, finished_of_remaining_nil h0⟩
  | succ n ih =>
    cases hcur : t.cur with
    | none => simp [remaining, hcur] at hn
    | some sv =>
      obtain ⟨s, v⟩ := sv
      obtain ⟨hpc, hnes, hs⟩ := hrest.start hcur
      have hsend := send_alone_full sh t s v hidle hcur hpc hnes hs
      have hd := send_alone_delivers sh t s v hidle hcur hpc hnes hs
      obtain ⟨_, _, _, hns, hnext, _⟩ := hsend
      have hrem := remaining_of_cur hcur
      have hlen : (remaining t.next).length = n := by
        rw [hrem] at hn; simpa using hn
      have e : 19 * (n + 1) = 19 + 19 * n := by omega
      rw [e, iter_add, hnext, hrem]
      have := ih (iter 19 sh t).1 t.next hd.1 (by rw [hns]; exact hrest.next hcur) hlen
      exact ⟨hd.trans this.1, this.2⟩

/-! ### the scheduler follows one thread -/

theorem arr_get_eq {α} [Inhabited α] (a : Array α) (i : Nat) : a[i]! = a[i]?.getD default := by
  rw [Array.getElem!_eq_getD, Array.getD_eq_getD_getElem?]

theorem arr_get_set_same {α} [Inhabited α] (a : Array α) (i : Nat) (v : α) (h : i < a.size) :
    (a.set! i v)[i]! = v := by
  simp [Array.set!, h]

theorem arr_get_set_ne {α} [Inhabited α] (a : Array α) (i j : Nat) (v : α) (h : j ≠ i) :
    (a.set! i v)[j]! = a[j]! := by
  have : ¬ i = j := fun e => h e.symm
  simp only [arr_get_eq, Array.set!, Array.getElem?_setIfInBounds, this, if_false]

theorem arr_set_set {α} (a : Array α) (i : Nat) (v w : α) : (a.set! i v).set! i w = a.set! i w := by
  simp [Array.set!]

theorem arr_set_self {α} [Inhabited α] (a : Array α) (i : Nat) : a.set! i a[i]! = a := by
  apply Array.ext
  · simp [Array.set!]
  · intro j h1 h2
    simp only [Array.set!, Array.getElem_setIfInBounds, h2]
    split
    · next h => subst h; simp [h2]
    · rfl

theorem arr_size_set {α} (a : Array α) (i : Nat) (v : α) : (a.set! i v).size = a.size := by
  simp [Array.set!]

theorem arr_toList_set {α} (a : Array α) (i : Nat) (v : α) :
    (a.set! i v).toList = a.toList.set i v := by
  simp [Array.set!]

theorem pickNext_cons_pos {ths : Array Thread} {i : Nat} (rest : List Nat) (hi : i < ths.size)
    (hu : (ths[i]!).finished = false) : pickNext ths (i :: rest) = some (i, rest) := by
  simp only [pickNext, hi, hu, decide_true, Bool.not_false, Bool.and_self, if_true]

theorem pickNext_cons_neg {ths : Array Thread} {i : Nat} (rest : List Nat)
    (h : ¬ i < ths.size ∨ (ths[i]!).finished = true) :
    pickNext ths (i :: rest) = pickNext ths rest := by
  rcases h with h | h
  · simp only [pickNext, h, decide_false, Bool.false_and, Bool.false_eq_true, if_false]
  · simp only [pickNext, h, Bool.not_true, Bool.and_false, Bool.false_eq_true, if_false]

theorem find_range' (p : Nat → Bool) (i : Nat) (hp : p i = true) :
    ∀ n a, a ≤ i → i < a + n → (∀ j, a ≤ j → j < i → p j = false) →
      (List.range' a n).find? p = some i := by
  intro n
  induction n with
  | zero => intro a h1 h2; omega
  | succ n ih =>
    intro a h1 h2 hlow
    rw [List.range'_succ, List.find?_cons]
    by_cases e : a = i
    · subst e; rw [hp]
    · rw [hlow a (Nat.le_refl _) (by omega)]
      exact ih (a + 1) (by omega) (by omega) (fun j hj1 hj2 => hlow j (by omega) hj2)

theorem pickNext_nil_pos {ths : Array Thread} {i : Nat} (hi : i < ths.size)
    (hu : (ths[i]!).finished = false) (hlow : ∀ j, j < i → (ths[j]!).finished = true) :
    pickNext ths [] = some (i, []) := by
  have := find_range' (fun i => !(ths[i]!).finished) i (by simp [hu]) ths.size 0 (Nat.zero_le _)
    (by omega) (fun j _ hj => by simp [hlow j hj])
  simp only [pickNext, List.range_eq_range', this, Option.map_some]

theorem pickNext_nil_none {ths : Array Thread} (h : ∀ j, j < ths.size → (ths[j]!).finished = true) :
    pickNext ths [] = none := by
  have : (List.range ths.size).find? (fun i => !(ths[i]!).finished) = none := by
    rw [List.find?_eq_none]
    intro x hx
    simp [h x (List.mem_range.mp hx)]
  simp only [pickNext, this, Option.map_none]

theorem exists_least (p : Nat → Bool) : ∀ n, (∃ j, j < n ∧ p j = true) →
    ∃ i, i < n ∧ p i = true ∧ ∀ j, j < i → p j = false := by
  intro n
  induction n with
  | zero => rintro ⟨j, hj, _⟩; omega
  | succ n ih =>
    rintro ⟨j, hj, hp⟩
    by_cases h : ∃ j, j < n ∧ p j = true
    · obtain ⟨i, hi, h1, h2⟩ := ih h
      exact ⟨i, by omega, h1, h2⟩
    · have hj' : j = n := by
        by_cases e : j < n
        · exact absurd ⟨j, e, hp⟩ h
        · omega
      subst hj'
      refine ⟨j, hj, hp, fun m hm => ?_⟩
      cases hpm : p m with
      | false => rfl
      | true => exact absurd ⟨m, hm, hpm⟩ h

theorem runSched_succ_of_pick {fuel : Nat} {sh : Shared} {ths : Array Thread} {sched rest : List Nat}
    {i : Nat} (h : pickNext ths sched = some (i, rest)) :
    runSched (fuel + 1) sh ths sched =
      runSched fuel (stepThread sh ths[i]!).1 (ths.set! i (stepThread sh ths[i]!).2) rest := by
  simp only [runSched, h]

theorem runSched_of_pick_none {fuel : Nat} {sh : Shared} {ths : Array Thread} {sched : List Nat}
    (h : pickNext ths sched = none) : runSched fuel sh ths sched = (sh, ths) := by
  cases fuel with
  | zero => rfl
  | succ fuel => simp only [runSched, h]

/-- the scheduler only looks at the schedule through `pickNext` -/
theorem runSched_congr_pick {fuel : Nat} {sh : Shared} {ths : Array Thread} {s1 s2 : List Nat}
    (h : pickNext ths s1 = pickNext ths s2) : runSched fuel sh ths s1 = runSched fuel sh ths s2 := by
  cases fuel with
  | zero => rfl
  | succ fuel => simp only [runSched, h]

/-- on the empty schedule the lowest unfinished thread runs as long as it is unfinished -/
theorem runSched_nil_steps (fuel i k : Nat) : ∀ (sh : Shared) (ths : Array Thread), i < ths.size →
    (∀ j, j < i → (ths[j]!).finished = true) →
    (∀ j, j < k → (iter j sh ths[i]!).2.finished = false) →
    runSched (k + fuel) sh ths [] =
      runSched fuel (iter k sh ths[i]!).1 (ths.set! i (iter k sh ths[i]!).2) [] := by
  induction k with
  | zero => intro sh ths _ _ _; simp only [Nat.zero_add, iter_zero, arr_set_self]
  | succ k ih =>
    intro sh ths hi hlow hun
    have e : k + 1 + fuel = (k + fuel) + 1 := by omega
    have h0 : (ths[i]!).finished = false := hun 0 (by omega)
    rw [e, runSched_succ_of_pick (pickNext_nil_pos hi h0 hlow)]
    have hsz := arr_size_set ths i (stepThread sh ths[i]!).2
    have hget := arr_get_set_same ths i (stepThread sh ths[i]!).2 hi
    rw [ih _ _ (by rw [hsz]; exact hi)
      (fun j hj => by rw [arr_get_set_ne _ _ _ _ (by omega)]; exact hlow j hj)
      (fun j hj => by rw [hget]; exact hun (j + 1) (by omega))]
    rw [hget, arr_set_set]; rfl

/-- a block `replicate k i` of the schedule runs thread `i` as long as it is unfinished -/
theorem runSched_replicate_steps (fuel i k : Nat) (rest : List Nat) :
    ∀ (sh : Shared) (ths : Array Thread), i < ths.size →
    (∀ j, j < k → (iter j sh ths[i]!).2.finished = false) →
    runSched (k + fuel) sh ths (List.replicate k i ++ rest) =
      runSched fuel (iter k sh ths[i]!).1 (ths.set! i (iter k sh ths[i]!).2) rest := by
  induction k with
  | zero =>
    intro sh ths _ _
    simp only [Nat.zero_add, iter_zero, arr_set_self, List.replicate_zero, List.nil_append]
  | succ k ih =>
    intro sh ths hi hun
    have e : k + 1 + fuel = (k + fuel) + 1 := by omega
    have h0 : (ths[i]!).finished = false := hun 0 (by omega)
    rw [e, List.replicate_succ, List.cons_append,
      runSched_succ_of_pick (pickNext_cons_pos _ hi h0)]
    have hsz := arr_size_set ths i (stepThread sh ths[i]!).2
    have hget := arr_get_set_same ths i (stepThread sh ths[i]!).2 hi
    rw [ih _ _ (by rw [hsz]; exact hi)
      (fun j hj => by rw [hget]; exact hun (j + 1) (by omega))]
    rw [hget, arr_set_set]; rfl

/-- a block naming a finished (or non-existent) thread is skipped -/
theorem pickNext_replicate_skip {ths : Array Thread} {i : Nat} (rest : List Nat)
    (h : ¬ i < ths.size ∨ (ths[i]!).finished = true) (k : Nat) :
    pickNext ths (List.replicate k i ++ rest) = pickNext ths rest := by
  induction k with
  | zero => rfl
  | succ k ih => rw [List.replicate_succ, List.cons_append, pickNext_cons_neg _ h, ih]

/-! ### all threads, one after the other -/

/-- what is left of every thread's program -/
def rems (ths : Array Thread) : List (List (Nat × Int)) := ths.toList.map remaining

/-- every thread is between two sends (or finished), all sink ids valid -/
def AllRest (ns : Nat) (ths : Array Thread) : Prop := ∀ j, j < ths.size → AtRest ns ths[j]!

theorem rems_length (ths : Array Thread) : (rems ths).length = ths.size := by
  simp [rems]

theorem rems_get {ths : Array Thread} {j : Nat} (hj : j < ths.size) :
    (rems ths)[j]? = some (remaining ths[j]!) := by
  simp [rems, hj]

theorem rems_set (ths : Array Thread) (i : Nat) (t : Thread) :
    rems (ths.set! i t) = (rems ths).set i (remaining t) := by
  simp only [rems, arr_toList_set, List.map_set]

theorem rems_flatten_nil_iff (ths : Array Thread) :
    (rems ths).flatten = [] ↔ ∀ j, j < ths.size → (ths[j]!).finished = true := by
  rw [List.flatten_eq_nil_iff]
  constructor
  · intro h j hj
    exact finished_of_remaining_nil (h _ (List.mem_of_getElem? (rems_get hj)))
  · intro h l hl
    obtain ⟨j, hj⟩ := List.mem_iff_getElem?.mp hl
    have hj' : j < ths.size := by
      rw [← rems_length]
      exact (List.getElem?_eq_some_iff.mp hj).1
    rw [rems_get hj'] at hj
    cases hj
    exact remaining_of_finished (h j hj')

theorem flatten_set_head {α : Type} : ∀ (L : List (List α)) (i : Nat) (x : α) (p : List α),
    L[i]? = some (x :: p) → (∀ j, j < i → L[j]? = some []) →
    L.flatten = x :: (L.set i p).flatten := by
  intro L
  induction L with
  | nil => intro i x p h; simp at h
  | cons a L ih =>
    intro i x p h hlow
    cases i with
    | zero =>
      simp only [List.getElem?_cons_zero, Option.some.injEq] at h
      subst h
      simp only [List.set_cons_zero, List.flatten_cons, List.cons_append]
    | succ i =>
      have ha : a = [] := by
        have := hlow 0 (by omega)
        simpa using this
      subst ha
      simp only [List.getElem?_cons_succ] at h
      simp only [List.set_cons_succ, List.flatten_cons, List.nil_append]
      exact ih i x p h (fun j hj => by simpa using hlow (j + 1) (by omega))

/-- one complete send of thread `i` of the array -/
theorem send_in_array {sh : Shared} {ths : Array Thread} {i : Nat} (hidle : Idle sh)
    (hi : i < ths.size) (hrest : AllRest sh.nsinks ths) (hu : (ths[i]!).finished = false) :
    ∃ sv, remaining ths[i]! = sv :: remaining (ths[i]!).next ∧
      Delivers sh (iter 19 sh ths[i]!).1 [sv] ∧
      (iter 19 sh ths[i]!).2 = (ths[i]!).next ∧
      (∀ j, j < 19 → (iter j sh ths[i]!).2.finished = false) ∧
      AllRest (iter 19 sh ths[i]!).1.nsinks (ths.set! i (iter 19 sh ths[i]!).2) := by
  obtain ⟨⟨s, v⟩, hcur⟩ := cur_of_unfinished hu
  obtain ⟨hpc, hnes, hs⟩ := (hrest i hi).start hcur
  have hd := send_alone_delivers sh ths[i]! s v hidle hcur hpc hnes hs
  obtain ⟨_, _, _, hns, hnext, hmid⟩ := send_alone_full sh ths[i]! s v hidle hcur hpc hnes hs
  refine ⟨(s, v), remaining_of_cur hcur, hd, hnext, ?_, ?_⟩
  · intro j hj
    simp only [Thread.finished, hmid j hj, Option.isNone_some]
  · intro j hj
    rw [arr_size_set] at hj
    rw [hns, hnext]
    by_cases e : j = i
    · subst e; rw [arr_get_set_same _ _ _ hj]; exact (hrest j hj).next hcur
    · rw [arr_get_set_ne _ _ _ _ e]; exact hrest j hj

/-- **the empty schedule** (threads run one after the other, lowest id first): with enough fuel every
    send of every program is delivered, once, in program order, thread after thread; the context
    ends idle and every thread finished -/
theorem serial_runSched (N : Nat) : ∀ (sh : Shared) (ths : Array Thread) (fuel : Nat), Idle sh →
    AllRest sh.nsinks ths → (rems ths).flatten.length = N → 19 * N ≤ fuel →
    Delivers sh (runSched fuel sh ths []).1 (rems ths).flatten ∧
    (runSched fuel sh ths []).2.size = ths.size ∧
    ∀ j, j < ths.size → ((runSched fuel sh ths []).2[j]!).finished = true := by
  induction N with
  | zero =>
    intro sh ths fuel hidle _ hN _
    have h0 : (rems ths).flatten = [] := List.eq_nil_of_length_eq_zero hN
    have hfin := (rems_flatten_nil_iff ths).mp h0
    rw [runSched_of_pick_none (pickNext_nil_none hfin), h0]
    exact ⟨Delivers.refl hidle, rfl, hfin⟩
  | succ N ih =>
    intro sh ths fuel hidle hrest hN hfuel
    have hex : ∃ j, j < ths.size ∧ (!(ths[j]!).finished) = true := by
      apply Classical.byContradiction
      intro hno
      have : ∀ j, j < ths.size → (ths[j]!).finished = true := by
        intro j hj
        cases hf : (ths[j]!).finished with
        | true => rfl
        | false => exact absurd ⟨j, hj, by simp [hf]⟩ hno
      rw [(rems_flatten_nil_iff ths).mpr this] at hN
      simp at hN
    obtain ⟨i, hi, hu, hlow⟩ := exists_least (fun j => !(ths[j]!).finished) ths.size hex
    have hu' : (ths[i]!).finished = false := by simpa using hu
    have hlow' : ∀ j, j < i → (ths[j]!).finished = true := fun j hj => by simpa using hlow j hj
    obtain ⟨sv, hrem, hd, hnext, hmid, hrest'⟩ := send_in_array hidle hi hrest hu'
    have hfl : (rems ths).flatten = sv :: (rems (ths.set! i (ths[i]!).next)).flatten := by
      rw [rems_set]
      apply flatten_set_head
      · rw [rems_get hi, hrem]
      · intro j hj
        rw [rems_get (by omega), remaining_of_finished (hlow' j hj)]
    obtain ⟨fuel', rfl⟩ : ∃ f', fuel = 19 + f' := ⟨fuel - 19, by omega⟩
    rw [runSched_nil_steps fuel' i 19 sh ths hi hlow' hmid, hfl]
    rw [hnext] at hrest' ⊢
    have hN' : (rems (ths.set! i (ths[i]!).next)).flatten.length = N := by
      rw [hfl] at hN; simpa using hN
    obtain ⟨h1, h2, h3⟩ := ih _ _ fuel' hd.1 hrest' hN' (by omega)
    rw [arr_size_set] at h2 h3
    exact ⟨hd.trans h1, h2, h3⟩

/-! ### schedules made of whole-send blocks -/

/-- the schedule in which the threads named by `order` each get one block of 19 segments — one
    complete send — in turn (a block naming a finished thread is skipped); whatever is left when the
    schedule is exhausted runs serially.  No thread is ever scheduled while another one is in the
    middle of a send. -/
def blocks (order : List Nat) : List Nat := order.flatMap (List.replicate 19)

/-- the sends in the order in which they are started under `blocks order`: entry `i` of `order` starts
    the next send of program `i` (if any is left); the remainders follow, program after program -/
def serialOrder : List (List (Nat × Int)) → List Nat → List (Nat × Int)
  | ps, [] => ps.flatten
  | ps, i :: order =>
    match ps[i]? with
    | some (sv :: p) => sv :: serialOrder (ps.set i p) order
    | _ => serialOrder ps order

theorem serialOrder_nil (ps : List (List (Nat × Int))) : serialOrder ps [] = ps.flatten := rfl

theorem serialOrder_cons_pos {ps : List (List (Nat × Int))} {i : Nat} {sv : Nat × Int}
    {p : List (Nat × Int)} (order : List Nat) (h : ps[i]? = some (sv :: p)) :
    serialOrder ps (i :: order) = sv :: serialOrder (ps.set i p) order := by
  simp only [serialOrder, h]

theorem serialOrder_cons_neg {ps : List (List (Nat × Int))} {i : Nat} (order : List Nat)
    (h : ps[i]? = none ∨ ps[i]? = some []) :
    serialOrder ps (i :: order) = serialOrder ps order := by
  rcases h with h | h <;> simp only [serialOrder, h]

theorem flatten_set_perm {α : Type} : ∀ (L : List (List α)) (i : Nat) (x : α) (p : List α),
    L[i]? = some (x :: p) → (x :: (L.set i p).flatten).Perm L.flatten := by
  intro L
  induction L with
  | nil => intro i x p h; simp at h
  | cons a L ih =>
    intro i x p h
    cases i with
    | zero =>
      simp only [List.getElem?_cons_zero, Option.some.injEq] at h
      subst h
      simp only [List.set_cons_zero, List.flatten_cons, List.cons_append]
      exact List.Perm.refl _
    | succ i =>
      simp only [List.getElem?_cons_succ] at h
      simp only [List.set_cons_succ, List.flatten_cons]
      exact (List.perm_middle.symm).trans (List.Perm.append_left a (ih i x p h))

/-- whatever the order of the blocks, every send appears exactly once -/
theorem serialOrder_perm (order : List Nat) : ∀ ps : List (List (Nat × Int)),
    (serialOrder ps order).Perm ps.flatten := by
  induction order with
  | nil => intro ps; exact List.Perm.refl _
  | cons i order ih =>
    intro ps
    cases h : ps[i]? with
    | none => rw [serialOrder_cons_neg order (Or.inl h)]; exact ih ps
    | some l =>
      cases l with
      | nil => rw [serialOrder_cons_neg order (Or.inr h)]; exact ih ps
      | cons sv p =>
        rw [serialOrder_cons_pos order h]
        exact ((ih _).cons sv).trans (flatten_set_perm ps i sv p h)

/-- **exclusive schedules**: under `blocks order` (no thread is scheduled while another one is in the
    middle of a send) every send is delivered, exactly once, in the order in which the sends were
    started; the context ends idle and every thread finished -/
theorem exclusive_runSched (order : List Nat) : ∀ (sh : Shared) (ths : Array Thread) (fuel : Nat),
    Idle sh → AllRest sh.nsinks ths → 19 * (rems ths).flatten.length ≤ fuel →
    Delivers sh (runSched fuel sh ths (blocks order)).1 (serialOrder (rems ths) order) ∧
    (runSched fuel sh ths (blocks order)).2.size = ths.size ∧
    ∀ j, j < ths.size → ((runSched fuel sh ths (blocks order)).2[j]!).finished = true := by
  induction order with
  | nil =>
    intro sh ths fuel hidle hrest hfuel
    exact serial_runSched _ sh ths fuel hidle hrest rfl hfuel
  | cons i order ih =>
    intro sh ths fuel hidle hrest hfuel
    have hb : blocks (i :: order) = List.replicate 19 i ++ blocks order := by
      simp only [blocks, List.flatMap_cons]
    rw [hb]
    by_cases hact : i < ths.size ∧ (ths[i]!).finished = false
    · obtain ⟨hi, hu⟩ := hact
      obtain ⟨sv, hrem, hd, hnext, hmid, hrest'⟩ := send_in_array hidle hi hrest hu
      have hget : (rems ths)[i]? = some (sv :: remaining (ths[i]!).next) := by
        rw [rems_get hi, hrem]
      have hlen : (rems ths).flatten.length =
          (rems (ths.set! i (ths[i]!).next)).flatten.length + 1 := by
        rw [rems_set]
        have := (flatten_set_perm (rems ths) i sv _ hget).length_eq
        simpa using this.symm
      obtain ⟨fuel', rfl⟩ : ∃ f', fuel = 19 + f' := ⟨fuel - 19, by omega⟩
      rw [runSched_replicate_steps fuel' i 19 (blocks order) sh ths hi hmid,
        serialOrder_cons_pos order hget, ← rems_set]
      rw [hnext] at hrest' ⊢
      obtain ⟨h1, h2, h3⟩ := ih _ _ fuel' hd.1 hrest' (by omega)
      rw [arr_size_set] at h2 h3
      exact ⟨hd.trans h1, h2, h3⟩
    · have hskip : ¬ i < ths.size ∨ (ths[i]!).finished = true := by
        by_cases hi : i < ths.size
        · right
          cases hf : (ths[i]!).finished with
          | true => rfl
          | false => exact absurd ⟨hi, hf⟩ hact
        · left; exact hi
      rw [runSched_congr_pick (pickNext_replicate_skip (blocks order) hskip 19)]
      have hneg : (rems ths)[i]? = none ∨ (rems ths)[i]? = some [] := by
        rcases hskip with hi | hf
        · left
          rw [List.getElem?_eq_none_iff, rems_length]; omega
        · by_cases hi : i < ths.size
          · right; rw [rems_get hi, remaining_of_finished hf]
          · left; rw [List.getElem?_eq_none_iff, rems_length]; omega
      rw [serialOrder_cons_neg order hneg]
      exact ih sh ths fuel hidle hrest hfuel

/-! ### `run` -/

theorem remaining_init (p : List (Nat × Int)) : remaining ({ todo := p } : Thread).next = p := by
  cases p <;> rfl

/-- the threads `run` starts with -/
def initThreads (progs : List (List (Nat × Int))) : Array Thread :=
  (progs.map fun p => ({ todo := p } : Thread).next).toArray

theorem run_eq (nsinks : Nat) (progs : List (List (Nat × Int))) (sched : List Nat) :
    run nsinks progs sched = (runSched 4000 { nsinks := nsinks } (initThreads progs) sched).1 := rfl

theorem rems_init (progs : List (List (Nat × Int))) : rems (initThreads progs) = progs := by
  simp only [rems, initThreads, List.map_map]
  conv => rhs; rw [← List.map_id progs]
  apply List.map_congr_left
  intro p _
  exact remaining_init p

theorem allRest_init {ns : Nat} {progs : List (List (Nat × Int))}
    (h : ∀ p ∈ progs, ∀ sv ∈ p, sv.1 < ns) : AllRest ns (initThreads progs) := by
  intro j hj
  have hj' : j < progs.length := by simpa [initThreads] using hj
  have e : (initThreads progs)[j]! = ({ todo := progs[j] } : Thread).next := by
    simp [initThreads, hj']
  rw [e]
  exact (atRest_init (h _ (List.getElem_mem hj'))).1

end Conc
end SodiumVerif
