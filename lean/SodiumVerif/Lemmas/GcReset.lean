/-
  Paths along reported edges, and the exact effect of the two reset walks.
-/
import SodiumVerif.Lemmas.GcFrame

namespace SodiumVerif
namespace Gc
open State

/-! ### paths -/

/-- the reported out-edges of every object -/
def edges (g : State) : Nat → List Nat := fun i => (g.nodes.get i).traced

theorem Walk.edges {g g' : State} (h : Walk g g') : edges g' = edges g := by
  funext i; exact h.traced i

/-- path along `E` through objects satisfying `P` (both end points included) -/
inductive PReach (E : Nat → List Nat) (P : Nat → Prop) : Nat → Nat → Prop
  | refl {a} : P a → PReach E P a a
  | step {a b c} : PReach E P a b → c ∈ E b → P c → PReach E P a c

namespace PReach
variable {E : Nat → List Nat} {P P' : Nat → Prop} {a b c : Nat}

theorem mono (h : ∀ i, P i → P' i) (p : PReach E P a b) : PReach E P' a b := by
  induction p with
  | refl ha => exact .refl (h _ ha)
  | step _ hc hp ih => exact .step ih hc (h _ hp)

theorem head (p : PReach E P a b) : P a := by
  induction p with
  | refl ha => exact ha
  | step _ _ _ ih => exact ih

theorem last (p : PReach E P a b) : P b := by
  cases p with
  | refl ha => exact ha
  | step _ _ hp => exact hp

theorem trans (p : PReach E P a b) (q : PReach E P b c) : PReach E P a c := by
  induction q with
  | refl _ => exact p
  | step _ hc hp ih => exact .step ih hc hp

theorem cons (ha : P a) (hb : b ∈ E a) (q : PReach E P b c) : PReach E P a c :=
  trans (.step (.refl ha) hb q.head) q

end PReach

/-- plain reachability along reported edges -/
abbrev TReach (E : Nat → List Nat) : Nat → Nat → Prop := PReach E (fun _ => True)

theorem TReach.lt {E : Nat → List Nat} {n a b : Nat} (hE : ∀ i, ∀ t ∈ E i, t < n) (ha : a < n)
    (p : TReach E a b) : b < n := by
  cases p with
  | refl _ => exact ha
  | step _ hc _ => exact hE _ _ hc

/-! ### reset, step 1 -/

/-- what `reset1` does to an unvisited object -/
def GNode.mark1 (x : GNode) : GNode := { x with visited := true, adj := 0 }

/-- effect of (a sequence of) `reset1` walks that only touch objects in `S` -/
structure R1 (S : Nat → Prop) (g g' : State) : Prop where
  walk : WalkP g g'
  node : ∀ i, g'.nodes.get i = g.nodes.get i ∨
    ((g.nodes.get i).visited = false ∧ S i ∧ g'.nodes.get i = (g.nodes.get i).mark1 ∧
      (g'.oof = false → ∀ c ∈ (g.nodes.get i).traced, (g'.nodes.get c).visited = true))

namespace R1
variable {S : Nat → Prop} {g g' g'' : State}

theorem refl (S : Nat → Prop) (g : State) : R1 S g g := ⟨WalkP.refl g, fun _ => .inl rfl⟩

theorem vis_mono (h : R1 S g g') (i : Nat) (hv : (g.nodes.get i).visited = true) :
    (g'.nodes.get i).visited = true := by
  rcases h.node i with e | ⟨hv', _⟩
  · rw [e]; exact hv
  · rw [hv] at hv'; cases hv'

theorem trans (h1 : R1 S g g') (h2 : R1 S g' g'') : R1 S g g'' := by
  refine ⟨h1.walk.trans h2.walk, fun i => ?_⟩
  rcases h1.node i with e1 | ⟨hv, hs, e1, hc1⟩
  · rcases h2.node i with e2 | ⟨hv2, hs2, e2, hc2⟩
    · exact .inl (e2.trans e1)
    · right
      rw [e1] at hv2 e2 hc2
      exact ⟨hv2, hs2, e2, hc2⟩
  · rcases h2.node i with e2 | ⟨hv2, _⟩
    · right
      refine ⟨hv, hs, e2.trans e1, fun ho c hc => ?_⟩
      exact h2.vis_mono c (hc1 (h2.walk.toWalk.oof_false ho) c hc)
    · rw [e1] at hv2; simp [GNode.mark1] at hv2

theorem mono {S' : Nat → Prop} (hS : ∀ i, S i → S' i) (h : R1 S g g') : R1 S' g g' :=
  ⟨h.walk, fun i => (h.node i).imp id fun ⟨a, b, c⟩ => ⟨a, hS i b, c⟩⟩

end R1

theorem r1_of_nodes_eq {S : Nat → Prop} {g g' : State} (hw : WalkP g g') (h : g'.nodes = g.nodes) :
    R1 S g g' := ⟨hw, fun i => .inl (by rw [h])⟩

theorem reset1_spec : ∀ (fuel s : Nat) (g : State),
    R1 (TReach (edges g) s) g (reset1 fuel s g) ∧
      ((reset1 fuel s g).oof = false → ((reset1 fuel s g).nodes.get s).visited = true) := by
  intro fuel
  induction fuel with
  | zero =>
    intro s g
    exact ⟨r1_of_nodes_eq (walkP_oof g) rfl, fun h => by simp [reset1_zero] at h⟩
  | succ fuel ih =>
    intro s g
    rw [reset1_succ]
    by_cases hv : (g.nodes.get s).visited = true
    · rw [if_pos hv]; exact ⟨R1.refl _ g, fun _ => hv⟩
    · rw [if_neg hv]
      have hv' : (g.nodes.get s).visited = false := by simpa using hv
      generalize hg1 : (g.upd s fun x => { x with visited := true, adj := 0 }).tick = g1
      have hw1 : WalkP g g1 := by
        rw [← hg1]; exact (walkP_upd g s _ rfl).trans (walkP_tick _)
      have hn1 : ∀ i, g1.nodes.get i = if i = s then (g.nodes.get s).mark1 else g.nodes.get i := by
        intro i; rw [← hg1]; simp only [State.upd, State.tick, Store.get_set]; rfl
      have hfold := foldl_rel_all (R := R1 (TReach (edges g) s))
        (I := fun a => edges a = edges g)
        (Q := fun t a => a.oof = false → (a.nodes.get t).visited = true)
        (f := fun g t => reset1 fuel t g.tickE)
        (R1.refl _) (fun _ _ _ => R1.trans)
        (fun a b ha hab => hab.walk.toWalk.edges.trans ha)
        (fun t a a' haa' hq ho => haa'.vis_mono t (hq (haa'.walk.toWalk.oof_false ho)))
        (g.nodes.get s).traced g1 hw1.toWalk.edges
        (by
          intro a ha t ht
          have h := ih t a.tickE
          have he : edges a.tickE = edges g := ha
          rw [he] at h
          refine ⟨(r1_of_nodes_eq (walkP_tickE a) rfl).trans (h.1.mono ?_), h.2⟩
          intro i hi
          exact PReach.cons trivial ht hi)
      unfold overEdges
      generalize List.foldl (fun g t => reset1 fuel t g.tickE) g1 (g.nodes.get s).traced = g' at hfold
      obtain ⟨hR, hQ⟩ := hfold
      have hs' : g'.nodes.get s = (g.nodes.get s).mark1 := by
        rcases hR.node s with e | ⟨hv1, _⟩
        · rw [e, hn1, if_pos rfl]
        · rw [hn1, if_pos rfl] at hv1; simp [GNode.mark1] at hv1
      refine ⟨⟨hw1.trans hR.walk, fun i => ?_⟩, fun _ => by rw [hs']; rfl⟩
      by_cases hi : i = s
      · subst hi
        exact .inr ⟨hv', .refl trivial, hs', fun ho c hc => hQ c hc ho⟩
      · have := hR.node i
        rw [hn1, if_neg hi] at this
        exact this

/-! ### reset, step 2 -/

def GNode.unmark (x : GNode) : GNode := { x with visited := false }

/-- effect of (a sequence of) `reset2` walks -/
structure R2 (g g' : State) : Prop where
  walk : WalkP g g'
  node : ∀ i, g'.nodes.get i = g.nodes.get i ∨
    ((g.nodes.get i).visited = true ∧ g'.nodes.get i = (g.nodes.get i).unmark ∧
      (g'.oof = false → ∀ c ∈ (g.nodes.get i).traced, (g'.nodes.get c).visited = false))

namespace R2
variable {g g' g'' : State}

theorem refl (g : State) : R2 g g := ⟨WalkP.refl g, fun _ => .inl rfl⟩

theorem vis_anti (h : R2 g g') (i : Nat) (hv : (g.nodes.get i).visited = false) :
    (g'.nodes.get i).visited = false := by
  rcases h.node i with e | ⟨hv', _⟩
  · rw [e]; exact hv
  · rw [hv] at hv'; cases hv'

theorem trans (h1 : R2 g g') (h2 : R2 g' g'') : R2 g g'' := by
  refine ⟨h1.walk.trans h2.walk, fun i => ?_⟩
  rcases h1.node i with e1 | ⟨hv, e1, hc1⟩
  · rcases h2.node i with e2 | ⟨hv2, e2, hc2⟩
    · exact .inl (e2.trans e1)
    · right
      rw [e1] at hv2 e2 hc2
      exact ⟨hv2, e2, hc2⟩
  · rcases h2.node i with e2 | ⟨hv2, _⟩
    · right
      refine ⟨hv, e2.trans e1, fun ho c hc => ?_⟩
      exact h2.vis_anti c (hc1 (h2.walk.toWalk.oof_false ho) c hc)
    · rw [e1] at hv2; simp [GNode.unmark] at hv2

end R2

theorem r2_of_nodes_eq {g g' : State} (hw : WalkP g g') (h : g'.nodes = g.nodes) :
    R2 g g' := ⟨hw, fun i => .inl (by rw [h])⟩

theorem reset2_spec : ∀ (fuel s : Nat) (g : State),
    R2 g (reset2 fuel s g) ∧
      ((reset2 fuel s g).oof = false → ((reset2 fuel s g).nodes.get s).visited = false) := by
  intro fuel
  induction fuel with
  | zero =>
    intro s g
    exact ⟨r2_of_nodes_eq (walkP_oof g) rfl, fun h => by simp [reset2_zero] at h⟩
  | succ fuel ih =>
    intro s g
    rw [reset2_succ]
    by_cases hv : (g.nodes.get s).visited = true
    · rw [if_pos hv]
      generalize hg1 : (g.upd s fun x => { x with visited := false }).tick = g1
      have hw1 : WalkP g g1 := by
        rw [← hg1]; exact (walkP_upd g s _ rfl).trans (walkP_tick _)
      have hn1 : ∀ i, g1.nodes.get i = if i = s then (g.nodes.get s).unmark else g.nodes.get i := by
        intro i; rw [← hg1]; simp only [State.upd, State.tick, Store.get_set]; rfl
      have hfold := foldl_rel_all (R := R2)
        (I := fun _ => True)
        (Q := fun t a => a.oof = false → (a.nodes.get t).visited = false)
        (f := fun g t => reset2 fuel t g.tickE)
        R2.refl (fun _ _ _ => R2.trans)
        (fun _ _ _ _ => trivial)
        (fun t a a' haa' hq ho => haa'.vis_anti t (hq (haa'.walk.toWalk.oof_false ho)))
        (g.nodes.get s).traced g1 trivial
        (by
          intro a _ t _
          have h := ih t a.tickE
          exact ⟨(r2_of_nodes_eq (walkP_tickE a) rfl).trans h.1, h.2⟩)
      unfold overEdges
      generalize List.foldl (fun g t => reset2 fuel t g.tickE) g1 (g.nodes.get s).traced = g' at hfold
      obtain ⟨hR, hQ⟩ := hfold
      have hs' : g'.nodes.get s = (g.nodes.get s).unmark := by
        rcases hR.node s with e | ⟨hv1, _⟩
        · rw [e, hn1, if_pos rfl]
        · rw [hn1, if_pos rfl] at hv1; simp [GNode.unmark] at hv1
      refine ⟨⟨hw1.trans hR.walk, fun i => ?_⟩, fun _ => by rw [hs']; rfl⟩
      by_cases hi : i = s
      · subst hi
        exact .inr ⟨hv, hs', fun ho c hc => hQ c hc ho⟩
      · have := hR.node i
        rw [hn1, if_neg hi] at this
        exact this
    · rw [if_neg hv]; exact ⟨R2.refl g, fun _ => by simpa using hv⟩

/-! ### both steps from an unvisited state -/

theorem GNode.unmark_mark1 (x : GNode) (h : x.visited = false) :
    x.mark1.unmark = { x with adj := 0 } := by
  cases x; simp only [GNode.mark1, GNode.unmark] at *; simp [h]

/-- Starting with no object visited, the two reset walks over `rs` zero the adjustment of
    exactly the objects reachable from `rs` and change nothing else. -/
theorem reset_walks (f1 f2 : Nat) (rs : List Nat) (g g1 g2 : State)
    (hg1 : rs.foldl (fun g r => reset1 f1 r g) g = g1)
    (hg2 : rs.foldl (fun g r => reset2 f2 r g) g1 = g2)
    (hv : ∀ i, (g.nodes.get i).visited = false) (ho : g2.oof = false) :
    WalkP g g2 ∧
    (∀ i, (∃ r ∈ rs, TReach (edges g) r i) → g2.nodes.get i = { g.nodes.get i with adj := 0 }) ∧
    (∀ i, (¬ ∃ r ∈ rs, TReach (edges g) r i) → g2.nodes.get i = g.nodes.get i) := by
  have h1 := foldl_rel_all (R := R1 (fun i => ∃ r ∈ rs, TReach (edges g) r i))
    (I := fun a => edges a = edges g)
    (Q := fun t a => a.oof = false → (a.nodes.get t).visited = true)
    (f := fun g r => reset1 f1 r g)
    (R1.refl _) (fun _ _ _ => R1.trans)
    (fun a b ha hab => hab.walk.toWalk.edges.trans ha)
    (fun t a a' haa' hq ho => haa'.vis_mono t (hq (haa'.walk.toWalk.oof_false ho)))
    rs g rfl
    (by
      intro a ha r hr
      have h := reset1_spec f1 r a
      rw [ha] at h
      exact ⟨h.1.mono (fun i hi => ⟨r, hr, hi⟩), h.2⟩)
  rw [hg1] at h1
  have h2 := foldl_rel_all (R := R2)
    (I := fun _ => True)
    (Q := fun t a => a.oof = false → (a.nodes.get t).visited = false)
    (f := fun g r => reset2 f2 r g)
    R2.refl (fun _ _ _ => R2.trans)
    (fun _ _ _ _ => trivial)
    (fun t a a' haa' hq ho => haa'.vis_anti t (hq (haa'.walk.toWalk.oof_false ho)))
    rs g1 trivial
    (by intro a _ r _; exact reset2_spec f2 r a)
  rw [hg2] at h2
  obtain ⟨hR1, hQ1⟩ := h1
  obtain ⟨hR2, hQ2⟩ := h2
  have ho1 : g1.oof = false := hR2.walk.toWalk.oof_false ho
  -- after step 1 exactly the reachable objects are visited
  have hA : ∀ i, (∃ r ∈ rs, TReach (edges g) r i) → (g1.nodes.get i).visited = true := by
    rintro i ⟨r, hr, p⟩
    induction p with
    | refl _ => exact hQ1 r hr ho1
    | @step b c _ hc _ ih =>
      rcases hR1.node b with e | ⟨_, _, _, hcl⟩
      · rw [e, hv b] at ih; cases ih
      · exact hcl ho1 c hc
  have hA' : ∀ i, (∃ r ∈ rs, TReach (edges g) r i) → g1.nodes.get i = (g.nodes.get i).mark1 := by
    intro i hi
    rcases hR1.node i with e | ⟨_, _, e, _⟩
    · have := hA i hi; rw [e, hv i] at this; cases this
    · exact e
  have hB : ∀ i, (¬ ∃ r ∈ rs, TReach (edges g) r i) → g1.nodes.get i = g.nodes.get i := by
    intro i hi
    rcases hR1.node i with e | ⟨_, hs, _, _⟩
    · exact e
    · exact absurd hs hi
  have hC : ∀ i, (∃ r ∈ rs, TReach (edges g) r i) → (g2.nodes.get i).visited = false := by
    rintro i ⟨r, hr, p⟩
    induction p with
    | refl _ => exact hQ2 r hr ho
    | @step b c hp hc _ ih =>
      rcases hR2.node b with e | ⟨_, _, hcl⟩
      · rw [e, hA b ⟨r, hr, hp⟩] at ih; cases ih
      · refine hcl ho c ?_
        rw [hR1.walk.toWalk.traced b]; exact hc
  refine ⟨hR1.walk.trans hR2.walk, ?_, ?_⟩
  · intro i hi
    rcases hR2.node i with e | ⟨_, e, _⟩
    · have := hC i hi; rw [e, hA i hi] at this; cases this
    · rw [e, hA' i hi, GNode.unmark_mark1 _ (hv i)]
  · intro i hi
    rcases hR2.node i with e | ⟨hvi, _, _⟩
    · rw [e, hB i hi]
    · rw [hB i hi, hv i] at hvi; cases hvi

end Gc
end SodiumVerif
