/-
  "A destructor runs at most once": the invariant `DtorOnce` is preserved by every operation of
  the collector model and by every client operation of the script level, with no other
  hypothesis on the state (except freshness of the record `newNode` overwrites).
-/
import SodiumVerif.Lemmas.GcFrame
import SodiumVerif.Model.GcScript

namespace SodiumVerif
namespace Gc
open State

/-- every destructor ran at most once and the log lists each run exactly once -/
structure DtorOnce (g : State) : Prop where
  le  : ∀ i, (g.nodes.get i).dtorRuns ≤ 1
  log : g.dtorLog.Nodup
  mem : ∀ i ∈ g.dtorLog, (g.nodes.get i).dtorRuns = 1

/-! ### the frame: destructor bookkeeping untouched -/

structure DF (g g' : State) : Prop where
  runs : ∀ i, (g'.nodes.get i).dtorRuns = (g.nodes.get i).dtorRuns
  log  : g'.dtorLog = g.dtorLog

namespace DF
variable {g g' g'' : State}
theorem refl (g : State) : DF g g := ⟨fun _ => rfl, rfl⟩
theorem trans (h1 : DF g g') (h2 : DF g' g'') : DF g g'' :=
  ⟨fun i => (h2.runs i).trans (h1.runs i), h2.log.trans h1.log⟩
end DF

theorem Walk.df {g g' : State} (h : Walk g g') : DF g g' := ⟨h.dtorRuns, h.dtorLog⟩
theorem WalkP.df {g g' : State} (h : WalkP g g') : DF g g' := h.toWalk.df

theorem DtorOnce.of_df {g g' : State} (h : DtorOnce g) (d : DF g g') : DtorOnce g' := by
  refine ⟨fun i => ?_, ?_, fun i hi => ?_⟩
  · rw [d.runs]; exact h.le i
  · rw [d.log]; exact h.log
  · rw [d.runs]; rw [d.log] at hi; exact h.mem i hi

theorem df_upd (g : State) (a : Nat) (f : GNode → GNode)
    (hf : (f (g.nodes.get a)).dtorRuns = (g.nodes.get a).dtorRuns) : DF g (g.upd a f) := by
  refine ⟨fun i => ?_, rfl⟩
  by_cases hi : i = a
  · subst hi; simp only [Store.get_set, if_true]; exact hf
  · simp only [Store.get_set, hi, if_false]

theorem df_setPanic (g : State) (p : Panic) : DF g (g.setPanic p) := (walk_setPanic g p).df
theorem df_roots (g : State) (l : List Nat) : DF g { g with roots := l } := ⟨fun _ => rfl, rfl⟩
theorem df_toBeFreed (g : State) (l : List Nat) : DF g { g with toBeFreed := l } :=
  ⟨fun _ => rfl, rfl⟩
theorem df_oof (g : State) : DF g { g with oof := true } := ⟨fun _ => rfl, rfl⟩

theorem df_foldl {β : Type} {f : State → β → State} (h : ∀ g b, DF g (f g b)) (l : List β)
    (g : State) : DF g (l.foldl f g) :=
  foldl_rel (I := fun _ => True) DF.refl (fun _ _ _ => DF.trans) (fun _ _ _ _ => trivial)
    l g trivial (fun a _ b _ => h a b)

/-- the generic client update: a function that leaves `dtorRuns` alone -/
theorem dtorOnce_upd {g : State} {a : Nat} {f : GNode → GNode} (h : DtorOnce g)
    (hf : (f (g.nodes.get a)).dtorRuns = (g.nodes.get a).dtorRuns) : DtorOnce (g.upd a f) :=
  h.of_df (df_upd g a f hf)

theorem dtorOnce_setPanic {g : State} (h : DtorOnce g) (p : Panic) : DtorOnce (g.setPanic p) :=
  h.of_df (df_setPanic g p)

/-! ### reference counting operations -/

theorem df_incRef (g : State) (n : Nat) : DF g (incRef g n) := by
  unfold incRef
  split
  · exact df_setPanic _ _
  · exact df_upd _ _ _ (by rfl)

theorem df_incRefIfAlive (g : State) (n : Nat) : DF g (incRefIfAlive g n).1 := by
  unfold incRefIfAlive
  extract_lets x
  split
  · dsimp only
    exact df_upd g n _ (by rfl)
  · exact DF.refl g

theorem df_possibleRoot (g : State) (n : Nat) : DF g (possibleRoot g n) := by
  unfold possibleRoot
  split
  · extract_lets g1
    have h1 : DF g g1 := df_upd g n _ (by rfl)
    split
    · refine DF.trans ?_ (df_roots _ _)
      exact h1.trans (df_upd g1 n _ (by rfl))
    · exact h1
  · exact DF.refl g

theorem df_decRef (g : State) (n : Nat) : DF g (decRef g n) := by
  unfold decRef
  split
  · exact DF.refl g
  · extract_lets g1
    have h1 : DF g g1 := df_upd g n _ (by rfl)
    exact h1.trans (df_possibleRoot _ _)

theorem dtorOnce_init : DtorOnce {} := by
  refine ⟨fun i => ?_, List.nodup_nil, fun i hi => ?_⟩
  · rw [show ({} : State).nodes = Store.empty from rfl, Store.get_empty]; exact Nat.zero_le 1
  · cases hi

theorem dtorOnce_newNode {g : State} (h : DtorOnce g) (h0 : (g.nodes.get g.nextId).dtorRuns = 0) :
    DtorOnce (newNode g).1 := by
  refine ⟨fun i => ?_, h.log, fun i hi => ?_⟩
  · simp only [newNode, Store.get_set]
    split
    · exact Nat.zero_le _
    · exact h.le i
  · simp only [newNode, Store.get_set]
    have h1 := h.mem i hi
    split
    · next e => subst e; rw [h0] at h1; cases h1
    · exact h1

theorem dtorOnce_newNode_of_inv {g : State} (h : DtorOnce g) (hi : GcInv g) :
    DtorOnce (newNode g).1 :=
  dtorOnce_newNode h (by rw [hi.fresh g.nextId (Nat.le_refl _)]; rfl)

theorem dtorOnce_incRef {g : State} (h : DtorOnce g) (n : Nat) : DtorOnce (incRef g n) :=
  h.of_df (df_incRef g n)
theorem dtorOnce_incRefIfAlive {g : State} (h : DtorOnce g) (n : Nat) :
    DtorOnce (incRefIfAlive g n).1 := h.of_df (df_incRefIfAlive g n)
theorem dtorOnce_possibleRoot {g : State} (h : DtorOnce g) (n : Nat) :
    DtorOnce (possibleRoot g n) := h.of_df (df_possibleRoot g n)
theorem dtorOnce_decRef {g : State} (h : DtorOnce g) (n : Nat) : DtorOnce (decRef g n) :=
  h.of_df (df_decRef g n)

/-! ### `free` -/

/-- running the destructor of an object whose destructor has not run -/
theorem dtorOnce_run {g : State} {n : Nat} {f : GNode → GNode} (h : DtorOnce g)
    (h0 : (g.nodes.get n).dtorRuns = 0) (hf : (f (g.nodes.get n)).dtorRuns = 1) :
    DtorOnce { g.upd n f with dtorLog := g.dtorLog ++ [n] } := by
  have hn : n ∉ g.dtorLog := fun hm => by have := h.mem n hm; omega
  refine ⟨fun i => ?_, ?_, fun i hi => ?_⟩
  · simp only [Store.get_set]
    split
    · omega
    · exact h.le i
  · show (g.dtorLog ++ [n]).Nodup
    rw [List.nodup_append]
    refine ⟨h.log, List.nodup_cons.mpr ⟨List.not_mem_nil, List.nodup_nil⟩, ?_⟩
    intro a ha b hb
    rw [List.mem_singleton] at hb
    subst hb
    intro e; subst e; exact hn ha
  · simp only [Store.get_set]
    have hi' : i ∈ g.dtorLog ++ [n] := hi
    rw [List.mem_append, List.mem_singleton] at hi'
    split
    · exact hf
    · next hne =>
      rcases hi' with hi' | hi'
      · exact h.mem i hi'
      · exact absurd hi' hne

theorem dtorOnce_free {g : State} (h : DtorOnce g) (n : Nat) : DtorOnce (free g n) := by
  unfold free
  extract_lets x g1
  have h1 : DtorOnce g1 := dtorOnce_upd (a := n) h (by rfl)
  split
  · next h0 =>
    refine DtorOnce.of_df ?_ (df_foldl df_decRef _ _)
    refine dtorOnce_run (n := n) h1 ?_ ?_
    · simp only [g1, Store.get_set, if_true]; exact h0
    · simp only [g1, Store.get_set, if_true]; simp only [x, State.node] at h0; rw [h0]
  · exact dtorOnce_upd (a := n) h1 (by rfl)

theorem dtorOnce_freeCollected {g : State} (h : DtorOnce g) (i : Nat) :
    DtorOnce (freeCollected g i) := by
  unfold freeCollected
  split
  · extract_lets g1
    exact (dtorOnce_free h i).of_df (df_roots _ _)
  · exact h

theorem dtorOnce_foldl {β : Type} {f : State → β → State}
    (hf : ∀ g b, DtorOnce g → DtorOnce (f g b)) (l : List β) :
    ∀ g, DtorOnce g → DtorOnce (l.foldl f g) := by
  induction l with
  | nil => intro g h; exact h
  | cons x t ih => intro g h; exact ih _ (hf g x h)

theorem df_checkZero (g : State) (l : List Nat) : DF g (checkZero g l) := by
  unfold checkZero
  refine df_foldl ?_ l g
  intro g i
  split
  · exact df_setPanic _ _
  · exact DF.refl g

theorem dtorOnce_checkZero {g : State} (h : DtorOnce g) (l : List Nat) :
    DtorOnce (checkZero g l) := h.of_df (df_checkZero g l)

/-! ### the walks -/

theorem dtorOnce_reset1 {g : State} (h : DtorOnce g) (fuel s : Nat) :
    DtorOnce (reset1 fuel s g) := h.of_df (reset1_walkP fuel s g).df
theorem dtorOnce_reset2 {g : State} (h : DtorOnce g) (fuel s : Nat) :
    DtorOnce (reset2 fuel s g) := h.of_df (reset2_walkP fuel s g).df
theorem dtorOnce_markGray {g : State} (h : DtorOnce g) (fuel s : Nat) :
    DtorOnce (markGray fuel s g) := h.of_df (markGray_walk fuel s g).df
theorem dtorOnce_scanBlack {g : State} (h : DtorOnce g) (fuel s : Nat) :
    DtorOnce (scanBlack fuel s g) := h.of_df (scanBlack_walkP fuel s g).df
theorem dtorOnce_scan {g : State} (h : DtorOnce g) (fuel s : Nat) :
    DtorOnce (scan fuel s g) := h.of_df (scan_walkP fuel s g).df
theorem dtorOnce_collectWhite {gw : State × List Nat} (h : DtorOnce gw.1) (fuel s : Nat) :
    DtorOnce (collectWhite fuel s gw).1 := h.of_df (collectWhite_walkP fuel s gw).df
theorem dtorOnce_displayGraph {g : State} (h : DtorOnce g) (fuel : Nat) (st : List Nat)
    (seen : Store Bool) : DtorOnce (displayGraph fuel st seen g) :=
  h.of_df (displayGraph_walkP fuel st seen g).df

/-! ### the phases of a pass -/

theorem df_foldl_pair {β γ : Type} {f : State × γ → β → State × γ}
    (h : ∀ a b, DF a.1 (f a b).1) (l : List β) (a : State × γ) : DF a.1 (l.foldl f a).1 :=
  foldl_rel (R := fun a b : State × γ => DF a.1 b.1) (I := fun _ => True)
    (fun a => DF.refl a.1) (fun _ _ _ => DF.trans) (fun _ _ _ _ => trivial) l a
    trivial (fun a _ b _ => h a b)

theorem df_markRoots (g : State) : DF g (markRoots g) := by
  unfold markRoots
  extract_lets old g1 g2 f g3 g4
  have h1 : DF g g1 := df_roots g []
  have h2 : DF g1 g2 := (displayGraph_walkP _ _ _ _).df
  have h3 : DF g2 g3 := df_foldl (fun g r => (reset1_walkP _ r g).df) _ _
  have h4 : DF g3 g4 := df_foldl (fun g r => (reset2_walkP _ r g).df) _ _
  have h14 := ((h1.trans h2).trans h3).trans h4
  split
  next g5 new heq =>
  have e1 : _ = g5 := congrArg Prod.fst heq
  subst e1
  refine (h14.trans ?_).trans (df_roots _ _)
  refine df_foldl_pair ?_ old (g4, [])
  intro a r
  split
  next g new =>
  show DF g _
  split
  · exact (markGray_walk _ r g).df
  · extract_lets g' x
    have h5 : DF g g' := df_upd g r _ (by rfl)
    split
    · exact h5.trans (df_toBeFreed _ _)
    · exact h5

theorem df_scanRoots (g : State) : DF g (scanRoots g) := by
  unfold scanRoots
  extract_lets rs g1 f g2 g3 g4
  have h1 : DF g g1 := df_roots g []
  have h2 : DF g1 g2 := df_foldl (fun g r => (scan_walkP _ r g).df) _ _
  have h3 : DF g2 g3 := df_foldl (fun g r => (reset1_walkP _ r g).df) _ _
  have h4 : DF g3 g4 := df_foldl (fun g r => (reset2_walkP _ r g).df) _ _
  exact (((h1.trans h2).trans h3).trans h4).trans (df_roots _ _)

theorem dtorOnce_markRoots {g : State} (h : DtorOnce g) : DtorOnce (markRoots g) :=
  h.of_df (df_markRoots g)
theorem dtorOnce_scanRoots {g : State} (h : DtorOnce g) : DtorOnce (scanRoots g) :=
  h.of_df (df_scanRoots g)

theorem dtorOnce_collectRoots {g : State} (h : DtorOnce g) : DtorOnce (collectRoots g) := by
  unfold collectRoots
  extract_lets rs g1 f
  have h1 : DtorOnce g1 := h.of_df (df_roots g [])
  split
  next g2 white heq =>
  have e1 : _ = g2 := congrArg Prod.fst heq
  subst e1
  extract_lets g3 tbf g4 g5 g6
  have h2 : DtorOnce g3 := by
    refine dtorOnce_foldl (fun g i h => dtorOnce_freeCollected h i) _ _ ?_
    refine h1.of_df (df_foldl_pair ?_ rs (g1, []))
    intro a r
    extract_lets g'
    have h5 : DF a.1 g' := df_upd a.1 r _ (by rfl)
    exact h5.trans (collectWhite_walkP _ r (_, a.2)).df
  have h3 : DtorOnce g4 := h2.of_df (df_toBeFreed _ _)
  have h4 : DtorOnce g5 := dtorOnce_foldl (fun g i h => dtorOnce_freeCollected h i) _ _ h3
  exact dtorOnce_checkZero (dtorOnce_checkZero h4 _) _

theorem dtorOnce_onePass {g : State} (h : DtorOnce g) : DtorOnce (onePass g) :=
  dtorOnce_collectRoots (dtorOnce_scanRoots (dtorOnce_markRoots h))

theorem dtorOnce_collectLoop : ∀ (fuel : Nat) {g : State}, DtorOnce g →
    DtorOnce (collectLoop fuel g) := by
  intro fuel
  induction fuel with
  | zero => intro g h; exact h.of_df (df_oof g)
  | succ fuel ih =>
    intro g h
    unfold collectLoop
    extract_lets g1
    have h1 : DtorOnce g1 := dtorOnce_onePass h
    split
    · exact h1
    · split
      · exact h1
      · exact ih h1

theorem dtorOnce_collectCycles {g : State} (h : DtorOnce g) : DtorOnce (collectCycles g) :=
  dtorOnce_collectLoop _ h

end Gc

/-! ### the script level -/

namespace GcScript
open Gc

/-- every client operation preserves `DtorOnce`; freshness is only used for `.new` -/
theorem dtor_once (s : St) (op : Op) (s' : St) (ha : apply s op = some s')
    (h : DtorOnce s.g) (h0 : (s.g.nodes.get s.g.nextId).dtorRuns = 0) : DtorOnce s'.g := by
  cases op with
  | new =>
    simp only [apply, Option.some.injEq] at ha
    subst ha
    exact dtorOnce_newNode h h0
  | inc a =>
    simp only [apply] at ha
    split at ha
    · simp only [Option.some.injEq] at ha; subst ha; exact dtorOnce_incRef h a
    · cases ha
  | dec a =>
    simp only [apply] at ha
    split at ha
    · simp only [Option.some.injEq] at ha; subst ha; exact dtorOnce_decRef h a
    · cases ha
  | deref a b =>
    simp only [apply] at ha
    split at ha
    · simp only [Option.some.injEq] at ha; subst ha; exact dtorOnce_incRef h b
    · cases ha
  | edge a b =>
    simp only [apply] at ha
    split at ha
    · simp only [Option.some.injEq] at ha; subst ha
      dsimp only
      exact dtorOnce_upd (dtorOnce_incRef h b) (by rfl)
    · cases ha
  | unedge a b =>
    simp only [apply] at ha
    split at ha
    · simp only [Option.some.injEq] at ha; subst ha
      exact dtorOnce_decRef (dtorOnce_upd h (by rfl)) b
    · cases ha
  | tedge a b =>
    simp only [apply] at ha
    split at ha
    · simp only [Option.some.injEq] at ha; subst ha
      dsimp only
      exact dtorOnce_upd h (by rfl)
    · cases ha
  | oedge a b =>
    simp only [apply] at ha
    split at ha
    · simp only [Option.some.injEq] at ha; subst ha
      dsimp only
      exact dtorOnce_upd (dtorOnce_incRef h b) (by rfl)
    · cases ha
  | updrop a =>
    simp only [apply] at ha
    split at ha
    · simp only [Option.some.injEq] at ha; subst ha
      dsimp only
      split
      · exact dtorOnce_decRef (dtorOnce_incRefIfAlive h a) a
      · exact dtorOnce_incRefIfAlive h a
    · cases ha
  | collect =>
    simp only [apply, Option.some.injEq] at ha
    subst ha
    exact dtorOnce_collectCycles h
  | reset =>
    simp only [apply, Option.some.injEq] at ha
    subst ha
    exact dtorOnce_init
  | bad => simp only [apply] at ha; cases ha
  | brief => simp only [apply, Option.some.injEq] at ha; subst ha; exact h
  | full => simp only [apply, Option.some.injEq] at ha; subst ha; exact h
  | dump => simp only [apply, Option.some.injEq] at ha; subst ha; exact h

end GcScript
end SodiumVerif
