import SodiumVerif.Lemmas.GcPhaseScan
namespace SodiumVerif
namespace Gc
open State

/-!
  The converse direction of the `Sc` specification of `scan` / `scan_black`: every object these
  walks turn black has a cause.  It is reachable along reported edges from an object that was
  gray with `adj ≠ rc` when it was scanned.
-/

/-- every object blackened between `g` and `g'` is reachable from a source -/
def BlackCause (Src : Nat → Prop) (g g' : State) : Prop :=
  ∀ i, (g.nodes.get i).color ≠ .black → (g'.nodes.get i).color = .black →
    ∃ r, Src r ∧ TReach (edges g) r i

/-- a gray object whose adjustment differs from its count -/
def ScanSrc (g : State) (r : Nat) : Prop :=
  (g.nodes.get r).color = .gray ∧ (g.nodes.get r).adj ≠ (g.nodes.get r).rc

theorem BlackCause.refl (Src : Nat → Prop) (g : State) : BlackCause Src g g :=
  fun _ hn hb => absurd hb hn

/-- sources only disappear during scanning -/
theorem ScanSrc.of_sc {g a : State} (h : Sc g a) {r : Nat} (hr : ScanSrc a r) : ScanSrc g r := by
  obtain ⟨hc, ha⟩ := hr
  refine ⟨?_, ?_⟩
  · by_cases hg : (g.nodes.get r).color = .gray
    · exact hg
    · exact absurd hc (h.nongray_mono r hg)
  · rw [← h.adj r, ← h.walk.toWalk.rc r]; exact ha

/-! ### `scan_black` -/

theorem scanBlack_fold_cause (fuel s : Nat) (g : State)
    (ih : ∀ (t : Nat) (g : State), BlackCause (· = t) g (scanBlack fuel t g)) :
    ∀ (l : List Nat) (a : State), (∀ t ∈ l, t ∈ edges g s) → edges a = edges g →
      BlackCause (· = s) g a →
      BlackCause (· = s) g (l.foldl (fun g t =>
        if (g.nodes.get t).color ≠ .black then scanBlack fuel t g.tickE else g.tickE) a) := by
  intro l
  induction l with
  | nil => intro a _ _ h; exact h
  | cons t l ihl =>
    intro a hl he hc
    simp only [List.foldl_cons]
    have he' : edges a.tickE = edges g := (walkP_tickE a).toWalk.edges.trans he
    apply ihl
    · intro u hu; exact hl u (List.mem_cons_of_mem _ hu)
    · split
      · exact (scanBlack_walkP fuel t a.tickE).toWalk.edges.trans he'
      · exact he'
    · split
      · intro i hn hb
        by_cases hba : (a.nodes.get i).color = .black
        · exact hc i hn hba
        · obtain ⟨r, hr, p⟩ := ih t a.tickE i hba hb
          have hr' : r = t := hr
          rw [he', hr'] at p
          exact ⟨s, rfl, PReach.cons trivial (hl t List.mem_cons_self) p⟩
      · intro i hn hb; exact hc i hn hb

theorem scanBlack_cause : ∀ (fuel s : Nat) (g : State),
    BlackCause (· = s) g (scanBlack fuel s g) := by
  intro fuel
  induction fuel with
  | zero =>
    intro s g i hn hb
    rw [scanBlack_zero] at hb
    exact absurd hb hn
  | succ fuel ih =>
    intro s g
    rw [scanBlack_succ]
    apply scanBlack_fold_cause fuel s g ih
    · intro t ht; exact ht
    · exact ((walkP_upd g s (fun x => { x with color := .black }) rfl).trans
        (walkP_tick _)).toWalk.edges
    · intro i hn hb
      by_cases hi : i = s
      · subst hi; exact ⟨i, rfl, .refl trivial⟩
      · simp only [Store.get_set, hi, if_false] at hb
        exact absurd hb hn

/-! ### a fold of `Sc` steps, each with its own cause -/

theorem cause_fold {g : State} {f : State → Nat → State} :
    ∀ (l : List Nat),
      (∀ a t, t ∈ l → edges a = edges g → a.nextId = g.nextId →
        Sc a (f a t) ∧ BlackCause (ScanSrc a) a (f a t)) →
      ∀ a, edges a = edges g → a.nextId = g.nextId → (∀ r, ScanSrc a r → ScanSrc g r) →
        BlackCause (ScanSrc g) g a → BlackCause (ScanSrc g) g (l.foldl f a) := by
  intro l
  induction l with
  | nil => intro _ a _ _ _ h; exact h
  | cons t l ihl =>
    intro hf a he hn hsrc hc
    simp only [List.foldl_cons]
    obtain ⟨hS, hB⟩ := hf a t List.mem_cons_self he hn
    apply ihl (fun a u hu => hf a u (List.mem_cons_of_mem _ hu))
    · exact hS.walk.toWalk.edges.trans he
    · exact hS.walk.toWalk.nextId.trans hn
    · intro r hr; exact hsrc r (ScanSrc.of_sc hS hr)
    · intro i hni hb
      by_cases hba : (a.nodes.get i).color = .black
      · exact hc i hni hba
      · obtain ⟨r, hr, p⟩ := hB i hba hb
        rw [he] at p
        exact ⟨r, hsrc r hr, p⟩

/-! ### `scan` -/

theorem scan_cause : ∀ (fuel s : Nat) (g : State), s < g.nextId → WfE g →
    BlackCause (ScanSrc g) g (scan fuel s g) := by
  intro fuel
  induction fuel with
  | zero =>
    intro s g _ _ i hn hb
    rw [scan_zero] at hb
    exact absurd hb hn
  | succ fuel ih =>
    intro s g hs hwf
    rw [scan_succ]
    by_cases hc : (g.nodes.get s).color = .gray
    · rw [if_neg (fun h => h hc)]
      by_cases ha : (g.nodes.get s).adj = (g.nodes.get s).rc
      · rw [if_pos ha]
        unfold overEdges
        apply cause_fold (g := g) (f := fun g t => scan fuel t g.tickE)
        · intro a t ht he hn
          have htl : t < a.nextId := by rw [hn]; exact hwf s t ht
          have hwfa : WfE a := by intro i u hu; rw [he] at hu; rw [hn]; exact hwf i u hu
          have h0 : Sc a a.tickE := sc_of_nodes_eq (walkP_tickE a) rfl
          refine ⟨h0.trans (scan_spec fuel t a.tickE htl hwfa).1, ?_⟩
          exact ih t a.tickE htl hwfa
        · exact ((walkP_upd g s (fun x => { x with color := .white }) rfl).trans
            (walkP_tick _)).toWalk.edges
        · rfl
        · intro r hr
          by_cases hrs : r = s
          · subst hrs
            obtain ⟨h1, _⟩ := hr
            simp only [Store.get_set, if_true] at h1
            cases h1
          · obtain ⟨h1, h2⟩ := hr
            simp only [Store.get_set, hrs, if_false] at h1 h2
            exact ⟨h1, h2⟩
        · intro i hn hb
          by_cases hi : i = s
          · subst hi
            simp only [Store.get_set, if_true] at hb
            cases hb
          · simp only [Store.get_set, hi, if_false] at hb
            exact absurd hb hn
      · rw [if_neg ha]
        intro i hn hb
        obtain ⟨r, hr, p⟩ := scanBlack_cause (fuel + 1) s g i hn hb
        have hr' : r = s := hr
        rw [hr'] at p
        exact ⟨s, ⟨hc, ha⟩, p⟩
    · rw [if_pos hc]
      exact BlackCause.refl _ g

/-- the scan loop of `scan_roots` over a list of roots -/
theorem scan_fold_cause (f : Nat) : ∀ (l : List Nat) (g : State), (∀ r ∈ l, r < g.nextId) →
    WfE g → BlackCause (ScanSrc g) g (l.foldl (fun g r => scan f r g) g) := by
  intro l g hl hwf
  apply cause_fold (g := g) (f := fun g r => scan f r g)
  · intro a t ht he hn
    have htl : t < a.nextId := by rw [hn]; exact hl t ht
    have hwfa : WfE a := by intro i u hu; rw [he] at hu; rw [hn]; exact hwf i u hu
    exact ⟨(scan_spec f t a htl hwfa).1, scan_cause f t a htl hwfa⟩
  · rfl
  · rfl
  · intro r hr; exact hr
  · exact BlackCause.refl _ g

end Gc
end SodiumVerif
