/-
  Phase 1 of a pass (`mark_roots`), from a quiescent state satisfying `GcInv`:
  no panic; afterwards the adjustment of every object is the number of reported edges from gray
  objects, every gray object lies on a gray path from a remaining root, nothing is visited.
-/
import SodiumVerif.Lemmas.GcCollect

namespace SodiumVerif
namespace Gc
open State

/-! ### the phase-level frame -/

/-- what the mark and scan phases preserve (buffers and flags excluded) -/
structure Core (g g' : State) : Prop where
  core : ∀ i, (g'.nodes.get i).core = (g.nodes.get i).core
  nextId : g'.nextId = g.nextId
  dtorLog : g'.dtorLog = g.dtorLog
  oof : g.oof = true → g'.oof = true

namespace Core
variable {g g' g'' : State}
theorem refl (g : State) : Core g g := ⟨fun _ => rfl, rfl, rfl, id⟩
theorem trans (h1 : Core g g') (h2 : Core g' g'') : Core g g'' :=
  ⟨fun i => (h2.core i).trans (h1.core i), h2.nextId.trans h1.nextId, h2.dtorLog.trans h1.dtorLog,
   fun h => h2.oof (h1.oof h)⟩
theorem rc (h : Core g g') (i) : (g'.nodes.get i).rc = (g.nodes.get i).rc := (GNode.core_eq (h.core i)).1
theorem freed (h : Core g g') (i) : (g'.nodes.get i).freed = (g.nodes.get i).freed :=
  (GNode.core_eq (h.core i)).2.1
theorem traced (h : Core g g') (i) : (g'.nodes.get i).traced = (g.nodes.get i).traced :=
  (GNode.core_eq (h.core i)).2.2.1
theorem owned (h : Core g g') (i) : (g'.nodes.get i).owned = (g.nodes.get i).owned :=
  (GNode.core_eq (h.core i)).2.2.2.1
theorem dtorRuns (h : Core g g') (i) : (g'.nodes.get i).dtorRuns = (g.nodes.get i).dtorRuns :=
  (GNode.core_eq (h.core i)).2.2.2.2
theorem oof_false (h : Core g g') (h' : g'.oof = false) : g.oof = false := by
  cases e : g.oof with
  | false => rfl
  | true => rw [h.oof e] at h'; cases h'
theorem edges (h : Core g g') : edges g' = edges g := by funext i; exact h.traced i
end Core

theorem Walk.toCore {g g' : State} (h : Walk g g') : Core g g' := ⟨h.core, h.nextId, h.dtorLog, h.oof⟩

theorem core_of_nodes_eq {g g' : State} (hn : g'.nodes = g.nodes) (hi : g'.nextId = g.nextId)
    (hl : g'.dtorLog = g.dtorLog) (ho : g'.oof = g.oof) : Core g g' :=
  ⟨fun i => by rw [hn], hi, hl, fun h => by rw [ho]; exact h⟩

theorem core_upd (g : State) (s : Nat) (f : GNode → GNode)
    (hf : (f (g.nodes.get s)).core = (g.nodes.get s).core) : Core g (g.upd s f) :=
  (walkP_upd g s f hf).toWalk.toCore

theorem WfE.of_core {g g' : State} (h : WfE g) (w : Core g g') : WfE g' := by
  intro i t ht; rw [w.edges] at ht; rw [w.nextId]; exact h i t ht

theorem tracedIn_core {g g' : State} (w : Core g g') (u : Nat) : tracedIn g' u = tracedIn g u := by
  unfold tracedIn
  rw [w.nextId]
  exact sumTo_congr (fun j _ => by rw [w.traced j])

theorem EdgeBound.of_core {g g' : State} (h : EdgeBound g) (w : Core g g') : EdgeBound g' := by
  intro u; rw [tracedIn_core w, w.rc]; exact h u

theorem inCount_core {g g' : State} (w : Core g g') (u : Nat) : inCount g' u = inCount g u := by
  rw [inCount_eq, inCount_eq, w.nextId]
  apply sumTo_congr
  intro j _
  unfold contrib
  rw [w.freed j, w.owned j]

/-! ### static consequences of the invariant -/

theorem GcInv.wfE {g : State} (I : GcInv g) : WfE g := by
  intro i t ht
  unfold edges at ht
  rw [I.contract i] at ht
  exact I.wf i t ht

theorem GcInv.tracedIn_eq {g : State} (I : GcInv g) (u : Nat) : tracedIn g u = inCount g u := by
  rw [inCount_eq]
  unfold tracedIn
  apply sumTo_congr
  intro j _
  unfold contrib
  rw [I.contract j]
  by_cases hf : (g.nodes.get j).freed = true
  · rw [if_pos hf, (I.freedEmpty j hf).1]; rfl
  · rw [if_neg hf]

theorem GcInv.edgeBound {g : State} (I : GcInv g) : EdgeBound g := by
  intro u; rw [I.tracedIn_eq]; exact I.count' u

/-! ### `display_graph` touches nothing but the counters -/

theorem displayGraph_nodes : ∀ (fuel : Nat) (st : List Nat) (seen : Store Bool) (g : State),
    (displayGraph fuel st seen g).nodes = g.nodes := by
  intro fuel
  induction fuel with
  | zero => intro st seen g; rfl
  | succ fuel ih =>
    intro st seen g
    cases st with
    | nil => rfl
    | cons next stack =>
      unfold displayGraph
      split
      · exact ih _ _ _
      · rw [ih]

/-! ### the third loop of `mark_roots` -/

/-- one step of the third loop of `mark_roots` -/
def mrStep (f : Nat) (gn : State × List Nat) (r : Nat) : State × List Nat :=
  if (gn.1.nodes.get r).color = .purple then (markGray f r gn.1, gn.2 ++ [r])
  else
    let g1 := gn.1.upd r fun x => { x with buffered := false }
    if (g1.nodes.get r).color = .black ∧ (g1.nodes.get r).rc = 0 ∧ ¬ (g1.nodes.get r).freed then
      ({ g1 with toBeFreed := g1.toBeFreed ++ [r] }, gn.2)
    else (g1, gn.2)

theorem markRoots_eq (g : State) :
    markRoots g =
      let old := g.roots
      let gd := displayGraph (old.length + totalEdges { g with roots := [] } + 1) old.reverse Store.empty
        { g with roots := [] }
      let f := walkFuel gd
      let ga := old.foldl (fun g r => reset1 f r g) gd
      let gb := old.foldl (fun g r => reset2 f r g) ga
      let r := old.foldl (mrStep f) (gb, [])
      { r.1 with roots := r.2 } := rfl

/-- the non-purple branch only clears `buffered` and possibly queues `r` -/
theorem mrStep_else (f : Nat) (gn : State × List Nat) (r : Nat)
    (hc : (gn.1.nodes.get r).color ≠ .purple) :
    (∀ i, ((mrStep f gn r).1.nodes.get i) =
        if i = r then { gn.1.nodes.get r with buffered := false } else gn.1.nodes.get i) ∧
    (mrStep f gn r).2 = gn.2 ∧ (mrStep f gn r).1.nextId = gn.1.nextId ∧
    (mrStep f gn r).1.dtorLog = gn.1.dtorLog ∧ (mrStep f gn r).1.oof = gn.1.oof ∧
    (mrStep f gn r).1.panic = gn.1.panic ∧
    ((mrStep f gn r).1.toBeFreed = gn.1.toBeFreed ∨
      ((mrStep f gn r).1.toBeFreed = gn.1.toBeFreed ++ [r] ∧ (gn.1.nodes.get r).rc = 0 ∧
        (gn.1.nodes.get r).freed = false)) := by
  unfold mrStep
  rw [if_neg hc]
  simp only [State.upd, Store.get_set_same]
  split
  · next h =>
    refine ⟨fun i => ?_, rfl, rfl, rfl, rfl, rfl, .inr ⟨rfl, h.2.1, by simpa using h.2.2⟩⟩
    simp only [Store.get_set]
  · exact ⟨fun i => by simp only [Store.get_set], rfl, rfl, rfl, rfl, rfl, .inl rfl⟩

theorem mrStep_core (f : Nat) (gn : State × List Nat) (r : Nat) : Core gn.1 (mrStep f gn r).1 := by
  by_cases hc : (gn.1.nodes.get r).color = .purple
  · unfold mrStep; rw [if_pos hc]; exact (markGray_walk f r gn.1).toCore
  · obtain ⟨hn, _, hi, hl, ho, _, _⟩ := mrStep_else f gn r hc
    refine ⟨fun i => ?_, hi, hl, fun h => by rw [ho]; exact h⟩
    rw [hn]; split
    · next h => subst h; rfl
    · rfl

/-- state of the third loop: `g0` is the state at its start, `new` the roots kept so far -/
structure MarkInv (g0 : State) (old : List Nat) (a : State × List Nat) : Prop where
  core : Core g0 a.1
  panic : a.1.panic = none
  visited : ∀ i, (a.1.nodes.get i).visited = (g0.nodes.get i).visited
  color : ∀ i, (a.1.nodes.get i).color = (g0.nodes.get i).color ∨ (a.1.nodes.get i).color = .gray
  mg : MG [] a.1
  path : ∀ i, (a.1.nodes.get i).color = .gray → (g0.nodes.get i).color ≠ .gray →
    ∃ r ∈ a.2, PReach (edges g0) (isGray a.1) r i
  sub : ∀ r ∈ a.2, r ∈ old
  tbf : ∀ r ∈ a.1.toBeFreed, r ∈ g0.toBeFreed ∨
    (r ∈ old ∧ (g0.nodes.get r).rc = 0 ∧ (g0.nodes.get r).freed = false)
  ge : ∀ i, g0.nextId ≤ i → a.1.nodes.get i = g0.nodes.get i

theorem markInv_step {g0 : State} {old : List Nat} (hwf : WfE g0) (hb : EdgeBound g0)
    (hold : ∀ r ∈ old, r < g0.nextId) (f : Nat) (a : State × List Nat) (r : Nat) (hr : r ∈ old)
    (J : MarkInv g0 old a) : MarkInv g0 old (mrStep f a r) := by
  have hrl : r < a.1.nextId := by rw [J.core.nextId]; exact hold r hr
  by_cases hc : (a.1.nodes.get r).color = .purple
  · have he : mrStep f a r = (markGray f r a.1, a.2 ++ [r]) := by unfold mrStep; rw [if_pos hc]
    rw [he]
    have h1 := (markGray_spec f r a.1 hrl (hwf.of_core J.core)).1
    have h2 := markGray_count f r a.1 [] hrl (hwf.of_core J.core) (hb.of_core J.core) J.mg J.panic
    refine ⟨J.core.trans h1.walk.toCore, h2.2, fun i => (h1.visited i).trans (J.visited i),
      fun i => ?_, h2.1, fun i hg hn => ?_, fun x hx => ?_, fun x hx => ?_, fun i hi => ?_⟩
    · rcases h1.color i with e | e
      · rw [e]; exact J.color i
      · exact .inr e
    · simp only at hg ⊢
      by_cases hg' : (a.1.nodes.get i).color = .gray
      · obtain ⟨x, hx, p⟩ := J.path i hg' hn
        exact ⟨x, List.mem_append_left _ hx, p.mono (fun j => h1.gray_mono j)⟩
      · obtain ⟨x, hx, p⟩ := h1.path i hg' hg
        subst hx
        rw [J.core.edges] at p
        exact ⟨x, List.mem_append_right _ (List.mem_singleton.mpr rfl), p⟩
    · rcases List.mem_append.mp hx with h | h
      · exact J.sub x h
      · rw [List.mem_singleton.mp h]; exact hr
    · simp only at hx; rw [h1.walk.toBeFreed] at hx; exact J.tbf x hx
    · simp only
      rw [h1.ge i (by rw [J.core.nextId]; exact hi), J.ge i hi]
  · obtain ⟨hn, h2, hi, hl, ho, hp, ht⟩ := mrStep_else f a r hc
    have hcore := mrStep_core f a r
    have hcol : ∀ i, ((mrStep f a r).1.nodes.get i).color = (a.1.nodes.get i).color := by
      intro i; rw [hn]; split
      · next h => subst h; rfl
      · rfl
    refine ⟨J.core.trans hcore, hp.trans J.panic, fun i => ?_, fun i => ?_, fun u => ?_,
      fun i hg hn' => ?_, fun x hx => ?_, fun x hx => ?_, fun i hi' => ?_⟩
    · rw [hn]; split
      · next h => subst h; exact J.visited i
      · exact J.visited i
    · rw [hcol]; exact J.color i
    · have hg : grayIn (mrStep f a r).1 u = grayIn a.1 u :=
        grayIn_congr hi hcol (fun j => hcore.traced j) u
      rw [hg, ← J.mg u, hn]; split
      · next h => subst h; rfl
      · rfl
    · rw [hcol] at hg
      obtain ⟨x, hx, p⟩ := J.path i hg hn'
      rw [h2]
      refine ⟨x, hx, p.mono (fun j hj => ?_)⟩
      unfold isGray at *; rw [hcol]; exact hj
    · rw [h2] at hx; exact J.sub x hx
    · rcases ht with e | ⟨e, h0, hf⟩
      · rw [e] at hx; exact J.tbf x hx
      · rw [e] at hx
        rcases List.mem_append.mp hx with h | h
        · exact J.tbf x h
        · rw [List.mem_singleton.mp h]
          right
          exact ⟨hr, by rw [← J.core.rc]; exact h0, by rw [← J.core.freed]; exact hf⟩
    · have : i ≠ r := by have := hold r hr; omega
      rw [hn, if_neg this]; exact J.ge i hi'

theorem foldl_inv {α β : Type} {J : α → Prop} {f : α → β → α} (l : List β)
    (h : ∀ a, ∀ b ∈ l, J a → J (f a b)) : ∀ a, J a → J (l.foldl f a) := by
  induction l with
  | nil => intro a ha; exact ha
  | cons x t ih =>
    intro a ha
    simp only [List.foldl_cons]
    exact ih (fun a b hb => h a b (List.mem_cons_of_mem _ hb)) _ (h a x List.mem_cons_self ha)

/-! ### the phase -/

/-- what `mark_roots` establishes (relative to the state `g` before the pass) -/
structure Marked (g g2 : State) : Prop where
  core : Core g g2
  panic : g2.panic = none
  visited : ∀ i, (g2.nodes.get i).visited = false
  color : ∀ i, (g2.nodes.get i).color = .black ∨ (g2.nodes.get i).color = .purple ∨
    (g2.nodes.get i).color = .gray
  mg : ∀ u, (g2.nodes.get u).adj = grayIn g2 u
  path : ∀ i, (g2.nodes.get i).color = .gray → ∃ r ∈ g2.roots, PReach (edges g2) (isGray g2) r i
  rootsLt : ∀ r ∈ g2.roots, r < g2.nextId
  tbf : ∀ r ∈ g2.toBeFreed, r < g2.nextId ∧ (g2.nodes.get r).rc = 0 ∧ (g2.nodes.get r).freed = false
  fresh : ∀ i, g2.nextId ≤ i → g2.nodes.get i = default

theorem markRoots_spec {g : State} (I : GcInv g) (ho : (markRoots g).oof = false) :
    Marked g (markRoots g) := by
  rw [markRoots_eq] at ho ⊢
  simp only [] at ho ⊢
  generalize hgd : displayGraph (g.roots.length + totalEdges { g with roots := [] } + 1)
    g.roots.reverse Store.empty { g with roots := [] } = gd at ho ⊢
  generalize hga : g.roots.foldl (fun g r => reset1 (walkFuel gd) r g) gd = ga at ho ⊢
  generalize hgb : g.roots.foldl (fun g r => reset2 (walkFuel gd) r g) ga = gb at ho ⊢
  -- the third loop only ever sets `oof`
  have hcore3 : Core gb (g.roots.foldl (mrStep (walkFuel gd)) (gb, [])).1 :=
    foldl_rel (R := fun a b : State × List Nat => Core a.1 b.1) (I := fun _ => True)
      (fun a => Core.refl a.1) (fun _ _ _ => Core.trans) (fun _ _ _ _ => trivial) _ (gb, [])
      trivial (fun a _ r _ => mrStep_core _ a r)
  have hob : gb.oof = false := hcore3.oof_false ho
  -- display_graph and the two reset walks leave every object as it was
  have hwd : WalkP { g with roots := [] } gd := by rw [← hgd]; exact displayGraph_walkP _ _ _ _
  have hnd : gd.nodes = g.nodes := by rw [← hgd]; exact displayGraph_nodes _ _ _ _
  have hres := reset_walks (walkFuel gd) (walkFuel gd) g.roots gd ga gb hga hgb
    (fun i => by rw [hnd]; exact (I.quiescent i).2.1) hob
  obtain ⟨hwb, hin, hout⟩ := hres
  have hnb : ∀ i, gb.nodes.get i = g.nodes.get i := by
    intro i
    by_cases h : ∃ r ∈ g.roots, TReach (edges gd) r i
    · rw [hin i h, hnd]
      have := (I.quiescent i).1
      cases hx : g.nodes.get i
      rw [hx] at this
      simp only at this
      simp only [this]
    · rw [hout i h, hnd]
  have hcb : Core g gb :=
    ⟨fun i => by rw [hnb], hwb.toWalk.nextId.trans hwd.toWalk.nextId,
     hwb.toWalk.dtorLog.trans hwd.toWalk.dtorLog, fun h => hwb.toWalk.oof (hwd.toWalk.oof h)⟩
  have hpb : gb.panic = none := by rw [hwb.panic, hwd.panic]; exact I.noPanic
  have htb : gb.toBeFreed = [] := by rw [hwb.toWalk.toBeFreed, hwd.toWalk.toBeFreed]; exact I.tbf
  have hgray0 : ∀ j, (gb.nodes.get j).color ≠ .gray := by
    intro j; rw [hnb]; rcases (I.quiescent j).2.2 with e | e <;> rw [e] <;> intro h <;> cases h
  -- the loop invariant holds initially
  have J0 : MarkInv gb g.roots (gb, []) := by
    refine ⟨Core.refl gb, hpb, fun _ => rfl, fun _ => .inl rfl, fun u => ?_,
      fun i hg hn => absurd hg hn, fun r hr => (by cases hr), fun r hr => .inl hr, fun _ _ => rfl⟩
    simp only [List.count_nil, Nat.add_zero]
    rw [hnb, (I.quiescent u).1]
    unfold grayIn
    exact (sumTo_zero (fun j _ => if_neg (hgray0 j))).symm
  have hwfb : WfE gb := I.wfE.of_core hcb
  have hbb : EdgeBound gb := I.edgeBound.of_core hcb
  have hold : ∀ r ∈ g.roots, r < gb.nextId := by
    intro r hr; rw [hcb.nextId]; exact I.rootsLt r hr
  have J := foldl_inv (J := MarkInv gb g.roots) g.roots
    (fun a r hr Ja => markInv_step hwfb hbb hold (walkFuel gd) a r hr Ja) (gb, []) J0
  generalize g.roots.foldl (mrStep (walkFuel gd)) (gb, []) = res at J ho hcore3
  obtain ⟨g2, new⟩ := res
  simp only at J ho hcore3 ⊢
  have hc2 : Core g g2 := hcb.trans J.core
  refine ⟨⟨hc2.core, hc2.nextId, hc2.dtorLog, hc2.oof⟩, J.panic, fun i => ?_, fun i => ?_, fun u => ?_,
    fun i hg => ?_, fun r hr => ?_, fun r hr => ?_, fun i hi => ?_⟩
  · exact (J.visited i).trans (by rw [hnb]; exact (I.quiescent i).2.1)
  · rcases J.color i with e | e
    · simp only at e; rw [e, hnb]
      rcases (I.quiescent i).2.2 with e' | e'
      · exact .inl e'
      · exact .inr (.inl e')
    · exact .inr (.inr e)
  · have := J.mg u
    simp only [List.count_nil, Nat.add_zero] at this
    exact this
  · obtain ⟨r, hr, p⟩ := J.path i hg (hgray0 i)
    refine ⟨r, hr, ?_⟩
    have he : edges { g2 with roots := new } = edges gb := J.core.edges
    rw [he]
    exact p
  · exact (by rw [hc2.nextId]; exact I.rootsLt r (J.sub r hr) : r < g2.nextId)
  · rcases J.tbf r hr with h | ⟨h1, h2, h3⟩
    · rw [htb] at h; cases h
    · refine ⟨by rw [hc2.nextId]; exact I.rootsLt r h1, ?_, ?_⟩
      · exact (J.core.rc r).trans h2
      · exact (J.core.freed r).trans h3
  · have hi' : g.nextId ≤ i := by rw [← hc2.nextId]; exact hi
    exact (J.ge i (by rw [hcb.nextId]; exact hi')).trans ((hnb i).trans (I.fresh i hi'))

end Gc
end SodiumVerif
