/-
  Uniqueness of the solution of the firing equations of S.

  `fireTable_least` (`Props/C09.lean`) says the computed table is contained in every solution;
  `fireTable_total` (`Lemmas/SpecFire.lean`) says that for a well-ranked program the table is total.
  Together: a well-ranked program has exactly one total solution (`fireTable_unique`), whatever the
  order in which the equations are visited.  `Props/C09b.lean` (renaming of definitions) and
  `Props/C11b.lean` (loop substitution) are corollaries.
-/
import SodiumVerif.Props.C09
import SodiumVerif.Lemmas.Bridge

namespace SodiumVerif
namespace Spec

open Bridge

/-- out of range there is no definition: the equation is "does not fire" -/
theorem fireOf_ge (sp : Spec) (ev : Events) (look : Nat → Option (Option Int)) (i : Nat)
    (h : sp.defs.size ≤ i) : fireOf sp ev look i = some none :=
  fireOf_never sp ev look i (getDef_ge sp i h)

/-- a *total solution* of the firing equations of `sp` on the definitions of `sp` -/
structure TotalSolution (sp : Spec) (ev : Events) (look : Nat → Option (Option Int)) : Prop where
  total : ∀ i, i < sp.defs.size → look i ≠ none
  solves : ∀ i, i < sp.defs.size → fireOf sp ev look i = look i

/-- the computed table of a well-ranked program is a total solution -/
theorem fireTable_totalSolution (sp : Spec) (ev : Events) (rank : Nat → Nat) (wr : WellRanked sp rank) :
    TotalSolution sp ev (fun j => (fireTable sp ev).get j) :=
  ⟨fun i hi => fireTable_total sp ev rank wr i hi, fun i hi => fireTable_fix sp ev rank wr i hi⟩

/-- **uniqueness**: in a well-ranked program every total solution of the firing equations (however
    it was obtained, in whatever order the equations were visited) is the computed table.
    (Totality of `look` is part of the statement for symmetry; it is in fact implied by `hsol`,
    because the table is total and contained in `look`.) -/
theorem fireTable_unique (sp : Spec) (ev : Events) (rank : Nat → Nat) (wr : WellRanked sp rank)
    (look : Nat → Option (Option Int))
    (_htot : ∀ i, i < sp.defs.size → look i ≠ none)
    (hsol : ∀ i, i < sp.defs.size → fireOf sp ev look i = look i) :
    ∀ i, i < sp.defs.size → look i = (fireTable sp ev).get i := by
  -- extend `look` by "does not fire" outside the program, to get a solution on all of `Nat`
  let look' : Nat → Option (Option Int) := fun j => if j < sp.defs.size then look j else some none
  have hl' : ∀ j, j < sp.defs.size → look' j = look j := fun j hj => if_pos hj
  have hsol' : ∀ i r, fireOf sp ev look' i = some r → look' i = some r := by
    intro i r hf
    by_cases hi : i < sp.defs.size
    · have hc : fireOf sp ev look' i = fireOf sp ev look i :=
        fireOf_congr_operands sp ev i (fun j hj => hl' j (wr.dec i hi j hj).1)
      rw [hl' i hi, ← hsol i hi, ← hc]; exact hf
    · rw [fireOf_ge sp ev look' i (Nat.le_of_not_lt hi)] at hf
      show (if i < sp.defs.size then look i else some none) = some r
      rw [if_neg hi]; exact hf
  intro i hi
  cases ht : (fireTable sp ev).get i with
  | none => exact absurd ht (fireTable_total sp ev rank wr i hi)
  | some r =>
    have := fireTable_least sp ev look' hsol' i r ht
    rw [hl' i hi] at this
    exact this

theorem TotalSolution.unique {sp : Spec} {ev : Events} {look : Nat → Option (Option Int)}
    (h : TotalSolution sp ev look) {rank : Nat → Nat} (wr : WellRanked sp rank) :
    ∀ i, i < sp.defs.size → look i = (fireTable sp ev).get i :=
  fireTable_unique sp ev rank wr look h.total h.solves

/-- two total solutions of a well-ranked program agree -/
theorem totalSolution_agree {sp : Spec} {ev : Events} {rank : Nat → Nat} (wr : WellRanked sp rank)
    {look₁ look₂ : Nat → Option (Option Int)}
    (h₁ : TotalSolution sp ev look₁) (h₂ : TotalSolution sp ev look₂) :
    ∀ i, i < sp.defs.size → look₁ i = look₂ i := fun i hi => by
  rw [h₁.unique wr i hi, h₂.unique wr i hi]

/-- the same, in terms of `fire` -/
theorem fire_unique (sp : Spec) (ev : Events) (rank : Nat → Nat) (wr : WellRanked sp rank)
    (look : Nat → Option (Option Int)) (h : TotalSolution sp ev look)
    (i : Nat) (hi : i < sp.defs.size) : fire (fireTable sp ev) i = (look i).getD none := by
  rw [h.unique wr i hi]; rfl

/-! ### small list facts shared by the renaming and substitution proofs -/

theorem getD_map_of_lt {α : Type} (f : α → α) (l : List α) (n : Nat) (d : α) (h : n < l.length) :
    (l.map f).getD n d = f (l.getD n d) := by
  rw [List.getD_eq_getElem?_getD, List.getD_eq_getElem?_getD, List.getElem?_map,
    List.getElem?_eq_getElem h]
  rfl

theorem emod_toNat_lt (cands : List Nat) (k : Int) (h : cands ≠ []) :
    (k % (cands.length : Int)).toNat < cands.length := by
  have hl : 0 < cands.length := List.length_pos_iff.mpr h
  have h1 : 0 ≤ k % (cands.length : Int) := Int.emod_nonneg _ (by omega)
  have h2 : k % (cands.length : Int) < cands.length := Int.emod_lt_of_pos _ (by omega)
  omega

theorem mapM_map_option {α β γ : Type} (f : α → β) (g : β → Option γ) (l : List α) :
    (l.map f).mapM g = l.mapM (fun a => g (f a)) := by
  induction l with
  | nil => rfl
  | cons a l ih => rw [List.map_cons, List.mapM_cons, List.mapM_cons, ih]

end Spec
end SodiumVerif
